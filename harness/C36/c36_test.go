//go:build verif

package server

import (
	"bytes"
	"context"
	"encoding/hex"
	"fmt"
	"io"
	"log"
	"net"
	"os"
	"path/filepath"
	"sort"
	"strconv"
	"strings"
	"sync"
	"testing"
	"time"

	"github.com/jackc/pgproto3/v2"

	"github.com/kafscale/platform/addons/processors/sql-processor/internal/config"
	"github.com/kafscale/platform/addons/processors/sql-processor/internal/discovery"
	kafsql "github.com/kafscale/platform/addons/processors/sql-processor/internal/sql"
	"github.com/kafscale/platform/addons/processors/sql-processor/internal/verifkit"
)

// ------------------------------------------------------------ pg client

type c36Result struct {
	Fields []string
	Rows   [][][]byte
	Tag    string
	Err    string // ErrorResponse message, "" if none
	IOErr  error
}

func c36ReadResult(fe *pgproto3.Frontend) c36Result {
	var res c36Result
	for {
		msg, err := fe.Receive()
		if err != nil {
			res.IOErr = err
			return res
		}
		switch m := msg.(type) {
		case *pgproto3.RowDescription:
			res.Fields = res.Fields[:0]
			for _, f := range m.Fields {
				res.Fields = append(res.Fields, string(f.Name))
			}
		case *pgproto3.DataRow:
			row := make([][]byte, len(m.Values))
			for i, v := range m.Values {
				if v != nil {
					row[i] = append([]byte{}, v...)
				}
			}
			res.Rows = append(res.Rows, row)
		case *pgproto3.CommandComplete:
			res.Tag = string(m.CommandTag)
		case *pgproto3.ErrorResponse:
			if res.Err == "" { // the first error decides (after a failed Parse the server still answers Bind/Execute)
				res.Err = m.Message
			}
		case *pgproto3.ReadyForQuery:
			return res
		}
	}
}

type c36Client struct {
	conn net.Conn
	fe   *pgproto3.Frontend
}

func c36Dial(addr string) (*c36Client, error) {
	conn, err := net.DialTimeout("tcp", addr, 10*time.Second)
	if err != nil {
		return nil, err
	}
	fe := pgproto3.NewFrontend(pgproto3.NewChunkReader(conn), conn)
	if err := fe.Send(&pgproto3.StartupMessage{ProtocolVersion: pgproto3.ProtocolVersionNumber, Parameters: map[string]string{"user": "c36", "database": "kafsql"}}); err != nil {
		conn.Close()
		return nil, err
	}
	if r := c36ReadResult(fe); r.IOErr != nil {
		conn.Close()
		return nil, r.IOErr
	}
	return &c36Client{conn: conn, fe: fe}, nil
}

func (c *c36Client) Query(sql string) c36Result {
	if err := c.fe.Send(&pgproto3.Query{String: sql}); err != nil {
		return c36Result{IOErr: err}
	}
	return c36ReadResult(c.fe)
}

// QueryExtended runs the statement through Parse/Bind/Execute/Sync (unnamed
// statement and portal), the path of handlePreparedQuery.
func (c *c36Client) QueryExtended(sql string) c36Result {
	for _, m := range []pgproto3.FrontendMessage{&pgproto3.Parse{Query: sql}, &pgproto3.Bind{}, &pgproto3.Execute{}, &pgproto3.Sync{}} {
		if err := c.fe.Send(m); err != nil {
			return c36Result{IOErr: err}
		}
	}
	return c36ReadResult(c.fe)
}

// c36Exec drives the server's SELECT execution entry point with an already
// parsed statement (used only where the SQL text itself is rejected by the
// parser, so that the segment-skipping logic is still exercised).
func c36Exec(ctx context.Context, s *Server, parsed kafsql.Query, text string) c36Result {
	sc, cc := net.Pipe()
	defer cc.Close()
	backend := pgproto3.NewBackend(pgproto3.NewChunkReader(sc), sc)
	go func() {
		defer sc.Close()
		defer func() {
			if p := recover(); p != nil {
				_ = backend.Send(&pgproto3.ErrorResponse{Severity: "ERROR", Message: fmt.Sprintf("panic: %v", p)})
				_ = backend.Send(&pgproto3.ReadyForQuery{TxStatus: 'I'})
			}
		}()
		if _, _, err := s.handleSelectWithCache(ctx, backend, parsed, text); err != nil {
			_ = backend.Send(&pgproto3.ErrorResponse{Severity: "ERROR", Message: err.Error()})
		}
		_ = backend.Send(&pgproto3.ReadyForQuery{TxStatus: 'I'})
	}()
	fe := pgproto3.NewFrontend(pgproto3.NewChunkReader(cc), cc)
	return c36ReadResult(fe)
}

// c36Parsed builds the statement the parser should have produced for q (the
// select list goes through the real parser).
func c36Parsed(topic string, q *c36Query) (kafsql.Query, error) {
	p, err := kafsql.Parse("SELECT " + q.Cols + " FROM " + topic)
	if err != nil {
		return p, err
	}
	p.Partition, p.OffsetMin, p.OffsetMax, p.TsMin, p.TsMax = q.Part, q.OffMin, q.OffMax, q.TsMin, q.TsMax
	switch q.Order {
	case "asc", "ascdefault":
		p.OrderBy = "_ts"
	case "desc":
		p.OrderBy, p.OrderDesc = "_ts", true
	}
	if q.Limit > 0 {
		p.Limit = strconv.Itoa(q.Limit)
	}
	if q.Tail > 0 {
		p.Tail = strconv.Itoa(q.Tail)
	}
	p.ScanFull = q.ScanFull
	p.Last = q.Last
	return p, nil
}

// ------------------------------------------------------------ oracle

type c36Verdict struct {
	Class   string
	Summary string
	Detail  map[string]any
}

type c36RowID struct {
	Part int32
	Off  int64
}

func c36ParseTS(s string) (int64, error) {
	t, err := time.Parse("2006-01-02 15:04:05.000", s)
	if err != nil {
		return 0, err
	}
	return t.UnixMilli(), nil
}

func c36Bytea(b []byte) ([]byte, bool, error) {
	if b == nil {
		return nil, true, nil
	}
	if !bytes.HasPrefix(b, []byte(`\x`)) {
		return nil, false, fmt.Errorf("bytea not in hex form: %q", b)
	}
	out, err := hex.DecodeString(string(b[2:]))
	return out, false, err
}

// c36Judge compares one result with the reference, from the statement:
//   - every returned row is a record of a completed segment of the topic that
//     passes the partition/offset/time filters, appears once, and shows that
//     record's own column values;
//   - without LIMIT/TAIL cut-off the returned set is exactly the matching set;
//   - LIMIT n (or the configured default limit): exactly min(n,|M|) rows;
//   - ORDER BY _ts [DESC]: timestamps monotone in the asked direction and the
//     timestamp multiset equals that of the first min(n,|M|) of the sorted
//     matching set (which rows are taken among equal timestamps is free);
//   - TAIL n: on a single partition the n highest offsets of M; over several
//     partitions (the statement does not say how "last" spans partitions):
//     between min(n,|M|) and sum_p min(n,|M_p|) rows, and per partition a
//     suffix of that partition's matching offsets.
func c36Judge(l *c36Layout, q *c36Query, M []c36Rec, res c36Result) *c36Verdict {
	limit, limitSrc := l.DefLimit, "default_limit"
	if q.Limit > 0 {
		limit, limitSrc = q.Limit, "LIMIT"
	}
	if q.Kind == "count" {
		want := strconv.Itoa(len(M))
		switch {
		case len(res.Rows) == 1 && len(res.Rows[0]) == 1 && string(res.Rows[0][0]) == want:
			return nil
		case len(res.Rows) == 0 && len(M) == 0: // no group at all: accepted reading of an empty input
			return nil
		}
		got := "no row"
		if len(res.Rows) > 0 && len(res.Rows[0]) > 0 {
			got = string(res.Rows[0][0])
		}
		cls := "count_too_small"
		if n, err := strconv.Atoi(got); err == nil && n > len(M) {
			cls = "count_too_large"
		}
		return &c36Verdict{cls, fmt.Sprintf("count(*) returned %s, direct filtering gives %s", got, want), nil}
	}

	col := map[string]int{}
	for i, f := range res.Fields {
		col[f] = i
	}
	pi, okP := col["_partition"]
	oi, okO := col["_offset"]
	if !okP || !okO {
		return &c36Verdict{"row_description_wrong", fmt.Sprintf("no _partition/_offset column in %v", res.Fields), nil}
	}
	byID := map[c36RowID]c36Rec{}
	perPart := map[int32][]int64{}
	for _, r := range M {
		byID[c36RowID{r.Part, r.Off}] = r
		perPart[r.Part] = append(perPart[r.Part], r.Off)
	}
	all := map[c36RowID]c36Rec{}
	for _, s := range l.Segs {
		for _, r := range s.Recs {
			all[c36RowID{r.Part, r.Off}] = r
		}
	}
	seen := map[c36RowID]bool{}
	var gotTS []int64
	gotPerPart := map[int32][]int64{}
	for ri, row := range res.Rows {
		if len(row) != len(res.Fields) {
			return &c36Verdict{"row_shape_wrong", fmt.Sprintf("row %d has %d values for %d fields", ri, len(row), len(res.Fields)), nil}
		}
		p64, err1 := strconv.ParseInt(string(row[pi]), 10, 32)
		o64, err2 := strconv.ParseInt(string(row[oi]), 10, 64)
		if err1 != nil || err2 != nil {
			return &c36Verdict{"wrong_cell", fmt.Sprintf("row %d: unparsable _partition/_offset %q/%q", ri, row[pi], row[oi]), nil}
		}
		id := c36RowID{int32(p64), o64}
		rec, ok := byID[id]
		if !ok {
			cls, why := "extra_row_unknown", "is not a record of the topic"
			if r0, known := all[id]; known {
				cls, why = "extra_row_filtered_out", "does not pass the filters"
				for _, s := range l.Segs {
					if s.Key == r0.SegKey && !s.Completed {
						cls, why = "extra_row_incomplete_segment", "belongs to a segment that is not completed ("+s.Why+")"
					}
				}
			}
			return &c36Verdict{cls, fmt.Sprintf("returned row partition=%d offset=%d %s", id.Part, id.Off, why), map[string]any{"row_index": ri}}
		}
		if seen[id] {
			return &c36Verdict{"duplicate_row", fmt.Sprintf("row partition=%d offset=%d returned twice", id.Part, id.Off), nil}
		}
		seen[id] = true
		gotPerPart[id.Part] = append(gotPerPart[id.Part], id.Off)
		// cells
		for name, i := range col {
			v := row[i]
			bad := ""
			switch name {
			case "_topic":
				if string(v) != l.Topic {
					bad = fmt.Sprintf("_topic=%q", v)
				}
			case "_ts":
				ms, err := c36ParseTS(string(v))
				if err != nil || ms != rec.TS {
					bad = fmt.Sprintf("_ts=%q, record has %d", v, rec.TS)
				}
			case "_key":
				b, null, err := c36Bytea(v)
				if err != nil || null != (rec.Key == nil) || !bytes.Equal(b, rec.Key) {
					bad = fmt.Sprintf("_key=%q, record has %q (null=%v)", v, rec.Key, rec.Key == nil)
				}
			case "_value":
				b, _, err := c36Bytea(v)
				if err != nil || !bytes.Equal(b, rec.Val) {
					bad = fmt.Sprintf("_value=%q, record has %q", v, rec.Val)
				}
			case "_segment":
				if string(v) != rec.SegKey {
					bad = fmt.Sprintf("_segment=%q, record lives in %q", v, rec.SegKey)
				}
			}
			if bad != "" {
				return &c36Verdict{"wrong_cell", fmt.Sprintf("row partition=%d offset=%d: %s", id.Part, id.Off, bad), nil}
			}
		}
		gotTS = append(gotTS, rec.TS)
	}

	missing := func() (c36Rec, bool) {
		for _, r := range M {
			if !seen[c36RowID{r.Part, r.Off}] {
				return r, true
			}
		}
		return c36Rec{}, false
	}
	wantN := len(M)
	switch {
	case q.Tail > 0:
		lo := q.Tail
		if len(M) < lo {
			lo = len(M)
		}
		hi := 0
		for _, offs := range perPart {
			if len(offs) < q.Tail {
				hi += len(offs)
			} else {
				hi += q.Tail
			}
		}
		if len(res.Rows) < lo {
			r, _ := missing()
			return &c36Verdict{"tail_too_few_rows", fmt.Sprintf("TAIL %d returned %d rows, %d records match (e.g. partition=%d offset=%d missing)", q.Tail, len(res.Rows), len(M), r.Part, r.Off), nil}
		}
		if len(res.Rows) > hi {
			return &c36Verdict{"tail_too_many_rows", fmt.Sprintf("TAIL %d returned %d rows", q.Tail, len(res.Rows)), nil}
		}
		for p, got := range gotPerPart {
			sort.Slice(got, func(i, j int) bool { return got[i] < got[j] })
			offs := perPart[p] // ascending
			suffix := offs[len(offs)-len(got):]
			for i := range got {
				if got[i] != suffix[i] {
					return &c36Verdict{"tail_not_last_rows", fmt.Sprintf("TAIL %d: rows of partition %d are offsets %v, the last %d matching are %v", q.Tail, p, got, len(got), suffix), nil}
				}
			}
		}
		return nil
	case limit < wantN:
		wantN = limit
	}
	if len(res.Rows) != wantN {
		if len(res.Rows) < wantN {
			r, _ := missing()
			return &c36Verdict{"missing_rows", fmt.Sprintf("%d rows returned, %d expected (%d match, %s %d); e.g. partition=%d offset=%d ts=%d in %s is missing", len(res.Rows), wantN, len(M), limitSrc, limit, r.Part, r.Off, r.TS, r.SegKey),
				map[string]any{"missing_segment": r.SegKey, "missing_partition": r.Part, "missing_offset": r.Off, "missing_ts": r.TS}}
		}
		return &c36Verdict{"too_many_rows", fmt.Sprintf("%d rows returned, %d expected (%d match, %s %d)", len(res.Rows), wantN, len(M), limitSrc, limit), nil}
	}
	if q.Order != "" {
		desc := q.Order == "desc"
		for i := 1; i < len(gotTS); i++ {
			if (!desc && gotTS[i] < gotTS[i-1]) || (desc && gotTS[i] > gotTS[i-1]) {
				return &c36Verdict{"wrong_order", fmt.Sprintf("ORDER BY _ts %s: row %d has ts %d after %d", q.Order, i, gotTS[i], gotTS[i-1]), nil}
			}
		}
		want := make([]int64, 0, len(M))
		for _, r := range M {
			want = append(want, r.TS)
		}
		sort.Slice(want, func(i, j int) bool {
			if desc {
				return want[i] > want[j]
			}
			return want[i] < want[j]
		})
		want = want[:wantN]
		for i := range want {
			if want[i] != gotTS[i] {
				return &c36Verdict{"order_limit_wrong_rows", fmt.Sprintf("ORDER BY _ts %s with %s %d: row %d has ts %d, the sorted matching set has %d there", q.Order, limitSrc, limit, i, gotTS[i], want[i]), nil}
			}
		}
	}
	return nil
}

// ------------------------------------------------------------ per layout

type c36Env struct {
	s3      *c36S3
	r       *verifkit.Run
	scratch string
	queries int
	mu      sync.Mutex
	samples int
}

func (l *c36Layout) describe() map[string]any {
	segs := []string{}
	for _, s := range l.Segs {
		st := "completed"
		if !s.Completed {
			st = s.Why
		}
		segs = append(segs, fmt.Sprintf("p%d base=%d n=%d ts=[%d,%d] sidecar=%v %s", s.Part, s.Base, len(s.Recs), s.MinTS, s.MaxTS, s.Sidecar, st))
	}
	return map[string]any{"case": l.Case, "namespace": l.Namespace, "topic": l.Topic, "decoys": l.Decoys, "partitions": l.Parts, "ts_pattern": fmt.Sprint(l.TSPattern),
		"time_index_enabled": l.TimeIndex, "sidecars": l.SidecarSel, "manifest": l.Manifest, "discovery_cache_ttl": l.DiscTTL, "result_cache": l.ResCache,
		"default_limit": l.DefLimit, "require_time_bound": l.ReqBound, "list_page_size": l.PageSize, "segments": segs}
}

func c36RunLayout(env *c36Env, caseNo int) error {
	r := env.r
	rng := r.Rand(caseNo)
	l := c36GenLayout(rng, env.s3, caseNo, r.Thorough())
	defer env.s3.DropBucket(l.Bucket)
	ctx, cancel := context.WithCancel(context.Background())
	defer cancel()

	cfgPath := filepath.Join(env.scratch, fmt.Sprintf("c36-%d.yaml", caseNo))
	if err := os.WriteFile(cfgPath, []byte(l.ConfigYAML(env.s3.Endpoint(), "127.0.0.1:0")), 0o644); err != nil {
		return fmt.Errorf("write config: %v", err)
	}
	cfg, err := config.Load(cfgPath)
	if err != nil {
		return fmt.Errorf("config.Load: %v\n%s", err, l.ConfigYAML(env.s3.Endpoint(), "127.0.0.1:0"))
	}

	// statistics are produced by the repo's own builders, wired like cmd/backfill
	rawCfg := cfg
	rawCfg.Manifest.Enabled = false
	rawCfg.TimeIndex.Enabled = false
	rawCfg.DiscoveryCache.TTLSeconds = -1
	rawLister, err := discovery.New(rawCfg)
	if err != nil {
		return fmt.Errorf("discovery.New: %v", err)
	}
	tib, err := discovery.NewTimeIndexBuilder(cfg, rawLister)
	if err != nil {
		return fmt.Errorf("NewTimeIndexBuilder: %v", err)
	}
	if err := tib.Build(ctx); err != nil {
		r.Inconclusive(fmt.Sprintf("case %d: time index build failed: %v", caseNo, err))
		return nil
	}
	// side-cars present for a subset: all / none / random / those that existed at an earlier build
	for _, set := range [][]*c36Seg{l.Segs, l.DecoySegs} {
		cut := map[int32]int{}
		for _, s := range set {
			if !s.Completed {
				continue
			}
			if !env.s3.Has(l.Bucket, s.SideKey) {
				r.Inconclusive(fmt.Sprintf("case %d: builder wrote no side-car for %s", caseNo, s.Key))
				return nil
			}
			keep := true
			switch l.SidecarSel {
			case "none":
				keep = false
			case "random":
				keep = rng.Intn(5) < 3
			case "prefix":
				if _, ok := cut[s.Part]; !ok {
					cut[s.Part] = rng.Intn(7)
				}
				keep = cut[s.Part] > 0
				cut[s.Part]--
			}
			if !keep {
				env.s3.Delete(l.Bucket, s.SideKey)
			}
			s.Sidecar = keep
		}
	}
	if l.Manifest != "" {
		src := rawLister
		if l.Manifest == "enriched" {
			ecfg := rawCfg
			ecfg.TimeIndex.Enabled = true
			if src, err = discovery.New(ecfg); err != nil {
				return fmt.Errorf("discovery.New: %v", err)
			}
		}
		mb, err := discovery.NewManifestBuilder(cfg, src)
		if err != nil {
			return fmt.Errorf("NewManifestBuilder: %v", err)
		}
		if err := mb.Build(ctx); err != nil {
			r.Inconclusive(fmt.Sprintf("case %d: manifest build failed: %v", caseNo, err))
			return nil
		}
	}

	srv := New(cfg, log.New(io.Discard, "", 0))
	ln, err := net.Listen("tcp", "127.0.0.1:0")
	if err != nil {
		return fmt.Errorf("listen: %v", err)
	}
	defer ln.Close()
	go func() {
		for {
			conn, err := ln.Accept()
			if err != nil {
				return
			}
			go srv.handleConnection(ctx, conn)
		}
	}()
	cl, err := c36Dial(ln.Addr().String())
	if err != nil {
		return fmt.Errorf("dial sql server: %v", err)
	}
	defer cl.conn.Close()

	segByKey := map[string]*c36Seg{}
	for _, s := range l.Segs {
		segByKey[s.Key] = s
	}
	shape := fmt.Sprintf("parts=%d segs=%d ti=%v side=%s man=%s", len(l.Parts), len(l.Segs), l.TimeIndex, l.SidecarSel, l.Manifest)
	r.Seen("layout_shapes", shape)
	r.Count("partitions_started_relative_to_earlier_segment", int64(l.Aligned))
	if len(c36ForeignSuccessors(l, true)) > 0 {
		r.Count("layouts_with_next_partition_starting_inside_a_last_segment", 1)
	}
	if len(c36ForeignSuccessors(l, false)) > 0 {
		r.Count("layouts_with_next_topic_starting_inside_a_last_segment", 1)
	}

	for qi := 0; qi < env.queries; qi++ {
		if qi == env.queries/2 && !l.ResCache && l.DiscTTL < 0 && l.Manifest == "" {
			// nothing caches segment lists or results in this layout: the next listing must see the new set
			added, completed := c36Grow(rng, env.s3, l)
			for _, sg := range l.Segs {
				segByKey[sg.Key] = sg
			}
			if l.TimeIndex && rng.Intn(2) == 0 {
				// the periodic backfill runs again: every completed segment gets a side-car
				if err := tib.Build(ctx); err != nil {
					r.Inconclusive(fmt.Sprintf("case %d: second time index build failed: %v", caseNo, err))
					return nil
				}
				for _, sg := range l.Segs {
					sg.Sidecar = sg.Completed
				}
				r.Count("time_index_rebuilt_while_serving", 1)
			}
			r.Count("segments_added_while_serving", int64(added))
			r.Count("inflight_segments_completed_while_serving", int64(completed))
		}
		q := c36GenQuery(rng, l)
		M := c36Matching(l, q)
		feat := fmt.Sprintf("kind=%s part=%v off=%v%v ts=%s order=%s limit=%v tail=%v last=%s", q.Kind, q.Part != nil, q.OffMin != nil, q.OffMax != nil, q.TsForm, q.Order, q.Limit > 0, q.Tail > 0, q.Last)
		r.Seen("query_shapes", feat)
		replay := func(res c36Result, mode string, extra map[string]any) map[string]any {
			m := map[string]any{"case": caseNo, "query_index": qi, "sql": q.Text, "mode": mode, "layout": l.describe(), "matching_rows": len(M),
				"returned_rows": len(res.Rows), "error": res.Err, "command_tag": res.Tag}
			for k, v := range extra {
				m[k] = v
			}
			return m
		}

		from := env.s3.LogLen(l.Bucket)
		mode := "wire"
		var res c36Result
		if rng.Intn(5) == 0 {
			mode = "wire-extended"
			res = cl.QueryExtended(q.Text)
		} else {
			res = cl.Query(q.Text)
		}
		if res.IOErr != nil {
			r.Inconclusive(fmt.Sprintf("case %d: connection error on %q: %v", caseNo, q.Text, res.IOErr))
			return nil
		}
		if res.Err == "unsupported where clause" && (q.TsForm != "" || (q.Order != "" && (q.Part != nil || q.OffMin != nil || q.OffMax != nil))) {
			// the statement is a plain single-topic SELECT in documented syntax and the server
			// answers with an error instead of rows: reported, then the same statement is
			// executed through the server's SELECT entry point so that skipping is still judged
			cls := "where_ts_predicate_rejected"
			if q.TsForm == "" {
				cls = "order_by_after_where_rejected"
			}
			r.Violation(cls, fmt.Sprintf("%q is answered with ERROR %q instead of the %d matching rows", q.Text, res.Err, len(M)), replay(res, mode, nil))
			r.Count("sql_text_rejected_by_parser", 1)
			parsed, err := c36Parsed(l.Topic, q)
			if err != nil {
				return fmt.Errorf("select list %q does not parse: %v", q.Cols, err)
			}
			mode = "exec"
			from = env.s3.LogLen(l.Bucket)
			res = c36Exec(ctx, srv, parsed, q.Text)
			if res.IOErr != nil {
				r.Inconclusive(fmt.Sprintf("case %d: pipe error on %q: %v", caseNo, q.Text, res.IOErr))
				return nil
			}
		}
		r.Count("queries_"+mode, 1)
		reqs := env.s3.LogSince(l.Bucket, from)
		fetched := map[string]bool{}
		for _, rq := range reqs {
			if rq.Method == "GET" && rq.Range == "" && strings.HasSuffix(rq.Key, ".kfs") && rq.Status == 200 {
				fetched[rq.Key] = true
			}
		}
		// which completed segments of the selected partitions hold no matching row, and were they read?
		holds := map[string]bool{}
		for _, m := range M {
			holds[m.SegKey] = true
		}
		if q.OffMin != nil {
			// the listing successor of a matching segment belongs to another partition/topic and starts
			// inside the segment, and the lower offset bound lies at or above that successor's base
			for _, same := range []bool{true, false} {
				for key, nb := range c36ForeignSuccessors(l, same) {
					if s := segByKey[key]; s != nil && holds[key] && *q.OffMin >= nb {
						r.Count(map[bool]string{true: "queries_with_offset_floor_at_or_above_next_partition_base", false: "queries_with_offset_floor_at_or_above_next_topic_base"}[same], 1)
						break
					}
				}
			}
		}
		skippable, skipped, needed := 0, 0, 0
		for _, s := range l.Segs {
			if !s.Completed || (q.Part != nil && s.Part != *q.Part) {
				continue
			}
			if holds[s.Key] {
				needed++
				continue
			}
			skippable++
			if !fetched[s.Key] {
				skipped++
			}
		}
		var fetchedList []string
		for k := range fetched {
			fetchedList = append(fetchedList, k)
		}
		sort.Strings(fetchedList)

		if res.Err != "" {
			low := strings.ToLower(res.Err)
			if strings.Contains(low, "context") || strings.Contains(low, "queue") || strings.Contains(low, "timeout") {
				r.Inconclusive(fmt.Sprintf("case %d: resource error %q on %q", caseNo, res.Err, q.Text))
				continue
			}
			cls := "unexpected_error"
			if strings.HasPrefix(res.Err, "panic:") {
				cls = "panic"
			}
			r.Violation(cls, fmt.Sprintf("%q answered with ERROR %q; direct filtering gives %d rows", q.Text, res.Err, len(M)), replay(res, mode, nil))
			r.Case(feat+"|"+shape+"|err", false)
			continue
		}
		v := c36Judge(l, q, M, res)
		if v != nil {
			extra := map[string]any{"segments_read": fetchedList}
			for k, val := range v.Detail {
				extra[k] = val
			}
			cls := v.Class
			if cls == "missing_rows" {
				if sk, _ := v.Detail["missing_segment"].(string); sk != "" && !fetched[sk] && len(reqs) > 0 {
					cls = "matching_segment_skipped"
					if s := segByKey[sk]; s != nil {
						extra["skipped_segment"] = fmt.Sprintf("p%d base=%d offsets=[%d,%d] ts=[%d,%d] sidecar=%v", s.Part, s.Base, s.Recs[0].Off, s.Recs[len(s.Recs)-1].Off, s.MinTS, s.MaxTS, s.Sidecar)
					}
				}
			}
			r.Violation(cls, v.Summary+" :: "+q.Text, replay(res, mode, extra))
		}
		// a second run of a cacheable statement must give the same answer (result cache / discovery cache)
		if v == nil && rng.Intn(4) == 0 {
			var res2 c36Result
			if mode == "exec" {
				parsed, _ := c36Parsed(l.Topic, q)
				res2 = c36Exec(ctx, srv, parsed, q.Text)
			} else {
				res2 = cl.Query(q.Text)
			}
			if res2.IOErr == nil && res2.Err == "" {
				if v2 := c36Judge(l, q, M, res2); v2 != nil {
					r.Violation("repeat_"+v2.Class, "second run: "+v2.Summary+" :: "+q.Text, replay(res2, mode+"-repeat", nil))
				}
				r.Count("queries_repeated", 1)
			}
		}
		r.Count("rows_checked", int64(len(res.Rows)))
		r.Count("segments_without_match_not_read", int64(skipped))
		r.Count("segments_without_match_read_anyway", int64(skippable-skipped))
		r.Count("segments_with_match", int64(needed))
		if skipped > 0 {
			r.Count("queries_that_skipped_a_segment", 1)
			if q.TsForm != "" || q.Last != "" {
				r.Count("queries_that_skipped_with_time_filter", 1)
			}
			if q.OffMin != nil || q.OffMax != nil {
				r.Count("queries_that_skipped_with_offset_filter", 1)
			}
		}
		// non-trivial: rows came back, not everything matched, and at least one segment was really left unread
		nontrivial := len(res.Rows) > 0 && len(M) < l.TotalRecs && skipped > 0
		r.Case(fmt.Sprintf("%s|%s|%d|%d", feat, shape, len(M), skipped), nontrivial)
		env.mu.Lock()
		if nontrivial && env.samples < 4 {
			env.samples++
			r.Sample(map[string]any{"sql": q.Text, "mode": mode, "layout": l.describe(), "matching_rows": len(M), "returned_rows": len(res.Rows),
				"segments_read": fetchedList, "segments_left_unread": skipped})
		}
		env.mu.Unlock()
	}
	return nil
}

func TestVerifC36(t *testing.T) {
	r := verifkit.Start(t, "C36", "sql")
	defer r.Finish("per PRNG layout (1-3 partitions x 1-6 segments in the broker's segment format on a loopback S3; partitions start at 0, at a retention-trimmed offset, beyond int32, or - two of three later partitions, one of three decoy topics - at an offset placed inside / on the borders of a segment of the partition listed before them, so that partitions are uneven and a partition's last segment is followed in the listing by a foreign segment whose base offset lies inside it; decoy topics, in-flight/orphan/truncated segments, time-index side-cars built by the repo's TimeIndexBuilder and kept for a subset, optional manifest built by the repo's ManifestBuilder, discovery/result caches on or off) the real server.Server with the real discovery.New lister and decoder.New decoder answers generated single-topic SELECTs (every third one with a lower offset bound inside the last completed segment of one partition) over pgproto3 (simple and extended protocol; in uncached layouts more segments arrive and in-flight ones complete half-way through); every answer is compared with the direct filtering of the generated record list: returned rows are matching records of completed segments, once each, with the record's own cell values; the set is exact when nothing cuts it, has min(n,|M|) rows under LIMIT, is ts-monotone with the right ts multiset under ORDER BY _ts, and is the partition-wise last rows under TAIL; count(*) equals |M|. The S3 request log tells which segments each query read (non-trivial = rows returned, a proper subset matched, and at least one segment was left unread).",
		"records carry timestamps 2001..2014 and the machine clock is later than that (only used by the rare LAST 1s / LAST 36500d queries, whose expected result does not depend on the clock otherwise)",
		"completed segment = .kfs and .index objects both present and the .kfs ends in the END! trailer (the broker uploads .kfs then .index)",
		"topic names are lower case (the SQL front end folds identifiers to lower case like PostgreSQL)",
		"manifests and caches are fresh: no segment is added after the manifest/side-cars were built (staleness is not judged here)",
		"timestamp deltas inside a batch stay below 2^20 ms (the decoder's 32-bit varint limit is C07's subject)",
		"where the SQL text is rejected by the parser (reported as a finding) the same statement is executed through Server.handleSelectWithCache with the parsed form the text denotes")

	for k, v := range map[string]string{"AWS_ACCESS_KEY_ID": "c36", "AWS_SECRET_ACCESS_KEY": "c36secret", "AWS_REGION": "us-east-1", "AWS_EC2_METADATA_DISABLED": "true",
		"AWS_CONFIG_FILE": "/nonexistent/c36", "AWS_SHARED_CREDENTIALS_FILE": "/nonexistent/c36", "AWS_REQUEST_CHECKSUM_CALCULATION": "when_required", "AWS_RESPONSE_CHECKSUM_VALIDATION": "when_required"} {
		t.Setenv(k, v)
	}
	t.Setenv("AWS_CA_BUNDLE", "") // restored afterwards; a CA bundle would be parsed once per S3 client
	os.Unsetenv("AWS_CA_BUNDLE")
	for _, e := range os.Environ() {
		if strings.HasPrefix(e, "KAFSQL_") {
			t.Fatalf("environment overrides the generated config: %s", e)
		}
	}
	s3, err := c36StartS3()
	if err != nil {
		t.Fatalf("start loopback s3: %v", err)
	}
	defer s3.Close()
	scratch := t.TempDir()
	env := &c36Env{s3: s3, r: r, scratch: scratch, queries: r.N(16, 30)}
	layouts := r.N(36, 200)
	r.Floor("queries_that_skipped_with_time_filter", int64(r.N(10, 100)))
	r.Floor("queries_that_skipped_with_offset_filter", int64(r.N(10, 100)))
	r.Floor("rows_checked", int64(r.N(500, 5000)))
	r.Floor("layouts_with_next_partition_starting_inside_a_last_segment", int64(r.N(3, 20)))
	r.Floor("queries_with_offset_floor_at_or_above_next_partition_base", int64(r.N(2, 15)))

	jobs := make(chan int)
	var errMu sync.Mutex
	var errs []string
	var wg sync.WaitGroup
	for w := 0; w < 4; w++ {
		wg.Add(1)
		go func() {
			defer wg.Done()
			for i := range jobs {
				if err := c36RunLayout(env, i); err != nil {
					errMu.Lock()
					errs = append(errs, fmt.Sprintf("case %d: %v", i, err))
					errMu.Unlock()
				}
			}
		}()
	}
	for i := 0; i < layouts; i++ {
		jobs <- i
	}
	close(jobs)
	wg.Wait()
	if len(errs) > 0 {
		t.Fatalf("harness setup failed: %s", strings.Join(errs, "\n"))
	}
	if bad := s3.Bad(); len(bad) > 0 {
		r.Inconclusive("loopback S3 received requests it does not implement: " + strings.Join(bad, "; "))
	}
}
