//go:build verif

package server

// Minimal loopback S3 (path-style): ListObjectsV2 with real pagination,
// GetObject with "bytes=a-b" / "bytes=a-" / "bytes=-n" ranges, PutObject
// (plain or aws-chunked bodies). It exists so that the SQL processor's real
// discovery.New / decoder.New / TimeIndexBuilder / ManifestBuilder run
// unmodified on a concrete *s3.Client. It is also the monitor's observation
// point: every request is logged per bucket, which tells the oracle which
// segment objects a query really read.

import (
	"bytes"
	"encoding/xml"
	"fmt"
	"io"
	"net"
	"net/http"
	"net/url"
	"sort"
	"strconv"
	"strings"
	"sync"
	"time"
)

type c36S3Req struct {
	Method string
	Key    string
	Range  string
	Status int
}

type c36Bucket struct {
	objects  map[string][]byte
	pageSize int
	log      []c36S3Req
}

type c36S3 struct {
	mu      sync.Mutex
	buckets map[string]*c36Bucket
	ln      net.Listener
	srv     *http.Server
	bad     []string // requests the fake did not understand (harness defect, never a violation)
}

func c36StartS3() (*c36S3, error) {
	ln, err := net.Listen("tcp", "127.0.0.1:0")
	if err != nil {
		return nil, err
	}
	s := &c36S3{buckets: map[string]*c36Bucket{}, ln: ln}
	s.srv = &http.Server{Handler: s}
	go func() { _ = s.srv.Serve(ln) }()
	return s, nil
}

func (s *c36S3) Endpoint() string { return "http://" + s.ln.Addr().String() }
func (s *c36S3) Close()           { _ = s.srv.Close() }

func (s *c36S3) CreateBucket(name string, pageSize int) {
	s.mu.Lock()
	s.buckets[name] = &c36Bucket{objects: map[string][]byte{}, pageSize: pageSize}
	s.mu.Unlock()
}

func (s *c36S3) DropBucket(name string) {
	s.mu.Lock()
	delete(s.buckets, name)
	s.mu.Unlock()
}

func (s *c36S3) Put(bucket, key string, data []byte) {
	s.mu.Lock()
	s.buckets[bucket].objects[key] = append([]byte(nil), data...)
	s.mu.Unlock()
}

func (s *c36S3) Delete(bucket, key string) {
	s.mu.Lock()
	delete(s.buckets[bucket].objects, key)
	s.mu.Unlock()
}

func (s *c36S3) Has(bucket, key string) bool {
	s.mu.Lock()
	defer s.mu.Unlock()
	_, ok := s.buckets[bucket].objects[key]
	return ok
}

func (s *c36S3) Get(bucket, key string) []byte {
	s.mu.Lock()
	defer s.mu.Unlock()
	return s.buckets[bucket].objects[key]
}

func (s *c36S3) Keys(bucket string) []string {
	s.mu.Lock()
	defer s.mu.Unlock()
	var out []string
	for k := range s.buckets[bucket].objects {
		out = append(out, k)
	}
	sort.Strings(out)
	return out
}

// LogLen / LogSince give the per-bucket request log (queries against one
// bucket are sequential, so a [from,to) window belongs to one query).
func (s *c36S3) LogLen(bucket string) int {
	s.mu.Lock()
	defer s.mu.Unlock()
	return len(s.buckets[bucket].log)
}

func (s *c36S3) LogSince(bucket string, from int) []c36S3Req {
	s.mu.Lock()
	defer s.mu.Unlock()
	return append([]c36S3Req(nil), s.buckets[bucket].log[from:]...)
}

func (s *c36S3) Bad() []string {
	s.mu.Lock()
	defer s.mu.Unlock()
	return append([]string(nil), s.bad...)
}

func (s *c36S3) noteBad(format string, a ...any) {
	s.mu.Lock()
	if len(s.bad) < 20 {
		s.bad = append(s.bad, fmt.Sprintf(format, a...))
	}
	s.mu.Unlock()
}

type c36ListContents struct {
	Key          string `xml:"Key"`
	LastModified string `xml:"LastModified"`
	ETag         string `xml:"ETag"`
	Size         int    `xml:"Size"`
	StorageClass string `xml:"StorageClass"`
}

type c36ListResult struct {
	XMLName               xml.Name          `xml:"ListBucketResult"`
	Xmlns                 string            `xml:"xmlns,attr"`
	Name                  string            `xml:"Name"`
	Prefix                string            `xml:"Prefix"`
	KeyCount              int               `xml:"KeyCount"`
	MaxKeys               int               `xml:"MaxKeys"`
	IsTruncated           bool              `xml:"IsTruncated"`
	ContinuationToken     string            `xml:"ContinuationToken,omitempty"`
	NextContinuationToken string            `xml:"NextContinuationToken,omitempty"`
	EncodingType          string            `xml:"EncodingType,omitempty"`
	Contents              []c36ListContents `xml:"Contents"`
}

func c36S3Error(w http.ResponseWriter, status int, code, msg, key string) {
	w.Header().Set("Content-Type", "application/xml")
	w.WriteHeader(status)
	fmt.Fprintf(w, `<?xml version="1.0" encoding="UTF-8"?><Error><Code>%s</Code><Message>%s</Message><Key>%s</Key><RequestId>c36</RequestId><HostId>c36</HostId></Error>`, code, msg, key)
}

func (s *c36S3) ServeHTTP(w http.ResponseWriter, r *http.Request) {
	p := strings.TrimPrefix(r.URL.Path, "/")
	bucket, key := p, ""
	if i := strings.IndexByte(p, '/'); i >= 0 {
		bucket, key = p[:i], p[i+1:]
	}
	s.mu.Lock()
	b := s.buckets[bucket]
	s.mu.Unlock()
	if b == nil {
		c36S3Error(w, 404, "NoSuchBucket", "no such bucket", bucket)
		return
	}
	logReq := func(status int) {
		s.mu.Lock()
		b.log = append(b.log, c36S3Req{Method: r.Method, Key: key, Range: r.Header.Get("Range"), Status: status})
		s.mu.Unlock()
	}
	switch {
	case r.Method == http.MethodGet && key == "":
		q := r.URL.Query()
		if q.Get("list-type") != "2" {
			s.noteBad("unsupported bucket GET %s", r.URL.RawQuery)
			c36S3Error(w, 400, "InvalidRequest", "only ListObjectsV2", "")
			return
		}
		s.list(w, bucket, b, q)
		logReq(200)
	case r.Method == http.MethodGet:
		s.mu.Lock()
		data, ok := b.objects[key]
		s.mu.Unlock()
		if !ok {
			logReq(404)
			c36S3Error(w, 404, "NoSuchKey", "The specified key does not exist.", key)
			return
		}
		s.serveObject(w, r, key, data, logReq)
	case r.Method == http.MethodPut && key != "":
		body, err := io.ReadAll(r.Body)
		if err != nil {
			c36S3Error(w, 400, "IncompleteBody", "read failed", key)
			return
		}
		if strings.Contains(r.Header.Get("Content-Encoding"), "aws-chunked") || strings.HasPrefix(r.Header.Get("X-Amz-Content-Sha256"), "STREAMING-") {
			dec, err := c36DecodeAWSChunked(body)
			if err != nil {
				s.noteBad("aws-chunked decode of PUT %s: %v", key, err)
				c36S3Error(w, 400, "InvalidRequest", "bad chunked body", key)
				return
			}
			body = dec
		}
		s.mu.Lock()
		b.objects[key] = body
		s.mu.Unlock()
		logReq(200)
		w.Header().Set("ETag", `"c36"`)
		w.WriteHeader(200)
	default:
		s.noteBad("unsupported request %s %s", r.Method, r.URL.String())
		c36S3Error(w, 405, "MethodNotAllowed", "unsupported", key)
	}
}

func (s *c36S3) list(w http.ResponseWriter, bucket string, b *c36Bucket, q url.Values) {
	prefix := q.Get("prefix")
	token := q.Get("continuation-token")
	startAfter := q.Get("start-after")
	maxKeys := 1000
	if v := q.Get("max-keys"); v != "" {
		if n, err := strconv.Atoi(v); err == nil && n >= 0 && n < maxKeys {
			maxKeys = n
		}
	}
	// a real S3 may return fewer keys than max-keys; the per-bucket page size exercises the paginator
	page := maxKeys
	s.mu.Lock()
	if b.pageSize > 0 && b.pageSize < page {
		page = b.pageSize
	}
	var keys []string
	for k := range b.objects {
		if strings.HasPrefix(k, prefix) {
			keys = append(keys, k)
		}
	}
	sizes := map[string]int{}
	for _, k := range keys {
		sizes[k] = len(b.objects[k])
	}
	s.mu.Unlock()
	sort.Strings(keys)
	after := startAfter
	if token != "" {
		after = strings.TrimPrefix(token, "t:")
	}
	if after != "" {
		i := sort.SearchStrings(keys, after)
		if i < len(keys) && keys[i] == after {
			i++
		}
		keys = keys[i:]
	}
	res := c36ListResult{Xmlns: "http://s3.amazonaws.com/doc/2006-03-01/", Name: bucket, Prefix: prefix, MaxKeys: maxKeys, ContinuationToken: token}
	if len(keys) > page {
		res.IsTruncated = true
		keys = keys[:page]
		res.NextContinuationToken = "t:" + keys[len(keys)-1]
	}
	enc := q.Get("encoding-type") == "url"
	if enc {
		res.EncodingType = "url"
		res.Prefix = url.QueryEscape(prefix)
	}
	for _, k := range keys {
		name := k
		if enc {
			name = strings.ReplaceAll(url.QueryEscape(k), "%2F", "/")
		}
		res.Contents = append(res.Contents, c36ListContents{Key: name, LastModified: "2020-01-02T03:04:05.000Z", ETag: `"c36"`, Size: sizes[k], StorageClass: "STANDARD"})
	}
	res.KeyCount = len(res.Contents)
	out, _ := xml.Marshal(res)
	w.Header().Set("Content-Type", "application/xml")
	w.WriteHeader(200)
	_, _ = w.Write([]byte(xml.Header))
	_, _ = w.Write(out)
}

func (s *c36S3) serveObject(w http.ResponseWriter, r *http.Request, key string, data []byte, logReq func(int)) {
	w.Header().Set("ETag", `"c36"`)
	w.Header().Set("Last-Modified", time.Date(2020, 1, 2, 3, 4, 5, 0, time.UTC).Format(http.TimeFormat))
	w.Header().Set("Accept-Ranges", "bytes")
	w.Header().Set("Content-Type", "application/octet-stream")
	rng := r.Header.Get("Range")
	if rng == "" {
		w.Header().Set("Content-Length", strconv.Itoa(len(data)))
		w.WriteHeader(200)
		_, _ = w.Write(data)
		logReq(200)
		return
	}
	spec, ok := strings.CutPrefix(rng, "bytes=")
	if !ok || strings.Contains(spec, ",") {
		s.noteBad("unsupported Range %q", rng)
		c36S3Error(w, 400, "InvalidArgument", "bad range", key)
		return
	}
	size := int64(len(data))
	var from, to int64
	a, bEnd, _ := strings.Cut(spec, "-")
	switch {
	case a == "": // suffix: last n bytes (clamped to the object, as S3 does)
		n, err := strconv.ParseInt(bEnd, 10, 64)
		if err != nil || n <= 0 || size == 0 {
			logReq(416)
			c36S3Error(w, 416, "InvalidRange", "The requested range is not satisfiable", key)
			return
		}
		if n > size {
			n = size
		}
		from, to = size-n, size-1
	default:
		f, err := strconv.ParseInt(a, 10, 64)
		if err != nil || f >= size {
			logReq(416)
			c36S3Error(w, 416, "InvalidRange", "The requested range is not satisfiable", key)
			return
		}
		from, to = f, size-1
		if bEnd != "" {
			t, err := strconv.ParseInt(bEnd, 10, 64)
			if err != nil || t < f {
				logReq(416)
				c36S3Error(w, 416, "InvalidRange", "The requested range is not satisfiable", key)
				return
			}
			if t < to {
				to = t
			}
		}
	}
	w.Header().Set("Content-Range", fmt.Sprintf("bytes %d-%d/%d", from, to, size))
	w.Header().Set("Content-Length", strconv.FormatInt(to-from+1, 10))
	w.WriteHeader(206)
	_, _ = w.Write(data[from : to+1])
	logReq(206)
}

// c36DecodeAWSChunked decodes "hexsize[;ext]\r\n<data>\r\n ... 0[;ext]\r\n<trailers>\r\n".
func c36DecodeAWSChunked(b []byte) ([]byte, error) {
	var out []byte
	for {
		i := bytes.Index(b, []byte("\r\n"))
		if i < 0 {
			return nil, fmt.Errorf("missing chunk header")
		}
		head := string(b[:i])
		b = b[i+2:]
		if j := strings.IndexByte(head, ';'); j >= 0 {
			head = head[:j]
		}
		n, err := strconv.ParseInt(strings.TrimSpace(head), 16, 64)
		if err != nil {
			return nil, fmt.Errorf("chunk size %q: %v", head, err)
		}
		if n == 0 {
			return out, nil
		}
		if int64(len(b)) < n+2 {
			return nil, fmt.Errorf("short chunk")
		}
		out = append(out, b[:n]...)
		b = b[n+2:]
	}
}
