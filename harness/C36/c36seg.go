//go:build verif

// Package verifc36 holds the harness-side segment/index writer of check C36,
// written from the format in /repo/pkg/storage/segment.go and index.go. It is
// overlaid into both the sql-processor module (where it feeds the loopback S3)
// and the main module (where leg "segfmt" compares it byte for byte with
// storage.BuildSegment).
package verifc36

import (
	"encoding/binary"
	"hash/crc32"
)

var castagnoli = crc32.MakeTable(crc32.Castagnoli)

// BuildSegment renders segment and index bytes like storage.BuildSegment
// (index interval 1: one entry per batch, as IndexBuilder does for interval<=1
// after the first entry once sinceLast >= 1).
func BuildSegment(base int64, batches [][]byte, counts []int32, baseOffsets []int64, lastOffset int64, createdMs int64) (seg []byte, idx []byte) {
	var body []byte
	type ent struct {
		off int64
		pos int32
	}
	var ents []ent
	total := int32(0)
	for i, b := range batches {
		ents = append(ents, ent{baseOffsets[i], int32(32 + len(body))})
		body = append(body, b...)
		total += counts[i]
	}
	hdr := make([]byte, 32)
	copy(hdr[0:4], "KAFS")
	binary.BigEndian.PutUint16(hdr[4:], 1)
	binary.BigEndian.PutUint16(hdr[6:], 0)
	binary.BigEndian.PutUint64(hdr[8:], uint64(base))
	binary.BigEndian.PutUint32(hdr[16:], uint32(total))
	binary.BigEndian.PutUint64(hdr[20:], uint64(createdMs))
	binary.BigEndian.PutUint32(hdr[28:], 0)
	foot := make([]byte, 16)
	binary.BigEndian.PutUint32(foot[0:], crc32.Checksum(body, castagnoli))
	binary.BigEndian.PutUint64(foot[4:], uint64(lastOffset))
	copy(foot[12:], "END!")
	seg = append(append(append([]byte{}, hdr...), body...), foot...)

	idx = make([]byte, 16, 16+12*len(ents))
	copy(idx[0:4], "IDX\x00")
	binary.BigEndian.PutUint16(idx[4:], 1)
	binary.BigEndian.PutUint32(idx[6:], uint32(len(ents)))
	binary.BigEndian.PutUint32(idx[10:], 1)
	binary.BigEndian.PutUint16(idx[14:], 0)
	for _, e := range ents {
		var x [12]byte
		binary.BigEndian.PutUint64(x[0:], uint64(e.off))
		binary.BigEndian.PutUint32(x[8:], uint32(e.pos))
		idx = append(idx, x[:]...)
	}
	return seg, idx
}
