//go:build verif

package storage

// Leg "segfmt" of C36: a validity guard for the workload, not an oracle. The
// segment/index bytes that the SQL leg feeds to the processor come from the
// harness writer verifc36.BuildSegment; here the same writer is compared byte
// for byte with the broker's storage.BuildSegment on generated batch lists. A
// difference means the SQL leg is not looking at broker-format data and makes
// the check inconclusive (never a violation).

import (
	"bytes"
	"fmt"
	"testing"
	"time"

	"github.com/KafScale/platform/internal/verifc36"
	"github.com/KafScale/platform/internal/verifkit"
	"github.com/KafScale/platform/internal/verifkit/kbatch"
)

func TestVerifC36SegFmt(t *testing.T) {
	r := verifkit.Start(t, "C36", "segfmt")
	defer r.Finish("workload guard: verifc36.BuildSegment (harness writer used by leg sql) == storage.BuildSegment (broker writer, index interval 1) byte for byte on PRNG batch lists; a mismatch is inconclusive, not a violation")
	n := r.N(300, 3000)
	for i := 0; i < n; i++ {
		rng := r.Rand(i)
		base := int64(rng.Intn(1 << 20))
		if rng.Intn(4) == 0 {
			base += 5_000_000_000
		}
		off := base
		var raws [][]byte
		var counts []int32
		var bases []int64
		var rbs []RecordBatch
		for b, nb := 0, 1+rng.Intn(5); b < nb; b++ {
			kb := kbatch.Gen(rng, kbatch.GenOpts{MaxRecords: 6, MaxValue: 40, NullsEmpty: true, MaxHeaders: 2, BaseTS: 1_000_000_000_000 + int64(rng.Intn(1<<30)), ProducerTag: "c36"}, b)
			kb.BaseOffset = off
			raw := kbatch.Encode(kb)
			rb, err := NewRecordBatchFromBytes(raw)
			if err != nil {
				t.Fatalf("NewRecordBatchFromBytes: %v", err)
			}
			raws, counts, bases, rbs = append(raws, raw), append(counts, rb.MessageCount), append(bases, off), append(rbs, rb)
			off += int64(rb.MessageCount)
		}
		created := time.UnixMilli(1_500_000_000_000 + int64(rng.Intn(1<<30)))
		art, err := BuildSegment(SegmentWriterConfig{IndexIntervalMessages: 1}, rbs, created)
		if err != nil {
			t.Fatalf("storage.BuildSegment: %v", err)
		}
		seg, idx := verifc36.BuildSegment(base, raws, counts, bases, off-1, created.UnixMilli())
		if !bytes.Equal(seg, art.SegmentBytes) || !bytes.Equal(idx, art.IndexBytes) {
			r.Inconclusive(fmt.Sprintf("harness segment writer differs from storage.BuildSegment at case %d (segment equal=%v, index equal=%v)", i, bytes.Equal(seg, art.SegmentBytes), bytes.Equal(idx, art.IndexBytes)))
			return
		}
		r.Case(fmt.Sprintf("segfmt/%d", i), false)
	}
	r.Count("segments_compared_with_broker_writer", int64(n))
}
