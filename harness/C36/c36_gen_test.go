//go:build verif

package server

// Workload for C36: segment layouts in the broker's on-disk format (written
// from /repo/pkg/storage/segment.go + index.go: 32-byte header, concatenated
// Kafka v2 batches, 16-byte footer "crc|lastOffset|END!"; index "IDX\0" +
// 12-byte entries), the query generator, and the reference evaluation written
// from the property statement (filter the known record list directly).

import (
	"fmt"
	"math/rand"
	"sort"
	"strings"
	"time"

	"github.com/kafscale/platform/addons/processors/sql-processor/internal/verifc36"
	"github.com/kafscale/platform/addons/processors/sql-processor/internal/verifkit/kbatch"
)

type c36Rec struct {
	Part   int32
	Off    int64
	TS     int64
	Key    []byte // nil = null
	Val    []byte
	SegKey string
}

type c36Seg struct {
	Topic      string
	Part       int32
	Base       int64
	Key        string
	IdxKey     string
	SideKey    string
	Recs       []c36Rec
	Completed  bool   // .kfs + .index present and footer magic intact
	Why        string // why not completed
	Sidecar    bool   // time-index side-car present when the queries run
	pendingIdx []byte // index bytes of an in-flight segment (uploaded later by c36Grow)
	MinTS      int64
	MaxTS      int64
}

type c36PartState struct {
	off     int64
	ts      int64
	step    int64
	pattern string
}

type c36Layout struct {
	pstate     map[int32]*c36PartState
	startHint  *int64 // first offset of the next partition started by c36GenPartition (consumed by it)
	Aligned    int    // partitions (target and decoy) whose first offset was placed relative to an earlier partition's segment
	Case       int
	Bucket     string
	Namespace  string
	Prefix     string // namespace + "/" ("" when the namespace is empty)
	Topic      string
	Decoys     []string
	Parts      []int32
	TSPattern  map[int32]string
	Segs       []*c36Seg // target topic only, sorted by (partition, base)
	DecoySegs  []*c36Seg
	TimeIndex  bool   // time_index.enabled
	SidecarSel string // all | none | random | prefix
	Manifest   string // "" | raw (as cmd/backfill builds it) | enriched (built over a lister that reads side-cars)
	DiscTTL    int
	ResCache   bool
	DefLimit   int
	ReqBound   bool
	PageSize   int
	TotalRecs  int
}

func c36SegKeys(prefix, topic string, part int32, base int64) (kfs, idx, side string) {
	stem := fmt.Sprintf("%s%s/%d/segment-%020d", prefix, topic, part, base)
	return stem + ".kfs", stem + ".index", stem + ".kfst"
}

// c36GenPartition appends nseg segments to one partition of the store (a first
// call starts the partition, later calls model the broker flushing more data).
func c36GenPartition(rng *rand.Rand, s3 *c36S3, l *c36Layout, topic string, part int32, pattern string, nseg int, allowIncomplete bool) []*c36Seg {
	var out []*c36Seg
	st := l.pstate[part]
	if topic != l.Topic || st == nil {
		st = &c36PartState{pattern: pattern}
		switch rng.Intn(6) {
		case 0:
			st.off = int64(1 + rng.Intn(5000)) // earlier segments deleted by retention
		case 1:
			st.off = 5_000_000_000 + int64(rng.Intn(1000)) // beyond int32
		}
		st.ts = int64(1_000_000_000_000) + int64(rng.Intn(400_000_000_000)) // 2001..2014
		st.step = int64(1 + rng.Intn(2000))
		if rng.Intn(5) == 0 {
			st.step = 0
		}
		if l.startHint != nil {
			st.off, l.startHint = *l.startHint, nil
			l.Aligned++
		}
		if topic == l.Topic {
			l.pstate[part] = st
		}
	}
	off, ts, step := st.off, st.ts, st.step
	pattern = st.pattern
	defer func() { st.off, st.ts = off, ts }()
	for si := 0; si < nseg; si++ {
		seg := &c36Seg{Topic: topic, Part: part, Base: off, Completed: true}
		seg.Key, seg.IdxKey, seg.SideKey = c36SegKeys(l.Prefix, topic, part, off)
		nb := 1 + rng.Intn(4)
		var batches [][]byte
		var counts []int32
		var bases []int64
		for bi := 0; bi < nb; bi++ {
			nr := 1 + rng.Intn(5)
			recTS := make([]int64, nr)
			for i := range recTS {
				switch pattern {
				case "mono":
					if step == 0 {
						ts += int64(rng.Intn(2)) // long runs of equal timestamps
					} else {
						ts += step + int64(rng.Intn(3))
					}
					recTS[i] = ts
				case "jitter":
					ts += int64(rng.Intn(3000))
					recTS[i] = ts + int64(rng.Intn(20001)) - 10000 // out of order inside and across batches/segments
				case "const":
					recTS[i] = ts
				}
			}
			b := kbatch.Batch{BaseOffset: off, Magic: 2, FirstTimestamp: recTS[0], MaxTimestamp: recTS[0], ProducerID: -1, ProducerEpoch: -1, BaseSequence: -1, PartitionLeaderEpoch: int32(rng.Intn(3))}
			for i := 0; i < nr; i++ {
				r := kbatch.Record{OffsetDelta: int32(i), TimestampDelta: recTS[i] - recTS[0]}
				r.Value = []byte(fmt.Sprintf(`{"id":"c%d/%s/%d/%d","n":%d}`, l.Case, topic, part, off+int64(i), rng.Intn(1000)))
				switch rng.Intn(6) {
				case 0:
					r.Key = nil
				case 1:
					r.Key = []byte{}
				default:
					r.Key = []byte(fmt.Sprintf("k%d", rng.Intn(5)))
				}
				if rng.Intn(4) == 0 {
					r.Headers = []kbatch.Header{{Key: "h", Value: []byte(fmt.Sprintf("v%d", rng.Intn(9)))}}
					if rng.Intn(3) == 0 {
						r.Headers = append(r.Headers, kbatch.Header{Key: "trace", Value: nil})
					}
				}
				if recTS[i] > b.MaxTimestamp {
					b.MaxTimestamp = recTS[i]
				}
				b.Records = append(b.Records, r)
				seg.Recs = append(seg.Recs, c36Rec{Part: part, Off: off + int64(i), TS: recTS[i], Key: r.Key, Val: r.Value, SegKey: seg.Key})
			}
			batches = append(batches, kbatch.Encode(b))
			counts = append(counts, int32(nr))
			bases = append(bases, off)
			off += int64(nr)
		}
		seg.MinTS, seg.MaxTS = seg.Recs[0].TS, seg.Recs[0].TS
		for _, r := range seg.Recs {
			if r.TS < seg.MinTS {
				seg.MinTS = r.TS
			}
			if r.TS > seg.MaxTS {
				seg.MaxTS = r.TS
			}
		}
		kfs, idx := verifc36.BuildSegment(seg.Base, batches, counts, bases, off-1, ts)
		// a segment is "completed" when the broker has uploaded both objects; an
		// in-flight one (index not there yet), an orphan index, or a payload without
		// the END! trailer is not
		if allowIncomplete && rng.Intn(7) == 0 {
			seg.Completed = false
			switch rng.Intn(4) % 3 { // in-flight (index not uploaded yet) is the common one
			case 0:
				seg.Why = "index_missing"
				seg.pendingIdx = idx
				s3.Put(l.Bucket, seg.Key, kfs)
			case 1:
				seg.Why = "kfs_missing"
				s3.Put(l.Bucket, seg.IdxKey, idx)
			case 2:
				seg.Why = "footer_magic_missing"
				cut := kfs[:len(kfs)-4-rng.Intn(8)]
				for string(cut[len(cut)-4:]) == "END!" {
					cut = cut[:len(cut)-1]
				}
				s3.Put(l.Bucket, seg.Key, cut)
				s3.Put(l.Bucket, seg.IdxKey, idx)
			}
		} else {
			s3.Put(l.Bucket, seg.Key, kfs)
			s3.Put(l.Bucket, seg.IdxKey, idx)
		}
		out = append(out, seg)
	}
	return out
}

func c36GenLayout(rng *rand.Rand, s3 *c36S3, caseNo int, thorough bool) *c36Layout {
	l := &c36Layout{Case: caseNo, Bucket: fmt.Sprintf("c36b%d", caseNo), TSPattern: map[int32]string{}, pstate: map[int32]*c36PartState{}}
	l.Namespace = []string{"ns", "prod-1", "a/b", "default", "kafscale-demo", ""}[rng.Intn(6)]
	if l.Namespace != "" {
		l.Prefix = l.Namespace + "/"
	}
	l.Topic = []string{"orders", "t", "events.v1", "payments-eu", "m_1"}[rng.Intn(5)]
	l.PageSize = []int{0, 0, 1, 2, 3, 7, 50}[rng.Intn(7)]
	s3.CreateBucket(l.Bucket, l.PageSize)

	np := 1 + rng.Intn(3)
	ids := rng.Perm(12)
	for i := 0; i < np; i++ {
		l.Parts = append(l.Parts, int32(ids[i]))
	}
	if rng.Intn(3) == 0 { // the common case: 0..n-1
		for i := range l.Parts {
			l.Parts[i] = int32(i)
		}
	}
	sort.Slice(l.Parts, func(i, j int) bool { return l.Parts[i] < l.Parts[j] })
	maxSeg := 6
	for _, p := range l.Parts {
		pat := []string{"mono", "mono", "jitter", "jitter", "const"}[rng.Intn(5)]
		l.TSPattern[p] = pat
		if len(l.Segs) > 0 && rng.Intn(3) != 0 {
			l.startHint = c36AlignedStart(rng, l.Segs, p)
		}
		segs := c36GenPartition(rng, s3, l, l.Topic, p, pat, 1+rng.Intn(maxSeg), true)
		l.Segs = append(l.Segs, segs...)
	}
	// decoy topics in the same namespace whose names share a prefix with the target
	for i, n := 0, rng.Intn(3); i < n; i++ {
		d := []string{l.Topic + "-dlq", l.Topic + "2", "a" + l.Topic, l.Topic + ".retry"}[rng.Intn(4)]
		dup := false
		for _, x := range l.Decoys {
			dup = dup || x == d
		}
		if dup {
			continue
		}
		l.Decoys = append(l.Decoys, d)
		if rng.Intn(3) == 0 {
			l.startHint = c36AlignedStart(rng, l.Segs, 1<<30)
		}
		l.DecoySegs = append(l.DecoySegs, c36GenPartition(rng, s3, l, d, l.Parts[rng.Intn(len(l.Parts))], "mono", 1+rng.Intn(2), false)...)
	}
	for _, s := range l.Segs {
		if s.Completed {
			l.TotalRecs += len(s.Recs)
		}
	}
	l.TimeIndex = rng.Intn(10) < 8
	l.SidecarSel = []string{"all", "random", "random", "prefix", "none"}[rng.Intn(5)]
	switch rng.Intn(10) {
	case 0, 1:
		l.Manifest = "raw"
	case 2:
		l.Manifest = "enriched"
	}
	l.DiscTTL = []int{-1, -1, 60}[rng.Intn(3)] // -1: no discovery cache (0 would mean the 60 s default)
	l.ResCache = rng.Intn(2) == 0
	l.DefLimit = 100000
	if rng.Intn(7) == 0 {
		l.DefLimit = 1 + rng.Intn(l.TotalRecs+2)
	}
	l.ReqBound = rng.Intn(4) == 0
	if rng.Intn(10) < 3 { // a "live" layout: nothing is cached, so segments can arrive while the server runs (c36Grow)
		l.ResCache, l.DiscTTL, l.Manifest = false, -1, ""
	}
	return l
}

// c36AlignedStart chooses the first offset of a partition that starts above 0
// (retention trimmed it, or it is simply of another size than its neighbours)
// relative to a segment of an earlier partition: mostly the last completed
// segment of the partition listed right before it, otherwise any earlier
// segment; strictly inside that segment's offset range, or on / next to its
// borders. Offsets of different partitions are independent, so every choice is
// a legal layout.
func c36AlignedStart(rng *rand.Rand, segs []*c36Seg, part int32) *int64 {
	var prev []*c36Seg // completed segments of the closest partition below part
	for _, s := range segs {
		if !s.Completed || s.Part >= part {
			continue
		}
		if len(prev) > 0 && prev[0].Part != s.Part {
			if s.Part < prev[0].Part {
				continue
			}
			prev = prev[:0]
		}
		prev = append(prev, s)
	}
	var s *c36Seg
	switch {
	case len(prev) > 0 && rng.Intn(4) != 0:
		s = prev[len(prev)-1]
		for _, x := range prev {
			if x.Base > s.Base {
				s = x
			}
		}
	default:
		s = segs[rng.Intn(len(segs))]
	}
	first, last := s.Recs[0].Off, s.Recs[len(s.Recs)-1].Off
	var off int64
	switch rng.Intn(12) {
	case 0:
		off = first
	case 1:
		off = last + 1
	case 2:
		off = last
	case 3:
		off = first + 1
	default:
		off = first + 1 + int64(rng.Intn(int(last-first)+1)) // (first, last+1]
		if off > last && last > first {
			off = last
		}
	}
	if off < 0 {
		off = 0
	}
	return &off
}

// c36ForeignSuccessors returns, per completed target segment key, the base
// offset of the entry that follows it in a listing sorted by (topic, partition,
// base offset) when that entry belongs to another partition or topic and its
// base offset lies strictly above the segment's base and not above its last
// offset (sameTopic selects successors of the same topic / of another topic):
// the layouts in which bounding a segment by its listing successor
// without regard to the partition understates the segment's offsets.
func c36ForeignSuccessors(l *c36Layout, sameTopic bool) map[string]int64 {
	var all []*c36Seg
	for _, set := range [][]*c36Seg{l.Segs, l.DecoySegs} {
		for _, s := range set {
			if s.Completed {
				all = append(all, s)
			}
		}
	}
	sort.SliceStable(all, func(i, j int) bool {
		if all[i].Topic != all[j].Topic {
			return all[i].Topic < all[j].Topic
		}
		if all[i].Part != all[j].Part {
			return all[i].Part < all[j].Part
		}
		return all[i].Base < all[j].Base
	})
	out := map[string]int64{}
	for i := 0; i+1 < len(all); i++ {
		a, b := all[i], all[i+1]
		if a.Topic != l.Topic || (a.Topic == b.Topic && a.Part == b.Part) || (a.Topic == b.Topic) != sameTopic {
			continue
		}
		if b.Base > a.Base && b.Base <= a.Recs[len(a.Recs)-1].Off {
			out[a.Key] = b.Base
		}
	}
	return out
}

// c36Grow models the broker going on while the SQL server runs: in-flight
// segments get their index object (and so become completed), and 0-2 new
// segments are flushed per partition. No side-cars exist for the new ones.
func c36Grow(rng *rand.Rand, s3 *c36S3, l *c36Layout) (added, completed int) {
	for _, s := range l.Segs {
		if !s.Completed && s.Why == "index_missing" && rng.Intn(4) > 0 {
			s3.Put(l.Bucket, s.IdxKey, s.pendingIdx)
			s.Completed, s.Why = true, ""
			completed++
		}
	}
	for _, p := range l.Parts {
		n := rng.Intn(3)
		if n == 0 {
			continue
		}
		l.Segs = append(l.Segs, c36GenPartition(rng, s3, l, l.Topic, p, "", n, true)...)
		added += n
	}
	sort.SliceStable(l.Segs, func(i, j int) bool {
		if l.Segs[i].Part != l.Segs[j].Part {
			return l.Segs[i].Part < l.Segs[j].Part
		}
		return l.Segs[i].Base < l.Segs[j].Base
	})
	l.TotalRecs = 0
	for _, s := range l.Segs {
		if s.Completed {
			l.TotalRecs += len(s.Recs)
		}
	}
	return added, completed
}

func (l *c36Layout) ConfigYAML(endpoint, listen string) string {
	var b strings.Builder
	fmt.Fprintf(&b, "s3:\n  bucket: %s\n  namespace: %q\n  endpoint: %s\n  region: us-east-1\n  path_style: true\n", l.Bucket, l.Namespace, endpoint)
	fmt.Fprintf(&b, "server:\n  listen: %q\n", listen)
	fmt.Fprintf(&b, "query:\n  default_limit: %d\n  require_time_bound: %v\n  max_unbounded_scan: 100000\n  max_rows: 100000\n  timeout_seconds: 900\n  queue_timeout_seconds: 900\n", l.DefLimit, l.ReqBound)
	fmt.Fprintf(&b, "discovery_cache:\n  ttl_seconds: %d\n", l.DiscTTL)
	fmt.Fprintf(&b, "discovery_manifest:\n  enabled: %v\n  ttl_seconds: 60\n", l.Manifest != "")
	fmt.Fprintf(&b, "time_index:\n  enabled: %v\n", l.TimeIndex)
	if l.ResCache {
		fmt.Fprintf(&b, "result_cache:\n  ttl_seconds: 600\n  max_entries: 50\n  max_rows: 100000\n")
	} else {
		fmt.Fprintf(&b, "result_cache:\n  ttl_seconds: -1\n")
	}
	return b.String()
}

// ---------------------------------------------------------------- queries

type c36Query struct {
	Kind     string // rows | count
	Cols     string // select list text
	Part     *int32
	OffMin   *int64
	OffMax   *int64
	TsMin    *int64
	TsMax    *int64
	TsForm   string // how the time predicate is spelled: ge | le | gele | between
	TsLit    string // numeric | datetime | rfc3339
	Order    string // "" | asc | ascdefault | desc
	Limit    int    // 0 = none
	Tail     int    // 0 = none
	ScanFull bool
	Last     string // "" | "1s" | "36500d"
	Text     string
}

func c36TSLiteral(ms int64, form string) string {
	switch form {
	case "datetime":
		return "'" + time.UnixMilli(ms).UTC().Format("2006-01-02 15:04:05.000") + "'"
	case "rfc3339":
		return "'" + time.UnixMilli(ms).UTC().Format("2006-01-02T15:04:05.000Z07:00") + "'"
	}
	return fmt.Sprintf("%d", ms)
}

// Render spells the query in standard clause order:
// SELECT cols FROM topic [WHERE a AND b ...] [ORDER BY _ts [ASC|DESC]] [LIMIT n] [TAIL n] [SCAN FULL] [LAST d]
func (q *c36Query) Render(topic string, rng *rand.Rand) {
	kw := func(s string) string {
		if rng.Intn(4) == 0 {
			return strings.ToLower(s)
		}
		return s
	}
	var conj []string
	if q.Part != nil {
		conj = append(conj, fmt.Sprintf("_partition = %d", *q.Part))
	}
	if q.OffMin != nil {
		conj = append(conj, fmt.Sprintf("_offset >= %d", *q.OffMin))
	}
	if q.OffMax != nil {
		conj = append(conj, fmt.Sprintf("_offset <= %d", *q.OffMax))
	}
	switch q.TsForm {
	case "ge":
		conj = append(conj, "_ts >= "+c36TSLiteral(*q.TsMin, q.TsLit))
	case "le":
		conj = append(conj, "_ts <= "+c36TSLiteral(*q.TsMax, q.TsLit))
	case "gele":
		conj = append(conj, "_ts >= "+c36TSLiteral(*q.TsMin, q.TsLit), "_ts <= "+c36TSLiteral(*q.TsMax, q.TsLit))
	case "between":
		conj = append(conj, "_ts "+kw("BETWEEN")+" "+c36TSLiteral(*q.TsMin, q.TsLit)+" "+kw("AND")+" "+c36TSLiteral(*q.TsMax, q.TsLit))
	}
	if len(conj) > 1 && q.TsForm != "between" {
		rng.Shuffle(len(conj), func(i, j int) { conj[i], conj[j] = conj[j], conj[i] })
	}
	var b strings.Builder
	b.WriteString(kw("SELECT") + " " + q.Cols + " " + kw("FROM") + " " + topic)
	if len(conj) > 0 {
		b.WriteString(" " + kw("WHERE") + " " + strings.Join(conj, " "+kw("AND")+" "))
	}
	switch q.Order {
	case "asc":
		b.WriteString(" " + kw("ORDER BY") + " _ts " + kw("ASC"))
	case "ascdefault":
		b.WriteString(" " + kw("ORDER BY") + " _ts")
	case "desc":
		b.WriteString(" " + kw("ORDER BY") + " _ts " + kw("DESC"))
	}
	if q.Limit > 0 {
		fmt.Fprintf(&b, " %s %d", kw("LIMIT"), q.Limit)
	}
	if q.Tail > 0 {
		fmt.Fprintf(&b, " %s %d", kw("TAIL"), q.Tail)
	}
	if q.ScanFull {
		b.WriteString(" " + kw("SCAN FULL"))
	}
	if q.Last != "" {
		b.WriteString(" " + kw("LAST") + " " + q.Last)
	}
	if rng.Intn(2) == 0 {
		b.WriteString(";")
	}
	q.Text = b.String()
}

var c36ColLists = []string{
	"*", "*",
	"_partition, _offset, _ts, _value",
	"_offset, _partition, _key",
	"_topic, _partition, _offset, _segment, _ts",
	"_partition, _offset",
	"_ts, _offset, _partition, _headers, _key, _value",
}

func c36Ptr64(v int64) *int64 { return &v }
func c36Ptr32(v int32) *int32 { return &v }

func c36GenQuery(rng *rand.Rand, l *c36Layout) *c36Query {
	q := &c36Query{Kind: "rows", Cols: c36ColLists[rng.Intn(len(c36ColLists))]}
	if rng.Intn(10) == 0 {
		q.Kind, q.Cols = "count", "count(*)"
	}
	// interesting constants: segment borders and record values, +-1
	var offs, tss []int64
	for _, s := range l.Segs {
		last := s.Recs[len(s.Recs)-1].Off
		offs = append(offs, s.Base-1, s.Base, s.Base+1, last-1, last, last+1)
		tss = append(tss, s.MinTS-1, s.MinTS, s.MinTS+1, s.MaxTS-1, s.MaxTS, s.MaxTS+1)
		for _, r := range s.Recs {
			if rng.Intn(4) == 0 {
				offs = append(offs, r.Off)
				tss = append(tss, r.TS, r.TS+int64(rng.Intn(3))-1)
			}
		}
	}
	if rng.Intn(10) < 5 {
		p := l.Parts[rng.Intn(len(l.Parts))]
		if rng.Intn(12) == 0 {
			p = 99 // no such partition
		}
		q.Part = &p
	}
	switch rng.Intn(10) {
	case 0, 1:
		q.OffMin = c36Ptr64(offs[rng.Intn(len(offs))])
	case 2, 3:
		q.OffMax = c36Ptr64(offs[rng.Intn(len(offs))])
	case 4, 5, 6:
		a, b := offs[rng.Intn(len(offs))], offs[rng.Intn(len(offs))]
		if a > b && rng.Intn(6) != 0 { // mostly non-empty ranges; an empty range is legal and yields no rows
			a, b = b, a
		}
		q.OffMin, q.OffMax = &a, &b
	}
	if rng.Intn(3) == 0 {
		// a lower offset bound inside the last completed segment of one partition (the segment
		// whose upper end no later segment of its own partition delimits), open above or closed
		// at/after the segment's end; the partition filter, if any, names that partition
		p := l.Parts[rng.Intn(len(l.Parts))]
		if len(l.Parts) > 1 && rng.Intn(3) != 0 {
			p = l.Parts[rng.Intn(len(l.Parts)-1)] // a partition after which the listing goes on with another one
		}
		var sg *c36Seg
		for _, s := range l.Segs {
			if s.Completed && s.Part == p && (sg == nil || s.Base > sg.Base) {
				sg = s
			}
		}
		if sg != nil {
			q.OffMin = c36Ptr64(sg.Base + int64(rng.Intn(len(sg.Recs))))
			q.OffMax = nil
			if rng.Intn(3) == 0 {
				q.OffMax = c36Ptr64(sg.Recs[len(sg.Recs)-1].Off + int64(rng.Intn(3)))
			}
			if q.Part != nil {
				q.Part = c36Ptr32(p)
			}
		}
	}
	switch rng.Intn(10) {
	case 0:
		q.TsForm, q.TsMin = "ge", c36Ptr64(tss[rng.Intn(len(tss))])
	case 1:
		q.TsForm, q.TsMax = "le", c36Ptr64(tss[rng.Intn(len(tss))])
	case 2, 3, 4, 5:
		a, b := tss[rng.Intn(len(tss))], tss[rng.Intn(len(tss))]
		if a > b { // min > max is rejected by the server as an invalid window: not generated
			a, b = b, a
		}
		q.TsMin, q.TsMax = &a, &b
		q.TsForm = []string{"gele", "between"}[rng.Intn(2)]
	}
	if q.TsForm != "" && rng.Intn(2) == 0 {
		// a narrow window right at one segment's min/max timestamp: where wrong statistics would bite
		sg := l.Segs[rng.Intn(len(l.Segs))]
		if q.Part != nil {
			q.Part = c36Ptr32(sg.Part)
		}
		if rng.Intn(2) == 0 {
			q.OffMin, q.OffMax = nil, nil
		}
		edge := sg.MaxTS
		if rng.Intn(2) == 0 {
			edge = sg.MinTS
		}
		a := edge - int64(rng.Intn(3))
		b := edge + int64(rng.Intn(3))
		switch q.TsForm {
		case "ge":
			q.TsMin = &a
		case "le":
			q.TsMax = &b
		default:
			if rng.Intn(2) == 0 {
				b += int64(rng.Intn(20000))
			} else {
				a -= int64(rng.Intn(20000))
			}
			q.TsMin, q.TsMax = &a, &b
		}
	}
	if q.TsForm != "" {
		q.TsLit = []string{"numeric", "numeric", "datetime", "rfc3339"}[rng.Intn(4)]
		if q.TsLit == "datetime" && q.TsForm != "between" {
			q.TsLit = "rfc3339" // a quoted literal containing a blank is only documented with BETWEEN
		}
	}
	if q.Kind == "rows" {
		switch rng.Intn(10) {
		case 0, 1:
			q.Order = "desc"
		case 2:
			q.Order = "asc"
		case 3:
			q.Order = "ascdefault"
		case 4, 5:
			q.Tail = 1 + rng.Intn(l.TotalRecs+3)
		}
		if q.Tail == 0 && rng.Intn(2) == 0 {
			q.Limit = 1 + rng.Intn(l.TotalRecs+3)
			if rng.Intn(3) == 0 {
				q.Limit = 1 + rng.Intn(4)
			}
		}
		if q.Tail > 0 && rng.Intn(3) == 0 {
			q.Tail = 1 + rng.Intn(4)
		}
	}
	if q.TsForm == "" && rng.Intn(12) == 0 {
		q.Last = []string{"1s", "36500d"}[rng.Intn(2)]
	}
	bounded := q.TsForm != "" || q.Tail > 0 || q.Last != ""
	if (l.ReqBound && !bounded) || rng.Intn(8) == 0 {
		q.ScanFull = true
	}
	q.Render(l.Topic, rng)
	return q
}

// c36Matching is the reference: the statement's "applying its partition,
// offset and time filters directly to all records of the topic's completed
// segments", in (partition, offset) order.
func c36Matching(l *c36Layout, q *c36Query) []c36Rec {
	var out []c36Rec
	for _, s := range l.Segs {
		if !s.Completed {
			continue
		}
		for _, r := range s.Recs {
			if q.Part != nil && r.Part != *q.Part {
				continue
			}
			if q.OffMin != nil && r.Off < *q.OffMin {
				continue
			}
			if q.OffMax != nil && r.Off > *q.OffMax {
				continue
			}
			if q.TsMin != nil && r.TS < *q.TsMin {
				continue
			}
			if q.TsMax != nil && r.TS > *q.TsMax {
				continue
			}
			if q.Last == "1s" { // every record is dated 2001..2014: nothing lies in the last second
				continue
			}
			out = append(out, r)
		}
	}
	sort.SliceStable(out, func(i, j int) bool {
		if out[i].Part != out[j].Part {
			return out[i].Part < out[j].Part
		}
		return out[i].Off < out[j].Off
	})
	return out
}
