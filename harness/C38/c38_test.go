//go:build verif

package console

import (
	"context"
	"encoding/json"
	"fmt"
	"io"
	"log"
	"math/rand"
	"net/http"
	"net/http/httptest"
	"os"
	"path"
	"path/filepath"
	"regexp"
	"sort"
	"strings"
	"sync"
	"sync/atomic"
	"testing"
	"testing/synctest"
	"time"

	"github.com/KafScale/platform/internal/verifkit"
	"github.com/KafScale/platform/pkg/metadata"
	"github.com/KafScale/platform/pkg/protocol"
	"github.com/twmb/franz-go/pkg/kmsg"
)

// ---------------------------------------------------------------------------
// what the statement calls public: the four auth endpoints. Every other
// route under /ui/api/ is a protected console endpoint.
// ---------------------------------------------------------------------------

const (
	c38Login  = "/ui/api/auth/login"
	c38Logout = "/ui/api/auth/logout"
)

var c38Public = map[string]bool{
	"/ui/api/auth/config": true, "/ui/api/auth/session": true, c38Login: true, c38Logout: true,
}

// c38Routes reads the route table out of the real mux construction
// (server.go of the tree under test); every pattern is then confirmed against
// the live mux with (*http.ServeMux).Handler.
func c38Routes() ([]string, string) {
	repo := os.Getenv("VERIF_REPO")
	if repo == "" {
		repo = "/repo"
	}
	b, err := os.ReadFile(filepath.Join(repo, "internal/console/server.go"))
	if err != nil {
		return nil, err.Error()
	}
	re := regexp.MustCompile(`mux\.Handle(?:Func)?\(\s*"([^"]+)"`)
	var out []string
	seen := map[string]bool{}
	for _, m := range re.FindAllStringSubmatch(string(b), -1) {
		if !seen[m[1]] {
			seen[m[1]] = true
			out = append(out, m[1])
		}
	}
	return out, ""
}

func c38ProtectedPattern(p string) bool {
	if i := strings.IndexByte(p, ' '); i >= 0 { // "METHOD /path" patterns
		p = strings.TrimSpace(p[i+1:])
	}
	if i := strings.IndexByte(p, '/'); i > 0 { // "host/path"
		p = p[i:]
	}
	return strings.HasPrefix(p, "/ui/api/") && !c38Public[p]
}

// c38ProtectedPath: the request addresses the protected part of the console API
// by its own path, whatever the mux makes of it.
func c38ProtectedPath(p string) bool {
	c := path.Clean("/" + p)
	return (strings.HasPrefix(c, "/ui/api/") || c == "/ui/api") && !c38Public[c]
}

// ---------------------------------------------------------------------------
// dependencies handed to NewMux: they only count how often a protected
// handler's body got as far as using them.
// ---------------------------------------------------------------------------

type c38Deps struct{ touched atomic.Int64 }

type c38Store struct {
	metadata.Store
	d    *c38Deps
	fail bool
}

func (s *c38Store) Metadata(ctx context.Context, topics []string) (*metadata.ClusterMetadata, error) {
	s.d.touched.Add(1)
	if s.fail {
		return nil, metadata.ErrStoreUnavailable
	}
	return s.Store.Metadata(ctx, topics)
}

type c38Metrics struct{ d *c38Deps }

func (m *c38Metrics) Snapshot(context.Context) (*MetricsSnapshot, error) {
	m.d.touched.Add(1)
	return &MetricsSnapshot{S3State: "healthy", S3LatencyMS: 12}, nil
}

// ---------------------------------------------------------------------------
// reference model (written from the statement)
// ---------------------------------------------------------------------------

type c38Session struct {
	Token     string
	Mux       int       // 0 = server under test, 1 = another console instance
	IssuedAt  time.Time // time of the login response
	Announced time.Time // Expires attribute of the Set-Cookie (zero if none)
	Legit     bool      // issued by a login that carried the configured credentials
	LoggedOut bool
}

type c38Ref struct {
	ttl      time.Duration
	limit    int
	window   time.Duration
	enabled  bool
	sessions map[string]*c38Session
	attempts map[string][]time.Time // per client address: times of admitted login attempts on mux 0
}

// state of a token for server 0 at time now: "live", "boundary" (now == issue+ttl), or a reason it must be rejected.
func (m *c38Ref) tokenState(tok string, now time.Time) string {
	s, ok := m.sessions[tok]
	switch {
	case tok == "":
		return "empty"
	case !ok:
		return "forged"
	case s.Mux != 0:
		return "foreign_instance"
	case !s.Legit:
		return "issued_without_valid_credentials"
	case s.LoggedOut:
		return "logged_out"
	case now.After(s.IssuedAt.Add(m.ttl)):
		return "expired"
	case !s.Announced.IsZero() && now.After(s.Announced.Add(time.Second)):
		return "past_announced_cookie_expiry"
	case now.Equal(s.IssuedAt.Add(m.ttl)):
		return "boundary"
	}
	return "live"
}

// ---------------------------------------------------------------------------
// world: one console under test (+ a second instance as a source of foreign tokens)
// ---------------------------------------------------------------------------

type c38Event struct {
	At      string `json:"t"` // offset from the start of the case
	Kind    string `json:"kind"`
	Client  string `json:"client,omitempty"`
	Method  string `json:"method,omitempty"`
	Target  string `json:"target,omitempty"`
	Cookie  string `json:"cookie,omitempty"`
	Body    string `json:"body,omitempty"`
	Status  int    `json:"status,omitempty"`
	Note    string `json:"note,omitempty"`
	Pattern string `json:"pattern,omitempty"`
}

type c38World struct {
	r      *verifkit.Run
	rng    *rand.Rand
	ci     int
	cfg    AuthConfig
	mux    [2]http.Handler
	deps   *c38Deps
	ref    *c38Ref
	start  time.Time
	events []c38Event
	routes []string // protected patterns
	// tokens by origin, for the cookie generator
	tokens []string

	liveServed, deadRejected, limited, admitted, unauthRejected, streams int
	bad                                                                  bool
}

type c38Resp struct {
	Status    int
	Streaming bool
	SetCookie *http.Cookie
	Pattern   string
	Redirect  bool
	Touched   bool
	Panic     any
	Body      string
}

func (w *c38World) off() string { return time.Since(w.start).String() }

func (w *c38World) log(e c38Event) {
	e.At = w.off()
	if len(e.Cookie) > 120 {
		e.Cookie = e.Cookie[:120] + "…"
	}
	if len(e.Body) > 120 {
		e.Body = e.Body[:120] + "…"
	}
	if len(e.Target) > 160 {
		e.Target = e.Target[:160] + "…"
	}
	w.events = append(w.events, e)
}

func (w *c38World) witness() map[string]any {
	ev := w.events
	if len(ev) > 80 {
		ev = ev[len(ev)-80:]
	}
	return map[string]any{"case": w.ci, "username": w.cfg.Username, "password": w.cfg.Password, "auth_enabled": w.ref.enabled,
		"ttl": w.ref.ttl.String(), "limit": w.ref.limit, "window": w.ref.window.String(), "events_tail": ev, "events_total": len(w.events)}
}

// newReq builds a server-side request the way net/http would hand it to the mux.
func c38NewReq(method, target, remote string, body string) (req *http.Request, err error) {
	defer func() {
		if p := recover(); p != nil {
			err = fmt.Errorf("unparseable request: %v", p)
		}
	}()
	var rd io.Reader
	if body != "" {
		rd = strings.NewReader(body)
	}
	req = httptest.NewRequest(method, target, rd)
	req.RemoteAddr = remote
	return req, nil
}

// do runs one request through mux i inside the bubble and waits until the
// handler has either returned or is durably blocked (a stream).
func (w *c38World) do(i int, req *http.Request) c38Resp {
	var out c38Resp
	if sm, ok := w.mux[i].(*http.ServeMux); ok {
		h, pat := sm.Handler(req)
		out.Pattern = pat
		out.Redirect = strings.Contains(fmt.Sprintf("%T", h), "redirect")
	}
	ctx, cancel := context.WithCancel(context.Background())
	defer cancel()
	req = req.WithContext(ctx)
	rec := httptest.NewRecorder()
	before := w.deps.touched.Load()
	done := make(chan any, 1)
	go func() {
		defer func() { done <- recover() }()
		w.mux[i].ServeHTTP(rec, req)
	}()
	synctest.Wait()
	select {
	case p := <-done:
		out.Panic = p
	default:
		out.Streaming = true
		time.Sleep(2*time.Second + time.Millisecond) // let a metrics stream produce one sample
		synctest.Wait()
		cancel()
		out.Panic = <-done
	}
	out.Status = rec.Code
	if out.Panic != nil {
		out.Status = 500
	}
	out.Touched = w.deps.touched.Load() != before
	for _, c := range rec.Result().Cookies() {
		if c.Name == sessionCookieName {
			out.SetCookie = c
		}
	}
	b := rec.Body.String()
	if len(b) > 80 {
		b = b[:80]
	}
	out.Body = b
	return out
}

type c38Client struct {
	Addr string
}

var c38Clients = []c38Client{
	{"10.0.0.1"}, {"10.0.0.2"}, {"10.0.0.10"}, {"192.168.1.1"}, {"127.0.0.1"}, {"2001:db8::1"}, {"2001:db8::2"}, {"::1"}, {"fe80::1%eth0"}, {"203.0.113.7"},
}

func (c c38Client) remote(rng *rand.Rand) string {
	if rng.Intn(12) == 0 {
		return c.Addr // a listener that reports no port
	}
	port := 1024 + rng.Intn(60000)
	if strings.Contains(c.Addr, ":") {
		return fmt.Sprintf("[%s]:%d", c.Addr, port)
	}
	return fmt.Sprintf("%s:%d", c.Addr, port)
}

func (w *c38World) spoofHeaders(req *http.Request) {
	if w.rng.Intn(3) != 0 {
		return
	}
	other := c38Clients[w.rng.Intn(len(c38Clients))].Addr
	rnd := fmt.Sprintf("198.51.100.%d", w.rng.Intn(250))
	v := []string{other, rnd, rnd + ", " + other, "unknown", ""}[w.rng.Intn(5)]
	switch w.rng.Intn(4) {
	case 0:
		req.Header.Set("X-Forwarded-For", v)
	case 1:
		req.Header.Set("X-Real-IP", v)
	case 2:
		req.Header.Set("Forwarded", "for="+v)
	case 3:
		req.Header.Set("X-Forwarded-For", v)
		req.Header.Set("X-Real-IP", rnd)
	}
}

// ---------------------------------------------------------------------------
// logins
// ---------------------------------------------------------------------------

// loginBody returns the body and whether it carries exactly the configured
// credentials under the documented field names.
func (w *c38World) loginBody(kind string) (string, bool) {
	u, p := w.cfg.Username, w.cfg.Password
	js := func(u, p any) string {
		b, _ := json.Marshal(map[string]any{"username": u, "password": p})
		return string(b)
	}
	switch kind {
	case "good":
		return js(u, p), true
	case "wrong_password":
		return js(u, p+"x"), false
	case "wrong_user":
		return js(u+"x", p), false
	case "empty_both":
		return js("", ""), false
	case "empty_password":
		return js(u, ""), false
	case "password_prefix":
		if len(p) > 1 {
			return js(u, p[:len(p)-1]), false
		}
		return js(u, "zz"), false
	case "case_changed":
		if strings.ToUpper(p) != p {
			return js(u, strings.ToUpper(p)), false
		}
		return js(u, p+"A"), false
	case "padded":
		return js(" "+u, p+" "), false
	case "swapped":
		if u != p {
			return js(p, u), false
		}
		return js(u+"s", p), false
	case "nul_suffix":
		return js(u, p+"\x00"), false
	case "numeric":
		return `{"username":1,"password":2}`, false
	case "array":
		return `[` + js(u, p) + `]`, false
	case "malformed":
		return `{"username":"` + u, false
	case "no_fields":
		return `{}`, false
	case "null_fields":
		return `{"username":null,"password":null}`, false
	case "junk":
		return "username=" + u + "&password=" + p, false
	case "empty":
		return "", false
	}
	return js("nobody", "nothing"), false
}

var c38BadLogin = []string{"wrong_password", "wrong_user", "empty_both", "empty_password", "password_prefix", "case_changed", "padded", "swapped",
	"nul_suffix", "numeric", "array", "malformed", "no_fields", "null_fields", "junk", "empty", "other"}

// login performs one login attempt on mux i (0 = under test) and updates the reference.
func (w *c38World) login(i int, cl c38Client, kind string, method string) c38Resp {
	body, good := w.loginBody(kind)
	target := c38Login
	if w.rng.Intn(8) == 0 { // other spellings of the login endpoint must draw on the same budget
		target = []string{c38Login + "?next=/ui/", "http://console.example" + c38Login, c38Login + "?username=" + w.cfg.Username, "/ui/api/auth/%6cogin"}[w.rng.Intn(4)]
	}
	req, err := c38NewReq(method, target, cl.remote(w.rng), body)
	if err != nil {
		return c38Resp{}
	}
	if w.rng.Intn(2) == 0 {
		req.Header.Set("Content-Type", "application/json")
	}
	w.spoofHeaders(req)
	// a login may also carry an old cookie; it must not matter
	if w.rng.Intn(5) == 0 {
		req.Header.Set("Cookie", sessionCookieName+"="+w.someToken())
	}
	resp := w.do(i, req)
	now := time.Now()
	w.r.Count("login_requests", 1)
	w.r.Count(fmt.Sprintf("login_status_%d", resp.Status), 1)
	note := kind
	if i == 0 && method == http.MethodPost && (resp.Status == 200 || resp.Status == 401) {
		// credentials were evaluated: an admitted attempt of this client address
		w.admitted++
		ts := append(w.ref.attempts[cl.Addr], now)
		w.ref.attempts[cl.Addr] = ts
		if w.ref.limit > 0 {
			n := 0
			for _, t := range ts {
				if t.After(now.Add(-w.ref.window)) { // the half-open window (now-W, now]
					n++
				}
			}
			w.r.Count("window_checks", 1)
			if n == w.ref.limit {
				w.r.Count("windows_exactly_at_limit", 1)
			}
			if n > w.ref.limit {
				w.log(c38Event{Kind: "login", Client: cl.Addr, Method: method, Body: body, Status: resp.Status, Note: note})
				var offs []string
				for _, t := range ts {
					if t.After(now.Add(-w.ref.window)) {
						offs = append(offs, t.Sub(w.start).String())
					}
				}
				wit := w.witness()
				wit["client"] = cl.Addr
				wit["admitted_attempt_times_in_window"] = offs
				w.bad = true
				w.r.Violation("login_attempts_exceed_limit_in_sliding_window",
					fmt.Sprintf("client %s got %d login attempts evaluated within one window of %s ending at %s (limit %d)", cl.Addr, n, w.ref.window, w.off(), w.ref.limit), wit)
			}
		}
	}
	if i == 0 && resp.Status == http.StatusTooManyRequests {
		w.limited++
		w.r.Count("logins_rate_limited", 1)
	}
	if resp.SetCookie != nil && resp.SetCookie.Value != "" {
		legit := good && method == http.MethodPost && resp.Status == 200
		if i == 0 && !w.ref.enabled {
			legit = false // no credentials configured: no login can be a successful one
		}
		s := &c38Session{Token: resp.SetCookie.Value, Mux: i, IssuedAt: now, Announced: resp.SetCookie.Expires, Legit: legit}
		if old, dup := w.ref.sessions[s.Token]; dup && i == 0 {
			wit := w.witness()
			wit["token"] = s.Token
			w.bad = true
			w.r.Violation("session_token_reissued", fmt.Sprintf("login handed out a token that had been issued before (at %s)", old.IssuedAt.Sub(w.start)), wit)
		}
		w.ref.sessions[s.Token] = s
		w.tokens = append(w.tokens, s.Token)
		if i == 0 {
			w.r.Count("sessions_issued", 1)
			if !legit {
				w.r.Count("sessions_issued_to_bad_login", 1)
			}
		}
		note += " -> session"
	}
	w.log(c38Event{Kind: fmt.Sprintf("login@%d", i), Client: cl.Addr, Method: method, Body: body, Status: resp.Status, Note: note})
	return resp
}

// ---------------------------------------------------------------------------
// cookies
// ---------------------------------------------------------------------------

func (w *c38World) someToken() string {
	if len(w.tokens) == 0 {
		return c38Forged(w.rng)
	}
	return w.tokens[w.rng.Intn(len(w.tokens))]
}

func c38Forged(rng *rand.Rand) string {
	const al = "ABCDEFGHIJKLMNOPQRSTUVWXYZabcdefghijklmnopqrstuvwxyz0123456789-_"
	b := make([]byte, 43)
	for i := range b {
		b[i] = al[rng.Intn(len(al))]
	}
	return string(b)
}

// cookieHeader picks the Cookie header of a request (may be empty = no header).
func (w *c38World) cookieHeader() (string, string) {
	tok := w.someToken()
	n := sessionCookieName
	switch w.rng.Intn(22) {
	case 0:
		return "", "none"
	case 1:
		return n + "=", "empty_value"
	case 2:
		return n + "=" + c38Forged(w.rng), "forged"
	case 3:
		b := []byte(tok)
		k := w.rng.Intn(len(b))
		if b[k] == 'A' {
			b[k] = 'B'
		} else {
			b[k] = 'A'
		}
		return n + "=" + string(b), "one_char_changed"
	case 4:
		return n + "=" + tok[:len(tok)-1], "truncated"
	case 5:
		return n + "=" + tok + "A", "extended"
	case 6:
		if up := strings.ToUpper(tok); up != tok {
			return n + "=" + up, "uppercased"
		}
		return n + "=" + strings.ToLower(tok), "lowercased"
	case 7:
		return n + "=\"" + tok + "\"", "quoted"
	case 8:
		return "other=1; " + n + "=" + tok + "; theme=dark", "among_other_cookies"
	case 9:
		return n + "=" + c38Forged(w.rng) + "; " + n + "=" + tok, "forged_then_token"
	case 10:
		return n + "=" + tok + "; " + n + "=" + c38Forged(w.rng), "token_then_forged"
	case 11:
		return strings.ToUpper(n) + "=" + tok, "cookie_name_uppercased"
	case 12:
		return n + "x=" + tok, "cookie_name_extended"
	case 13:
		return n + "=true", "literal_true"
	case 14:
		return n + "=" + strings.Repeat("A", 5000), "very_long"
	case 15:
		return n + "=%00", "percent_nul"
	}
	return n + "=" + tok, "token"
}

// carried returns the values of all cookies with the session cookie's name, as a standard cookie parser sees them.
func c38Carried(req *http.Request) []string {
	var out []string
	for _, c := range req.Cookies() {
		if c.Name == sessionCookieName {
			out = append(out, c.Value)
		}
	}
	return out
}

// ---------------------------------------------------------------------------
// probes of protected endpoints
// ---------------------------------------------------------------------------

var c38Methods = []string{"GET", "GET", "GET", "POST", "POST", "DELETE", "PUT", "HEAD", "OPTIONS", "PATCH", "CONNECT", "TRACE"}

func (w *c38World) target() string {
	base := w.routes[w.rng.Intn(len(w.routes))]
	if strings.HasSuffix(base, "/") {
		base += []string{"orders", "a/b", "", "%2e%2e", "..%2fstatus", "x y", "日本", "orders/"}[w.rng.Intn(8)]
	}
	rest := strings.TrimPrefix(base, "/ui/api/")
	switch w.rng.Intn(24) {
	case 0:
		return base + "/"
	case 1:
		return "/ui//api/" + rest
	case 2:
		return "/ui/api//" + rest
	case 3:
		return strings.ToUpper(base)
	case 4:
		return "/ui/api/./" + rest
	case 5:
		return "/ui/x/../api/" + rest
	case 6:
		return "/ui/api/auth/../" + rest
	case 7:
		return base + "?token=" + w.someToken()
	case 8:
		return base + "?limit=1&topic=orders&types=a,b&prefix=x"
	case 9:
		return "//ui/api/" + rest
	case 10:
		return base + ";x=1"
	case 11:
		return "/ui/api/%2e/" + rest
	case 12:
		return "/ui/api/" + strings.Replace(rest, "s", "%73", 1)
	case 13:
		return "/ui/api/auth/login/../../" + rest
	case 14:
		return "/ui/api/" + rest + "/.."
	case 15:
		return "/ui/api/" + []string{"", "unknown", "auth", "auth/", "auth/loginx", "status/", "lfs", "lfs/", "lfs/s3", "metrics/", "../api/status"}[w.rng.Intn(11)]
	case 16:
		return "http://console.example" + base
	case 17:
		return "/ui/api/auth/session/../../" + rest
	}
	return base
}

func (w *c38World) probe(forceCookie string, forceTarget string) {
	method := c38Methods[w.rng.Intn(len(c38Methods))]
	target := w.target()
	if forceTarget != "" {
		target = forceTarget
		if strings.HasSuffix(target, "/") {
			target += "orders"
		}
	}
	if forceTarget != "" || w.rng.Intn(2) == 0 { // the method the route is meant for, so that live sessions get real answers
		switch {
		case strings.Contains(target, "presign") || strings.HasSuffix(strings.SplitN(target, "?", 2)[0], "/status/topics"):
			method = "POST"
		case strings.Contains(target, "/status/topics/"):
			method = "DELETE"
		default:
			method = "GET"
		}
	}
	cl := c38Clients[w.rng.Intn(len(c38Clients))]
	body := ""
	if method == "POST" || method == "PUT" {
		body = []string{"", `{}`, `{"s3_key":"k","ttl_seconds":5}`, `{"name":"t","partitions":1}`, `junk`}[w.rng.Intn(5)]
	}
	req, err := c38NewReq(method, target, cl.remote(w.rng), body)
	if err != nil {
		w.r.Count("unparseable_targets", 1)
		return
	}
	ck, ckKind := w.cookieHeader()
	if forceCookie != "" {
		ck, ckKind = sessionCookieName+"="+forceCookie, "token"
	}
	if ck != "" {
		req.Header.Set("Cookie", ck)
	}
	if w.rng.Intn(10) == 0 { // a token anywhere but in the session cookie is not a session
		req.Header.Set("Authorization", "Bearer "+w.someToken())
		ckKind += "+bearer"
	}
	w.spoofHeaders(req)
	carried := c38Carried(req)
	now := time.Now()
	// the request may be served only if some carried value is a token that is live now
	may := false
	reason, first := "no_session_cookie", ""
	for k, v := range carried {
		st := w.ref.tokenState(v, now)
		if k == 0 {
			reason, first = st, st
		}
		if st == "live" || st == "boundary" {
			may = true
		}
	}
	if !w.ref.enabled {
		may, reason = false, "auth_disabled"
	}
	resp := w.do(0, req)
	protected := c38ProtectedPattern(resp.Pattern) || c38ProtectedPath(req.URL.Path)
	w.r.Count("probes", 1)
	if resp.Panic != nil {
		w.r.Count("handler_panics", 1)
	}
	ev := c38Event{Kind: "probe", Client: cl.Addr, Method: method, Target: target, Cookie: ck, Status: resp.Status, Pattern: resp.Pattern, Note: ckKind + "/" + reason}
	if resp.Streaming {
		ev.Note += "/stream"
	}
	w.log(ev)
	if !protected {
		w.r.Count("probes_outside_protected_space", 1)
		return
	}
	w.r.Count("protected_probes", 1)
	w.r.Seen("protected_patterns_hit", resp.Pattern)
	w.r.Seen("probe_shapes", method+" "+resp.Pattern+" "+ckKind+" "+reason+fmt.Sprint(resp.Status))
	answered := resp.Streaming || (resp.Status >= 200 && resp.Status < 300)
	if !may {
		w.r.Count("must_reject_probes", 1)
		w.r.Count("must_reject_"+reason, 1)
		switch {
		case answered || resp.Touched:
			what := fmt.Sprintf("status %d", resp.Status)
			if resp.Streaming {
				what = "an open event stream"
			}
			if !answered {
				what += " after running the handler body (store/metrics were consulted)"
			}
			w.bad = true
			w.r.Violation("answered_without_live_session:"+reason,
				fmt.Sprintf("%s %s (route %q) answered with %s although the request's session is %s", method, target, resp.Pattern, what, reason), w.witness())
		default:
			w.unauthRejected++
			if reason == "expired" || reason == "logged_out" || reason == "past_announced_cookie_expiry" {
				w.deadRejected++
				w.r.Count("once_valid_token_rejected", 1)
			}
			w.r.Count(fmt.Sprintf("reject_status_%d", resp.Status), 1)
		}
		return
	}
	// a live session: nothing is demanded by the statement, but a monitor that never saw one served decided little
	if first == "live" && c38ProtectedPattern(resp.Pattern) && !resp.Redirect && resp.Status != http.StatusUnauthorized {
		w.liveServed++
		w.r.Count("live_session_served", 1)
		if answered {
			w.r.Count("live_session_answered_2xx_or_stream", 1)
		}
		if resp.Streaming {
			w.streams++
			w.r.Count("live_streams_opened", 1)
		}
		w.r.Seen("served_routes", resp.Pattern)
	} else if first == "live" && resp.Status == http.StatusUnauthorized {
		w.r.Count("live_session_refused", 1)
	}
}

func (w *c38World) logout() {
	method := "POST"
	if w.rng.Intn(6) == 0 {
		method = []string{"GET", "DELETE", "HEAD"}[w.rng.Intn(3)]
	}
	cl := c38Clients[w.rng.Intn(len(c38Clients))]
	req, err := c38NewReq(method, c38Logout, cl.remote(w.rng), "")
	if err != nil {
		return
	}
	tok := ""
	if w.rng.Intn(8) != 0 {
		tok = w.someToken()
		req.Header.Set("Cookie", sessionCookieName+"="+tok)
	}
	resp := w.do(0, req)
	if resp.Status >= 200 && resp.Status < 300 && tok != "" {
		if s, ok := w.ref.sessions[tok]; ok && s.Mux == 0 {
			if !s.LoggedOut {
				w.r.Count("logouts_of_issued_sessions", 1)
			}
			s.LoggedOut = true
		}
	}
	w.log(c38Event{Kind: "logout", Client: cl.Addr, Method: method, Cookie: tok, Status: resp.Status})
}

// sleepTo advances virtual time.
func (w *c38World) advance() {
	now := time.Now()
	var d time.Duration
	deltas := []time.Duration{-time.Second, -time.Nanosecond, 0, time.Nanosecond, time.Second}
	switch k := w.rng.Intn(10); {
	case k < 3:
		d = time.Duration(w.rng.Int63n(int64(2 * time.Second)))
	case k < 5:
		d = time.Duration(1+w.rng.Intn(59)) * time.Second
	case k < 7: // an edge of some client's rate window
		var all []time.Time
		for _, ts := range w.ref.attempts {
			all = append(all, ts...)
		}
		if len(all) > 0 {
			t := all[w.rng.Intn(len(all))].Add(w.ref.window + deltas[w.rng.Intn(5)])
			d = t.Sub(now)
		}
	case k < 9: // an edge of some session's lifetime
		if len(w.tokens) > 0 {
			s := w.ref.sessions[w.tokens[w.rng.Intn(len(w.tokens))]]
			d = s.IssuedAt.Add(w.ref.ttl + deltas[w.rng.Intn(5)]).Sub(now)
		}
	default:
		d = time.Duration(1+w.rng.Intn(6)) * time.Hour
	}
	if d <= 0 {
		d = time.Duration(1 + w.rng.Intn(1000))
	}
	time.Sleep(d)
	w.log(c38Event{Kind: "advance", Note: d.String()})
	w.r.Count("time_advances", 1)
}

// burst: one client fires k logins at the same instant (sequentially or from k goroutines).
func (w *c38World) burst() {
	cl := c38Clients[w.rng.Intn(len(c38Clients))]
	k := 1 + w.rng.Intn(w.ref.limit+6)
	if w.ref.limit <= 0 {
		k = 1 + w.rng.Intn(30)
	}
	goodEvery := 1 + w.rng.Intn(8)
	w.r.Count("bursts", 1)
	if w.rng.Intn(4) == 0 {
		// concurrent: the handlers run interleaved, all at one virtual instant
		type res struct {
			code int
		}
		var mu sync.Mutex
		var codes []int
		var wg sync.WaitGroup
		for j := 0; j < k; j++ {
			body, _ := w.loginBody("wrong_password")
			req, err := c38NewReq("POST", c38Login, cl.remote(w.rng), body)
			if err != nil {
				continue
			}
			wg.Add(1)
			go func() {
				defer wg.Done()
				rec := httptest.NewRecorder()
				w.mux[0].ServeHTTP(rec, req)
				mu.Lock()
				codes = append(codes, rec.Code)
				mu.Unlock()
			}()
		}
		wg.Wait()
		now := time.Now()
		adm := 0
		for _, c := range codes {
			if c == 200 || c == 401 {
				adm++
				w.admitted++
				w.ref.attempts[cl.Addr] = append(w.ref.attempts[cl.Addr], now)
			}
			if c == http.StatusTooManyRequests {
				w.limited++
				w.r.Count("logins_rate_limited", 1)
			}
		}
		w.r.Count("login_requests", int64(len(codes)))
		w.r.Count("concurrent_bursts", 1)
		n := 0
		for _, t := range w.ref.attempts[cl.Addr] {
			if t.After(now.Add(-w.ref.window)) {
				n++
			}
		}
		w.log(c38Event{Kind: "concurrent_burst", Client: cl.Addr, Note: fmt.Sprintf("%d logins, %d evaluated, %d in window", len(codes), adm, n)})
		w.r.Count("window_checks", 1)
		if w.ref.limit > 0 && n == w.ref.limit {
			w.r.Count("windows_exactly_at_limit", 1)
		}
		if w.ref.limit > 0 && n > w.ref.limit {
			wit := w.witness()
			wit["client"] = cl.Addr
			w.bad = true
			w.r.Violation("login_attempts_exceed_limit_in_sliding_window",
				fmt.Sprintf("client %s got %d login attempts evaluated within one window of %s ending at %s (limit %d), %d of them in one concurrent burst", cl.Addr, n, w.ref.window, w.off(), w.ref.limit, adm), wit)
		}
		return
	}
	for j := 0; j < k; j++ {
		kind := c38BadLogin[w.rng.Intn(len(c38BadLogin))]
		if j%goodEvery == 0 {
			kind = "good"
		}
		w.login(0, cl, kind, "POST")
	}
}

func c38Store0(d *c38Deps, rng *rand.Rand) metadata.Store {
	cn := "verif"
	inner := metadata.NewInMemoryStore(metadata.ClusterMetadata{
		Brokers:     []protocol.MetadataBroker{{NodeID: 0, Host: "b0", Port: 9092}},
		ClusterName: &cn,
		Topics: []protocol.MetadataTopic{{Topic: kmsg.StringPtr("orders"), Partitions: []protocol.MetadataPartition{
			{Partition: 0, Leader: 0, Replicas: []int32{0}, ISR: []int32{0}}}}},
	})
	return &c38Store{Store: inner, d: d, fail: rng.Intn(5) == 0}
}

var c38Creds = []AuthConfig{
	{"admin", "secret"}, {"admin", "admin"}, {"üser", "pässwörd"}, {"a", " "}, {"root", strings.Repeat("p", 200)}, {"ops@example.com", "c0rrect horse \"battery\" staple"},
	{"admin", "secret"}, {"admin", "Secret1"}, {"console", "s3cr3t!"}, {"admin", "secret"}, {"u", "p"}, {"Admin", "секрет"},
	// no credentials configured: the console must refuse everything
	{"", ""}, {"admin", ""}, {"", "secret"},
}

func TestVerifC38Sessions(t *testing.T) {
	r := verifkit.Start(t, "C38", "sessions")
	defer r.Finish("per case one testing/synctest bubble (virtual clock) around the real NewMux (store, metrics and LFS handlers wired, so all protected routes exist) plus a second console instance as a source of foreign tokens; a PRNG event list of 60-160 events: logins (good / 17 kinds of bad credentials and bodies, any method) from 10 client addresses (v4, v6, zone, varying ports, no port, spoofed X-Forwarded-For/X-Real-IP/Forwarded), sequential and concurrent same-instant login bursts of up to limit+6, logouts (POST and other methods, with/without cookie), probes of every protected route (route table read from the real server.go and confirmed on the live mux) x 12 methods x 18 path variants (trailing/double slash, case, dot segments, %-encoding, ;params, absolute-URI, query-string tokens, sibling/unknown paths) x 22 cookie shapes (none, empty, forged, live/expired/logged-out/foreign token, one char changed, truncated, extended, case-changed, quoted, duplicated cookies, wrong cookie name, Bearer header), and clock advances (sub-second, seconds, to -1s/-1ns/0/+1ns/+1s of a rate-window edge and of a session's expiry, hours). Reference model from the statement: a token is live iff a login with exactly the configured credentials issued it on this instance, no logout carrying it was answered 2xx, and now <= issue+TTL (and now <= the Expires the server announced +1s). Oracle 1: a request into the protected space (mux route under /ui/api/ other than auth/{config,session,login,logout}, or a path that cleans to one) whose session cookies (standard cookie parsing, all cookies of that name) contain no live token must not be answered: no 2xx, no open stream, no use of store/metrics by the handler. Oracle 2: per client address (transport peer, port and forwarded headers ignored) the number of login attempts whose credentials were evaluated (status 200/401) in any window (t-W, t] ending at an attempt is <= limit. TTL, limit and window are read from the code's own constructor. non-trivial = the case saw a live session served AND (a once-valid token rejected after expiry/logout OR a login rate-limited)",
		"'any sliding window' is taken as half-open (t-W, t]: with a closed window [t-W, t] a sliding-log limiter admits limit+1 when an attempt falls exactly W after another; the reading under which a correct sliding limiter passes is used",
		"a session is still valid at exactly issue+TTL (the code uses now.After(expiry)); the oracle demands rejection only strictly after",
		"a login attempt = a POST to the login endpoint whose credentials were evaluated (200 or 401); requests answered 400/405/429/503 test no password and are not counted against the statement's limit",
		"rejected = any response that is not 2xx, not a stream, and did not run the handler body; the code's own rejections are 401 and 503 (no credentials configured)",
		"client address = host part of the transport peer address (RemoteAddr); forwarded-for headers are attacker-controlled and ignored by the reference")
	routes, rerr := c38Routes()
	if rerr != "" {
		t.Fatalf("cannot read route table from the tree under test: %s", rerr)
	}
	var protected []string
	for _, p := range routes {
		if c38ProtectedPattern(p) {
			protected = append(protected, p)
		}
	}
	sort.Strings(protected)
	r.Note("routes_in_source", routes)
	r.Note("protected_routes", protected)
	if len(protected) == 0 {
		t.Fatalf("no protected route found in server.go (pattern syntax changed?)")
	}
	probe := newAuthManager(AuthConfig{Username: "u", Password: "p"})
	ttl := probe.ttl
	limit, window := 0, time.Duration(0)
	if probe.limiter != nil {
		limit, window = probe.limiter.limit, probe.limiter.window
	}
	r.Note("configured", map[string]any{"ttl": ttl.String(), "limit": limit, "window": window.String()})
	confirmed := false

	n := r.N(120, 2500)
	for ci := 0; ci < n; ci++ {
		rng := r.Rand(ci)
		synctest.Test(t, func(t *testing.T) {
			cfg := c38Creds[rng.Intn(len(c38Creds))]
			deps := &c38Deps{}
			w := &c38World{r: r, rng: rng, ci: ci, cfg: cfg, deps: deps, start: time.Now(), routes: protected,
				ref: &c38Ref{ttl: ttl, limit: limit, window: window, enabled: cfg.Username != "" && cfg.Password != "",
					sessions: map[string]*c38Session{}, attempts: map[string][]time.Time{}}}
			for i := 0; i < 2; i++ {
				opts := ServerOptions{Auth: cfg, Metrics: &c38Metrics{deps}, Logger: log.New(io.Discard, "", 0),
					LFSHandlers: NewLFSHandlers(LFSConfig{Enabled: true, S3Bucket: "b", TrackerTopic: "__lfs"}, log.New(io.Discard, "", 0))}
				if rng.Intn(4) > 0 {
					opts.Store = c38Store0(deps, rng)
				}
				if i == 1 && !w.ref.enabled {
					opts.Auth = AuthConfig{Username: "admin", Password: "secret"} // so that foreign tokens exist at all
				}
				m, err := NewMux(opts)
				if err != nil {
					t.Fatalf("NewMux: %v", err)
				}
				w.mux[i] = m
			}
			if !confirmed {
				confirmed = true
				sm, ok := w.mux[0].(*http.ServeMux)
				if !ok {
					r.Inconclusive("NewMux no longer returns *http.ServeMux: routes cannot be confirmed against the live mux")
				} else {
					for _, p := range protected {
						tp := p
						if strings.HasSuffix(tp, "/") {
							tp += "x"
						}
						if _, pat := sm.Handler(httptest.NewRequest("GET", tp, nil)); pat != p {
							r.Inconclusive(fmt.Sprintf("route %q from server.go is served by pattern %q on the live mux", p, pat))
						}
					}
				}
			}
			theme := rng.Intn(3) // 0 sessions, 1 rate limit, 2 mixed
			nev := 60 + rng.Intn(100)
			// every case starts with a foreign session and (usually) a real one
			{
				other := w.cfg
				if !w.ref.enabled {
					other = AuthConfig{Username: "admin", Password: "secret"}
				}
				save := w.cfg
				w.cfg = other
				w.login(1, c38Clients[0], "good", "POST")
				w.cfg = save
			}
			if rng.Intn(5) > 0 {
				w.login(0, c38Clients[rng.Intn(len(c38Clients))], "good", "POST")
			}
			for e := 0; e < nev && !w.bad; e++ {
				x := rng.Intn(100)
				switch theme {
				case 0:
					switch {
					case x < 8:
						w.login(0, c38Clients[rng.Intn(len(c38Clients))], "good", "POST")
					case x < 13:
						w.login(0, c38Clients[rng.Intn(len(c38Clients))], c38BadLogin[rng.Intn(len(c38BadLogin))], []string{"POST", "POST", "GET", "PUT"}[rng.Intn(4)])
					case x < 22:
						w.logout()
					case x < 40:
						w.advance()
					default:
						w.probe("", "")
					}
				case 1:
					switch {
					case x < 30:
						w.burst()
					case x < 45:
						w.login(0, c38Clients[rng.Intn(4)], c38BadLogin[rng.Intn(len(c38BadLogin))], "POST")
					case x < 75:
						w.advance()
					case x < 80:
						w.logout()
					default:
						w.probe("", "")
					}
				default:
					switch {
					case x < 10:
						w.login(0, c38Clients[rng.Intn(len(c38Clients))], "good", "POST")
					case x < 20:
						w.login(0, c38Clients[rng.Intn(len(c38Clients))], c38BadLogin[rng.Intn(len(c38BadLogin))], []string{"POST", "POST", "POST", "GET"}[rng.Intn(4)])
					case x < 28:
						w.burst()
					case x < 36:
						w.logout()
					case x < 56:
						w.advance()
					default:
						w.probe("", "")
					}
				}
				// a freshly issued session is probed at once (also the ones issued to a bad login, if any)
				if len(w.events) > 0 {
					last := w.events[len(w.events)-1]
					if strings.HasPrefix(last.Kind, "login@0") && strings.HasSuffix(last.Note, "-> session") {
						w.probe(w.tokens[len(w.tokens)-1], w.routes[rng.Intn(len(w.routes))])
					}
				}
			}
			// closing sweep: every token ever seen, on every protected route, now and after the TTL
			for pass := 0; pass < 2 && !w.bad; pass++ {
				for _, tok := range w.tokens {
					w.probe(tok, w.routes[rng.Intn(len(w.routes))])
				}
				if pass == 0 {
					time.Sleep(ttl + time.Duration(rng.Intn(3))*time.Nanosecond)
					w.log(c38Event{Kind: "advance", Note: "ttl"})
				}
			}
			nontrivial := w.liveServed > 0 && (w.deadRejected > 0 || w.limited > 0)
			var sig []string
			for _, e := range w.events {
				sig = append(sig, fmt.Sprintf("%s|%s|%s|%s|%d|%s", e.At, e.Kind, e.Method, e.Target, e.Status, e.Note))
			}
			r.Case(verifkit.Hash(cfg.Username, cfg.Password, sig), nontrivial)
			r.Count("events", int64(len(w.events)))
			if !w.ref.enabled {
				r.Count("cases_auth_disabled", 1)
			}
			if ci < 2 {
				ev := w.events
				if len(ev) > 25 {
					ev = ev[:25]
				}
				r.Sample(map[string]any{"username": cfg.Username, "password": cfg.Password, "theme": theme, "events_head": ev, "events_total": len(w.events)})
			}
		})
	}
	r.Floor("live_session_served", 200)
	r.Floor("live_session_answered_2xx_or_stream", 100)
	r.Floor("live_streams_opened", 10)
	r.Floor("once_valid_token_rejected", 100)
	r.Floor("must_reject_probes", 1000)
	r.Floor("must_reject_expired", 30)
	r.Floor("must_reject_logged_out", 30)
	r.Floor("must_reject_foreign_instance", 30)
	r.Floor("logins_rate_limited", 100)
	r.Floor("windows_exactly_at_limit", 20)
	r.Floor("served_routes", int64(len(protected)))
	r.Floor("cases_auth_disabled", 5)
}
