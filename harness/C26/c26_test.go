//go:build verif

package broker

import (
	"bytes"
	"encoding/binary"
	"encoding/hex"
	"errors"
	"fmt"
	"io"
	"math/rand"
	"net"
	"strconv"
	"strings"
	"testing"
	"time"

	"github.com/KafScale/platform/internal/verifkit"
)

// ---------------------------------------------------------------------------
// a net.Conn that hands out a fixed byte string in a prescribed chunking
// ---------------------------------------------------------------------------

type c26Conn struct {
	data     []byte
	pos      int
	chunks   []int // sizes of successive reads (cycled); 0 = a (0,nil) read
	ci       int
	eofWith  bool  // deliver io.EOF together with the last bytes
	failAt   int   // >=0: return failErr once pos reaches failAt
	failErr  error // non-EOF transport error
	reads    int
	maxAsked int
}

type c26Addr string

func (a c26Addr) Network() string { return "tcp" }
func (a c26Addr) String() string  { return string(a) }

func (c *c26Conn) Read(p []byte) (int, error) {
	c.reads++
	if len(p) == 0 {
		return 0, nil
	}
	if c.failAt >= 0 && c.pos >= c.failAt {
		return 0, c.failErr
	}
	if c.pos >= len(c.data) {
		return 0, io.EOF
	}
	n := len(p)
	if len(c.chunks) > 0 {
		k := c.chunks[c.ci%len(c.chunks)]
		c.ci++
		if k == 0 {
			return 0, nil
		}
		if k < n {
			n = k
		}
	}
	if rem := len(c.data) - c.pos; n > rem {
		n = rem
	}
	if c.failAt >= 0 && c.pos+n > c.failAt {
		n = c.failAt - c.pos
	}
	copy(p, c.data[c.pos:c.pos+n])
	c.pos += n
	if c.eofWith && c.pos == len(c.data) && c.failAt < 0 {
		return n, io.EOF
	}
	return n, nil
}
func (c *c26Conn) Write(p []byte) (int, error)        { return len(p), nil }
func (c *c26Conn) Close() error                       { return nil }
func (c *c26Conn) LocalAddr() net.Addr                { return c26Addr("192.0.2.1:9092") }
func (c *c26Conn) RemoteAddr() net.Addr               { return c26Addr("192.0.2.2:40000") }
func (c *c26Conn) SetDeadline(t time.Time) error      { return nil }
func (c *c26Conn) SetReadDeadline(t time.Time) error  { return nil }
func (c *c26Conn) SetWriteDeadline(t time.Time) error { return nil }

// c26Chunks picks a read schedule. hdrLen lets some schedules cut exactly around
// the end of the header.
func c26Chunks(rng *rand.Rand, hdrLen int) (name string, chunks []int) {
	switch rng.Intn(8) {
	case 0:
		return "whole", nil
	case 1:
		return "1-byte", []int{1}
	case 2:
		return "1-byte+zero-reads", []int{1, 0, 1, 1, 0}
	case 3:
		if hdrLen > 1 {
			return "cut-1-before-header-end", []int{hdrLen - 1, 1, 1, 4096}
		}
		return "whole", nil
	case 4:
		return "cut-at-header-end", []int{hdrLen, 4096}
	case 5:
		return "cut-1-after-header-end", []int{hdrLen + 1, 4096}
	case 6:
		k := 2 + rng.Intn(6)
		return fmt.Sprintf("fixed-%d", k), []int{k}
	default:
		n := 3 + rng.Intn(6)
		out := make([]int, n)
		for i := range out {
			out[i] = 1 + rng.Intn(40)
		}
		return "random", out
	}
}

// ---------------------------------------------------------------------------
// header generator (encoder written from the PROXY protocol spec v1/v2)
// ---------------------------------------------------------------------------

var c26Sig = []byte{'\r', '\n', '\r', '\n', 0x00, '\r', '\n', 'Q', 'U', 'I', 'T', '\n'}

type c26Header struct {
	Desc    string `json:"desc"`
	Expect  string `json:"expect"` // "addr" | "none" | "unix"
	SrcIP   net.IP `json:"src_ip,omitempty"`
	DstIP   net.IP `json:"dst_ip,omitempty"`
	SrcPort int    `json:"src_port"`
	DstPort int    `json:"dst_port"`
	SrcPath string `json:"src_path,omitempty"`
	DstPath string `json:"dst_path,omitempty"`
	V2      bool   `json:"v2"`
	Cmd     byte   `json:"cmd"`
	FamByte byte   `json:"fam_byte"`
	Payload []byte `json:"-"`
	Bytes   []byte `json:"-"`
}

func c26IP(rng *rand.Rand, v6 bool) net.IP {
	if !v6 {
		switch rng.Intn(5) {
		case 0:
			return net.IPv4(0, 0, 0, 0).To4()
		case 1:
			return net.IPv4(255, 255, 255, 255).To4()
		case 2:
			return net.IPv4(10, 0, 0, byte(rng.Intn(256))).To4()
		default:
			return net.IPv4(byte(rng.Intn(256)), byte(rng.Intn(256)), byte(rng.Intn(256)), byte(rng.Intn(256))).To4()
		}
	}
	ip := make(net.IP, 16)
	switch rng.Intn(6) {
	case 0: // ::1
		ip[15] = 1
	case 1: // 2001:db8::x
		ip[0], ip[1], ip[2], ip[3] = 0x20, 0x01, 0x0d, 0xb8
		ip[15] = byte(1 + rng.Intn(255))
	case 2: // all ones
		for i := range ip {
			ip[i] = 0xff
		}
	case 3: // fe80:: link local with zeros in the middle
		ip[0], ip[1] = 0xfe, 0x80
		ip[8] = byte(rng.Intn(256))
		ip[15] = byte(rng.Intn(256))
	default:
		for i := range ip {
			ip[i] = byte(rng.Intn(256))
		}
		if ip[0] == 0 {
			ip[0] = 0x20
		}
	}
	return ip
}

func c26Port(rng *rand.Rand) int {
	switch rng.Intn(6) {
	case 0:
		return 0
	case 1:
		return 65535
	case 2:
		return 9092
	default:
		return rng.Intn(65536)
	}
}

func c26TLVs(rng *rand.Rand) []byte {
	var out []byte
	types := []byte{0x01, 0x02, 0x04, 0x05, 0x30, 0xE0, 0xEA}
	for i, n := 0, rng.Intn(4); i < n; i++ {
		l := rng.Intn(24)
		if rng.Intn(8) == 0 {
			l = 200 + rng.Intn(300)
		}
		if rng.Intn(40) == 0 {
			// a large TLV (an SSL certificate chain, NOOP padding): the spec allows an address+TLV block of
			// up to 65535 bytes, far beyond any default I/O buffer (4 KiB, 16 KiB, 64 KiB boundaries)
			l = []int{3900, 4080, 4081, 4200, 8300, 16400, 30000, 60000}[rng.Intn(8)]
			if len(out)+l+3+216 > 65535 {
				l = 200
			}
		}
		v := make([]byte, l)
		rng.Read(v)
		out = append(out, types[rng.Intn(len(types))], byte(l>>8), byte(l))
		out = append(out, v...)
	}
	return out
}

func c26GenHeader(rng *rand.Rand) c26Header {
	h := c26Header{SrcPort: c26Port(rng), DstPort: c26Port(rng)}
	if rng.Intn(5) < 2 { // ---- v1 (human readable) ----
		switch rng.Intn(5) {
		case 0:
			h.Desc, h.Expect = "v1 UNKNOWN (short form)", "none"
			h.Bytes = []byte("PROXY UNKNOWN\r\n")
		case 1:
			h.Desc, h.Expect = "v1 UNKNOWN with addresses (to be ignored)", "none"
			h.Bytes = []byte(fmt.Sprintf("PROXY UNKNOWN %s %s %d %d\r\n", c26IP(rng, true), c26IP(rng, true), h.SrcPort, h.DstPort))
		case 2:
			h.Desc, h.Expect = "v1 TCP6", "addr"
			h.SrcIP, h.DstIP = c26IP(rng, true), c26IP(rng, true)
			h.Bytes = []byte(fmt.Sprintf("PROXY TCP6 %s %s %d %d\r\n", h.SrcIP, h.DstIP, h.SrcPort, h.DstPort))
		default:
			h.Desc, h.Expect = "v1 TCP4", "addr"
			h.SrcIP, h.DstIP = c26IP(rng, false), c26IP(rng, false)
			h.Bytes = []byte(fmt.Sprintf("PROXY TCP4 %s %s %d %d\r\n", h.SrcIP, h.DstIP, h.SrcPort, h.DstPort))
		}
		return h
	}
	// ---- v2 (binary) ----
	h.V2 = true
	h.Cmd = 1
	if rng.Intn(4) == 0 {
		h.Cmd = 0 // LOCAL
	}
	// the seven family/transport bytes the specification allows
	fams := []byte{0x11, 0x11, 0x11, 0x21, 0x21, 0x21, 0x00, 0x12, 0x22, 0x31, 0x32}
	h.FamByte = fams[rng.Intn(len(fams))]
	if h.Cmd == 0 && rng.Intn(2) == 0 {
		h.FamByte = 0x00
	}
	var addr []byte
	switch h.FamByte >> 4 {
	case 1:
		h.SrcIP, h.DstIP = c26IP(rng, false), c26IP(rng, false)
		addr = append(addr, h.SrcIP...)
		addr = append(addr, h.DstIP...)
		addr = binary.BigEndian.AppendUint16(addr, uint16(h.SrcPort))
		addr = binary.BigEndian.AppendUint16(addr, uint16(h.DstPort))
		h.Expect = "addr"
	case 2:
		h.SrcIP, h.DstIP = c26IP(rng, true), c26IP(rng, true)
		addr = append(addr, h.SrcIP...)
		addr = append(addr, h.DstIP...)
		addr = binary.BigEndian.AppendUint16(addr, uint16(h.SrcPort))
		addr = binary.BigEndian.AppendUint16(addr, uint16(h.DstPort))
		h.Expect = "addr"
	case 3:
		h.SrcPath = "/var/run/src-" + strconv.Itoa(rng.Intn(1000)) + ".sock"
		h.DstPath = "/var/run/kafscale.sock"
		a := make([]byte, 216)
		copy(a[0:108], h.SrcPath)
		copy(a[108:216], h.DstPath)
		addr = a
		h.Expect = "unix"
	default:
		h.Expect = "none"
	}
	if h.Cmd == 0 {
		h.Expect = "none" // LOCAL: the receiver must ignore whatever address block follows
	}
	h.Payload = append(addr, c26TLVs(rng)...)
	cmdName := map[byte]string{0: "LOCAL", 1: "PROXY"}[h.Cmd]
	famName := map[byte]string{0x00: "UNSPEC", 0x11: "TCP/IPv4", 0x12: "UDP/IPv4", 0x21: "TCP/IPv6", 0x22: "UDP/IPv6", 0x31: "UNIX stream", 0x32: "UNIX dgram"}[h.FamByte]
	h.Desc = fmt.Sprintf("v2 %s %s (0x%02x) addr+tlv=%d bytes (tlv %d)", cmdName, famName, h.FamByte, len(h.Payload), len(h.Payload)-len(addr))
	b := append([]byte(nil), c26Sig...)
	b = append(b, 0x20|h.Cmd, h.FamByte)
	b = binary.BigEndian.AppendUint16(b, uint16(len(h.Payload)))
	b = append(b, h.Payload...)
	h.Bytes = b
	return h
}

func c26Trailing(rng *rand.Rand) []byte {
	switch rng.Intn(8) {
	case 0:
		return nil
	case 1: // looks like a second header: must NOT be consumed
		return []byte("PROXY TCP4 1.1.1.1 2.2.2.2 1 2\r\nrest")
	case 2:
		return append(append([]byte(nil), c26Sig...), 0x21, 0x11, 0x00, 0x0c, 1, 2, 3, 4, 5, 6, 7, 8, 0, 1, 0, 2, 'x')
	case 3:
		return []byte("\r\n\r\n")
	case 4: // a Kafka ApiVersions request frame
		body := []byte{0, 18, 0, 3, 0, 0, 0, 7, 0, 4, 'c', 'l', 'i', '1', 0}
		return append(binary.BigEndian.AppendUint32(nil, uint32(len(body))), body...)
	default:
		n := 1 + rng.Intn(300)
		if rng.Intn(6) == 0 {
			n = 4000 + rng.Intn(6000) // larger than bufio's buffer
		}
		b := make([]byte, n)
		rng.Read(b)
		return b
	}
}

// c26Drain reads everything from the wrapped conn, either with io.ReadAll or with
// PRNG-sized read buffers.
func c26Drain(rng *rand.Rand, c net.Conn) (out []byte, err error, panicked any) {
	defer func() {
		if p := recover(); p != nil {
			panicked = p
		}
	}()
	if rng.Intn(2) == 0 {
		out, err = io.ReadAll(c)
		return out, err, nil
	}
	for i := 0; i < 1<<20; i++ {
		buf := make([]byte, 1+rng.Intn(64))
		n, e := c.Read(buf)
		out = append(out, buf[:n]...)
		if e == io.EOF {
			return out, nil, nil
		}
		if e != nil {
			return out, e, nil
		}
	}
	return out, errors.New("harness: drain did not terminate"), nil
}

func c26Call(conn net.Conn) (w net.Conn, info *ProxyInfo, err error, panicked any) {
	defer func() {
		if p := recover(); p != nil {
			panicked = fmt.Sprint(p)
		}
	}()
	w, info, err = ReadProxyProtocol(conn)
	return
}

func c26SameIP(text string, want net.IP) bool {
	got := net.ParseIP(text)
	return got != nil && got.Equal(want)
}

func c26AddrOK(addr string, ip net.IP, port int) bool {
	host, p, err := net.SplitHostPort(addr)
	if err != nil {
		return false
	}
	return c26SameIP(host, ip) && p == strconv.Itoa(port)
}

// c26LowNibbleModel predicts what a parser would report that takes the address
// family from the LOW nibble of byte 13 (which is the transport protocol). Used
// only to give a v2 address violation a narrow class.
func c26LowNibbleModel(h c26Header) string {
	switch h.FamByte & 0x0f {
	case 1:
		if len(h.Payload) < 12 {
			return "err"
		}
		p := h.Payload
		return fmt.Sprintf("%s|%s|%d|%d", net.IP(p[0:4]), net.IP(p[4:8]), binary.BigEndian.Uint16(p[8:10]), binary.BigEndian.Uint16(p[10:12]))
	case 2:
		if len(h.Payload) < 36 {
			return "err"
		}
		p := h.Payload
		return fmt.Sprintf("%s|%s|%d|%d", net.IP(p[0:16]), net.IP(p[16:32]), binary.BigEndian.Uint16(p[32:34]), binary.BigEndian.Uint16(p[34:36]))
	}
	return "nil"
}

func c26Observed(info *ProxyInfo, err error) string {
	if err != nil {
		return "err"
	}
	if info == nil {
		return "nil"
	}
	return fmt.Sprintf("%s|%s|%d|%d", info.SourceIP, info.DestIP, info.SourcePort, info.DestPort)
}

func c26InfoJSON(info *ProxyInfo, err error) map[string]any {
	m := map[string]any{"info": info}
	if err != nil {
		m["err"] = err.Error()
	}
	return m
}

// ---------------------------------------------------------------------------
// leg "valid": valid headers + trailing stream
// ---------------------------------------------------------------------------

const c26RuleValid = "generated VALID headers (encoder written from the PROXY protocol spec): v1 TCP4/TCP6/UNKNOWN(with and without addresses); v2 LOCAL/PROXY x the seven legal family bytes (UNSPEC, TCP/UDP over IPv4, TCP/UDP over IPv6, UNIX stream/dgram) with 0-3 TLVs (mostly up to 500 bytes, 1 in 40 between 3.9 and 60 KB so that the header exceeds common buffer sizes), followed by a trailing stream (empty, random 1..10000 bytes, a Kafka frame, something that looks like a second PROXY header, CRLFs), delivered by a net.Conn whose Read returns a prescribed chunking (whole, 1 byte at a time, (0,nil) reads, cuts exactly 1 before / at / 1 after the header end, fixed k, random; EOF alone or together with the last bytes; 1 in 8 through a real net.Pipe writer). Oracle: (a) err==nil; (b) when the header encodes IP endpoints (v1 TCP4/6, v2 PROXY INET/INET6): info non-nil, not Local, SourceIP/DestIP parse to the encoded IPs, ports equal, SourceAddr/DestAddr split into the same IP and port; (c) when it encodes none (UNKNOWN, LOCAL, UNSPEC): no address may be reported as proxied; UNIX: nothing or the socket path; (d) everything read from the wrapped conn (io.ReadAll or PRNG-sized reads) == the trailing bytes exactly; non-trivial = header crossed a read boundary and trailing bytes were non-empty"

// replay support: bin/check C26 --replay <witness.json> re-runs exactly one case
// (the witness names section, case index and seed; inputs are re-derived from them).
var c26OnlySection, c26OnlyCase = "", -1

func c26Skip(section string, ci int) bool {
	return c26OnlyCase >= 0 && (section != c26OnlySection || ci != c26OnlyCase)
}

func c26N(section string, n int) int {
	if c26OnlyCase >= 0 {
		if section != c26OnlySection {
			return 0
		}
		return c26OnlyCase + 1
	}
	return n
}

func c26Valid(r *verifkit.Run) {
	n := c26N("valid", r.N(6000, 150000))
	for ci := 0; ci < n; ci++ {
		if c26Skip("valid", ci) {
			continue
		}
		rng := r.Rand(ci)
		h := c26GenHeader(rng)
		trail := c26Trailing(rng)
		stream := append(append([]byte(nil), h.Bytes...), trail...)
		chName, chunks := c26Chunks(rng, len(h.Bytes))
		replay := map[string]any{"section": "valid", "case": ci, "header": h, "header_hex": hex.EncodeToString(h.Bytes), "trailing_len": len(trail), "trailing_hex_prefix": hex.EncodeToString(trail[:min(len(trail), 48)]), "chunking": chName, "chunks": chunks}
		var conn net.Conn
		var cleanup func()
		viaPipe := rng.Intn(8) == 0
		eofWith := rng.Intn(3) == 0
		if viaPipe {
			a, b := net.Pipe()
			go func() {
				defer b.Close()
				pos, k := 0, 0
				for pos < len(stream) {
					sz := len(stream) - pos
					if len(chunks) > 0 {
						if c := chunks[k%len(chunks)]; c > 0 && c < sz {
							sz = c
						}
						k++
					}
					if _, err := b.Write(stream[pos : pos+sz]); err != nil {
						return
					}
					pos += sz
				}
			}()
			conn, cleanup = a, func() { a.Close(); b.Close() }
			replay["via"] = "net.Pipe"
		} else {
			conn, cleanup = &c26Conn{data: stream, chunks: chunks, eofWith: eofWith, failAt: -1}, func() {}
			replay["eof_with_last_bytes"] = eofWith
		}
		wrapped, info, err, pn := c26Call(conn)
		kind := h.Desc
		if i := strings.Index(kind, " addr+tlv"); i > 0 {
			kind = kind[:i]
		}
		r.Seen("header_kinds", kind)
		r.Seen("chunkings", chName)
		if pn != nil {
			r.Violation("panic_on_valid_header", fmt.Sprintf("ReadProxyProtocol panicked on %s: %v", h.Desc, pn), replay)
			cleanup()
			continue
		}
		replay["observed"] = c26InfoJSON(info, err)
		addrOK := true
		fail := func(generic, summary string) {
			addrOK = false
			cls := generic
			if h.V2 && h.Cmd == 1 && c26Observed(info, err) == c26LowNibbleModel(h) && (h.FamByte>>4) != (h.FamByte&0x0f) {
				cls = "v2_address_family_taken_from_transport_nibble"
			}
			r.Violation(cls, summary, replay)
		}
		switch {
		case err != nil:
			fail("error_on_valid_header", fmt.Sprintf("%s: valid header rejected: %v", h.Desc, err))
		case h.Expect == "addr":
			switch {
			case info == nil:
				fail("addresses_not_reported", fmt.Sprintf("%s: header encodes %s:%d -> %s:%d but no ProxyInfo was returned", h.Desc, h.SrcIP, h.SrcPort, h.DstIP, h.DstPort))
			case info.Local:
				fail("proxied_connection_reported_local", fmt.Sprintf("%s: reported as Local", h.Desc))
			case !c26SameIP(info.SourceIP, h.SrcIP) || !c26SameIP(info.DestIP, h.DstIP) || info.SourcePort != h.SrcPort || info.DestPort != h.DstPort:
				fail("wrong_addresses_reported", fmt.Sprintf("%s: encodes %s:%d -> %s:%d, reported %s:%d -> %s:%d", h.Desc, h.SrcIP, h.SrcPort, h.DstIP, h.DstPort, info.SourceIP, info.SourcePort, info.DestIP, info.DestPort))
			case !c26AddrOK(info.SourceAddr, h.SrcIP, h.SrcPort) || !c26AddrOK(info.DestAddr, h.DstIP, h.DstPort):
				fail("wrong_addr_strings_reported", fmt.Sprintf("%s: encodes %s:%d -> %s:%d, SourceAddr=%q DestAddr=%q", h.Desc, h.SrcIP, h.SrcPort, h.DstIP, h.DstPort, info.SourceAddr, info.DestAddr))
			default:
				r.Count("address_reports_verified", 1)
				if h.V2 {
					r.Count(fmt.Sprintf("verified_v2_fam_0x%02x", h.FamByte), 1)
				}
			}
		case h.Expect == "none":
			if info != nil && !info.Local && (info.SourceAddr != "" || info.DestAddr != "" || info.SourceIP != "" || info.DestIP != "") {
				fail("addresses_reported_for_header_without_addresses", fmt.Sprintf("%s: encodes no endpoint but %s -> %s was reported as proxied", h.Desc, info.SourceAddr, info.DestAddr))
			} else {
				r.Count("no_address_headers_verified", 1)
			}
		case h.Expect == "unix":
			if info != nil && !info.Local && (info.SourceIP != "" || info.DestIP != "" || (info.SourceAddr != "" && info.SourceAddr != h.SrcPath) || (info.DestAddr != "" && info.DestAddr != h.DstPath)) {
				fail("wrong_addresses_reported", fmt.Sprintf("%s: encodes unix paths %q -> %q, reported %s -> %s", h.Desc, h.SrcPath, h.DstPath, info.SourceAddr, info.DestAddr))
			} else {
				r.Count("unix_headers_verified", 1)
			}
		}
		// (d) stream preservation — judged whenever the parser did not fail
		streamChecked := false
		if err == nil && wrapped != nil {
			got, derr, dpn := c26Drain(rng, wrapped)
			switch {
			case dpn != nil:
				r.Violation("panic_reading_wrapped_conn", fmt.Sprintf("%s: reading the wrapped conn panicked: %v", h.Desc, dpn), replay)
			case derr != nil:
				r.Violation("wrapped_conn_read_error", fmt.Sprintf("%s: reading the wrapped conn failed: %v", h.Desc, derr), replay)
			case !bytes.Equal(got, trail):
				replay["read_len"] = len(got)
				replay["read_hex_prefix"] = hex.EncodeToString(got[:min(len(got), 48)])
				cls := "bytes_after_header_changed"
				if len(got) < len(trail) && bytes.Equal(got, trail[len(trail)-len(got):]) {
					cls = "bytes_after_header_lost"
				} else if len(got) > len(trail) && bytes.Equal(got[len(got)-len(trail):], trail) {
					cls = "header_bytes_leaked_into_stream"
				}
				r.Violation(cls, fmt.Sprintf("%s: %d trailing bytes sent, %d read back (differ)", h.Desc, len(trail), len(got)), replay)
			default:
				streamChecked = true
				r.Count("trailing_streams_verified", 1)
				r.Count("trailing_bytes_verified", int64(len(trail)))
			}
		}
		cleanup()
		split := len(chunks) > 0 && chunks[0] < len(h.Bytes)
		if split {
			r.Count("headers_split_across_reads", 1)
		}
		r.Case(verifkit.Hash(hex.EncodeToString(h.Bytes), len(trail), chName, chunks, viaPipe), split && len(trail) > 0 && streamChecked && addrOK)
		if ci < 2 || c26OnlyCase >= 0 {
			r.Sample(replay)
		}
	}
	if c26OnlyCase < 0 {
		r.Floor("address_reports_verified", 500)
		r.Floor("trailing_streams_verified", 1000)
		r.Floor("headers_split_across_reads", 500)
		r.Floor("header_kinds", 12)
	}
}

// ---------------------------------------------------------------------------
// leg "plain": connections without a header
// ---------------------------------------------------------------------------

func c26Plain(rng *rand.Rand) (desc string, b []byte) {
	rnd := func(n int) []byte { x := make([]byte, n); rng.Read(x); return x }
	switch rng.Intn(8) {
	case 0: // Kafka frame
		body := append([]byte{0, byte(rng.Intn(60)), 0, byte(rng.Intn(12)), 0, 0, 0, byte(rng.Intn(256)), 0, 3, 'a', 'b', 'c'}, rnd(rng.Intn(200))...)
		return "kafka frame", append(binary.BigEndian.AppendUint32(nil, uint32(len(body))), body...)
	case 1: // shares k<12 bytes with the v2 signature, then diverges
		k := 1 + rng.Intn(11)
		x := append(append([]byte(nil), c26Sig[:k]...), rnd(12+rng.Intn(100))...)
		if x[k] == c26Sig[k] {
			x[k] ^= 0x55
		}
		return fmt.Sprintf("v2 signature prefix of %d bytes then other bytes", k), x
	case 2: // shares k<5 bytes with "PROXY"
		k := 1 + rng.Intn(4)
		x := append([]byte("PROXY"[:k]), rnd(12+rng.Intn(100))...)
		if x[k] == "PROXY"[k] {
			x[k] ^= 0x55
		}
		return fmt.Sprintf("first %d bytes of PROXY then other bytes", k), x
	case 3:
		return "lower-case proxy line", []byte("proxy tcp4 1.2.3.4 5.6.7.8 1 2\r\n" + string(rnd(20)))
	case 4:
		return "TLS client hello-ish", append([]byte{0x16, 0x03, 0x01, 0x02, 0x00, 0x01, 0x00, 0x01, 0xfc, 0x03, 0x03}, rnd(40+rng.Intn(300))...)
	case 5:
		return "text", []byte("GET / HTTP/1.1\r\nHost: broker\r\n\r\n")
	case 6:
		x := rnd(4097 + rng.Intn(9000))
		x[0] |= 0x80
		return "large random", x
	default:
		x := rnd(12 + rng.Intn(200))
		return "random", x
	}
}

const c26RulePlain = "header-less connections: byte streams of >= 12 bytes that start neither with 'PROXY' nor with the 12-byte v2 signature (Kafka frames, streams sharing 1..11 leading bytes with the v2 signature or 1..4 with 'PROXY', lower-case 'proxy' lines, TLS/HTTP-looking bytes, random up to 13 KB), delivered in the same chunkings as leg valid. Oracle: ReadProxyProtocol returns nil info and nil error, and the wrapped conn yields exactly the original bytes. Shorter streams (1..11 bytes) are outside what the statement promises (a truncated signature is indistinguishable from a slow header): for them only 'no panic' and 'if the parser answered (nil,nil) the bytes are all still there' are judged; their outcomes are counted; non-trivial = near-miss prefix (>=1 shared signature byte) or stream delivered in more than one read"

func c26PlainLeg(r *verifkit.Run) {
	n := c26N("plain", r.N(5000, 120000))
	for ci := 0; ci < n; ci++ {
		if c26Skip("plain", ci) {
			continue
		}
		rng := r.Rand(1000000 + ci)
		desc, data := c26Plain(rng)
		short := false
		if rng.Intn(6) == 0 { // truncated variant: unspecified zone
			data = data[:1+rng.Intn(11)]
			short = true
			desc += " (truncated to <12 bytes)"
		}
		if bytes.HasPrefix(data, []byte("PROXY")) || bytes.HasPrefix(data, c26Sig) {
			continue // cannot happen by construction; never judge a stream that does carry a signature
		}
		chName, chunks := c26Chunks(rng, min(len(data), 12))
		conn := &c26Conn{data: data, chunks: chunks, eofWith: rng.Intn(3) == 0, failAt: -1}
		replay := map[string]any{"section": "plain", "case": ci, "desc": desc, "len": len(data), "hex_prefix": hex.EncodeToString(data[:min(len(data), 64)]), "chunking": chName, "chunks": chunks}
		wrapped, info, err, pn := c26Call(conn)
		if pn != nil {
			r.Violation("panic_on_headerless_stream", fmt.Sprintf("ReadProxyProtocol panicked on %s: %v", desc, pn), replay)
			continue
		}
		replay["observed"] = c26InfoJSON(info, err)
		ok := true
		if short {
			r.Count("short_streams", 1)
			if err != nil {
				r.Count("short_streams_answered_with_error_(not_judged)", 1)
			}
			if info != nil {
				r.Count("short_streams_answered_with_info_(not_judged)", 1)
			}
		} else if err != nil || info != nil {
			ok = false
			r.Violation("headerless_stream_not_passed_through", fmt.Sprintf("%s (%d bytes): expected (nil info, nil error), got info=%+v err=%v", desc, len(data), info, err), replay)
		}
		if err == nil && info == nil && wrapped != nil {
			got, derr, dpn := c26Drain(rng, wrapped)
			switch {
			case dpn != nil:
				ok = false
				r.Violation("panic_reading_wrapped_conn", fmt.Sprintf("%s: reading the wrapped conn panicked: %v", desc, dpn), replay)
			case derr != nil:
				ok = false
				r.Violation("wrapped_conn_read_error", fmt.Sprintf("%s: reading the wrapped conn failed: %v", desc, derr), replay)
			case !bytes.Equal(got, data):
				ok = false
				replay["read_len"] = len(got)
				replay["read_hex_prefix"] = hex.EncodeToString(got[:min(len(got), 64)])
				r.Violation("headerless_stream_bytes_changed", fmt.Sprintf("%s: %d bytes sent, %d read back (differ)", desc, len(data), len(got)), replay)
			default:
				r.Count("streams_passed_through_verified", 1)
				r.Count("bytes_verified", int64(len(data)))
			}
		}
		near := strings.Contains(desc, "prefix") || strings.Contains(desc, "first ")
		if near && !short {
			r.Count("near_miss_prefix_streams", 1)
		}
		r.Seen("plain_kinds", desc)
		r.Case(verifkit.Hash(hex.EncodeToString(data[:min(len(data), 32)]), len(data), chName, chunks), ok && !short && (near || (len(chunks) > 0 && chunks[0] < len(data))))
		if ci < 1 || c26OnlyCase >= 0 {
			r.Sample(replay)
		}
	}
	if c26OnlyCase < 0 {
		r.Floor("streams_passed_through_verified", 1000)
		r.Floor("near_miss_prefix_streams", 300)
	}
}

// ---------------------------------------------------------------------------
// leg "fuzz": arbitrary bytes never crash the parser
// ---------------------------------------------------------------------------

const c26RuleFuzz = "arbitrary and hostile byte strings: valid headers mutated (bit flips, truncation at every length, length field set to 0/short/65535/longer than the data, version/command/family nibbles replaced, v1 lines without CRLF, over-long v1 lines, non-numeric ports, missing fields, NULs), pure random bytes with a signature glued in front, and transport errors (non-EOF) injected at a PRNG offset; each through a PRNG chunking. Oracle: ReadProxyProtocol and a following drain of the wrapped conn return (any value, any error) without panicking; the call must also terminate (the conn ends with EOF, so a parser that spins is caught by the go test timeout = broken, never silently). Outcomes are only counted; non-trivial = input that reached the v1 or v2 parser (starts with a signature)"

func c26Fuzz(r *verifkit.Run) {
	n := c26N("fuzz", r.N(12000, 300000))
	boom := errors.New("harness: injected transport error")
	for ci := 0; ci < n; ci++ {
		if c26Skip("fuzz", ci) {
			continue
		}
		rng := r.Rand(2000000 + ci)
		var data []byte
		var how string
		h := c26GenHeader(rng)
		base := append(append([]byte(nil), h.Bytes...), c26Trailing(rng)...)
		switch rng.Intn(10) {
		case 0:
			how = "truncate"
			data = base[:rng.Intn(len(base)+1)]
		case 1:
			how = "bitflips"
			data = base
			for k, m := 0, 1+rng.Intn(4); k < m; k++ {
				i := rng.Intn(min(len(data), len(h.Bytes)+2))
				data[i] ^= 1 << uint(rng.Intn(8))
			}
		case 2:
			how = "v2 length field"
			if h.V2 {
				lens := []int{0, 1, 11, 12, 35, 36, 215, 216, 65535, len(h.Payload) + 1, len(h.Payload) - 1, rng.Intn(65536)}
				l := lens[rng.Intn(len(lens))]
				if l < 0 {
					l = 0
				}
				binary.BigEndian.PutUint16(base[14:16], uint16(l))
			}
			data = base
		case 3:
			how = "v2 nibbles"
			if h.V2 {
				base[12] = byte(rng.Intn(256))
				base[13] = byte(rng.Intn(256))
				if rng.Intn(2) == 0 {
					base = base[:min(len(base), 16+rng.Intn(40))]
				}
			}
			data = base
		case 4:
			how = "v1 malformed"
			forms := []string{"PROXY", "PROXY ", "PROXY\r\n", "PROXY \r\n", "PROXY TCP4\r\n", "PROXY TCP4 1.2.3.4\r\n", "PROXY TCP4 1.2.3.4 5.6.7.8 1\r\n",
				"PROXY TCP4 1.2.3.4 5.6.7.8 x y\r\n", "PROXY TCP4 999.1.1.1 ::: 99999999999999999999 -1\r\n", "PROXY TCP4 1.2.3.4 5.6.7.8 1 2", "PROXY TCP4 1.2.3.4 5.6.7.8 1 2\n",
				"PROXY UNKNOWN", "PROXY unknown\r\n", "PROXY\x00TCP4 \x00 \x00 \x00 \x00\r\n", "PROXY TCP9 [::1] [::2] 1 2\r\n", "PROXYPROXYPROXY\r\n",
				"PROXY " + strings.Repeat("A", 300) + "\r\n", "PROXY " + strings.Repeat(" ", 250) + "\r\n", "PROXY TCP6 " + strings.Repeat("f:", 120) + "\r\n"}
			data = append([]byte(forms[rng.Intn(len(forms))]), c26Trailing(rng)...)
		case 5:
			how = "signature + random"
			x := make([]byte, rng.Intn(80))
			rng.Read(x)
			if rng.Intn(2) == 0 {
				data = append(append([]byte(nil), c26Sig...), x...)
			} else {
				data = append([]byte("PROXY "), x...)
			}
		case 6:
			how = "signature prefix only"
			if rng.Intn(2) == 0 {
				data = append([]byte(nil), c26Sig[:rng.Intn(13)]...)
			} else {
				data = []byte("PROXY UNKNOWN\r\n"[:rng.Intn(16)])
			}
		case 7:
			how = "random"
			data = make([]byte, rng.Intn(64))
			rng.Read(data)
		case 8:
			how = "empty or tiny"
			data = []byte{'\r', '\n', '\r', '\n', 0}[:rng.Intn(6)]
		default:
			how = "valid (transport error injected)"
			data = base
		}
		_, chunks := c26Chunks(rng, min(len(h.Bytes), max(len(data), 1)))
		conn := &c26Conn{data: data, chunks: chunks, eofWith: rng.Intn(3) == 0, failAt: -1}
		if strings.HasPrefix(how, "valid") || rng.Intn(10) == 0 {
			conn.failAt = rng.Intn(len(data) + 1)
			conn.failErr = boom
		}
		replay := map[string]any{"section": "fuzz", "case": ci, "how": how, "hex": hex.EncodeToString(data[:min(len(data), 400)]), "len": len(data), "chunks": chunks, "fail_at": conn.failAt}
		wrapped, info, err, pn := c26Call(conn)
		if pn != nil {
			r.Violation("panic_in_parser", fmt.Sprintf("ReadProxyProtocol panicked (%s): %v", how, pn), replay)
			continue
		}
		switch {
		case err != nil:
			r.Count("outcome_error", 1)
		case info == nil:
			r.Count("outcome_no_header", 1)
		case info.Local:
			r.Count("outcome_local", 1)
		default:
			r.Count("outcome_addresses", 1)
		}
		if wrapped != nil {
			if _, _, dpn := c26Drain(rng, wrapped); dpn != nil {
				r.Violation("panic_reading_wrapped_conn", fmt.Sprintf("draining the wrapped conn panicked (%s): %v", how, dpn), replay)
			}
		}
		r.Seen("mutations", how)
		reached := bytes.HasPrefix(data, []byte("PROXY")) || bytes.HasPrefix(data, c26Sig)
		if reached {
			r.Count("inputs_reaching_a_header_parser", 1)
		}
		r.Case(verifkit.Hash(hex.EncodeToString(data[:min(len(data), 64)]), len(data), chunks, conn.failAt), reached)
		if ci < 1 || c26OnlyCase >= 0 {
			r.Sample(replay)
		}
	}
	if c26OnlyCase < 0 {
		r.Floor("inputs_reaching_a_header_parser", 2000)
		r.Floor("outcome_error", 500)
	}
}

func TestVerifC26(t *testing.T) {
	r := verifkit.Start(t, "C26", "stream")
	defer r.Finish("(1 valid) "+c26RuleValid+" ;; (2 plain) "+c26RulePlain+" ;; (3 fuzz) "+c26RuleFuzz,
		"addresses are compared semantically (net.IP.Equal), not textually",
		"TLV type 0x03 (CRC32c) is not generated: a receiver may legitimately verify it",
		"streams shorter than the 12-byte v2 signature: only no-panic and pass-through-if-accepted are judged (DESIGN.md C26)",
		"outcome (info/error) of malformed input is not judged: the statement only promises no crash")
	if rp := verifkit.Replay(); rp != nil {
		inner, _ := rp["replay"].(map[string]any)
		sec, _ := inner["section"].(string)
		ci, okc := inner["case"].(float64)
		seed, oks := rp["seed"].(float64)
		if sec == "" || !okc || !oks {
			t.Fatalf("VERIF_REPLAY: witness lacks replay.section / replay.case / seed")
		}
		c26OnlySection, c26OnlyCase, r.Seed = sec, int(ci), int64(seed)
		r.Note("replayed", map[string]any{"section": sec, "case": int(ci), "seed": int64(seed)})
	}
	c26Valid(r)
	c26PlainLeg(r)
	c26Fuzz(r)
}
