//go:build verif

package metadata

// C20: after any sequence of lease changes and watch-stream interruptions, once
// changes stop, the proxy's partition and group routing tables match the owners
// recorded in etcd.
//
// The real routers run against a real (embedded) etcd. The harness replaces the
// client's KV and Watcher interfaces (each case lives in its own etcd key
// namespace so that cases run in parallel) and uses them as schedule points:
//
//	pre    lease changes before the router is constructed
//	gap    changes made after a loadAll Get has been answered and before the
//	       router calls Watch (start-up and every reconnect)
//	live   changes while the watch is established
//	pause  changes after the harness closed the watch channel it handed out and
//	       before the router's reload Get
//
// After the last round a sentinel lease key is written (only once the server has
// confirmed the router's watch). Once the router shows the sentinel, its table
// minus the sentinel must equal a fresh Get(prefix).

import (
	"context"
	"fmt"
	"io"
	"log/slog"
	"sort"
	"strings"
	"sync"
	"sync/atomic"
	"testing"
	"time"

	"github.com/KafScale/platform/internal/testutil"
	"github.com/KafScale/platform/internal/verifkit"
	clientv3 "go.etcd.io/etcd/client/v3"
	"go.etcd.io/etcd/client/v3/namespace"
)

type c20Op struct {
	Phase string `json:"phase"` // pre | gap | live | pause | sentinel
	Round int    `json:"round"`
	Kind  string `json:"kind"` // put | put_leased | delete | revoke
	Key   int    `json:"key"`  // index into the case's key list
	Name  string `json:"name"`
	Val   string `json:"val,omitempty"`
	Noop  bool   `json:"noop,omitempty"` // delete of an absent key: no revision, no event, not a change
}

type c20Round struct {
	Gap       []c20Op `json:"gap"`
	Live      []c20Op `json:"live"`
	Interrupt string  `json:"interrupt,omitempty"` // "", close, close_after_delivery, error_then_close
	Pause     []c20Op `json:"pause"`
	// ReloadFails: the reload Get that opens this round (after an interruption) returns an error instead of an
	// answer. This is a fault beyond a pure watch-stream interruption; divergence that only it explains is
	// recorded as an observation, not judged.
	ReloadFails bool `json:"reload_fails,omitempty"`
}

type c20Plan struct {
	Label  string     `json:"label,omitempty"` // matrix leg: schedule point / kind
	Router string     `json:"router"`
	Keys   []string   `json:"keys"`
	Pre    []c20Op    `json:"pre"`
	Rounds []c20Round `json:"rounds"`
	// Bulk > 0: that many static leases exist before the router starts and are never changed; their names come in
	// pairs in which one etcd key is a prefix of the next ("bulk/7" and "bulk/7/0", "bulk7" and "bulk7-x"), so a
	// table far larger than the handful of changing keys has to be loaded (and re-loaded after every interruption).
	Bulk int `json:"bulk,omitempty"`
}

func c20BulkKeys(router string, n int) []c20Key {
	out := make([]c20Key, 0, n)
	for i := 0; len(out) < n; i++ {
		if router == "group" {
			out = append(out, c20Key{Group: fmt.Sprintf("bulk%d", i)})
			if len(out) < n {
				out = append(out, c20Key{Group: fmt.Sprintf("bulk%d-x", i)})
			}
			continue
		}
		out = append(out, c20Key{Topic: "bulk", Part: int32(i)})
		if len(out) < n {
			out = append(out, c20Key{Topic: fmt.Sprintf("bulk/%d", i), Part: 0})
		}
	}
	return out
}

// key universe -------------------------------------------------------------

type c20Key struct {
	Topic string
	Part  int32
	Group string
}

func (k c20Key) name(router string) string {
	if router == "group" {
		return k.Group
	}
	return fmt.Sprintf("%s/%d", k.Topic, k.Part)
}

func (k c20Key) etcdKey(router string) string {
	if router == "group" {
		return "/kafscale/group-leases/" + k.Group
	}
	return fmt.Sprintf("/kafscale/partition-leases/%s/%d", k.Topic, k.Part)
}

var c20PartitionPool = []c20Key{
	{Topic: "orders", Part: 0}, {Topic: "orders", Part: 1}, {Topic: "orders", Part: 10},
	{Topic: "orders.v2", Part: 0}, {Topic: "a-b", Part: 7}, {Topic: "T_1", Part: 0},
	{Topic: "o", Part: 0}, {Topic: "ns/topic", Part: 3},
}

var c20GroupPool = []c20Key{
	{Group: "g1"}, {Group: "payments"}, {Group: "team/app"}, {Group: "a.b"}, {Group: "x-y"},
	{Group: "g10"}, {Group: "G1"}, {Group: "consumer group"},
}

var c20Sentinel = c20Key{Topic: "zz-sentinel", Part: 0, Group: "zz-sentinel"}

// plan generation ------------------------------------------------------------

func c20GenPlan(rng interface{ Intn(int) int }, router string, ci int, thorough bool) (c20Plan, []c20Key) {
	pool := c20PartitionPool
	if router == "group" {
		pool = c20GroupPool
	}
	nk := 3 + rng.Intn(3)
	perm := make([]int, len(pool))
	for i := range perm {
		perm[i] = i
	}
	for i := len(perm) - 1; i > 0; i-- {
		j := rng.Intn(i + 1)
		perm[i], perm[j] = perm[j], perm[i]
	}
	keys := make([]c20Key, nk)
	names := make([]string, nk)
	for i := range keys {
		keys[i] = pool[perm[i]]
		names[i] = keys[i].name(router)
	}
	seq := 0
	present := map[int]bool{}
	genOps := func(phase string, round, max int) []c20Op {
		n := rng.Intn(max + 1)
		ops := make([]c20Op, 0, n)
		for i := 0; i < n; i++ {
			k := rng.Intn(nk)
			op := c20Op{Phase: phase, Round: round, Key: k, Name: names[k]}
			// plans execute in generation order, so presence can be tracked here: most deletes hit a live key
			x := rng.Intn(10)
			switch {
			case present[k] && x < 5, !present[k] && x < 1:
				op.Kind = "delete" // executed as a lease revoke when the key hangs on a harness lease
			case x < 8:
				op.Kind = "put"
			default:
				op.Kind = "put_leased"
			}
			present[k] = op.Kind != "delete"
			if op.Kind != "delete" {
				seq++
				op.Val = fmt.Sprintf("broker-%d#c%d.w%d", rng.Intn(4), ci, seq)
			}
			ops = append(ops, op)
		}
		return ops
	}
	p := c20Plan{Router: router, Keys: names}
	p.Pre = genOps("pre", 0, 4)
	maxR := 2
	if thorough {
		maxR = 3
	}
	// ci%4==0: no interruption at all (pure start-up race); otherwise 1..maxR
	nInt := 0
	if ci%4 != 0 {
		nInt = 1 + rng.Intn(maxR)
	}
	for r := 0; r <= nInt; r++ {
		rd := c20Round{}
		if r > 0 && rng.Intn(6) == 0 {
			rd.ReloadFails = true
		}
		// a change in the load→watch window in about half of the rounds
		if !rd.ReloadFails && rng.Intn(2) == 0 {
			rd.Gap = genOps("gap", r, 2)
		}
		rd.Live = genOps("live", r, 3)
		if r < nInt {
			rd.Interrupt = []string{"close", "close_after_delivery", "error_then_close"}[rng.Intn(3)]
			rd.Pause = genOps("pause", r, 3)
		}
		p.Rounds = append(p.Rounds, rd)
	}
	if ci%8 == 3 { // drawn last: the rest of the plan is the same as without it
		p.Bulk = 150 + rng.Intn(950)
	}
	return p, keys
}

// case runtime ---------------------------------------------------------------

type c20Case struct {
	plan   c20Plan
	keys   []c20Key
	router string
	nkv    clientv3.KV // namespaced, unhooked: the "other clients" that change leases
	lease  clientv3.Lease
	ctx    context.Context

	mu        sync.Mutex
	log       []c20Op // executed changes, in order
	leased    map[int]clientv3.LeaseID
	lastOp    map[int]c20Op // last executed change per key index
	harnErr   []string
	gets      int
	otherGets int // Gets that do not start at the lease prefix (continuation pages)
	watches   int
	withRev   []int64 // revision option seen on each Watch call (0 = none); informational

	pauseDone     []chan struct{}
	sentinelDone  chan struct{}
	sentinelVal   string
	shows         func(k c20Key) string
	liveDelivered atomic.Int64
}

func (c *c20Case) fail(format string, a ...any) {
	c.mu.Lock()
	c.harnErr = append(c.harnErr, fmt.Sprintf(format, a...))
	c.mu.Unlock()
}

func (c *c20Case) runOps(ops []c20Op) {
	for _, op := range ops {
		ek := c.keys[op.Key].etcdKey(c.router)
		ctx, cancel := context.WithTimeout(c.ctx, 10*time.Second)
		var err error
		exec := op
		c.mu.Lock()
		lid, hasLease := c.leased[op.Key]
		c.mu.Unlock()
		switch op.Kind {
		case "put":
			_, err = c.nkv.Put(ctx, ek, op.Val)
			if err == nil && hasLease {
				// a plain put detaches the key from the old lease
				c.mu.Lock()
				delete(c.leased, op.Key)
				c.mu.Unlock()
			}
		case "put_leased":
			var g *clientv3.LeaseGrantResponse
			g, err = c.lease.Grant(ctx, 600)
			if err == nil {
				_, err = c.nkv.Put(ctx, ek, op.Val, clientv3.WithLease(g.ID))
				if err == nil {
					c.mu.Lock()
					c.leased[op.Key] = g.ID
					c.mu.Unlock()
				}
			}
		case "delete":
			if hasLease {
				// the way a real lease key disappears: the lease goes away and the server deletes the key
				exec.Kind = "revoke"
				_, err = c.lease.Revoke(ctx, lid)
				c.mu.Lock()
				delete(c.leased, op.Key)
				c.mu.Unlock()
			} else {
				var dr *clientv3.DeleteResponse
				dr, err = c.nkv.Delete(ctx, ek)
				if err == nil && dr.Deleted == 0 {
					exec.Noop = true
				}
			}
		}
		cancel()
		if err != nil {
			c.fail("harness change %+v failed: %v", op, err)
			continue
		}
		c.mu.Lock()
		c.log = append(c.log, exec)
		if !exec.Noop {
			c.lastOp[op.Key] = exec
		}
		c.mu.Unlock()
	}
}

// hooked KV: only Get is a schedule point.
type c20KV struct {
	clientv3.KV
	c *c20Case
}

func (k *c20KV) Get(ctx context.Context, key string, opts ...clientv3.OpOption) (*clientv3.GetResponse, error) {
	c := k.c
	if key != "/kafscale/partition-leases/" && key != "/kafscale/group-leases/" {
		// not the start of a (re)load: a further page of a load that reads the prefix in pieces, or some other read.
		// Only the Get that starts a load is a schedule point.
		c.mu.Lock()
		c.otherGets++
		c.mu.Unlock()
		return k.KV.Get(ctx, key, opts...)
	}
	c.mu.Lock()
	n := c.gets
	c.gets++
	c.mu.Unlock()
	if n > 0 && n-1 < len(c.pauseDone) {
		// the reload after interruption n-1: all "pause" changes are in etcd before it is served
		select {
		case <-c.pauseDone[n-1]:
		case <-ctx.Done():
		}
	}
	if n > 0 && n < len(c.plan.Rounds) && c.plan.Rounds[n].ReloadFails {
		return nil, context.DeadlineExceeded
	}
	resp, err := k.KV.Get(ctx, key, opts...)
	if err == nil && n < len(c.plan.Rounds) {
		// the answer is fixed; the router has not yet called Watch
		c.runOps(c.plan.Rounds[n].Gap)
	}
	return resp, err
}

type c20Watcher struct {
	clientv3.Watcher
	c *c20Case
}

func (w *c20Watcher) Watch(ctx context.Context, key string, opts ...clientv3.OpOption) clientv3.WatchChan {
	c := w.c
	c.mu.Lock()
	n := c.watches
	c.watches++
	// record whether the router asked for a start revision (informational only)
	probe := clientv3.OpGet(key, opts...)
	c.withRev = append(c.withRev, probe.Rev())
	c.mu.Unlock()
	ictx, cancel := context.WithCancel(ctx)
	in := w.Watcher.Watch(ictx, key, append(append([]clientv3.OpOption{}, opts...), clientv3.WithCreatedNotify())...)
	out := make(chan clientv3.WatchResponse, 16)
	created := make(chan struct{})
	interrupt := make(chan string, 1)
	closed := make(chan struct{})
	go func() { // forwarder: the only sender/closer of out
		defer close(closed)
		defer close(out)
		defer cancel()
		var once sync.Once
		for {
			select {
			case resp, ok := <-in:
				if !ok {
					return
				}
				if resp.Created {
					once.Do(func() { close(created) })
					if len(resp.Events) == 0 {
						continue
					}
				}
				select {
				case out <- resp:
				case how := <-interrupt:
					_ = how
					return
				case <-ictx.Done():
					return
				}
			case how := <-interrupt:
				if how == "error_then_close" {
					// what the client library sends when the server cancels a watch
					select {
					case out <- clientv3.WatchResponse{Canceled: true, CompactRevision: 1}:
					case <-ictx.Done():
					}
				}
				return
			case <-ictx.Done():
				return
			}
		}
	}()
	go func() { // round driver
		select {
		case <-created:
		case <-closed:
			return
		case <-c.ctx.Done():
			return
		}
		if n >= len(c.plan.Rounds) {
			return
		}
		rd := c.plan.Rounds[n]
		c.runOps(rd.Live)
		if rd.Interrupt == "" {
			// last round: changes have stopped. The watch is confirmed by the server, so this put is delivered.
			c.runOps([]c20Op{{Phase: "sentinel", Round: n, Kind: "put", Key: len(c.keys) - 1, Name: c20Sentinel.name(c.router), Val: c.sentinelVal}})
			close(c.sentinelDone)
			return
		}
		if rd.Interrupt == "close_after_delivery" && len(rd.Live) > 0 {
			// let the router apply the last live change first (bounded wait, not part of the oracle)
			last := rd.Live[len(rd.Live)-1]
			want := last.Val
			dl := time.Now().Add(2 * time.Second)
			for time.Now().Before(dl) {
				if c.shows(c.keys[last.Key]) == want {
					c.liveDelivered.Add(1)
					break
				}
				time.Sleep(2 * time.Millisecond)
			}
		}
		interrupt <- rd.Interrupt
		<-closed
		c.runOps(rd.Pause)
		close(c.pauseDone[n])
	}()
	return out
}

// the leg ----------------------------------------------------------------------

func c20Quiet() *slog.Logger { return slog.New(slog.NewTextHandler(io.Discard, nil)) }

func TestVerifC20Converge(t *testing.T) {
	r := verifkit.Start(t, "C20", "converge")
	defer r.Finish("real PartitionRouter/GroupRouter on embedded etcd, one key namespace per case; PRNG plans of lease puts (plain and lease-attached), deletes and lease revokes placed before construction, between a loadAll Get and the following Watch call (start-up and each reconnect), while the watch is live, and after the harness closed the watch channel it handed out (before the reload); after the last round one sentinel lease key is written once the server has confirmed the router's watch; when LookupOwner shows the sentinel, LookupOwner for every key of the case and AllRoutes() minus the sentinel must equal a fresh Get(prefix); a diverging key is classified by the schedule point of the last change made to it; non-trivial = plan had an interruption or a change in the load-to-watch window, and both a put and a delete",
		"embedded single-node etcd; etcd namespace wrappers (clientv3/namespace) only prefix keys",
		"sentinel not visible within the watchdog => inconclusive, never a violation",
		"Invalidate() is not driven: it removes routes on purpose")
	endpoints := testutil.StartEmbeddedEtcd(t)
	cli, err := clientv3.New(clientv3.Config{Endpoints: endpoints, DialTimeout: 5 * time.Second})
	if err != nil {
		t.Fatalf("etcd client: %v", err)
	}
	defer cli.Close()

	perRouter := r.N(30, 500)
	par := 16
	if r.Thorough() {
		par = 24
	}
	sem := make(chan struct{}, par)
	var wg sync.WaitGroup
	var sampled atomic.Int64
	for ci := 0; ci < perRouter; ci++ {
		for _, router := range []string{"partition", "group"} {
			wg.Add(1)
			sem <- struct{}{}
			go func(ci int, router string) {
				defer wg.Done()
				defer func() { <-sem }()
				c20RunCase(t, r, cli, ci, router, &sampled)
			}(ci, router)
		}
	}
	wg.Wait()
	r.Exhaustive(false) // sampled plans; the single-change matrix is the exhaustive leg
	r.Floor("cases_with_interruption", 10)
	r.Floor("cases_with_gap_change", 10)
	r.Floor("cases_converged_exactly", 10)
}

func c20RunCase(t *testing.T, r *verifkit.Run, cli *clientv3.Client, ci int, router string, sampled *atomic.Int64) {
	idx := ci * 2
	if router == "group" {
		idx++
	}
	rng := r.Rand(idx)
	plan, keys := c20GenPlan(rng, router, ci, r.Thorough())
	c20Execute(t, r, cli, fmt.Sprintf("c20/%d/%s/%d/", r.Seed, router, ci), ci, router, plan, keys, sampled)
}

// c20Execute runs one plan against a fresh router in its own key namespace and judges it.
func c20Execute(t *testing.T, r *verifkit.Run, cli *clientv3.Client, ns string, ci int, router string, plan c20Plan, keys []c20Key, sampled *atomic.Int64) {
	keys = append(append([]c20Key{}, keys...), c20Sentinel) // last index = sentinel
	ctx, cancel := context.WithCancel(context.Background())
	defer cancel()
	c := &c20Case{plan: plan, keys: keys, router: router, ctx: ctx,
		nkv: namespace.NewKV(cli.KV, ns), lease: cli.Lease,
		leased: map[int]clientv3.LeaseID{}, lastOp: map[int]c20Op{},
		sentinelDone: make(chan struct{}), sentinelVal: fmt.Sprintf("sentinel#c%d", ci)}
	for range plan.Rounds {
		c.pauseDone = append(c.pauseDone, make(chan struct{}))
	}
	cc := clientv3.NewCtxClient(ctx)
	cc.KV = &c20KV{KV: namespace.NewKV(cli.KV, ns), c: c}
	cc.Watcher = &c20Watcher{Watcher: namespace.NewWatcher(cli.Watcher, ns), c: c}
	cc.Lease = cli.Lease

	c.runOps(plan.Pre)
	bulk := c20BulkKeys(router, plan.Bulk)
	for i := 0; i < len(bulk); i += 100 {
		var ops []clientv3.Op
		for j := i; j < len(bulk) && j < i+100; j++ {
			ops = append(ops, clientv3.OpPut(bulk[j].etcdKey(router), fmt.Sprintf("broker-%d#c%d.bulk", j%4, ci)))
		}
		bctx, bcancel := context.WithTimeout(ctx, 20*time.Second)
		_, err := c.nkv.Txn(bctx).Then(ops...).Commit()
		bcancel()
		if err != nil {
			r.Inconclusive(fmt.Sprintf("case %d/%s: writing the static leases failed: %v", ci, router, err))
			return
		}
	}

	var lookup func(k c20Key) string
	var all func() map[string]string
	var stop func()
	switch router {
	case "partition":
		// shows is needed by the watcher hooks before the constructor returns
		var pr *PartitionRouter
		var prMu sync.Mutex
		c.shows = func(k c20Key) string {
			prMu.Lock()
			p := pr
			prMu.Unlock()
			if p == nil {
				return ""
			}
			return p.LookupOwner(k.Topic, k.Part)
		}
		p, err := NewPartitionRouter(ctx, cc, c20Quiet())
		if err != nil {
			r.Inconclusive(fmt.Sprintf("case %d/%s: router construction failed: %v", ci, router, err))
			return
		}
		prMu.Lock()
		pr = p
		prMu.Unlock()
		lookup = func(k c20Key) string { return p.LookupOwner(k.Topic, k.Part) }
		all = func() map[string]string {
			m := map[string]string{}
			for _, rt := range p.AllRoutes() {
				m[fmt.Sprintf("%s/%d", rt.Topic, rt.Partition)] = rt.BrokerID
			}
			return m
		}
		stop = p.Stop
	default:
		var gr *GroupRouter
		var grMu sync.Mutex
		c.shows = func(k c20Key) string {
			grMu.Lock()
			g := gr
			grMu.Unlock()
			if g == nil {
				return ""
			}
			return g.LookupOwner(k.Group)
		}
		g, err := NewGroupRouter(ctx, cc, c20Quiet())
		if err != nil {
			r.Inconclusive(fmt.Sprintf("case %d/%s: router construction failed: %v", ci, router, err))
			return
		}
		grMu.Lock()
		gr = g
		grMu.Unlock()
		lookup = func(k c20Key) string { return g.LookupOwner(k.Group) }
		all = func() map[string]string {
			m := map[string]string{}
			for _, rt := range g.AllRoutes() {
				m[rt.GroupID] = rt.BrokerID
			}
			return m
		}
		stop = g.Stop
	}
	defer stop()

	// wait for the end of the plan, then for the sentinel to show (sentinel event, not a time bound)
	watchdog := time.After(time.Duration(30+5*len(plan.Rounds)) * time.Second)
	select {
	case <-c.sentinelDone:
	case <-watchdog:
		c.mu.Lock()
		g, w := c.gets, c.watches
		c.mu.Unlock()
		r.Inconclusive(fmt.Sprintf("case %d/%s: plan did not complete within the watchdog (gets=%d watches=%d)", ci, router, g, w))
		return
	}
	shown := false
	for dl := time.Now().Add(20 * time.Second); time.Now().Before(dl); time.Sleep(time.Millisecond) {
		if lookup(c20Sentinel) == c.sentinelVal {
			shown = true
			break
		}
	}
	c.mu.Lock()
	harnErr := append([]string(nil), c.harnErr...)
	c.mu.Unlock()
	if len(harnErr) > 0 {
		r.Inconclusive(fmt.Sprintf("case %d/%s: %s", ci, router, harnErr[0]))
		return
	}
	if !shown {
		r.Inconclusive(fmt.Sprintf("case %d/%s: sentinel never shown by the router within the watchdog", ci, router))
		return
	}

	// ground truth: what etcd holds now (changes have stopped)
	prefix := "/kafscale/partition-leases/"
	if router == "group" {
		prefix = "/kafscale/group-leases/"
	}
	gctx, gcancel := context.WithTimeout(ctx, 10*time.Second)
	resp, err := c.nkv.Get(gctx, prefix, clientv3.WithPrefix())
	gcancel()
	if err != nil {
		r.Inconclusive(fmt.Sprintf("case %d/%s: final Get failed: %v", ci, router, err))
		return
	}
	byEtcdKey := map[string]string{}
	for _, kv := range resp.Kvs {
		byEtcdKey[string(kv.Key)] = string(kv.Value)
	}
	table := all()
	c.mu.Lock()
	log := append([]c20Op(nil), c.log...)
	lastOp := map[int]c20Op{}
	for k, v := range c.lastOp {
		lastOp[k] = v
	}
	withRev := append([]int64(nil), c.withRev...)
	c.mu.Unlock()

	type div struct {
		Key    string `json:"key"`
		Etcd   string `json:"etcd_owner"`
		Router string `json:"router_owner"`
		Last   c20Op  `json:"last_change"`
	}
	var divs []div
	known := map[string]bool{}
	for i, k := range keys[:len(keys)-1] {
		want := byEtcdKey[k.etcdKey(router)]
		got := lookup(k)
		got2 := table[k.name(router)]
		known[k.name(router)] = true
		if got != want || got2 != want {
			g := got
			if got == want {
				g = got2 + " (AllRoutes)"
			}
			divs = append(divs, div{Key: k.name(router), Etcd: want, Router: g, Last: lastOp[i]})
		}
	}
	for _, k := range bulk {
		want := byEtcdKey[k.etcdKey(router)]
		got := lookup(k)
		got2 := table[k.name(router)]
		known[k.name(router)] = true
		if want == "" {
			r.Inconclusive(fmt.Sprintf("case %d/%s: static lease %s not in etcd at the end", ci, router, k.name(router)))
			return
		}
		if got != want || got2 != want {
			g := got
			if got == want {
				g = got2 + " (AllRoutes)"
			}
			divs = append(divs, div{Key: k.name(router), Etcd: want, Router: g, Last: c20Op{Phase: "static_bulk_lease", Kind: "put", Val: want, Name: k.name(router)}})
		}
	}
	if len(bulk) > 0 {
		r.Count("cases_with_large_static_table", 1)
		r.Count("static_leases_compared", int64(len(bulk)))
	}
	var phantom []string
	for name := range table {
		if !known[name] && name != c20Sentinel.name(router) {
			phantom = append(phantom, name)
		}
	}
	sort.Strings(phantom)

	hasInt := len(plan.Rounds) > 1
	hasGap, hasPut, hasDel := false, false, false
	for _, op := range log {
		if op.Noop {
			r.Count("noop_deletes", 1)
			continue
		}
		if op.Phase == "gap" {
			hasGap = true
		}
		if op.Kind == "put" || op.Kind == "put_leased" {
			if op.Phase != "sentinel" {
				hasPut = true
			}
		} else {
			hasDel = true
		}
		r.Count("changes_"+op.Phase, 1)
		r.Count("changes_kind_"+op.Kind, 1)
	}
	if hasInt {
		r.Count("cases_with_interruption", 1)
		r.Count("interruptions", int64(len(plan.Rounds)-1))
	}
	if hasGap {
		r.Count("cases_with_gap_change", 1)
	}
	for _, rd := range plan.Rounds {
		if rd.ReloadFails {
			r.Count("reloads_failed_by_fault", 1)
		}
	}
	r.Count("cases_"+router, 1)
	for _, rd := range plan.Rounds {
		if rd.Interrupt != "" {
			r.Seen("interrupt_modes", rd.Interrupt)
		}
	}
	r.Count("live_changes_seen_before_interrupt", c.liveDelivered.Load())
	for _, rev := range withRev {
		if rev != 0 {
			r.Count("watch_calls_with_start_revision", 1)
		} else {
			r.Count("watch_calls_without_start_revision", 1)
		}
	}
	replay := map[string]any{"case": ci, "router": router, "plan": plan, "executed": log, "diverging": divs, "phantom_routes": phantom,
		"etcd": byEtcdKey, "router_table": table, "watch_start_revisions": withRev}
	if len(phantom) > 0 {
		r.Violation(router+"_router_phantom_route", fmt.Sprintf("%s router holds routes for keys never written: %v", router, phantom), replay)
	}
	if len(divs) == 0 {
		r.Count("cases_converged_exactly", 1)
	} else {
		// class = schedule point of the last change to the diverging keys
		phases := map[string]bool{}
		phaseOf := func(d div) string {
			ph := d.Last.Phase
			if ph == "" {
				ph = "never_changed"
			}
			if ph == "gap" && d.Last.Round != len(plan.Rounds)-1 {
				ph = "gap_before_reload"
			}
			// after the change: was there a reload that failed, and none that succeeded?
			failed, ok := false, false
			for n := d.Last.Round + 1; n < len(plan.Rounds) && d.Last.Phase != ""; n++ {
				if plan.Rounds[n].ReloadFails {
					failed = true
				} else {
					ok = true
				}
			}
			if failed && !ok {
				ph = "failed_reload"
			}
			return ph
		}
		for _, d := range divs {
			phases[phaseOf(d)] = true
		}
		var pl []string
		for ph := range phases {
			pl = append(pl, ph)
		}
		sort.Strings(pl)
		for _, ph := range pl {
			var first div
			for _, d := range divs {
				if phaseOf(d) == ph {
					first = d
					break
				}
			}
			if ph == "failed_reload" {
				// A reload Get that fails during a reconnect is part of "watch reconnects": since the routers
				// resume the watch from the last good revision (fix dd3283d) the table must still converge once
				// changes stop. (Before that fix this was only recorded as an observation.)
				r.Count("divergence_after_failed_reload_"+router, 1)
				r.Violation(router+"_router_stale_after_failed_reload", fmt.Sprintf("%s router, changes stopped and sentinel shown, but after a reconnect whose reload Get failed key %q is owner=%q in etcd and %q in the router; last change: %s %s in phase %s of round %d",
					router, first.Key, first.Etcd, first.Router, first.Last.Kind, first.Last.Val, first.Last.Phase, first.Last.Round), replay)
				continue
			}
			var class string
			if ph == "gap" {
				// no reload happened after this change: only the watch could have delivered it
				class = router + "_router_misses_change_between_load_and_watch"
			} else if ph == "gap_before_reload" {
				class = router + "_router_diverged_after_gap_change_despite_later_reload"
			} else {
				class = router + "_router_diverged_after_" + ph + "_change"
			}
			r.Violation(class, fmt.Sprintf("%s router, changes stopped and sentinel shown: key %q owner in etcd=%q, router=%q; last change to it: %s %s in phase %s of round %d",
				router, first.Key, first.Etcd, first.Router, first.Last.Kind, first.Last.Val, first.Last.Phase, first.Last.Round), replay)
		}
	}
	nontrivial := (hasInt || hasGap) && hasPut && hasDel
	if plan.Label != "" {
		nontrivial = !strings.HasPrefix(plan.Label, "pre/")
	}
	r.Case(verifkit.Hash(router, plan), nontrivial)
	if sampled.Add(1) <= 3 {
		r.Sample(map[string]any{"router": router, "plan": plan, "converged": len(divs) == 0})
	}
}

// ---------------------------------------------------------------------------
// leg matrix: every (schedule point x kind of change) once, per router
// ---------------------------------------------------------------------------

// c20MatrixPlans enumerates single-change plans: one lease change of each kind at each schedule point.
func c20MatrixPlans(router string) ([]c20Plan, []string, []c20Key) {
	pool := c20PartitionPool
	if router == "group" {
		pool = c20GroupPool
	}
	keys := []c20Key{pool[0], pool[1], pool[2]}
	names := []string{keys[0].name(router), keys[1].name(router), keys[2].name(router)}
	var plans []c20Plan
	var labels []string
	seq := 0
	mk := func(phase string, round int, kind string) (c20Op, c20Op) {
		// base: key 0 exists before the router starts (lease-attached when the change is a revoke)
		seq++
		base := c20Op{Phase: "pre", Kind: "put", Key: 0, Name: names[0], Val: fmt.Sprintf("broker-0#m%d.base", seq)}
		ch := c20Op{Phase: phase, Round: round, Key: 0, Name: names[0]}
		switch kind {
		case "put_new_key":
			ch.Kind, ch.Key, ch.Name, ch.Val = "put", 1, names[1], fmt.Sprintf("broker-1#m%d.new", seq)
		case "put_overwrite":
			ch.Kind, ch.Val = "put", fmt.Sprintf("broker-2#m%d.over", seq)
		case "put_leased_overwrite":
			ch.Kind, ch.Val = "put_leased", fmt.Sprintf("broker-3#m%d.leased", seq)
		case "delete":
			ch.Kind = "delete"
		case "revoke":
			base.Kind = "put_leased"
			ch.Kind = "delete" // executed as a lease revoke
		}
		return base, ch
	}
	kinds := []string{"put_new_key", "put_overwrite", "put_leased_overwrite", "delete", "revoke"}
	modes := []string{"close", "close_after_delivery", "error_then_close"}
	for _, kind := range kinds {
		// before construction
		base, ch := mk("pre", 0, kind)
		plans = append(plans, c20Plan{Router: router, Keys: names, Pre: []c20Op{base, ch}, Rounds: []c20Round{{}}})
		labels = append(labels, "pre/"+kind)
		// start-up: between the first load and the first Watch
		base, ch = mk("gap", 0, kind)
		plans = append(plans, c20Plan{Router: router, Keys: names, Pre: []c20Op{base}, Rounds: []c20Round{{Gap: []c20Op{ch}}}})
		labels = append(labels, "gap@startup/"+kind)
		// watch live
		base, ch = mk("live", 0, kind)
		plans = append(plans, c20Plan{Router: router, Keys: names, Pre: []c20Op{base}, Rounds: []c20Round{{Live: []c20Op{ch}}}})
		labels = append(labels, "live/"+kind)
		for _, m := range modes {
			// live change, then interruption (delivered or not), nothing else
			base, ch = mk("live", 0, kind)
			plans = append(plans, c20Plan{Router: router, Keys: names, Pre: []c20Op{base}, Rounds: []c20Round{{Live: []c20Op{ch}, Interrupt: m}, {}}})
			labels = append(labels, "live+"+m+"/"+kind)
			// during the reconnect pause
			base, ch = mk("pause", 0, kind)
			plans = append(plans, c20Plan{Router: router, Keys: names, Pre: []c20Op{base}, Rounds: []c20Round{{Interrupt: m, Pause: []c20Op{ch}}, {}}})
			labels = append(labels, "pause+"+m+"/"+kind)
		}
		// reconnect: between the reload and the second Watch
		base, ch = mk("gap", 1, kind)
		plans = append(plans, c20Plan{Router: router, Keys: names, Pre: []c20Op{base}, Rounds: []c20Round{{Interrupt: "close"}, {Gap: []c20Op{ch}}}})
		labels = append(labels, "gap@reconnect/"+kind)
		// after the reconnect, watch live again
		base, ch = mk("live", 1, kind)
		plans = append(plans, c20Plan{Router: router, Keys: names, Pre: []c20Op{base}, Rounds: []c20Round{{Interrupt: "close"}, {Live: []c20Op{ch}}}})
		labels = append(labels, "live@reconnected/"+kind)
		// change in the start-up window, repaired by a later reload
		base, ch = mk("gap", 0, kind)
		plans = append(plans, c20Plan{Router: router, Keys: names, Pre: []c20Op{base}, Rounds: []c20Round{{Gap: []c20Op{ch}, Interrupt: "close"}, {}}})
		labels = append(labels, "gap@startup+reload/"+kind)
	}
	return plans, labels, keys
}

func TestVerifC20Matrix(t *testing.T) {
	r := verifkit.Start(t, "C20", "matrix")
	defer r.Finish("exhaustive single-change matrix, independent of the seed: for each router, one lease change of each kind (put of a new key, overwrite, lease-attached overwrite, delete, lease revoke) at each schedule point (before construction; between the first load and the first Watch; watch live; live then interruption in each of the 3 interruption modes; during the reconnect pause in each mode; between the reload and the second Watch; live after the reconnect; start-up window followed by a reload); same sentinel and comparison as leg converge; non-trivial = every plan except the 'before construction' row",
		"embedded single-node etcd; one key namespace per plan")
	endpoints := testutil.StartEmbeddedEtcd(t)
	cli, err := clientv3.New(clientv3.Config{Endpoints: endpoints, DialTimeout: 5 * time.Second})
	if err != nil {
		t.Fatalf("etcd client: %v", err)
	}
	defer cli.Close()
	sem := make(chan struct{}, 16)
	var wg sync.WaitGroup
	var sampled atomic.Int64
	total := 0
	for _, router := range []string{"partition", "group"} {
		plans, labels, keys := c20MatrixPlans(router)
		for i := range plans {
			total++
			wg.Add(1)
			sem <- struct{}{}
			go func(i int, router string, plan c20Plan, label string) {
				defer wg.Done()
				defer func() { <-sem }()
				plan.Label = label
				r.Seen("matrix_cells", router+"/"+label)
				c20Execute(t, r, cli, fmt.Sprintf("c20m/%s/%d/", router, i), 100000+i, router, plan, keys, &sampled)
			}(i, router, plans[i], labels[i])
		}
	}
	wg.Wait()
	r.Note("matrix_plans", total)
	r.Exhaustive(true)
	r.Floor("matrix_cells", int64(total))
	r.Floor("cases_converged_exactly", 20)
}
