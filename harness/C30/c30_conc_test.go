//go:build verif

package main

import (
	"bytes"
	"context"
	"crypto/sha256"
	"encoding/hex"
	"encoding/json"
	"fmt"
	"io"
	"math/rand"
	"net/http"
	"net/http/httptest"
	"runtime"
	"sync"
	"testing"

	"github.com/KafScale/platform/internal/verifkit"
	"github.com/aws/aws-sdk-go-v2/service/s3"
)

// c30KeyedS3 serves a different object per key, in small chunks that yield the processor, so that
// concurrent downloads really overlap inside the handler's buffer-verify-stream pipeline.
type c30KeyedS3 struct {
	c30S3
	mu      sync.Mutex
	objects map[string][]byte
}

type c30SlowBody struct {
	data []byte
	off  int
}

func (b *c30SlowBody) Read(p []byte) (int, error) {
	if b.off >= len(b.data) {
		return 0, io.EOF
	}
	n := len(p)
	if n > 4096 {
		n = 4096
	}
	if rem := len(b.data) - b.off; n > rem {
		n = rem
	}
	copy(p, b.data[b.off:b.off+n])
	b.off += n
	runtime.Gosched()
	return n, nil
}
func (b *c30SlowBody) Close() error { return nil }

func (f *c30KeyedS3) GetObject(ctx context.Context, in *s3.GetObjectInput, _ ...func(*s3.Options)) (*s3.GetObjectOutput, error) {
	f.mu.Lock()
	data, ok := f.objects[*in.Key]
	f.mu.Unlock()
	if !ok {
		return nil, fmt.Errorf("NoSuchKey")
	}
	l := int64(len(data))
	return &s3.GetObjectOutput{Body: &c30SlowBody{data: data}, ContentLength: &l}, nil
}

// slowWriter makes the response side slow too (the handler streams the verified buffer into it).
type c30SlowRecorder struct{ *httptest.ResponseRecorder }

func (w c30SlowRecorder) Write(p []byte) (int, error) {
	runtime.Gosched()
	return w.ResponseRecorder.Write(p)
}

func TestVerifC30HTTPConcurrent(t *testing.T) {
	r := verifkit.Start(t, "C30", "httpconc")
	defer r.Finish("rounds of 8 concurrent stream-mode downloads through ONE lfsModule, each of its own object (distinct bytes, 20-200 KiB) with correct integrity; request ids per round: all identical / pairwise identical / all distinct / absent (a retry racing the original, or a gateway reusing one trace id); S3 body and response writer yield between 4 KiB chunks so the requests overlap; oracle as in the sequential leg: status 200 => SHA-256(body) equals the supplied digest and len(body) equals the supplied size; the race detector watches; non-trivial = round in which at least two requests shared a request id",
		"overlap is produced by the Go scheduler (8 goroutines, cooperative yields), not enumerated")
	rounds := r.N(40, 600)
	for ci := 0; ci < rounds; ci++ {
		rng := r.Rand(ci)
		fs := &c30KeyedS3{objects: map[string][]byte{}}
		m := c30Module(fs, 0, false)
		const G = 8
		type job struct {
			key, sha, rid string
			data          []byte
		}
		jobs := make([]job, G)
		mode := []string{"same", "pairs", "distinct", "absent"}[rng.Intn(4)]
		for g := range jobs {
			data := make([]byte, 20000+rng.Intn(180000))
			rand.New(rand.NewSource(rng.Int63())).Read(data)
			sum := sha256.Sum256(data)
			jobs[g] = job{key: fmt.Sprintf("ns/topic/lfs/2026/01/01/obj-%d-%d", ci, g), sha: hex.EncodeToString(sum[:]), data: data}
			switch mode {
			case "same":
				jobs[g].rid = fmt.Sprintf("trace-%d", ci)
			case "pairs":
				jobs[g].rid = fmt.Sprintf("trace-%d-%d", ci, g/2)
			case "distinct":
				jobs[g].rid = fmt.Sprintf("trace-%d-%d", ci, g)
			}
			fs.objects[jobs[g].key] = data
		}
		var wg sync.WaitGroup
		type outcome struct {
			status int
			body   []byte
			panicv any
		}
		outs := make([]outcome, G)
		for g := range jobs {
			wg.Add(1)
			go func(g int) {
				defer wg.Done()
				defer func() {
					if p := recover(); p != nil {
						outs[g].panicv = p
					}
				}()
				body, _ := json.Marshal(map[string]any{"bucket": "verif-bucket", "key": jobs[g].key, "mode": "stream", "integrity": map[string]any{"sha256": jobs[g].sha, "size": len(jobs[g].data)}})
				req := httptest.NewRequest(http.MethodPost, "/lfs/download", bytes.NewReader(body))
				if jobs[g].rid != "" {
					req.Header.Set("X-Request-ID", jobs[g].rid)
				}
				rr := c30SlowRecorder{httptest.NewRecorder()}
				m.handleHTTPDownload(rr, req)
				outs[g] = outcome{status: rr.Code, body: rr.Body.Bytes()}
			}(g)
		}
		wg.Wait()
		served := 0
		for g, o := range outs {
			if o.panicv != nil {
				r.Violation("download_handler_panics", fmt.Sprintf("handleHTTPDownload panicked under concurrency: %v", o.panicv), map[string]any{"round": ci, "request_ids": mode})
				continue
			}
			r.Count("concurrent_downloads_judged", 1)
			if o.status != http.StatusOK {
				r.Count("non_200_under_concurrency", 1)
				continue
			}
			served++
			sum := sha256.Sum256(o.body)
			if hex.EncodeToString(sum[:]) != jobs[g].sha || len(o.body) != len(jobs[g].data) {
				whose := "bytes of no object of this round"
				for h, j := range jobs {
					if h != g && len(o.body) >= 64 && bytes.Contains(j.data, o.body[:64]) {
						whose = fmt.Sprintf("bytes of request %d's object", h)
					}
				}
				r.Violation("served_body_fails_supplied_checksum:concurrent_requests_"+mode+"_request_id",
					fmt.Sprintf("request %d (X-Request-ID %q) got 200 with %d bytes whose SHA-256 is not the supplied one (expected %d bytes): %s", g, jobs[g].rid, len(o.body), len(jobs[g].data), whose),
					map[string]any{"round": ci, "request_ids": mode, "request": g})
			}
		}
		r.Count("served_200", int64(served))
		r.Case(fmt.Sprint(ci, mode), mode == "same" || mode == "pairs")
		if ci == 0 {
			r.Sample(map[string]any{"round": ci, "request_ids": mode, "requests": G})
		}
	}
	r.Floor("served_200", 100)
}
