//go:build verif

package main

import (
	"bytes"
	"context"
	"crypto/sha256"
	"encoding/hex"
	"encoding/json"
	"errors"
	"fmt"
	"io"
	"log/slog"
	"math/rand"
	"net/http"
	"net/http/httptest"
	"strings"
	"sync/atomic"
	"testing"
	"time"

	"github.com/KafScale/platform/internal/verifkit"
	v4 "github.com/aws/aws-sdk-go-v2/aws/signer/v4"
	"github.com/aws/aws-sdk-go-v2/service/s3"
)

// c30S3 is the scripted storage behind the proxy's s3API boundary.
type c30S3 struct {
	data        []byte
	chunk       int   // max bytes per Read (0 = unlimited)
	failAfter   int   // >=0: body returns an error after this many bytes
	getErr      error // GetObject itself fails
	lieLen      *int64
	contentType *string
	gets        int
	bytesRead   int
}

type c30Body struct {
	s   *c30S3
	off int
}

func (b *c30Body) Read(p []byte) (int, error) {
	s := b.s
	if s.failAfter >= 0 && b.off >= s.failAfter {
		return 0, errors.New("scripted body read failure")
	}
	if b.off >= len(s.data) {
		return 0, io.EOF
	}
	n := len(p)
	if s.chunk > 0 && n > s.chunk {
		n = s.chunk
	}
	if rem := len(s.data) - b.off; n > rem {
		n = rem
	}
	if s.failAfter >= 0 && b.off+n > s.failAfter {
		n = s.failAfter - b.off
	}
	copy(p, s.data[b.off:b.off+n])
	b.off += n
	s.bytesRead += n
	return n, nil
}
func (b *c30Body) Close() error { return nil }

func (f *c30S3) GetObject(ctx context.Context, in *s3.GetObjectInput, _ ...func(*s3.Options)) (*s3.GetObjectOutput, error) {
	f.gets++
	if f.getErr != nil {
		return nil, f.getErr
	}
	out := &s3.GetObjectOutput{Body: &c30Body{s: f}, ContentType: f.contentType}
	l := int64(len(f.data))
	out.ContentLength = &l
	if f.lieLen != nil {
		out.ContentLength = f.lieLen
	}
	return out, nil
}
func (f *c30S3) CreateMultipartUpload(context.Context, *s3.CreateMultipartUploadInput, ...func(*s3.Options)) (*s3.CreateMultipartUploadOutput, error) {
	return nil, errors.New("not scripted")
}
func (f *c30S3) UploadPart(context.Context, *s3.UploadPartInput, ...func(*s3.Options)) (*s3.UploadPartOutput, error) {
	return nil, errors.New("not scripted")
}
func (f *c30S3) CompleteMultipartUpload(context.Context, *s3.CompleteMultipartUploadInput, ...func(*s3.Options)) (*s3.CompleteMultipartUploadOutput, error) {
	return nil, errors.New("not scripted")
}
func (f *c30S3) AbortMultipartUpload(context.Context, *s3.AbortMultipartUploadInput, ...func(*s3.Options)) (*s3.AbortMultipartUploadOutput, error) {
	return nil, errors.New("not scripted")
}
func (f *c30S3) PutObject(context.Context, *s3.PutObjectInput, ...func(*s3.Options)) (*s3.PutObjectOutput, error) {
	return nil, errors.New("not scripted")
}
func (f *c30S3) DeleteObject(context.Context, *s3.DeleteObjectInput, ...func(*s3.Options)) (*s3.DeleteObjectOutput, error) {
	return nil, errors.New("not scripted")
}
func (f *c30S3) HeadBucket(context.Context, *s3.HeadBucketInput, ...func(*s3.Options)) (*s3.HeadBucketOutput, error) {
	return &s3.HeadBucketOutput{}, nil
}
func (f *c30S3) CreateBucket(context.Context, *s3.CreateBucketInput, ...func(*s3.Options)) (*s3.CreateBucketOutput, error) {
	return &s3.CreateBucketOutput{}, nil
}

type c30Presign struct{}

func (c30Presign) PresignGetObject(_ context.Context, in *s3.GetObjectInput, _ ...func(*s3.PresignOptions)) (*v4.PresignedHTTPRequest, error) {
	return &v4.PresignedHTTPRequest{URL: "https://s3.invalid/" + *in.Key + "?sig=1"}, nil
}

func c30Module(api s3API, maxBlob int64, presign bool) *lfsModule {
	logger := slog.New(slog.NewTextHandler(io.Discard, nil))
	m := &lfsModule{
		logger:           logger,
		s3Uploader:       &s3Uploader{bucket: "verif-bucket", region: "us-east-1", chunkSize: 5 << 20, api: api, presign: c30Presign{}},
		s3Bucket:         "verif-bucket",
		s3Namespace:      "ns",
		maxBlob:          maxBlob,
		chunkSize:        5 << 20,
		checksumAlg:      "sha256",
		proxyID:          "verif-proxy",
		metrics:          newLfsMetrics(),
		tracker:          &LfsOpsTracker{config: TrackerConfig{}, logger: logger},
		topicMaxLength:   249,
		downloadTTLMax:   2 * time.Minute,
		uploadSessionTTL: time.Hour,
		uploadSessions:   make(map[string]*uploadSession),
		presignEnabled:   presign,
	}
	atomic.StoreUint32(&m.s3Healthy, 1)
	return m
}

type c30HTTPCase struct {
	ObjLen      int    `json:"object_len"`
	Variant     string `json:"stored_variant"`
	StoredLen   int    `json:"stored_len"`
	Chunk       int    `json:"read_chunk"`
	ShaKind     string `json:"sha_kind"`
	SizeKind    string `json:"size_kind"`
	Alg         string `json:"alg"`
	Mode        string `json:"mode"`
	MaxBlob     int64  `json:"max_blob"`
	Presign     bool   `json:"presign_enabled"`
	Transport   string `json:"transport"`
	Request     string `json:"request_body"`
	ObjSeed     int64  `json:"object_seed"`
	Status      int    `json:"status"`
	BodyLen     int    `json:"body_len"`
	BodySHA     string `json:"body_sha256"`
	SuppliedSHA string `json:"supplied_sha256"`
	Supplied    int64  `json:"supplied_size"`
}

// c30Windows indexes every 8-byte window of b.
func c30Windows(b []byte) map[[8]byte]struct{} {
	m := make(map[[8]byte]struct{}, len(b))
	for i := 0; i+8 <= len(b); i++ {
		var w [8]byte
		copy(w[:], b[i:i+8])
		m[w] = struct{}{}
	}
	return m
}

// c30Leak reports whether body contains any 8-byte run of the stored object.
func c30Leak(body, stored []byte) bool {
	if len(body) < 8 || len(stored) < 8 {
		return false
	}
	if len(body) <= len(stored) {
		idx := c30Windows(body)
		for i := 0; i+8 <= len(stored); i++ {
			var w [8]byte
			copy(w[:], stored[i:i+8])
			if _, ok := idx[w]; ok {
				return true
			}
		}
		return false
	}
	idx := c30Windows(stored)
	for i := 0; i+8 <= len(body); i++ {
		var w [8]byte
		copy(w[:], body[i:i+8])
		if _, ok := idx[w]; ok {
			return true
		}
	}
	return false
}

func TestVerifC30HTTP(t *testing.T) {
	r := verifkit.Start(t, "C30", "http")
	defer r.Finish("PRNG cases against the real handleHTTPDownload (httptest recorder, and a real loopback HTTP round trip for every 4th case) with a scripted s3API: object sizes around the 32 KiB copy buffer, store returns exact / 1-bit flip / truncated / extended / empty / other / mid-body read error / GetObject error, read chunking 1 B..unlimited, lying Content-Length; request integrity: sha256 right / upper / padded / wrong / of-the-stored-bytes / malformed / missing, size = len / len+-1 / stored len / 0 / negative / over max / absent, alg spellings, mode spellings, presign on/off, maxBlob set/unset. Oracle from the statement: status 200 in stream mode => SHA-256(body) equals the supplied digest and len(body) equals the supplied size; every other response (any non-200, and presign JSON) contains no 8-byte run of the stored object. non-trivial = the handler fetched the object and it either disagreed with the supplied integrity or was served",
		"supplied digest is compared after trim+lowercase (hex is case-insensitive)",
		"leak detector looks for any 8-byte window of the random object in the response body; objects shorter than 8 bytes are not leak-checked on refusals")

	n := r.N(500, 15000)
	sizes := []int{1, 2, 7, 8, 9, 100, 1000, 4096, 32767, 32768, 32769, 65536, 70001}
	for ci := 0; ci < n; ci++ {
		rng := r.Rand(ci)
		c := c30HTTPCase{}
		c.ObjLen = sizes[rng.Intn(len(sizes))]
		if r.Thorough() && rng.Intn(40) == 0 {
			c.ObjLen = 200000 + rng.Intn(100000)
		}
		c.ObjSeed = rng.Int63()
		orig := make([]byte, c.ObjLen)
		rand.New(rand.NewSource(c.ObjSeed)).Read(orig)
		stored := append([]byte(nil), orig...)
		fs := &c30S3{failAfter: -1}
		c.Variant = []string{"exact", "exact", "bitflip", "truncated1", "truncated", "extended1", "extended", "extended_zero", "empty", "other", "read_error", "get_error", "prefix_is_orig_longer"}[rng.Intn(13)]
		switch c.Variant {
		case "bitflip":
			stored[rng.Intn(len(stored))] ^= 1 << uint(rng.Intn(8))
		case "truncated1":
			stored = stored[:len(stored)-1]
		case "truncated":
			stored = stored[:rng.Intn(len(stored))]
		case "extended1":
			stored = append(stored, byte(rng.Intn(256)))
		case "extended", "prefix_is_orig_longer":
			ext := make([]byte, 1+rng.Intn(50000))
			rng.Read(ext)
			stored = append(stored, ext...)
		case "extended_zero":
			stored = append(stored, make([]byte, 1+rng.Intn(100))...)
		case "empty":
			stored = []byte{}
		case "other":
			stored = make([]byte, 1+rng.Intn(2*c.ObjLen+1))
			rng.Read(stored)
		case "read_error":
			fs.failAfter = rng.Intn(len(stored) + 1)
		case "get_error":
			fs.getErr = errors.New("NoSuchKey: scripted")
		}
		fs.data = stored
		c.StoredLen = len(stored)
		c.Chunk = []int{0, 0, 1, 7, 4096, 32768, 40000}[rng.Intn(7)]
		if c.Chunk == 1 && len(stored) > 40000 {
			c.Chunk = 13
		}
		fs.chunk = c.Chunk
		switch rng.Intn(5) {
		case 0:
			l := int64(c.ObjLen)
			fs.lieLen = &l
		case 1:
			fs.lieLen = nil
			ct := "image/png"
			fs.contentType = &ct
		}
		rightSha := sha256.Sum256(orig)
		storedSha := sha256.Sum256(stored)
		rs, ss := hex.EncodeToString(rightSha[:]), hex.EncodeToString(storedSha[:])
		wellFormed := rng.Intn(10) < 7 // most requests pass syntactic validation and reach the store
		c.ShaKind = []string{"right", "right", "right", "upper", "padded", "wrong_nibble", "of_stored", "of_stored", "short", "nonhex", "empty", "no_integrity"}[rng.Intn(12)]
		if wellFormed {
			c.ShaKind = []string{"right", "right", "upper", "padded", "wrong_nibble", "of_stored", "of_stored"}[rng.Intn(7)]
		}
		var sha string
		switch c.ShaKind {
		case "right":
			sha = rs
		case "upper":
			sha = strings.ToUpper(rs)
		case "padded":
			sha = "  " + rs + "\n"
		case "wrong_nibble":
			b := []byte(rs)
			i := rng.Intn(len(b))
			if b[i] == '0' {
				b[i] = '1'
			} else {
				b[i] = '0'
			}
			sha = string(b)
		case "of_stored":
			sha = ss
		case "short":
			sha = rs[:63]
		case "nonhex":
			sha = "zz" + rs[2:]
		}
		c.SizeKind = []string{"len", "len", "len", "len+1", "len-1", "stored_len", "stored_len+1", "stored_len+big", "zero", "negative", "over_max", "absent"}[rng.Intn(12)]
		if wellFormed {
			c.SizeKind = []string{"len", "len", "len", "len+1", "len-1", "stored_len", "stored_len+1", "stored_len+big"}[rng.Intn(8)]
		}
		var size int64
		switch c.SizeKind {
		case "len":
			size = int64(c.ObjLen)
		case "len+1":
			size = int64(c.ObjLen) + 1
		case "len-1":
			size = int64(c.ObjLen) - 1
		case "stored_len":
			size = int64(len(stored))
		case "stored_len+1":
			size = int64(len(stored)) + 1
		case "stored_len+big":
			size = int64(len(stored)) + 1 + int64(rng.Intn(100000))
		case "zero":
			size = 0
		case "negative":
			size = -1 - int64(rng.Intn(5))
		case "over_max":
			size = 1 << 50
		}
		c.Alg = []string{"", "", "sha256", "SHA256", " sha256 ", "md5", "none", "junk"}[rng.Intn(8)]
		c.Mode = []string{"", "stream", "stream", "STREAM", " Stream ", "presign", "junk"}[rng.Intn(7)]
		c.MaxBlob = []int64{0, 5 << 30, 100000, int64(c.ObjLen)}[rng.Intn(4)]
		c.Presign = rng.Intn(2) == 0
		if wellFormed {
			c.Alg = []string{"", "", "sha256", "SHA256", " sha256 "}[rng.Intn(5)]
			c.Mode = []string{"", "stream", "stream", "STREAM", " Stream "}[rng.Intn(5)]
			c.MaxBlob = []int64{0, 5 << 30}[rng.Intn(2)]
		}
		req := map[string]any{"bucket": "verif-bucket", "key": fmt.Sprintf("ns/topic/lfs/2026/01/01/obj-%d", ci)}
		if c.Mode != "" {
			req["mode"] = c.Mode
		}
		if c.ShaKind != "no_integrity" {
			in := map[string]any{"sha256": sha}
			if c.Alg != "" {
				in["checksum_alg"] = c.Alg
			}
			if c.SizeKind != "absent" {
				in["size"] = size
			}
			req["integrity"] = in
		}
		body, _ := json.Marshal(req)
		c.Request = string(body)
		c.SuppliedSHA, c.Supplied = strings.ToLower(strings.TrimSpace(sha)), size
		m := c30Module(fs, c.MaxBlob, c.Presign)

		var status int
		var got []byte
		c.Transport = "recorder"
		if ci%4 == 3 {
			c.Transport = "loopback"
		}
		func() {
			defer func() {
				if p := recover(); p != nil {
					r.Violation("download_handler_panics", fmt.Sprintf("handleHTTPDownload panicked: %v", p), c)
					status = -1
				}
			}()
			if c.Transport == "recorder" {
				rr := httptest.NewRecorder()
				m.handleHTTPDownload(rr, httptest.NewRequest(http.MethodPost, "/lfs/download", bytes.NewReader(body)))
				status, got = rr.Code, rr.Body.Bytes()
				return
			}
			srv := httptest.NewServer(http.HandlerFunc(m.handleHTTPDownload))
			defer srv.Close()
			resp, err := srv.Client().Post(srv.URL+"/lfs/download", "application/json", bytes.NewReader(body))
			if err != nil {
				r.Count("loopback_transport_errors", 1)
				status = -1
				return
			}
			defer resp.Body.Close()
			status = resp.StatusCode
			var rerr error
			got, rerr = io.ReadAll(resp.Body)
			if rerr != nil {
				// a transport hiccup is not evidence about the handler; the recorder cases judge the same paths
				r.Count("loopback_transport_errors", 1)
				status = -1
			}
		}()
		if status == -1 {
			r.Case(verifkit.Hash(ci, "aborted"), false)
			continue
		}
		c.Status, c.BodyLen = status, len(got)
		bs := sha256.Sum256(got)
		c.BodySHA = hex.EncodeToString(bs[:])
		mode := strings.ToLower(strings.TrimSpace(c.Mode))
		streamMode := mode == "" || mode == "stream"
		fetched := fs.gets > 0
		r.Count(fmt.Sprintf("status_%d", status), 1)
		if fetched {
			r.Count("handler_fetched_object", 1)
		}
		inconsistent := c.Variant != "get_error" && (c.SuppliedSHA != ss || size != int64(len(stored)) || c.Variant == "read_error" && fs.failAfter < len(stored))
		if status == http.StatusOK && streamMode {
			r.Count("served_200_stream", 1)
			if c.BodySHA != c.SuppliedSHA {
				r.Violation("served_bytes_sha256_differs_from_supplied", fmt.Sprintf("200 with %d bytes whose SHA-256 %s is not the supplied %s (store variant %s)", len(got), c.BodySHA, c.SuppliedSHA, c.Variant), c)
			}
			if int64(len(got)) < size {
				r.Violation("served_fewer_bytes_than_supplied_size", fmt.Sprintf("200 with %d bytes, the caller's envelope says size=%d (SHA-256 matches=%v, store variant %s)", len(got), size, c.BodySHA == c.SuppliedSHA, c.Variant), c)
			} else if int64(len(got)) > size {
				r.Violation("served_more_bytes_than_supplied_size", fmt.Sprintf("200 with %d bytes, the caller's envelope says size=%d (store variant %s)", len(got), size, c.Variant), c)
			} else if c.BodySHA == c.SuppliedSHA {
				r.Count("served_verified", 1)
			}
		} else {
			if c30Leak(got, stored) {
				r.Violation("blob_bytes_in_refusal_response", fmt.Sprintf("status %d response body (%d bytes) contains bytes of the stored object (store variant %s, mode %q)", status, len(got), c.Variant, c.Mode), c)
			}
			if fetched && inconsistent {
				r.Count("refused_after_fetch_inconsistent", 1)
			}
			if status == http.StatusOK {
				r.Count("presign_200", 1)
			}
		}
		if fetched && len(stored) > 40000 {
			r.Count("fetched_multi_buffer_objects", 1)
		}
		r.Seen("shape", fmt.Sprintf("%s|%s|%s|%s|%s|%d", c.Variant, c.ShaKind, c.SizeKind, c.Alg, mode, status))
		r.Case(verifkit.Hash(c.Variant, c.ShaKind, c.SizeKind, c.Alg, c.Mode, c.ObjLen, c.StoredLen, c.Chunk, c.MaxBlob, c.Transport), fetched && (inconsistent || status == http.StatusOK))
		if ci < 2 || (status == http.StatusOK && streamMode && ci < 40 && ci%7 == 0) {
			cc := c
			r.Sample(cc)
		}
	}
	r.Floor("served_verified", 10)
	r.Floor("refused_after_fetch_inconsistent", 30)
	r.Floor("fetched_multi_buffer_objects", 10)
}
