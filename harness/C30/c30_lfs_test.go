//go:build verif

package lfs

import (
	"bytes"
	"context"
	"crypto/md5"
	"crypto/sha256"
	"encoding/hex"
	"encoding/json"
	"errors"
	"fmt"
	"hash/crc32"
	"io"
	"strings"
	"testing"

	"github.com/KafScale/platform/internal/verifkit"
)

// ---- reference (written from the statement, independent of checksum.go) ----

// c30Digest is the reference digest of data under one of the three algorithms the
// envelope format names. crc32 is IEEE, big-endian, as 4 bytes.
func c30Digest(alg string, data []byte) []byte {
	switch alg {
	case "sha256":
		s := sha256.Sum256(data)
		return s[:]
	case "md5":
		s := md5.Sum(data)
		return s[:]
	case "crc32":
		c := crc32.ChecksumIEEE(data)
		return []byte{byte(c >> 24), byte(c >> 16), byte(c >> 8), byte(c)}
	}
	return nil
}

// c30Declared says which digests the envelope declares for its blob.
//
//	none            -> declares nothing (any blob may be returned; only the size limit applies)
//	sha256/md5/crc32 -> `checksum` under that algorithm when present, otherwise the mandatory `sha256` field
//	anything else   -> the algorithm is unknown; lenient reading: a returned blob must at least match
//	                   one digest the envelope carries (checksum under any known algorithm, or sha256)
//
// A declared value matches when it hex-decodes (any letter case) to the digest.
type c30Decl struct {
	nothing bool
	options [][2]string // (alg, declared hex)
}

func c30Declared(env Envelope) c30Decl {
	alg := strings.ToLower(strings.TrimSpace(env.ChecksumAlg))
	if alg == "" {
		alg = "sha256"
	}
	switch alg {
	case "none":
		return c30Decl{nothing: true}
	case "sha256", "md5", "crc32":
		if env.Checksum != "" {
			return c30Decl{options: [][2]string{{alg, env.Checksum}}}
		}
		return c30Decl{options: [][2]string{{"sha256", env.SHA256}}}
	}
	d := c30Decl{options: [][2]string{{"sha256", env.SHA256}}}
	if env.Checksum != "" {
		for _, a := range []string{"sha256", "md5", "crc32"} {
			d.options = append(d.options, [2]string{a, env.Checksum})
		}
	}
	return d
}

func (d c30Decl) matches(blob []byte) bool {
	if d.nothing {
		return true
	}
	for _, o := range d.options {
		want, err := hex.DecodeString(strings.ToLower(o[1]))
		if err != nil || len(want) == 0 {
			continue
		}
		if bytes.Equal(want, c30Digest(o[0], blob)) {
			return true
		}
	}
	return false
}

// ---- scripted storage ----

type c30Store struct {
	objects map[string][]byte
	fetches int
	failKey string
}

func (s *c30Store) Fetch(ctx context.Context, key string) ([]byte, error) {
	s.fetches++
	if key == s.failKey {
		return nil, errors.New("scripted fetch failure")
	}
	b, ok := s.objects[key]
	if !ok {
		return nil, errors.New("NoSuchKey")
	}
	return append([]byte(nil), b...), nil
}

func (s *c30Store) Stream(ctx context.Context, key string) (io.ReadCloser, int64, error) {
	b, err := s.Fetch(ctx, key)
	if err != nil {
		return nil, 0, err
	}
	return io.NopCloser(bytes.NewReader(b)), int64(len(b)), nil
}

// ---- case generation ----

type c30Case struct {
	Alg      string `json:"checksum_alg"`
	CkKind   string `json:"checksum_kind"`
	ShaKind  string `json:"sha256_kind"`
	Variant  string `json:"stored_variant"`
	MaxKind  string `json:"max_size_kind"`
	MaxSize  int64  `json:"max_size"`
	Reader   string `json:"reader"`
	OrigHex  string `json:"original_hex"`
	StoreHex string `json:"stored_hex"`
	Envelope string `json:"envelope"`
}

var c30Algs = []string{"", "sha256", "md5", "crc32", "none", "junk", "SHA256", "Sha256", " md5 ", "MD5", "CRC32", "None", "sha-256", "sha1", "sha512", "\tcrc32\n"}
var c30CkKinds = []string{"absent", "right_for_alg", "right_sha256", "right_md5", "right_crc32", "wrong_nibble", "upper_right", "prefix", "of_stored_for_alg", "garbage"}
var c30ShaKinds = []string{"right", "wrong_nibble", "of_stored", "upper_right", "garbage"}
var c30Variants = []string{"exact", "bitflip", "truncated", "extended", "empty", "other", "same_len_other", "fetch_error"}
var c30MaxKinds = []string{"unset", "len-1", "len", "len+1", "big", "one", "orig_len"}

func c30NormAlg(a string) string {
	a = strings.ToLower(strings.TrimSpace(a))
	if a == "" {
		return "sha256"
	}
	return a
}

func c30FlipNibble(h string, rng interface{ Intn(int) int }) string {
	if h == "" {
		return "0"
	}
	b := []byte(h)
	i := rng.Intn(len(b))
	const hexd = "0123456789abcdef"
	for {
		c := hexd[rng.Intn(16)]
		if c != b[i] && c != b[i]|0x20 {
			b[i] = c
			break
		}
	}
	return string(b)
}

func c30Pick(rng interface{ Intn(int) int }, xs []string) string { return xs[rng.Intn(len(xs))] }

// TestVerifC30Readers drives Resolver.Resolve, Consumer.Unwrap and Record.Value
// (which resolves through the Consumer) with a scripted store.
func TestVerifC30Readers(t *testing.T) {
	r := verifkit.Start(t, "C30", "readers")
	defer r.Finish("PRNG cases = (checksum_alg spelling, checksum field kind, sha256 field kind, what the store returns for the key: exact / 1-bit flip / truncated / extended / empty / another blob / same-length other / error, MaxSize relation to the returned length, reader in {Resolver, Consumer, Record.Value}); validation on. Oracle from the statement: whenever a reader returns a blob for an envelope value, the reference digest of the RETURNED bytes (sha256/md5/crc32-IEEE computed by the harness) equals the digest the envelope declares (`checksum` under `checksum_alg` if present, else `sha256`; alg none declares nothing; unknown alg: must match at least one carried digest) and, for the Resolver, len <= MaxSize when MaxSize>0. Nothing is demanded about which error is returned. non-trivial = the store returned bytes and the case was either tampered (returned bytes do not match the declaration or exceed MaxSize) or a positive control that was returned",
		"declared digest values compare case-insensitively as hex (weaker than the code's exact string compare, so never a false alarm)",
		"checksum_alg is normalised by trim+lowercase before choosing the reference algorithm, as the envelope format describes",
		"the Consumer has no size limit to configure; the limit part is checked on the Resolver only")

	ctx := context.Background()
	if rp := verifkit.Replay(); rp != nil {
		inner, _ := rp["replay"].(map[string]any)
		if inner == nil {
			t.Fatalf("VERIF_REPLAY: no replay object")
		}
		value := []byte(fmt.Sprint(inner["envelope"]))
		stored, _ := hex.DecodeString(fmt.Sprint(inner["stored_hex"]))
		maxSize := int64(0)
		if f, ok := inner["max_size"].(float64); ok {
			maxSize = int64(f)
		}
		env, err := DecodeEnvelope(value)
		if err != nil {
			t.Fatalf("VERIF_REPLAY: envelope does not decode: %v", err)
		}
		st := &c30Store{objects: map[string][]byte{env.Key: stored}}
		var got []byte
		var returned bool
		switch fmt.Sprint(inner["reader"]) {
		case "resolver":
			res, isEnv, err := NewResolver(ResolverConfig{MaxSize: maxSize, ValidateChecksum: true}, st).Resolve(ctx, value)
			got, returned = res.Payload, err == nil && isEnv
		case "consumer":
			e, blob, err := NewConsumer(st).Unwrap(ctx, value)
			got, returned = blob, err == nil && e != nil
		default:
			blob, err := NewRecord(value, NewConsumer(st)).Value(ctx)
			got, returned = blob, err == nil
		}
		r.Case("replay", true)
		r.Case("replay-2", true)
		r.Sample(inner)
		if returned && !c30Declared(env).matches(got) {
			r.Violation("blob_returned_without_matching_declared_checksum", "replayed witness still returns an unverified blob", inner)
		}
		if returned && fmt.Sprint(inner["reader"]) == "resolver" && maxSize > 0 && int64(len(got)) > maxSize {
			r.Violation("blob_returned_over_max_size", "replayed witness still returns an oversized blob", inner)
		}
		return
	}
	n := r.N(6000, 200000)
	for ci := 0; ci < n; ci++ {
		rng := r.Rand(ci)
		// blob
		var size int
		switch rng.Intn(6) {
		case 0:
			size = 0
		case 1:
			size = 1
		case 2:
			size = 2 + rng.Intn(6)
		default:
			size = 8 + rng.Intn(400)
		}
		orig := make([]byte, size)
		rng.Read(orig)
		c := c30Case{Alg: c30Pick(rng, c30Algs), CkKind: c30Pick(rng, c30CkKinds), ShaKind: c30Pick(rng, c30ShaKinds),
			Variant: c30Pick(rng, c30Variants), MaxKind: c30Pick(rng, c30MaxKinds), Reader: []string{"resolver", "consumer", "record"}[rng.Intn(3)]}
		// bias towards positive controls so that the "returned" side is well populated
		if rng.Intn(4) == 0 {
			c.Variant = "exact"
			c.ShaKind = "right"
			if rng.Intn(2) == 0 {
				c.CkKind = []string{"absent", "right_for_alg"}[rng.Intn(2)]
			}
		}
		// stored bytes
		stored := append([]byte(nil), orig...)
		switch c.Variant {
		case "bitflip":
			if len(stored) == 0 {
				stored = []byte{1}
			} else {
				stored[rng.Intn(len(stored))] ^= 1 << uint(rng.Intn(8))
			}
		case "truncated":
			if len(stored) > 0 {
				stored = stored[:rng.Intn(len(stored))]
			} else {
				stored = []byte{0}
			}
		case "extended":
			ext := make([]byte, 1+rng.Intn(20))
			if rng.Intn(2) == 0 {
				rng.Read(ext) // else: zero padding
			}
			stored = append(stored, ext...)
		case "empty":
			stored = []byte{}
		case "other":
			stored = make([]byte, rng.Intn(300))
			rng.Read(stored)
		case "same_len_other":
			stored = make([]byte, len(orig))
			rng.Read(stored)
		}
		nalg := c30NormAlg(c.Alg)
		refAlg := nalg
		if refAlg != "sha256" && refAlg != "md5" && refAlg != "crc32" {
			refAlg = []string{"sha256", "md5", "crc32"}[rng.Intn(3)]
		}
		rightFor := hex.EncodeToString(c30Digest(refAlg, orig))
		env := Envelope{Version: 1, Bucket: "b", Key: fmt.Sprintf("ns/t/lfs/obj-%d", ci), Size: int64(len(orig)), ChecksumAlg: c.Alg}
		switch c.CkKind {
		case "absent":
		case "right_for_alg":
			env.Checksum = rightFor
		case "right_sha256":
			env.Checksum = hex.EncodeToString(c30Digest("sha256", orig))
		case "right_md5":
			env.Checksum = hex.EncodeToString(c30Digest("md5", orig))
		case "right_crc32":
			env.Checksum = hex.EncodeToString(c30Digest("crc32", orig))
		case "wrong_nibble":
			env.Checksum = c30FlipNibble(rightFor, rng)
		case "upper_right":
			env.Checksum = strings.ToUpper(rightFor)
		case "prefix":
			env.Checksum = rightFor[:len(rightFor)/2]
		case "of_stored_for_alg":
			env.Checksum = hex.EncodeToString(c30Digest(refAlg, stored))
		case "garbage":
			env.Checksum = []string{"zz", "sha256:" + rightFor, " ", "0x" + rightFor, "true"}[rng.Intn(5)]
		}
		rightSha := hex.EncodeToString(c30Digest("sha256", orig))
		switch c.ShaKind {
		case "right":
			env.SHA256 = rightSha
		case "wrong_nibble":
			env.SHA256 = c30FlipNibble(rightSha, rng)
		case "of_stored":
			env.SHA256 = hex.EncodeToString(c30Digest("sha256", stored))
		case "upper_right":
			env.SHA256 = strings.ToUpper(rightSha)
		case "garbage":
			env.SHA256 = []string{"x", "none", "deadbeef", rightSha + "00"}[rng.Intn(4)]
		}
		switch c.MaxKind {
		case "unset":
			c.MaxSize = 0
		case "len-1":
			c.MaxSize = int64(len(stored)) - 1
			if c.MaxSize <= 0 {
				c.MaxSize = 1
			}
		case "len":
			c.MaxSize = int64(len(stored))
			if c.MaxSize == 0 {
				c.MaxSize = 1
			}
		case "len+1":
			c.MaxSize = int64(len(stored)) + 1
		case "big":
			c.MaxSize = 1 << 40
		case "one":
			c.MaxSize = 1
		case "orig_len":
			c.MaxSize = int64(len(orig))
			if c.MaxSize == 0 {
				c.MaxSize = 1
			}
		}
		value, err := json.Marshal(env) // same wire form the producer emits; EncodeEnvelope would refuse nothing here
		if err != nil {
			t.Fatalf("marshal envelope: %v", err)
		}
		if !IsLfsEnvelope(value) {
			t.Fatalf("harness envelope not recognised: %s", value)
		}
		c.OrigHex, c.StoreHex, c.Envelope = hex.EncodeToString(orig), hex.EncodeToString(stored), string(value)
		st := &c30Store{objects: map[string][]byte{env.Key: stored}}
		if c.Variant == "fetch_error" {
			st.failKey = env.Key
		}

		var got []byte
		var returned bool
		var callErr error
		func() {
			defer func() {
				if p := recover(); p != nil {
					r.Violation("reader_panics", fmt.Sprintf("%s panicked: %v", c.Reader, p), c)
				}
			}()
			switch c.Reader {
			case "resolver":
				res, isEnv, err := NewResolver(ResolverConfig{MaxSize: c.MaxSize, ValidateChecksum: true}, st).Resolve(ctx, value)
				callErr = err
				if err == nil && isEnv {
					got, returned = res.Payload, true
				} else if err == nil && !isEnv {
					r.Count("envelope_not_recognised_by_reader", 1)
				} else if len(res.Payload) > 0 {
					// an error together with payload bytes still hands the blob to the caller
					got, returned = res.Payload, true
				}
			case "consumer":
				var opts []ConsumerOption
				if rng.Intn(2) == 0 {
					opts = append(opts, WithChecksumValidation(true))
				}
				e, blob, err := NewConsumer(st, opts...).Unwrap(ctx, value)
				callErr = err
				if err == nil && e != nil {
					got, returned = blob, true
				} else if err != nil && len(blob) > 0 {
					got, returned = blob, true
				}
			case "record":
				rec := NewRecord(value, NewConsumer(st))
				blob, err := rec.Value(ctx)
				callErr = err
				if err == nil {
					got, returned = blob, true
				} else if len(blob) > 0 {
					got, returned = blob, true
				}
				// the cached second read must not turn a refusal into bytes
				blob2, err2 := rec.Value(ctx)
				if (err2 == nil) != (err == nil) || !bytes.Equal(blob, blob2) {
					if err2 == nil && !c30Declared(env).matches(blob2) {
						r.Violation("record_second_read_returns_unverified_blob", "Record.Value refused the blob first and returned bytes on the second call", c)
					}
				}
			}
		}()

		decl := c30Declared(env)
		storedOK := decl.matches(stored)
		sizeOK := c.Reader != "resolver" || c.MaxSize <= 0 || int64(len(stored)) <= c.MaxSize
		tampered := c.Variant != "fetch_error" && (!storedOK || !sizeOK)
		if returned {
			r.Count("blobs_returned", 1)
			if !decl.matches(got) {
				r.Violation("blob_returned_without_matching_declared_checksum", fmt.Sprintf("%s returned %d bytes whose digest is not the one the envelope declares (alg=%q checksum=%q sha256=%q, store variant %s)", c.Reader, len(got), env.ChecksumAlg, env.Checksum, env.SHA256, c.Variant), c)
			}
			if c.Reader == "resolver" && c.MaxSize > 0 && int64(len(got)) > c.MaxSize {
				r.Violation("blob_returned_over_max_size", fmt.Sprintf("Resolver returned %d bytes with MaxSize=%d", len(got), c.MaxSize), c)
			}
			if !bytes.Equal(got, stored) {
				r.Count("returned_bytes_differ_from_stored", 1)
			}
			if decl.nothing {
				r.Count("returned_alg_none", 1)
			} else {
				r.Count("returned_verified", 1)
				r.Count("returned_verified_"+c.Reader, 1)
			}
		} else {
			r.Count("refused", 1)
			if tampered {
				r.Count("refused_tampered", 1)
				r.Count("refused_tampered_"+c.Reader, 1)
			}
			var ce *ChecksumError
			if errors.As(callErr, &ce) {
				r.Count("refused_with_checksum_error", 1)
			}
		}
		if tampered && !storedOK {
			r.Count("cases_checksum_tampered", 1)
		}
		if tampered && !sizeOK {
			r.Count("cases_over_max_size", 1)
		}
		r.Seen("alg_x_ck_x_sha_x_variant", fmt.Sprintf("%s|%s|%s|%s|%s|%s", c.Alg, c.CkKind, c.ShaKind, c.Variant, c.MaxKind, c.Reader))
		reached := st.fetches > 0 && c.Variant != "fetch_error"
		r.Case(verifkit.Hash(c.Alg, c.CkKind, c.ShaKind, c.Variant, c.MaxKind, c.Reader, len(orig), len(stored)), reached && (tampered || (returned && !decl.nothing)))
		if ci < 3 {
			r.Sample(map[string]any{"case": c, "returned": returned, "err": fmt.Sprint(callErr)})
		}
	}
	r.Floor("returned_verified_resolver", 20)
	r.Floor("returned_verified_consumer", 20)
	r.Floor("returned_verified_record", 20)
	r.Floor("refused_tampered_resolver", 50)
	r.Floor("refused_tampered_consumer", 50)
	r.Floor("cases_over_max_size", 20)
}
