//go:build verif

package lfs

// Shared-reader legs of C30: many calls on ONE Resolver / ONE Consumer.
//
// The sequential leg (c30_lfs_test.go) builds a fresh reader per case, so anything a reader
// keeps or shares BETWEEN calls (request coalescing, a payload cache, a pooled buffer, a
// verdict remembered per key) is invisible to it. Here the calls overlap:
//
//   - "sharedgate": inside a testing/synctest bubble the store parks every Fetch on its own
//     gate; a PRNG script starts callers, releases parked fetches one by one, overwrites
//     objects and cancels contexts, with synctest.Wait() after every step, so which calls
//     are in flight together is decided by the script and not by the scheduler.
//   - "sharedstress": free-running goroutines under the race detector.
//
// The oracle is the per-call contract of the sequential leg, applied to every call with the
// CALLER'S OWN envelope: a blob handed back must have the digest that envelope declares and
// respect MaxSize. Whether calls overlapped only feeds the evidence, never the verdict.

import (
	"bytes"
	"context"
	"encoding/hex"
	"encoding/json"
	"errors"
	"fmt"
	"io"
	"math/rand"
	"runtime"
	"sort"
	"strings"
	"sync"
	"sync/atomic"
	"testing"
	"testing/synctest"

	"github.com/KafScale/platform/internal/verifkit"
)

// ---- world: a few keys, each with a short history of object versions ----

type c30World struct {
	keys     []string
	versions map[string][][]byte
	maxSize  int64
}

func c30GenWorld(rng *rand.Rand, tag string) *c30World {
	w := &c30World{versions: map[string][][]byte{}}
	nk := 1 + rng.Intn(3)
	var lens []int
	for k := 0; k < nk; k++ {
		key := fmt.Sprintf("ns/t/lfs/%s-k%d", tag, k)
		w.keys = append(w.keys, key)
		nv := 1 + rng.Intn(3)
		for v := 0; v < nv; v++ {
			// every version carries a unique id, so a returned blob identifies the object it came from
			body := make([]byte, rng.Intn(500))
			if rng.Intn(12) == 0 {
				body = body[:0]
			}
			rng.Read(body)
			blob := append([]byte(fmt.Sprintf("%s/v%d:", key, v)), body...)
			if rng.Intn(25) == 0 {
				blob = []byte{} // an empty object
			}
			w.versions[key] = append(w.versions[key], blob)
			lens = append(lens, len(blob))
		}
	}
	if rng.Intn(2) == 0 {
		l := int64(lens[rng.Intn(len(lens))])
		w.maxSize = []int64{l - 1, l, l + 1, 1 << 40}[rng.Intn(4)]
		if w.maxSize <= 0 {
			w.maxSize = 1
		}
	}
	return w
}

type c30SharedSpec struct {
	Reader     string `json:"reader"`
	Key        string `json:"key"`
	Kind       string `json:"envelope_kind"`
	Version    int    `json:"digest_of_version"`
	Envelope   string `json:"envelope"`
	Cancelable bool   `json:"cancelable,omitempty"`
	env        Envelope
	value      []byte
}

var c30SharedKinds = []string{
	"sha256_field", "sha256_field", "sha256_field", "sha256_field",
	"sha256_checksum", "md5", "crc32",
	"none", "none",
	"wrong_nibble", "wrong_nibble", "wrong_checksum",
	"other_object_digest", "alg_value_mismatch", "unknown_alg",
}

func c30Hex(alg string, b []byte) string { return hex.EncodeToString(c30Digest(alg, b)) }

// genSpec draws one caller: which key, and an envelope that declares the digest of one of the
// key's versions (current or stale when the call runs), a damaged digest, another object's
// digest, no digest (alg none), or a digest under a different algorithm.
func (w *c30World) genSpec(rng *rand.Rand, readers string) c30SharedSpec {
	key := w.keys[0]
	if len(w.keys) > 1 && rng.Intn(10) >= 6 {
		key = w.keys[rng.Intn(len(w.keys))]
	}
	vs := w.versions[key]
	vi := rng.Intn(len(vs))
	blob := vs[vi]
	sp := c30SharedSpec{Key: key, Version: vi, Kind: c30Pick(rng, c30SharedKinds)}
	switch readers {
	case "mixed":
		sp.Reader = []string{"resolver", "resolver", "consumer", "record"}[rng.Intn(4)]
	default:
		sp.Reader = readers
	}
	env := Envelope{Version: 1, Bucket: "b", Key: key, Size: int64(len(blob)), SHA256: c30Hex("sha256", blob)}
	switch sp.Kind {
	case "sha256_field":
		env.ChecksumAlg = []string{"", "sha256", "SHA256"}[rng.Intn(3)]
	case "sha256_checksum":
		env.ChecksumAlg = "sha256"
		env.Checksum = env.SHA256
		if rng.Intn(2) == 0 {
			env.SHA256 = "x" // the declared digest is `checksum`; the mandatory field is noise
		}
	case "md5":
		env.ChecksumAlg = "md5"
		env.Checksum = c30Hex("md5", blob)
	case "crc32":
		env.ChecksumAlg = "crc32"
		env.Checksum = c30Hex("crc32", blob)
	case "none":
		env.ChecksumAlg = []string{"none", "None"}[rng.Intn(2)]
		if rng.Intn(3) == 0 {
			env.Checksum = c30Hex("md5", blob)
		}
	case "wrong_nibble":
		env.ChecksumAlg = []string{"", "sha256"}[rng.Intn(2)]
		env.SHA256 = c30FlipNibble(env.SHA256, rng)
	case "wrong_checksum":
		alg := []string{"sha256", "md5", "crc32"}[rng.Intn(3)]
		env.ChecksumAlg = alg
		env.Checksum = c30FlipNibble(c30Hex(alg, blob), rng)
	case "other_object_digest":
		other := make([]byte, 1+rng.Intn(64))
		rng.Read(other)
		if len(w.keys) > 1 {
			ok := w.keys[rng.Intn(len(w.keys))]
			if ok != key {
				other = w.versions[ok][rng.Intn(len(w.versions[ok]))]
			}
		}
		env.SHA256 = c30Hex("sha256", other)
	case "alg_value_mismatch":
		if rng.Intn(2) == 0 {
			env.ChecksumAlg, env.Checksum = "md5", c30Hex("sha256", blob)
		} else {
			env.ChecksumAlg, env.Checksum = "sha256", c30Hex("md5", blob)
		}
	case "unknown_alg":
		env.ChecksumAlg = []string{"sha1", "sha512", "junk"}[rng.Intn(3)]
		if rng.Intn(2) == 0 {
			env.Checksum = env.SHA256
		}
	}
	if rng.Intn(4) == 0 { // the size field is not part of what the readers promise; vary it anyway
		env.Size = []int64{env.Size + 1, env.Size - 1, 0, int64(len(vs[rng.Intn(len(vs))])), 1 << 33}[rng.Intn(5)]
	}
	sp.Cancelable = rng.Intn(10) == 0
	value, err := json.Marshal(env)
	if err != nil {
		panic(err)
	}
	sp.env, sp.value, sp.Envelope = env, value, string(value)
	return sp
}

// ---- one call and its judgement ----

type c30SharedOut struct {
	returned    bool
	got         []byte
	digestAtRet [32]byte
	err         error
	panicv      any
}

func c30SharedCall(ctx context.Context, sp c30SharedSpec, res *Resolver, con *Consumer) (out c30SharedOut) {
	defer func() {
		if p := recover(); p != nil {
			out.panicv = p
		}
		if out.returned {
			copy(out.digestAtRet[:], c30Digest("sha256", out.got))
		}
	}()
	switch sp.Reader {
	case "resolver":
		rr, isEnv, err := res.Resolve(ctx, sp.value)
		out.err = err
		if (err == nil && isEnv) || (err != nil && len(rr.Payload) > 0) {
			out.got, out.returned = rr.Payload, true
		}
	case "consumer":
		e, blob, err := con.Unwrap(ctx, sp.value)
		out.err = err
		if (err == nil && e != nil) || (err != nil && len(blob) > 0) {
			out.got, out.returned = blob, true
		}
	default:
		blob, err := NewRecord(sp.value, con).Value(ctx)
		out.err = err
		if err == nil || len(blob) > 0 {
			out.got, out.returned = blob, true
		}
	}
	return out
}

type c30SharedJudge struct {
	r       *verifkit.Run
	leg     string
	maxSize int64
}

// judge applies the statement to one finished call. overlap is evidence only.
func (j c30SharedJudge) judge(sp c30SharedSpec, out c30SharedOut, overlap string, witness func() any) (returnedVerified bool) {
	r := j.r
	r.Count("calls_judged", 1)
	if out.panicv != nil {
		r.Violation("reader_panics:shared_reader", fmt.Sprintf("%s panicked on a shared reader: %v", sp.Reader, out.panicv), witness())
		return false
	}
	if !out.returned {
		r.Count("refused", 1)
		var ce *ChecksumError
		if errors.As(out.err, &ce) {
			r.Count("refused_with_checksum_error", 1)
		}
		return false
	}
	r.Count("blobs_returned", 1)
	decl := c30Declared(sp.env)
	if !decl.matches(out.got) {
		r.Violation("blob_returned_without_matching_declared_checksum:shared_reader_"+overlap,
			fmt.Sprintf("%s on a shared reader returned %d bytes (%q...) whose digest is not the one the caller's own envelope declares (alg=%q checksum=%q sha256=%q)",
				sp.Reader, len(out.got), c30Head(out.got), sp.env.ChecksumAlg, sp.env.Checksum, sp.env.SHA256), witness())
		return false
	}
	if sp.Reader == "resolver" && j.maxSize > 0 && int64(len(out.got)) > j.maxSize {
		r.Violation("blob_returned_over_max_size:shared_reader_"+overlap,
			fmt.Sprintf("shared Resolver returned %d bytes with MaxSize=%d", len(out.got), j.maxSize), witness())
		return false
	}
	if decl.nothing {
		r.Count("returned_alg_none", 1)
		return false
	}
	r.Count("returned_verified", 1)
	r.Count("returned_verified_"+sp.Reader, 1)
	return true
}

// rejudgeHeld looks at a blob again after later calls on the same reader have finished: the
// bytes the caller holds must still be the bytes it was given (a pooled or shared buffer that
// is rewritten afterwards turns a verified blob into an unverified one).
func (j c30SharedJudge) rejudgeHeld(sp c30SharedSpec, out c30SharedOut, witness func() any) {
	if !out.returned || out.panicv != nil {
		return
	}
	var now [32]byte
	copy(now[:], c30Digest("sha256", out.got))
	if now != out.digestAtRet && !c30Declared(sp.env).matches(out.got) {
		j.r.Violation("blob_returned_without_matching_declared_checksum:shared_reader_held_blob_changed_later",
			fmt.Sprintf("%s returned a blob that matched, and the same slice no longer matches the caller's envelope after later calls on the shared reader", sp.Reader), witness())
	}
}

func c30Head(b []byte) string {
	if len(b) > 24 {
		b = b[:24]
	}
	return string(b)
}

// ---- gated store (synctest) ----

type c30Reply struct {
	data []byte
	err  error
}

type c30Parked struct {
	key string
	ch  chan c30Reply
}

type c30GateStore struct {
	mu      sync.Mutex
	objects map[string][]byte
	parked  []*c30Parked
	fetches int
}

func (s *c30GateStore) Fetch(ctx context.Context, key string) ([]byte, error) {
	p := &c30Parked{key: key, ch: make(chan c30Reply, 1)}
	s.mu.Lock()
	s.parked = append(s.parked, p)
	s.fetches++
	s.mu.Unlock()
	select {
	case rep := <-p.ch:
		return rep.data, rep.err
	case <-ctx.Done():
		return nil, ctx.Err()
	}
}

func (s *c30GateStore) Stream(ctx context.Context, key string) (io.ReadCloser, int64, error) {
	b, err := s.Fetch(ctx, key)
	if err != nil {
		return nil, 0, err
	}
	return io.NopCloser(bytes.NewReader(b)), int64(len(b)), nil
}

// conflicting reports whether two calls of one shared reader on one key declare different things.
func c30Conflicting(a, b c30SharedSpec) bool {
	sameReader := (a.Reader == "resolver") == (b.Reader == "resolver") // consumer and record share the Consumer
	return sameReader && a.Key == b.Key &&
		(a.env.ChecksumAlg != b.env.ChecksumAlg || a.env.Checksum != b.env.Checksum || a.env.SHA256 != b.env.SHA256)
}

func TestVerifC30SharedGate(t *testing.T) {
	r := verifkit.Start(t, "C30", "sharedgate")
	defer r.Finish("rounds on ONE shared Resolver (validation on, PRNG MaxSize) and ONE shared Consumer over a gated store, inside a testing/synctest bubble: 1-3 keys with 1-3 object versions each, 2-9 callers (Resolver.Resolve / Consumer.Unwrap / Record.Value through the shared Consumer; mostly the same key) whose envelopes declare the sha256/md5/crc32 digest of some version of the key (current or stale), a damaged digest, another object's digest, a digest under the wrong algorithm, an unknown algorithm or checksum_alg none, with varying size fields. Every store Fetch parks on its own gate; a PRNG script (pile-up / burst / interleaved) starts callers, releases parked fetches one at a time with the key's CURRENT version (rarely an error), overwrites keys with their next version and cancels contexts, with synctest.Wait() after each step, so the calls in flight together are chosen by the script. Oracle per call, from the statement, with the caller's OWN envelope: a returned blob has the declared digest (reference sha256/md5/crc32) and len <= MaxSize for the Resolver; blobs are re-digested at the end of the round. Nothing is demanded about errors, about who fetches, or about timing. non-trivial = round in which two calls of one shared reader on one key with different declarations were in flight at the same step and at least one verified blob was returned",
		"overlap is observed (started and not yet returned at a synctest.Wait() quiescent point); it only feeds the evidence, the verdict is the per-call contract",
		"a reader that parks callers on a non-durable primitive (a plain mutex held across the fetch) would hang synctest.Wait: that ends as a broken run, not as a violation")

	rounds := r.N(1200, 30000)
	only := -1
	if rp := verifkit.Replay(); rp != nil {
		if inner, _ := rp["replay"].(map[string]any); inner != nil {
			if f, ok := inner["round"].(float64); ok {
				only = int(f)
			}
		}
	}
	for ci := 0; ci < rounds; ci++ {
		if only >= 0 && ci != only {
			continue
		}
		rng := r.Rand(ci)
		w := c30GenWorld(rng, fmt.Sprintf("g%d", ci))
		readers := []string{"resolver", "resolver", "resolver", "consumer", "mixed"}[rng.Intn(5)]
		G := 2 + rng.Intn(8)
		specs := make([]c30SharedSpec, G)
		for g := range specs {
			specs[g] = w.genSpec(rng, readers)
		}
		mode := []string{"pile_up", "burst", "interleaved"}[rng.Intn(3)]
		outs := make([]c30SharedOut, G)
		var trace []string
		conflictOverlap, anyOverlap := false, false
		stuck := 0
		fetches := 0

		synctest.Test(t, func(t *testing.T) {
			store := &c30GateStore{objects: map[string][]byte{}}
			ver := map[string]int{}
			for _, k := range w.keys {
				store.objects[k] = w.versions[k][0]
			}
			res := NewResolver(ResolverConfig{MaxSize: w.maxSize, ValidateChecksum: true}, store)
			con := NewConsumer(store)
			started := make([]bool, G)
			done := make([]atomic.Bool, G)
			cancels := make([]context.CancelFunc, G)
			canceled := make([]bool, G)
			order := rng.Perm(G)
			next := 0
			start := func(g int) {
				ctx, cancel := context.WithCancel(context.Background())
				cancels[g] = cancel
				started[g] = true
				go func() {
					o := c30SharedCall(ctx, specs[g], res, con)
					outs[g] = o
					done[g].Store(true)
				}()
			}
			for step := 0; ; step++ {
				synctest.Wait()
				// who is in flight at this quiescent point?
				var fl []int
				for g := 0; g < G; g++ {
					if started[g] && !done[g].Load() {
						fl = append(fl, g)
					}
				}
				for a := 0; a < len(fl); a++ {
					for b := a + 1; b < len(fl); b++ {
						if specs[fl[a]].Key == specs[fl[b]].Key {
							anyOverlap = true
						}
						if c30Conflicting(specs[fl[a]], specs[fl[b]]) {
							conflictOverlap = true
						}
					}
				}
				store.mu.Lock()
				np := len(store.parked)
				store.mu.Unlock()
				canStart := next < G
				var owKeys []string
				for _, k := range w.keys {
					if ver[k] < len(w.versions[k])-1 {
						owKeys = append(owKeys, k)
					}
				}
				var cancelable []int
				for _, g := range fl {
					if specs[g].Cancelable && !canceled[g] {
						cancelable = append(cancelable, g)
					}
				}
				if !canStart && np == 0 {
					break
				}
				wStart, wRel, wOw, wCancel := 0, 0, 0, 0
				if canStart {
					wStart = map[string]int{"pile_up": 20, "burst": 20, "interleaved": 4}[mode]
				}
				if np > 0 {
					wRel = 4
					if canStart && mode != "interleaved" {
						wRel = 1
					}
				}
				if len(owKeys) > 0 {
					wOw = 2
				}
				if len(cancelable) > 0 {
					wCancel = 1
				}
				if step > 40*G { // safety net: drain
					wStart, wOw, wCancel = 0, 0, 0
					if np == 0 {
						for next < G {
							start(order[next])
							next++
						}
						continue
					}
				}
				x := rng.Intn(wStart + wRel + wOw + wCancel)
				switch {
				case x < wStart:
					if mode == "burst" {
						// several callers enter without a quiescent point in between: arrival order is the scheduler's
						n := 2 + rng.Intn(G)
						for ; n > 0 && next < G; n-- {
							trace = append(trace, fmt.Sprintf("start %d (burst)", order[next]))
							start(order[next])
							next++
						}
					} else {
						trace = append(trace, fmt.Sprintf("start %d", order[next]))
						start(order[next])
						next++
					}
				case x < wStart+wRel:
					store.mu.Lock()
					i := rng.Intn(len(store.parked))
					p := store.parked[i]
					store.parked = append(store.parked[:i], store.parked[i+1:]...)
					store.mu.Unlock()
					if rng.Intn(25) == 0 {
						trace = append(trace, fmt.Sprintf("release fetch#%d of %s with an error", i, p.key))
						p.ch <- c30Reply{err: errors.New("scripted fetch failure")}
					} else {
						trace = append(trace, fmt.Sprintf("release fetch#%d of %s with v%d", i, p.key, ver[p.key]))
						p.ch <- c30Reply{data: append([]byte(nil), store.objects[p.key]...)}
					}
				case x < wStart+wRel+wOw:
					k := owKeys[rng.Intn(len(owKeys))]
					ver[k]++
					store.objects[k] = w.versions[k][ver[k]]
					trace = append(trace, fmt.Sprintf("overwrite %s -> v%d", k, ver[k]))
				default:
					g := cancelable[rng.Intn(len(cancelable))]
					canceled[g] = true
					cancels[g]()
					trace = append(trace, fmt.Sprintf("cancel %d", g))
				}
			}
			synctest.Wait()
			for g := 0; g < G; g++ {
				if !done[g].Load() {
					stuck++
				}
				if cancels[g] != nil {
					cancels[g]()
				}
			}
			synctest.Wait()
			store.mu.Lock()
			fetches = store.fetches
			store.mu.Unlock()
		})

		witness := func(g int) func() any {
			return func() any {
				objs := map[string][]string{}
				for _, k := range w.keys {
					for _, v := range w.versions[k] {
						objs[k] = append(objs[k], hex.EncodeToString(v))
					}
				}
				return map[string]any{"round": ci, "mode": mode, "max_size": w.maxSize, "callers": specs, "offending_caller": g,
					"script": trace, "object_versions_hex": objs, "returned_hex": hex.EncodeToString(outs[g].got), "err": fmt.Sprint(outs[g].err)}
			}
		}
		if stuck > 0 {
			r.Count("callers_never_returned", int64(stuck))
			r.Inconclusive(fmt.Sprintf("round %d: %d caller(s) never returned although no fetch was parked any more", ci, stuck))
			continue
		}
		overlap := "sequential"
		if conflictOverlap {
			overlap = "concurrent_conflicting_envelopes"
		} else if anyOverlap {
			overlap = "concurrent"
		}
		judge := c30SharedJudge{r: r, leg: "sharedgate", maxSize: w.maxSize}
		verified := 0
		for g := range specs {
			if judge.judge(specs[g], outs[g], overlap, witness(g)) {
				verified++
			}
		}
		for g := range specs {
			judge.rejudgeHeld(specs[g], outs[g], witness(g))
		}
		r.Count("store_fetches", int64(fetches))
		if fetches < G {
			r.Count("rounds_with_fewer_fetches_than_calls", 1)
		}
		if anyOverlap {
			r.Count("rounds_same_key_in_flight_together", 1)
		}
		if conflictOverlap {
			r.Count("rounds_conflicting_envelopes_in_flight_together", 1)
		}
		kinds := make([]string, 0, G)
		for _, sp := range specs {
			kinds = append(kinds, sp.Reader[:3]+":"+sp.Kind)
		}
		sort.Strings(kinds)
		r.Seen("mode_x_readers", mode+"|"+readers)
		r.Case(verifkit.Hash(mode, readers, len(w.keys), w.maxSize > 0, strings.Join(kinds, ",")), conflictOverlap && verified > 0)
		if ci < 2 || only >= 0 {
			r.Sample(map[string]any{"round": ci, "mode": mode, "readers": readers, "callers": specs, "script": trace, "max_size": w.maxSize})
		}
	}
	if only < 0 {
		r.Floor("rounds_conflicting_envelopes_in_flight_together", int64(rounds/4))
		r.Floor("returned_verified_resolver", 100)
		r.Floor("returned_verified_consumer", 20)
		r.Floor("refused_with_checksum_error", 100)
	}
}

// ---- free-running stress ----

type c30LiveStore struct {
	mu      sync.RWMutex
	objects map[string][]byte
	fetches atomic.Int64
	inFetch atomic.Int64
	overlap atomic.Int64
}

func (s *c30LiveStore) Fetch(ctx context.Context, key string) ([]byte, error) {
	s.fetches.Add(1)
	if s.inFetch.Add(1) > 1 {
		s.overlap.Add(1)
	}
	defer s.inFetch.Add(-1)
	// a fetch takes "a while": let the other callers run before and after reading the object
	for i := 0; i < 3; i++ {
		runtime.Gosched()
	}
	s.mu.RLock()
	b, ok := s.objects[key]
	out := append([]byte(nil), b...)
	s.mu.RUnlock()
	for i := 0; i < 3; i++ {
		runtime.Gosched()
	}
	if !ok {
		return nil, errors.New("NoSuchKey")
	}
	return out, nil
}

func (s *c30LiveStore) Stream(ctx context.Context, key string) (io.ReadCloser, int64, error) {
	b, err := s.Fetch(ctx, key)
	if err != nil {
		return nil, 0, err
	}
	return io.NopCloser(bytes.NewReader(b)), int64(len(b)), nil
}

func TestVerifC30SharedStress(t *testing.T) {
	r := verifkit.Start(t, "C30", "sharedstress")
	defer r.Finish("free-running rounds under the race detector: 8 goroutines x 24 calls on ONE shared Resolver (validation on, PRNG MaxSize) and ONE shared Consumer (same caller/envelope generator as the gated leg: 1-3 keys, envelopes declaring the digest of a current or stale version, damaged / foreign / wrong-algorithm digests, alg none, varying size fields) while a writer goroutine overwrites the keys with their next versions; the store yields the processor around the object read so that fetches overlap. Oracle per call with the caller's own envelope as in the gated leg (returned blob has the declared digest, len <= MaxSize), blobs re-digested when the round is over. non-trivial = round in which store fetches overlapped and verified blobs were returned",
		"overlap is produced by the Go scheduler; it is counted (fetches entered while another was inside) but never judged")
	rounds := r.N(60, 1500)
	const G, M = 8, 24
	for ci := 0; ci < rounds; ci++ {
		rng := r.Rand(ci)
		w := c30GenWorld(rng, fmt.Sprintf("s%d", ci))
		readers := []string{"resolver", "resolver", "mixed"}[rng.Intn(3)]
		store := &c30LiveStore{objects: map[string][]byte{}}
		for _, k := range w.keys {
			store.objects[k] = w.versions[k][0]
		}
		res := NewResolver(ResolverConfig{MaxSize: w.maxSize, ValidateChecksum: true}, store)
		con := NewConsumer(store)
		specs := make([][]c30SharedSpec, G)
		for g := range specs {
			specs[g] = make([]c30SharedSpec, M)
			for m := range specs[g] {
				specs[g][m] = w.genSpec(rng, readers)
			}
		}
		// the writer's plan: every key walks through its versions, in a PRNG interleaving
		var plan []string
		for _, k := range w.keys {
			for v := 1; v < len(w.versions[k]); v++ {
				plan = append(plan, k)
			}
		}
		rng.Shuffle(len(plan), func(a, b int) { plan[a], plan[b] = plan[b], plan[a] })
		gap := 1 + rng.Intn(200)
		outs := make([][]c30SharedOut, G)
		startGate := make(chan struct{})
		var wg sync.WaitGroup
		for g := 0; g < G; g++ {
			outs[g] = make([]c30SharedOut, M)
			wg.Add(1)
			go func(g int) {
				defer wg.Done()
				<-startGate
				for m := 0; m < M; m++ {
					outs[g][m] = c30SharedCall(context.Background(), specs[g][m], res, con)
				}
			}(g)
		}
		wg.Add(1)
		go func() {
			defer wg.Done()
			<-startGate
			ver := map[string]int{}
			for _, k := range plan {
				for i := 0; i < gap; i++ {
					runtime.Gosched()
				}
				ver[k]++
				store.mu.Lock()
				store.objects[k] = w.versions[k][ver[k]]
				store.mu.Unlock()
			}
		}()
		close(startGate)
		wg.Wait()

		judge := c30SharedJudge{r: r, leg: "sharedstress", maxSize: w.maxSize}
		verified := 0
		witness := func(g, m int) func() any {
			return func() any {
				objs := map[string][]string{}
				for _, k := range w.keys {
					for _, v := range w.versions[k] {
						objs[k] = append(objs[k], hex.EncodeToString(v))
					}
				}
				return map[string]any{"round": ci, "goroutine": g, "call": m, "max_size": w.maxSize, "caller": specs[g][m],
					"object_versions_hex": objs, "returned_hex": hex.EncodeToString(outs[g][m].got), "err": fmt.Sprint(outs[g][m].err)}
			}
		}
		for g := 0; g < G; g++ {
			for m := 0; m < M; m++ {
				if judge.judge(specs[g][m], outs[g][m], "free_running", witness(g, m)) {
					verified++
				}
			}
		}
		for g := 0; g < G; g++ {
			for m := 0; m < M; m++ {
				judge.rejudgeHeld(specs[g][m], outs[g][m], witness(g, m))
			}
		}
		ov := store.overlap.Load()
		r.Count("store_fetches", store.fetches.Load())
		r.Count("fetches_entered_while_another_inside", ov)
		r.Case(verifkit.Hash(ci, readers, len(w.keys), w.maxSize > 0, gap), ov > 0 && verified > 0)
		if ci == 0 {
			r.Sample(map[string]any{"round": ci, "readers": readers, "keys": len(w.keys), "max_size": w.maxSize, "goroutines": G, "calls_each": M, "first_caller": specs[0][0]})
		}
	}
	r.Floor("fetches_entered_while_another_inside", int64(rounds))
	r.Floor("returned_verified_resolver", 200)
	r.Floor("refused_with_checksum_error", 200)
}
