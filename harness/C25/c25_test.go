//go:build verif

package main

import (
	"context"
	"errors"
	"fmt"
	"sync"
	"testing"
	"testing/synctest"
	"time"

	"github.com/KafScale/platform/internal/verifkit"
	"github.com/KafScale/platform/pkg/broker"
	"github.com/KafScale/platform/pkg/protocol"
	"github.com/KafScale/platform/pkg/storage"
	"github.com/twmb/franz-go/pkg/kerr"
	"github.com/twmb/franz-go/pkg/kmsg"
)

type c25Sample struct {
	GapMs     int  `json:"gap_ms"` // virtual time before this sample
	LatencyMs int  `json:"latency_ms"`
	Err       bool `json:"err"`
}

type c25Cfg struct {
	WindowMs, WarnMs, CritMs int
	ErrWarn, ErrCrit         float64
}

func rank(s broker.S3HealthState) int {
	switch s {
	case broker.S3StateHealthy:
		return 0
	case broker.S3StateDegraded:
		return 1
	}
	return 2
}

// c25Ref recomputes the rating from the statement: only samples inside the
// window count; unavailable if avg latency >= crit or error rate >= crit,
// degraded if >= warn, else healthy; no samples = healthy.
func c25Ref(cfg c25Cfg, at int64, ts []int64, ss []c25Sample) broker.S3HealthState {
	var n, errs int
	var sum int64
	for i, s := range ss {
		if ts[i] > at-int64(cfg.WindowMs) {
			n++
			sum += int64(s.LatencyMs)
			if s.Err {
				errs++
			}
		}
	}
	if n == 0 {
		return broker.S3StateHealthy
	}
	avg := time.Duration(sum) * time.Millisecond / time.Duration(n)
	rate := float64(errs) / float64(n)
	switch {
	case avg >= time.Duration(cfg.CritMs)*time.Millisecond || rate >= cfg.ErrCrit:
		return broker.S3StateUnavailable
	case avg >= time.Duration(cfg.WarnMs)*time.Millisecond || rate >= cfg.ErrWarn:
		return broker.S3StateDegraded
	}
	return broker.S3StateHealthy
}

// c25Run feeds a sequence to a fresh real monitor on virtual time and returns the state after every sample
// and after a final idle gap.
func c25Run(cfg c25Cfg, ss []c25Sample, tailGapMs int) (states []broker.S3HealthState, ts []int64, endAt int64) {
	m := broker.NewS3HealthMonitor(broker.S3HealthConfig{Window: time.Duration(cfg.WindowMs) * time.Millisecond, LatencyWarn: time.Duration(cfg.WarnMs) * time.Millisecond,
		LatencyCrit: time.Duration(cfg.CritMs) * time.Millisecond, ErrorWarn: cfg.ErrWarn, ErrorCrit: cfg.ErrCrit})
	start := time.Now()
	for _, s := range ss {
		time.Sleep(time.Duration(s.GapMs) * time.Millisecond)
		var err error
		if s.Err {
			err = errors.New("boom")
		}
		m.RecordOperation("op", time.Duration(s.LatencyMs)*time.Millisecond, err)
		ts = append(ts, time.Since(start).Milliseconds())
		states = append(states, m.State())
	}
	time.Sleep(time.Duration(tailGapMs) * time.Millisecond)
	states = append(states, m.State())
	return states, ts, time.Since(start).Milliseconds()
}

func TestVerifC25Monitor(t *testing.T) {
	r := verifkit.Start(t, "C25", "health")
	defer r.Finish("[monitor] PRNG sequences of 1-60 samples (latency 0-5000ms, error yes/no, virtual gaps 0-40s) x thresholds (window 10-120s, latency warn/crit, error warn/crit): after every sample and after an idle tail the real monitor's State() must equal the reference recomputation over the samples inside the window; a pointwise-worse sequence (same times, latencies >=, errors superset) must never rate better at any probe; prepending samples older than the window must not change any rating. [handler] see TestVerifC25Handler. non-trivial = sequence that visited >= 2 different states",
		"sequences shorter than MaxSamples=512", "thresholds compared with >= as in the documented defaults")
	defer func() {}()
	n := r.N(1500, 40000)
	for ci := 0; ci < n; ci++ {
		rng := r.Rand(ci)
		cfg := c25Cfg{WindowMs: 10000 + rng.Intn(110000), WarnMs: 100 + rng.Intn(900), ErrWarn: 0.05 + rng.Float64()*0.4}
		cfg.CritMs = cfg.WarnMs + 1 + rng.Intn(4000)
		cfg.ErrCrit = cfg.ErrWarn + 0.01 + rng.Float64()*0.5
		ns := 1 + rng.Intn(60)
		ss := make([]c25Sample, ns)
		mode := rng.Intn(4)
		for i := range ss {
			lat := rng.Intn(cfg.WarnMs)
			switch mode {
			case 1:
				lat = rng.Intn(cfg.CritMs + 500)
			case 2:
				lat = rng.Intn(5000)
			}
			ss[i] = c25Sample{GapMs: []int{0, 1, 200, 3000, 20000, 40000}[rng.Intn(6)], LatencyMs: lat, Err: rng.Float64() < []float64{0, 0.1, 0.3, 0.7}[rng.Intn(4)]}
		}
		tail := []int{0, cfg.WindowMs / 2, cfg.WindowMs - 1, cfg.WindowMs, cfg.WindowMs + 1, 2 * cfg.WindowMs}[rng.Intn(6)]
		// pointwise-worse twin
		worse := make([]c25Sample, ns)
		for i, s := range ss {
			w := s
			if rng.Intn(3) == 0 {
				w.LatencyMs += rng.Intn(3000)
			}
			if rng.Intn(4) == 0 {
				w.Err = true
			}
			worse[i] = w
		}
		// older-than-window prefix
		npre := 1 + rng.Intn(10)
		pre := make([]c25Sample, npre)
		for i := range pre {
			pre[i] = c25Sample{GapMs: rng.Intn(1000), LatencyMs: rng.Intn(6000), Err: rng.Intn(2) == 0}
		}
		var visited = map[broker.S3HealthState]bool{}
		synctest.Test(t, func(t *testing.T) {
			got, ts, end := c25Run(cfg, ss, tail)
			for i := range got {
				at := end
				upto := len(ss)
				if i < len(ss) {
					at = ts[i]
					upto = i + 1
				}
				want := c25Ref(cfg, at, ts[:upto], ss[:upto])
				visited[got[i]] = true
				r.Count("probes", 1)
				if got[i] != want {
					r.Violation("rating_differs_from_window_recomputation", fmt.Sprintf("probe %d at +%dms: monitor says %s, samples in the window give %s", i, at, got[i], want),
						map[string]any{"config": cfg, "samples": ss, "tail_gap_ms": tail, "probe": i})
					return
				}
			}
			gw, _, _ := c25Run(cfg, worse, tail)
			for i := range got {
				r.Count("monotonicity_probes", 1)
				if rank(gw[i]) < rank(got[i]) {
					r.Violation("worse_sequence_rated_better", fmt.Sprintf("probe %d: sequence rated %s, pointwise-worse sequence rated %s", i, got[i], gw[i]),
						map[string]any{"config": cfg, "samples": ss, "worse": worse, "probe": i})
					return
				}
			}
			// prefix older than the window: shift everything by window+1 after the prefix
			shifted := append(append([]c25Sample(nil), pre...), ss...)
			shifted[npre].GapMs += cfg.WindowMs + 1
			gp, _, _ := c25Run(cfg, shifted, tail)
			// a sample s_i of the original run sees prefix samples at distance >= window+1, so they must not matter
			for i := range got {
				r.Count("old_sample_probes", 1)
				if gp[npre+i] != got[i] {
					// only if the original first gap does not change what is inside the window: the first gap precedes every sample equally
					r.Violation("samples_older_than_window_changed_rating", fmt.Sprintf("probe %d: %s without / %s with %d samples older than the window", i, got[i], gp[npre+i], npre),
						map[string]any{"config": cfg, "samples": ss, "old_prefix": pre, "probe": i})
					return
				}
			}
		})
		r.Case(verifkit.Hash(cfg, ss, tail), len(visited) >= 2)
		if ci < 2 {
			r.Sample(map[string]any{"config": cfg, "samples": ss, "tail_gap_ms": tail})
		}
	}
	r.Floor("probes", 5000)
}

func TestVerifC25Handler(t *testing.T) {
	r := verifkit.Start(t, "C25", "handler")
	defer r.Finish("real handler over the fake S3 with a topic that already holds acknowledged data; the monitor is driven into degraded (latency) / degraded (errors) / unavailable (latency) / unavailable (errors) by recorded samples; then produce (acks -1/1/0, 1-3 topics incl. unknown, 1-3 partitions) and fetch requests are issued: every partition entry must carry a non-zero error code that franz-go's kerr classifies retriable, the fake S3 must log no upload and the fetch reply no record bytes; distinct = (state, request shape); non-trivial = all (they all hit the gate)",
		"retriable = kerr.IsRetriable(kerr.ErrorForCode(code))")
	n := r.N(120, 2500)
	for ci := 0; ci < n; ci++ {
		rng := r.Rand(ci)
		how := []string{"degraded_latency", "degraded_errors", "unavailable_latency", "unavailable_errors"}[rng.Intn(4)]
		synctest.Test(t, func(t *testing.T) {
			cfg := plogCfg{Topics: map[string]int32{"t": 3, "u": 1}, FlushOnAck: true, IndexInterval: 1, BufferMaxBytes: 1 << 30, DefaultHealth: true}
			s := newScenario(t, cfg)
			h, inst := s.hs[0], s.insts[0]
			// acknowledged data exists, so a fetch WOULD return bytes if it were served
			for p := int32(0); p < 3; p++ {
				res := plogExec(h, inst, 0, int(p), plogReq{Kind: "produce", Topic: "t", Partition: p, Acks: -1, Batch: mkBatch(rng, fmt.Sprintf("seed%d", p), 2, 10)})
				if res.Err != "" || res.Code != 0 {
					t.Fatalf("seed produce failed: %+v", res)
				}
			}
			h.s3Health = broker.NewS3HealthMonitor(broker.S3HealthConfig{Window: time.Minute, LatencyWarn: 500 * time.Millisecond, LatencyCrit: 3 * time.Second, ErrorWarn: 0.2, ErrorCrit: 0.6})
			switch how {
			case "degraded_latency":
				h.s3Health.RecordOperation("x", 800*time.Millisecond, nil)
			case "degraded_errors":
				for i := 0; i < 10; i++ {
					var e error
					if i < 3 {
						e = errors.New("boom")
					}
					h.s3Health.RecordOperation("x", time.Millisecond, e)
				}
			case "unavailable_latency":
				h.s3Health.RecordOperation("x", 5*time.Second, nil)
			case "unavailable_errors":
				for i := 0; i < 5; i++ {
					h.s3Health.RecordOperation("x", time.Millisecond, errors.New("boom"))
				}
			}
			st := h.s3Health.State()
			if st == broker.S3StateHealthy {
				t.Fatalf("could not drive monitor to %s", how)
			}
			before := s.s3.eventCount()
			ctx := context.Background()
			topics := []string{"t", "u", "nosuch"}
			for req := 0; req < 4; req++ {
				if rng.Intn(2) == 0 {
					pr := kmsg.NewPtrProduceRequest()
					pr.Version = 9
					pr.Acks = []int16{-1, 1, 0}[rng.Intn(3)]
					pr.TimeoutMillis = 100
					shape := ""
					for ti := 0; ti < 1+rng.Intn(3); ti++ {
						rt := kmsg.NewProduceRequestTopic()
						rt.Topic = topics[rng.Intn(3)]
						for pi := 0; pi < 1+rng.Intn(3); pi++ {
							rp := kmsg.NewProduceRequestTopicPartition()
							rp.Partition = int32(rng.Intn(4))
							rp.Records = mkBatch(rng, fmt.Sprintf("c%d/%d/%d/%d", ci, req, ti, pi), 1, 5)
							rt.Partitions = append(rt.Partitions, rp)
						}
						pr.Topics = append(pr.Topics, rt)
						shape += fmt.Sprintf("%s:%d ", rt.Topic, len(rt.Partitions))
					}
					payload, err := h.Handle(ctx, &protocol.RequestHeader{APIKey: protocol.APIKeyProduce, APIVersion: 9, CorrelationID: 1}, pr)
					r.Case(fmt.Sprint(how, " produce acks=", pr.Acks, " ", shape), true)
					r.Count("produce_requests", 1)
					if err != nil {
						r.Violation("handler_error_while_unhealthy", "produce: "+err.Error(), map[string]any{"state": how})
						continue
					}
					if pr.Acks != 0 {
						resp := kmsg.NewPtrProduceResponse()
						resp.Version = 9
						if err := resp.ReadFrom(skipRespHeader(payload, true)); err != nil {
							r.Violation("undecodable_reply_while_unhealthy", err.Error(), nil)
							continue
						}
						asked := 0
						for _, t := range pr.Topics {
							asked += len(t.Partitions)
						}
						got := 0
						for _, t := range resp.Topics {
							for _, p := range t.Partitions {
								got++
								c25JudgeCode(r, "produce", how, st, t.Topic, p.Partition, p.ErrorCode)
							}
						}
						if got != asked {
							r.Violation("partition_entries_missing_while_unhealthy", fmt.Sprintf("produce asked %d partitions, reply has %d", asked, got), map[string]any{"state": how})
						}
					}
				} else {
					fr := kmsg.NewPtrFetchRequest()
					fr.Version = 11
					fr.MaxBytes = 1 << 20
					for ti := 0; ti < 1+rng.Intn(3); ti++ {
						rt := kmsg.NewFetchRequestTopic()
						rt.Topic = topics[rng.Intn(3)]
						for pi := 0; pi < 1+rng.Intn(3); pi++ {
							rp := kmsg.NewFetchRequestTopicPartition()
							rp.Partition = int32(rng.Intn(4))
							rp.FetchOffset = int64(rng.Intn(3))
							rp.PartitionMaxBytes = 1 << 20
							rt.Partitions = append(rt.Partitions, rp)
						}
						fr.Topics = append(fr.Topics, rt)
					}
					payload, err := h.Handle(ctx, &protocol.RequestHeader{APIKey: protocol.APIKeyFetch, APIVersion: 11, CorrelationID: 1}, fr)
					r.Case(fmt.Sprint(how, " fetch ", len(fr.Topics)), true)
					r.Count("fetch_requests", 1)
					if err != nil {
						r.Violation("handler_error_while_unhealthy", "fetch: "+err.Error(), map[string]any{"state": how})
						continue
					}
					resp := kmsg.NewPtrFetchResponse()
					resp.Version = 11
					if err := resp.ReadFrom(skipRespHeader(payload, false)); err != nil {
						r.Violation("undecodable_reply_while_unhealthy", err.Error(), nil)
						continue
					}
					for _, t := range resp.Topics {
						for _, p := range t.Partitions {
							c25JudgeCode(r, "fetch", how, st, t.Topic, p.Partition, p.ErrorCode)
							if len(p.RecordBatches) > 0 {
								r.Violation("fetch_returned_data_while_unhealthy", fmt.Sprintf("fetch %s/%d returned %d record bytes while S3 is %s", t.Topic, p.Partition, len(p.RecordBatches), st), map[string]any{"state": how})
							}
						}
					}
				}
			}
			if w := s.s3.countWrites(before); w > 0 {
				r.Violation("s3_write_while_unhealthy", fmt.Sprintf("%d S3 uploads happened while S3 was rated %s", w, st), map[string]any{"state": how, "events": s.s3.events[before:]})
			}
			if st2 := h.s3Health.State(); st2 == broker.S3StateHealthy {
				r.Inconclusive("monitor left the unhealthy state during the case")
			}
			s.teardown()
		})
		if ci == 0 {
			r.Sample(map[string]any{"state": how, "requests": "4 produce/fetch requests over topics t(3),u(1),nosuch"})
		}
	}
	r.Floor("partitions_judged", 300)
}

// c25FlakyView fails the first n uploads / downloads it sees (then behaves), so that the S3 operations of the
// FIRST partition of a request are what turns the rating unhealthy while the request is still being processed.
type c25FlakyView struct {
	*s3View
	mu            sync.Mutex // uploadFlush calls UploadSegment and UploadIndex from two goroutines
	failUploads   int
	failDownloads int
}

func (f *c25FlakyView) take(n *int) bool {
	f.mu.Lock()
	defer f.mu.Unlock()
	if *n > 0 {
		*n--
		return true
	}
	return false
}

func (f *c25FlakyView) UploadSegment(ctx context.Context, key string, body []byte) error {
	if f.take(&f.failUploads) {
		return errInjected
	}
	return f.s3View.UploadSegment(ctx, key, body)
}
func (f *c25FlakyView) UploadIndex(ctx context.Context, key string, body []byte) error {
	if f.take(&f.failUploads) {
		return errInjected
	}
	return f.s3View.UploadIndex(ctx, key, body)
}
func (f *c25FlakyView) DownloadSegment(ctx context.Context, key string, rng *storage.ByteRange) ([]byte, error) {
	if f.take(&f.failDownloads) {
		return nil, errInjected
	}
	return f.s3View.DownloadSegment(ctx, key, rng)
}

// TestVerifC25MidRequest: the rating turns unhealthy BECAUSE OF the first partition of a multi-partition request;
// the remaining partitions of that same request are processed while the broker rates S3 unhealthy and must be refused.
func TestVerifC25MidRequest(t *testing.T) {
	r := verifkit.Start(t, "C25", "midrequest")
	defer r.Finish("multi-partition produce / fetch requests (2-4 partitions of one topic) against a fresh handler with default health thresholds whose fake S3 fails the first 1-3 uploads (produce) or downloads (fetch): the first partition's own S3 operations drive the monitor to degraded/unavailable mid-request; every LATER partition entry of the same request must then carry a non-zero retriable code, acknowledge nothing and return no record bytes; distinct = (api, partitions, failures); non-trivial = the rating was unhealthy right after the first partition was processed",
		"virtual time does not advance during a request, so the rating seen by later partitions is the rating right after the earlier partitions' operations")
	n := r.N(60, 1200)
	for ci := 0; ci < n; ci++ {
		rng := r.Rand(ci)
		api := []string{"produce", "fetch"}[rng.Intn(2)]
		nparts := 2 + rng.Intn(3)
		nfail := 1 + rng.Intn(3)
		synctest.Test(t, func(t *testing.T) {
			cfg := plogCfg{Topics: map[string]int32{"t": 4}, FlushOnAck: true, IndexInterval: 1, BufferMaxBytes: 1 << 30, DefaultHealth: true}
			s := newScenario(t, cfg)
			inst := s.insts[0]
			if api == "fetch" { // data to fetch, written through the first (healthy) handler
				for p := int32(0); p < 4; p++ {
					if res := plogExec(s.hs[0], inst, 0, int(p), plogReq{Kind: "produce", Topic: "t", Partition: p, Acks: -1, Batch: mkBatch(rng, fmt.Sprintf("seed%d", p), 2, 10)}); res.Err != "" || res.Code != 0 {
						t.Fatalf("seed produce failed: %+v", res)
					}
				}
			}
			view := &c25FlakyView{s3View: &s3View{v: s.s3, inst: inst}}
			if api == "produce" {
				view.failUploads = nfail
			} else {
				view.failDownloads = nfail
			}
			h := newHandler(&storeView{Store: s.hub.inner, hub: s.hub, inst: inst}, view, protocol.MetadataBroker{NodeID: 1, Host: "127.0.0.1", Port: 9092}, discardLogger())
			h.flushOnAck, h.autoCreateTopics = true, false
			h.s3Health = broker.NewS3HealthMonitor(broker.S3HealthConfig{Window: time.Minute, LatencyWarn: 500 * time.Millisecond, LatencyCrit: 3 * time.Second, ErrorWarn: 0.2, ErrorCrit: 0.6})
			defer h.coordinator.Stop()
			ctx := context.Background()
			var codes []int16
			var bytesPer []int
			before := s.s3.eventCount()
			if api == "produce" {
				pr := kmsg.NewPtrProduceRequest()
				pr.Version, pr.Acks, pr.TimeoutMillis = 9, -1, 100
				rt := kmsg.NewProduceRequestTopic()
				rt.Topic = "t"
				for p := 0; p < nparts; p++ {
					rp := kmsg.NewProduceRequestTopicPartition()
					rp.Partition = int32(p)
					rp.Records = mkBatch(rng, fmt.Sprintf("m%d/%d", ci, p), 1, 5)
					rt.Partitions = append(rt.Partitions, rp)
				}
				pr.Topics = append(pr.Topics, rt)
				payload, err := h.Handle(ctx, &protocol.RequestHeader{APIKey: protocol.APIKeyProduce, APIVersion: 9, CorrelationID: 1}, pr)
				if err != nil {
					r.Violation("handler_error_while_unhealthy", "produce: "+err.Error(), nil)
					return
				}
				resp := kmsg.NewPtrProduceResponse()
				resp.Version = 9
				if err := resp.ReadFrom(skipRespHeader(payload, true)); err != nil || len(resp.Topics) != 1 {
					r.Violation("undecodable_reply_while_unhealthy", fmt.Sprint(err), nil)
					return
				}
				for _, p := range resp.Topics[0].Partitions {
					codes = append(codes, p.ErrorCode)
					bytesPer = append(bytesPer, 0)
				}
			} else {
				fr := kmsg.NewPtrFetchRequest()
				fr.Version, fr.MaxBytes = 11, 1<<20
				rt := kmsg.NewFetchRequestTopic()
				rt.Topic = "t"
				for p := 0; p < nparts; p++ {
					rp := kmsg.NewFetchRequestTopicPartition()
					rp.Partition, rp.FetchOffset, rp.PartitionMaxBytes = int32(p), 0, 1<<20
					rt.Partitions = append(rt.Partitions, rp)
				}
				fr.Topics = append(fr.Topics, rt)
				payload, err := h.Handle(ctx, &protocol.RequestHeader{APIKey: protocol.APIKeyFetch, APIVersion: 11, CorrelationID: 1}, fr)
				if err != nil {
					r.Violation("handler_error_while_unhealthy", "fetch: "+err.Error(), nil)
					return
				}
				resp := kmsg.NewPtrFetchResponse()
				resp.Version = 11
				if err := resp.ReadFrom(skipRespHeader(payload, false)); err != nil || len(resp.Topics) != 1 {
					r.Violation("undecodable_reply_while_unhealthy", fmt.Sprint(err), nil)
					return
				}
				for _, p := range resp.Topics[0].Partitions {
					codes = append(codes, p.ErrorCode)
					bytesPer = append(bytesPer, len(p.RecordBatches))
				}
			}
			st := h.s3Health.State()
			flipped := len(codes) > 0 && codes[0] != 0 && st != broker.S3StateHealthy
			r.Case(fmt.Sprint(api, nparts, nfail, codes), flipped)
			if !flipped {
				r.Count("cases_without_flip", 1)
				return
			}
			r.Count("cases_with_mid_request_flip", 1)
			for i := 1; i < len(codes); i++ {
				r.Count("later_partitions_judged", 1)
				if codes[i] == 0 {
					r.Violation(api+"_partition_admitted_after_mid_request_flip", fmt.Sprintf("%s of %d partitions: partition 0's S3 operations failed and turned the rating %s, but partition %d of the same request was answered with code 0 (%d record bytes)", api, nparts, st, i, bytesPer[i]),
						map[string]any{"api": api, "partitions": nparts, "failing_s3_ops": nfail, "codes": codes, "record_bytes": bytesPer, "state_after": string(st), "s3_events": s.s3.events[before:]})
				}
			}
			s.teardown()
		})
		if ci == 0 {
			r.Sample(map[string]any{"api": api, "partitions": nparts, "failing_s3_ops": nfail})
		}
	}
	r.Floor("later_partitions_judged", 30)
}

func c25JudgeCode(r *verifkit.Run, api, how string, st broker.S3HealthState, topic string, part int32, code int16) {
	r.Count("partitions_judged", 1)
	if code == 0 {
		r.Violation(api+"_acknowledged_while_unhealthy", fmt.Sprintf("%s %s/%d answered with code 0 while S3 is %s", api, topic, part, st), map[string]any{"state": how})
		return
	}
	if err := kerr.ErrorForCode(code); !kerr.IsRetriable(err) {
		r.Violation(fmt.Sprintf("non_retriable_backpressure_code:%s:%d", st, code), fmt.Sprintf("%s %s/%d answered with %v (code %d), which a Kafka client does not retry, while S3 is %s", api, topic, part, err, code, st), map[string]any{"state": how})
	}
}
