//go:build verif

package idoc

import (
	"fmt"
	"math/rand"
	"sort"
	"strings"
	"testing"

	"github.com/KafScale/platform/internal/verifkit"
)

// ---------------------------------------------------------------------------
// generated XML trees: the tree is the ground truth, the document is its
// serialisation (written here, not by encoding/xml).
// ---------------------------------------------------------------------------

type c45Node struct {
	Name      string
	Attrs     [][2]string
	Items     []c45Item
	SelfClose bool // serialise as <a/> (only when there are no items)
}

type c45Item struct {
	Child   *c45Node
	Text    string // decoded character data (what a parser must deliver)
	Raw     string // its serialisation
	Comment string // raw comment / PI (no character data)
}

// names of HTML void elements (encoding/xml.HTMLAutoClose), in several cases
var c45VoidNames = []string{"br", "BR", "img", "meta", "LINK", "hr", "input", "COL", "base", "PARAM", "area", "Frame"}

func c45IsVoid(name string) bool {
	for _, v := range []string{"basefont", "br", "area", "link", "img", "param", "hr", "input", "col", "frame", "isindex", "base", "meta"} {
		if strings.EqualFold(v, name) {
			return true
		}
	}
	return false
}

var c45SegNames = []string{"IDOC", "EDI_DC40", "E1EDK01", "E1EDK03", "E1EDKA1", "E1EDP01", "E1EDP19", "E1EDS01", "E1EDT01", "Z1CUSTOM", "BELNR", "POSEX", "MENGE", "PARVW", "DATUM", "TABNAM", "DOCNUM", "STATU", "Z-X.1", "_f", "é1", "a", "b"}

var c45Texts = []string{"10", "AG", "20260101", "active", "0000000123", "a b", "x&y", "1<2", "2>1", "\"q\"", "it's", "é", "日本", "A-1_2.3", "]] >", "0", "-", "text with  two spaces"}

func c45EscapeText(s string) string {
	s = strings.ReplaceAll(s, "&", "&amp;")
	s = strings.ReplaceAll(s, "<", "&lt;")
	s = strings.ReplaceAll(s, ">", "&gt;")
	return s
}

func c45EscapeAttr(s string) string {
	s = c45EscapeText(s)
	return strings.ReplaceAll(s, "\"", "&quot;")
}

func c45TextItem(rng *rand.Rand, text string) c45Item {
	pads := []string{"", "", " ", "\n  ", "\t", "\n\n    "}
	l, rr := pads[rng.Intn(len(pads))], pads[rng.Intn(len(pads))]
	switch rng.Intn(6) {
	case 0: // CDATA section (padding outside)
		return c45Item{Text: l + text + rr, Raw: l + "<![CDATA[" + text + "]]>" + rr}
	case 1: // numeric character references for the first rune
		rs := []rune(text)
		if len(rs) > 0 {
			return c45Item{Text: l + text + rr, Raw: l + fmt.Sprintf("&#%d;", rs[0]) + c45EscapeText(string(rs[1:])) + rr}
		}
	case 2:
		rs := []rune(text)
		if len(rs) > 0 {
			return c45Item{Text: l + text + rr, Raw: l + fmt.Sprintf("&#x%X;", rs[0]) + c45EscapeText(string(rs[1:])) + rr}
		}
	}
	return c45Item{Text: l + text + rr, Raw: l + c45EscapeText(text) + rr}
}

func c45WS(rng *rand.Rand) c45Item {
	w := []string{" ", "\n", "\n  ", "\t\t", "\n\n", "  \n    "}[rng.Intn(6)]
	return c45Item{Text: w, Raw: w}
}

type c45Gen struct {
	rng      *rand.Rand
	names    []string
	budget   int
	maxDepth int
}

func (g *c45Gen) node(depth int) *c45Node {
	rng := g.rng
	n := &c45Node{Name: g.names[rng.Intn(len(g.names))]}
	g.budget--
	for i, na := 0, []int{0, 0, 0, 1, 1, 2, 3}[rng.Intn(7)]; i < na; i++ {
		an := []string{"SEGMENT", "BEGIN", "id", "x-y", "Z"}[i%5]
		if i == 3 {
			break
		}
		n.Attrs = append(n.Attrs, [2]string{an, []string{"1", "", "a b", "x&y<z", "\"q\"", "é"}[rng.Intn(6)]})
	}
	kids := 0
	if depth < g.maxDepth && g.budget > 0 {
		kids = []int{0, 0, 1, 2, 2, 3, 4, 5}[rng.Intn(8)]
		if depth == 1 && kids == 0 {
			kids = 1 + rng.Intn(3)
		}
	}
	if kids == 0 { // leaf: a field
		switch rng.Intn(10) {
		case 0:
			n.SelfClose = true
		case 1: // <a></a>
		case 2:
			n.Items = append(n.Items, c45WS(rng)) // whitespace-only text
		case 3: // text in two pieces around a comment
			n.Items = append(n.Items, c45TextItem(rng, "AB"), c45Item{Comment: "<!-- split -->"}, c45TextItem(rng, "CD"))
		default:
			n.Items = append(n.Items, c45TextItem(rng, c45Texts[rng.Intn(len(c45Texts))]))
		}
		return n
	}
	mixed := rng.Intn(5) == 0 // element with children AND own text
	for k := 0; k < kids && g.budget > 0; k++ {
		switch rng.Intn(6) {
		case 0:
		case 1:
			n.Items = append(n.Items, c45Item{Comment: []string{"<!-- c -->", "<?pi data?>", "<!--<x>-->"}[rng.Intn(3)]})
		default:
			n.Items = append(n.Items, c45WS(rng))
		}
		if mixed && rng.Intn(2) == 0 {
			n.Items = append(n.Items, c45TextItem(rng, c45Texts[rng.Intn(len(c45Texts))]))
		}
		n.Items = append(n.Items, c45Item{Child: g.node(depth + 1)})
	}
	if rng.Intn(2) == 0 {
		n.Items = append(n.Items, c45WS(rng))
	}
	if mixed && rng.Intn(2) == 0 {
		n.Items = append(n.Items, c45TextItem(rng, "tail"))
	}
	return n
}

func c45Serialize(sb *strings.Builder, n *c45Node, rng *rand.Rand) {
	sb.WriteString("<" + n.Name)
	for _, a := range n.Attrs {
		sb.WriteString(" " + a[0] + "=\"" + c45EscapeAttr(a[1]) + "\"")
	}
	if len(n.Items) == 0 && n.SelfClose {
		sb.WriteString("/>")
		return
	}
	sb.WriteString(">")
	for _, it := range n.Items {
		switch {
		case it.Child != nil:
			c45Serialize(sb, it.Child, rng)
		case it.Comment != "":
			sb.WriteString(it.Comment)
		default:
			sb.WriteString(it.Raw)
		}
	}
	sb.WriteString("</" + n.Name + ">")
}

// ---------------------------------------------------------------------------
// reference walk, written from the statement
// ---------------------------------------------------------------------------

type c45Ref struct {
	Node   *c45Node
	Name   string
	Path   string
	Value  string // trimmed direct text
	Attrs  map[string]string
	Must   map[string][]string // child name -> trimmed direct texts of the children of that name that have non-empty text
	May    map[string]bool     // child names that MAY appear as a field (text only whitespace, or text only in descendants)
	Routes []int
}

func c45DirectText(n *c45Node) string {
	var sb strings.Builder
	for _, it := range n.Items {
		if it.Child == nil && it.Comment == "" {
			sb.WriteString(it.Text)
		}
	}
	return sb.String()
}

func c45AnyText(n *c45Node) bool {
	if strings.TrimSpace(c45DirectText(n)) != "" {
		return true
	}
	for _, it := range n.Items {
		if it.Child != nil && c45AnyText(it.Child) {
			return true
		}
	}
	return false
}

// c45Walk lists the elements in the order they close (post-order).
func c45Walk(n *c45Node, prefix string, out *[]*c45Ref) {
	path := n.Name
	if prefix != "" {
		path = prefix + "/" + n.Name
	}
	ref := &c45Ref{Node: n, Name: n.Name, Path: path, Value: strings.TrimSpace(c45DirectText(n)), Must: map[string][]string{}, May: map[string]bool{}}
	if len(n.Attrs) > 0 {
		ref.Attrs = map[string]string{}
		for _, a := range n.Attrs {
			ref.Attrs[a[0]] = a[1]
		}
	}
	for _, it := range n.Items {
		if it.Child == nil {
			continue
		}
		c45Walk(it.Child, path, out)
		raw := c45DirectText(it.Child)
		if tv := strings.TrimSpace(raw); tv != "" {
			ref.Must[it.Child.Name] = append(ref.Must[it.Child.Name], tv)
		} else if raw != "" || c45AnyText(it.Child) {
			ref.May[it.Child.Name] = true // "non-empty text" is arguable here: not judged either way
		}
	}
	*out = append(*out, ref)
}

type c45Case struct {
	XML        string              `json:"xml"`
	Config     ExplodeConfig       `json:"config"`
	Overlap    bool                `json:"config_has_name_in_two_routes"`
	VoidNonEmp []string            `json:"html_void_named_elements_with_content,omitempty"`
	RouteOf    map[string][]string `json:"routes_of_name,omitempty"`
}

var c45RouteNames = []string{"Items", "Partners", "Statuses", "Dates"}

func c45VoidTriggers(n *c45Node, out *[]string) {
	if c45IsVoid(n.Name) && len(n.Items) > 0 {
		*out = append(*out, n.Name)
	}
	for _, it := range n.Items {
		if it.Child != nil {
			c45VoidTriggers(it.Child, out)
		}
	}
}

func c45SegKey(name, path, value string, attrs map[string]string) string {
	ks := make([]string, 0, len(attrs))
	for k, v := range attrs {
		ks = append(ks, k+"="+v)
	}
	sort.Strings(ks)
	return fmt.Sprintf("%q|%q|%q|%q", name, path, value, ks)
}

func c45Explode(raw []byte, cfg ExplodeConfig) (res Result, err error, panicked any) {
	defer func() {
		if p := recover(); p != nil {
			panicked = p
		}
	}()
	res, err = ExplodeXML(raw, cfg)
	return
}

func TestVerifC45(t *testing.T) {
	r := verifkit.Start(t, "C45", "explode")
	defer r.Finish("generated well-formed XML documents (own serialiser: optional XML declaration, comments, PIs, CDATA, character/entity references, self-closing and empty elements, attributes, mixed content, whitespace-only text, repeated child names, depth <= 5, <= 60 elements; names from an IDoc-like alphabet, 15 % of the documents also use names of HTML void elements such as br/LINK/meta/COL) x routing configurations over the document's names (25 % with a name configured in two or more routes; unused names, blanks). Reference walk of the generated tree, from the statement: (1) ExplodeXML returns no error; (2) Segments has exactly one entry per element, names in closing (post-) order; each entry describes its element (path of names from the root, attributes, trimmed direct text); (3) for each of the four routes the routed list holds exactly (as a multiset) the segments whose name is configured for that route — a name configured for two routes belongs to both; (4) for every routed segment, Fields has a key for every direct child name that has non-empty (trimmed) direct text and its value is the trimmed text of one such child, and no key for a name that no direct child with text carries (children whose only text is whitespace or sits in descendants are not judged); non-trivial = document with >= 2 routed segments of which one has >= 1 field, depth >= 3 and a repeated child name",
		"'non-empty text' = direct character data that is non-empty after trimming white space (doc comment of ExplodeXML); children with whitespace-only or descendant-only text are accepted either way",
		"several same-named children collapse into one Fields key (the type is a map): any one of their texts is accepted",
		"routed lists are compared as multisets; Segments in order")
	n := r.N(4000, 120000)
	only := -1
	if rp := verifkit.Replay(); rp != nil { // bin/check C45 --replay <witness.json>: re-run exactly that case
		inner, _ := rp["replay"].(map[string]any)
		ci, okc := inner["case"].(float64)
		seed, oks := rp["seed"].(float64)
		if !okc || !oks {
			t.Fatalf("VERIF_REPLAY: witness lacks replay.case / seed")
		}
		only, r.Seed, n = int(ci), int64(seed), int(ci)+1
		r.Note("replayed", map[string]any{"case": only, "seed": r.Seed})
	}
	for ci := 0; ci < n; ci++ {
		if only >= 0 && ci != only {
			continue
		}
		rng := r.Rand(ci)
		// per-document name alphabet
		k := 3 + rng.Intn(5)
		perm := rng.Perm(len(c45SegNames))
		names := make([]string, 0, k+2)
		for i := 0; i < k; i++ {
			names = append(names, c45SegNames[perm[i]])
		}
		useVoid := rng.Intn(100) < 15
		if useVoid {
			names = append(names, c45VoidNames[rng.Intn(len(c45VoidNames))])
			if v2 := c45VoidNames[rng.Intn(len(c45VoidNames))]; rng.Intn(2) == 0 && v2 != names[len(names)-1] {
				names = append(names, v2)
			}
		}
		g := &c45Gen{rng: rng, names: names, budget: 10 + rng.Intn(50), maxDepth: 2 + rng.Intn(4)}
		root := g.node(1)
		var sb strings.Builder
		switch rng.Intn(4) {
		case 0:
			sb.WriteString("<?xml version=\"1.0\" encoding=\"UTF-8\"?>\n")
		case 1:
			sb.WriteString("<?xml version=\"1.0\"?>\n<!-- generated -->\n")
		case 2:
			sb.WriteString("\n  ")
		}
		c45Serialize(&sb, root, rng)
		if rng.Intn(2) == 0 {
			sb.WriteString("\n<!-- end -->\n")
		}
		doc := sb.String()

		// routing configuration
		routeOf := map[string][]int{}
		overlapDoc := rng.Intn(4) == 0
		lists := make([][]string, 4)
		for _, nm := range names {
			if rng.Intn(100) >= 45 {
				continue
			}
			rt := rng.Intn(4)
			routeOf[nm] = append(routeOf[nm], rt)
			if overlapDoc && rng.Intn(2) == 0 {
				rt2 := (rt + 1 + rng.Intn(3)) % 4
				routeOf[nm] = append(routeOf[nm], rt2)
				if rng.Intn(4) == 0 {
					for x := 0; x < 4; x++ {
						if x != rt && x != rt2 {
							routeOf[nm] = append(routeOf[nm], x)
							break
						}
					}
				}
			}
		}
		hasOverlap := false
		for nm, rts := range routeOf {
			sort.Ints(rts)
			if len(rts) > 1 {
				hasOverlap = true
			}
			for _, x := range rts {
				lists[x] = append(lists[x], nm)
			}
		}
		// one document in five writes some configured names with surrounding white space (" E1EDP01", "E1EDK01\t"):
		// every configured occurrence of such a name is padded. The statement does not say whether a padded
		// entry names the trimmed segment (the code trims), so either reading is accepted for list membership;
		// what is judged is that a segment the code DID route has its fields.
		padded := map[string]bool{}
		if rng.Intn(5) == 0 {
			pnames := make([]string, 0, len(routeOf))
			for nm := range routeOf {
				pnames = append(pnames, nm)
			}
			sort.Strings(pnames)
			for _, nm := range pnames {
				if rng.Intn(2) == 0 {
					padded[nm] = true
				}
			}
		}
		c45Pads := [][2]string{{" ", ""}, {"", " "}, {" ", " "}, {"\t", ""}, {"", "\n"}, {"  ", "\t "}}
		for x := range lists {
			sort.Strings(lists[x])
			for i, nm := range lists[x] {
				if padded[nm] {
					pd := c45Pads[rng.Intn(len(c45Pads))]
					lists[x][i] = pd[0] + nm + pd[1]
				}
			}
			if rng.Intn(5) == 0 {
				lists[x] = append(lists[x], "NOT_IN_DOC")
			}
			if rng.Intn(8) == 0 {
				lists[x] = append(lists[x], "")
			}
			rng.Shuffle(len(lists[x]), func(i, j int) { lists[x][i], lists[x][j] = lists[x][j], lists[x][i] })
		}
		cfg := ExplodeConfig{ItemSegments: lists[0], PartnerSegments: lists[1], StatusSegments: lists[2], DateSegments: lists[3]}

		var refs []*c45Ref
		c45Walk(root, "", &refs)
		var voidTrig []string
		c45VoidTriggers(root, &voidTrig)
		cs := c45Case{XML: doc, Config: cfg, Overlap: hasOverlap, VoidNonEmp: voidTrig, RouteOf: map[string][]string{}}
		for nm, rts := range routeOf {
			for _, x := range rts {
				cs.RouteOf[nm] = append(cs.RouteOf[nm], c45RouteNames[x])
			}
		}
		replay := map[string]any{"case": ci, "input": cs}
		r.Count("elements", int64(len(refs)))
		if len(voidTrig) > 0 {
			r.Count("docs_with_html_void_named_element_with_content", 1)
		}
		if hasOverlap {
			r.Count("docs_with_name_in_two_routes", 1)
		}

		res, err, pn := c45Explode([]byte(doc), cfg)
		// classes: anything that goes wrong in a document that contains a non-empty element
		// with an HTML void name is attributed to the decoder's HTMLAutoClose setting
		structural := func(generic, summary string) {
			cls := generic
			if len(voidTrig) > 0 {
				cls = "html_void_element_name_autoclosed"
				summary = fmt.Sprintf("element <%s> (an HTML void-element name) with content: %s", voidTrig[0], summary)
			}
			r.Violation(cls, summary, replay)
		}
		if pn != nil {
			r.Violation("panic_in_explode", fmt.Sprintf("ExplodeXML panicked: %v", pn), replay)
			r.Case(verifkit.Hash(doc, cfg), false)
			continue
		}
		ok := true
		if err != nil {
			ok = false
			structural("error_on_well_formed_document", fmt.Sprintf("well-formed document rejected: %v", err))
		}
		// (2) one entry per element in closing order
		if ok {
			var gotNames, wantNames []string
			for _, s := range res.Segments {
				gotNames = append(gotNames, s.Name)
			}
			for _, rf := range refs {
				wantNames = append(wantNames, rf.Name)
			}
			if strings.Join(gotNames, "\x00") != strings.Join(wantNames, "\x00") {
				ok = false
				replay["want_segments"] = wantNames
				replay["got_segments"] = gotNames
				cls := "segments_not_one_per_element_in_closing_order"
				if len(gotNames) == len(wantNames) {
					a, b := append([]string(nil), gotNames...), append([]string(nil), wantNames...)
					sort.Strings(a)
					sort.Strings(b)
					if strings.Join(a, "\x00") == strings.Join(b, "\x00") {
						cls = "segments_not_in_closing_order"
					}
				}
				structural(cls, fmt.Sprintf("%d elements, %d segment entries; names differ from the closing order", len(wantNames), len(gotNames)))
			}
		}
		if ok {
			for i, rf := range refs {
				s := res.Segments[i]
				if c45SegKey(s.Name, s.Path, s.Value, s.Attributes) != c45SegKey(rf.Name, rf.Path, rf.Value, rf.Attrs) {
					ok = false
					structural("segment_entry_misdescribes_element", fmt.Sprintf("entry %d: got name=%q path=%q value=%q attrs=%v, element is name=%q path=%q text=%q attrs=%v", i, s.Name, s.Path, s.Value, s.Attributes, rf.Name, rf.Path, rf.Value, rf.Attrs))
					break
				}
			}
			if ok {
				r.Count("segment_entries_verified", int64(len(refs)))
			}
		}
		segOK := ok
		// (3) routed lists
		routedSegs, withFields := 0, 0
		routedByCode := map[string]bool{}
		if len(padded) > 0 {
			r.Count("docs_with_padded_route_names", 1)
		}
		if ok {
			gotLists := [][]Segment{res.Items, res.Partners, res.Statuses, res.Dates}
			firstOnly := true // does the observation equal "each name only in the first route that lists it"?
			anyBad := -1
			for x := 0; x < 4; x++ {
				want := map[string]int{}
				wantLit := map[string]int{} // literal reading: a padded entry names no segment
				wantFirst := map[string]int{}
				for _, rf := range refs {
					rts := routeOf[rf.Name]
					for _, y := range rts {
						if y == x {
							want[c45SegKey(rf.Name, rf.Path, rf.Value, rf.Attrs)]++
							if !padded[rf.Name] {
								wantLit[c45SegKey(rf.Name, rf.Path, rf.Value, rf.Attrs)]++
							}
							routedSegs++
						}
					}
					if len(rts) > 0 && rts[0] == x {
						wantFirst[c45SegKey(rf.Name, rf.Path, rf.Value, rf.Attrs)]++
					}
				}
				got := map[string]int{}
				for _, s := range gotLists[x] {
					k := c45SegKey(s.Name, s.Path, s.Value, s.Attributes)
					got[k]++
					routedByCode[k] = true
				}
				if !c45SameCounts(got, want) && !(len(padded) > 0 && c45SameCounts(got, wantLit)) && anyBad < 0 {
					anyBad = x
					replay["route"] = c45RouteNames[x]
					replay["want_in_route"] = c45Keys(want)
					replay["got_in_route"] = c45Keys(got)
				}
				if !c45SameCounts(got, wantFirst) {
					firstOnly = false
				}
			}
			if anyBad >= 0 {
				ok = false
				switch {
				case hasOverlap && firstOnly:
					r.Violation("segment_in_several_routes_listed_only_in_first", fmt.Sprintf("route %s misses segments whose name is also configured for an earlier route (each name is only put into the first of Items, Partners, Statuses, Dates that lists it)", c45RouteNames[anyBad]), replay)
				default:
					structural("routed_list_wrong", fmt.Sprintf("route %s does not hold exactly the segments configured for it", c45RouteNames[anyBad]))
				}
			} else {
				r.Count("routed_lists_verified", 4)
				r.Count("routed_segments_verified", int64(routedSegs))
			}
		}
		// (4) fields of routed segments — judged on the Segments entries (same values as in the lists)
		fieldsOK := true
		if segOK {
			for i, rf := range refs {
				if len(routeOf[rf.Name]) == 0 || res.Segments[i].Name != rf.Name {
					continue
				}
				if padded[rf.Name] {
					sg := res.Segments[i]
					if !routedByCode[c45SegKey(sg.Name, sg.Path, sg.Value, sg.Attributes)] {
						continue // literal reading of the padded entry: not routed, nothing to judge
					}
					r.Count("routed_segments_with_padded_route_name_fields_judged", 1)
				}
				f := res.Segments[i].Fields
				if len(rf.Must) > 0 {
					withFields++
				}
				for nm, vals := range rf.Must {
					gv, present := f[nm]
					found := false
					for _, v := range vals {
						if strings.TrimSpace(gv) == v {
							found = true
						}
					}
					if !present || !found {
						fieldsOK = false
						structural("routed_segment_field_missing_or_wrong", fmt.Sprintf("segment %s: child <%s> has text %q but Fields[%q]=%q (present=%v)", rf.Path, nm, vals, nm, gv, present))
						break
					}
				}
				for nm := range f {
					if _, must := rf.Must[nm]; !must && !rf.May[nm] {
						fieldsOK = false
						structural("routed_segment_field_not_a_direct_child_with_text", fmt.Sprintf("segment %s: Fields has %q=%q but no direct child of that name has text", rf.Path, nm, f[nm]))
						break
					}
				}
				if !fieldsOK {
					break
				}
				r.Count("routed_segment_fields_verified", 1)
			}
		}
		depth, repeated := c45Shape(root)
		r.Case(verifkit.Hash(doc, cfg), ok && fieldsOK && routedSegs >= 2 && withFields >= 1 && depth >= 3 && repeated)
		if ok && fieldsOK {
			r.Count("documents_fully_verified", 1)
		}
		if ci < 2 || only >= 0 {
			r.Sample(map[string]any{"input": cs, "segments": len(res.Segments), "items": len(res.Items), "partners": len(res.Partners), "statuses": len(res.Statuses), "dates": len(res.Dates)})
		}
	}
	if only < 0 {
		r.Floor("documents_fully_verified", 1500)
		r.Floor("routed_segments_verified", 3000)
		r.Floor("routed_segment_fields_verified", 3000)
	}
}

func c45SameCounts(a, b map[string]int) bool {
	if len(a) != len(b) {
		return false
	}
	for k, v := range a {
		if b[k] != v {
			return false
		}
	}
	return true
}

func c45Keys(m map[string]int) []string {
	var out []string
	for k, v := range m {
		out = append(out, fmt.Sprintf("%dx %s", v, k))
	}
	sort.Strings(out)
	return out
}

func c45Shape(n *c45Node) (depth int, repeated bool) {
	seen := map[string]bool{}
	for _, it := range n.Items {
		if it.Child == nil {
			continue
		}
		if seen[it.Child.Name] {
			repeated = true
		}
		seen[it.Child.Name] = true
		d, rp := c45Shape(it.Child)
		if d > depth {
			depth = d
		}
		repeated = repeated || rp
	}
	return depth + 1, repeated
}
