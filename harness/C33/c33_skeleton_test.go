//go:build verif

package processor

import (
	"context"
	"testing"

	"github.com/KafScale/platform/addons/processors/skeleton/internal/checkpoint"
	"github.com/KafScale/platform/addons/processors/skeleton/internal/config"
	"github.com/KafScale/platform/addons/processors/skeleton/internal/decoder"
	"github.com/KafScale/platform/addons/processors/skeleton/internal/discovery"
	"github.com/KafScale/platform/addons/processors/skeleton/internal/sink"
	"github.com/KafScale/platform/addons/processors/skeleton/internal/verifkit"
)

type c33SkelLister struct{ w *c33World }

func (l c33SkelLister) ListCompleted(ctx context.Context) ([]discovery.SegmentRef, error) {
	segs, err := l.w.List()
	if err != nil {
		return nil, err
	}
	out := make([]discovery.SegmentRef, 0, len(segs))
	for _, s := range segs {
		out = append(out, discovery.SegmentRef{Topic: s.Topic, Partition: s.Part, BaseOffset: s.Base, SegmentKey: s.Key, IndexKey: s.Key + ".index"})
	}
	return out, nil
}

type c33SkelDecoder struct{ w *c33World }

func (d c33SkelDecoder) Decode(ctx context.Context, segmentKey, indexKey string) ([]decoder.Batch, error) {
	s, err := d.w.Decode(segmentKey)
	if err != nil {
		return nil, err
	}
	out := make([]decoder.Batch, 0, len(s.Recs))
	arena := make([]byte, 0, d.w.ValueBytes(s)) // all values of this call in one fresh allocation
	var v []byte
	for _, r := range s.Recs {
		arena, v = d.w.AppendValue(arena, s, r)
		out = append(out, decoder.Batch{Topic: s.Topic, Partition: s.Part, Offset: r.Off, Payload: v})
	}
	return out, nil
}

// c33SkelStore: inner == nil -> persistent fake with the etcd store's contract; else a spy around the module's own store.
type c33SkelStore struct {
	w     *c33World
	inner checkpoint.Store
}

func (s c33SkelStore) ClaimLease(ctx context.Context, topic string, partition int32, ownerID string) (checkpoint.Lease, error) {
	if s.inner != nil {
		l, err := s.inner.ClaimLease(ctx, topic, partition, ownerID)
		if err == nil {
			_ = s.w.Claim(topic, partition)
		}
		return l, err
	}
	if err := s.w.Claim(topic, partition); err != nil {
		return checkpoint.Lease{}, err
	}
	return checkpoint.Lease{Topic: topic, Partition: partition, OwnerID: ownerID}, nil
}

func (s c33SkelStore) RenewLease(ctx context.Context, lease checkpoint.Lease) error {
	if s.inner != nil {
		_ = s.w.Renew(lease.Topic, lease.Partition)
		return s.inner.RenewLease(ctx, lease)
	}
	return s.w.Renew(lease.Topic, lease.Partition)
}

func (s c33SkelStore) ReleaseLease(ctx context.Context, lease checkpoint.Lease) error {
	s.w.Release(lease.Topic, lease.Partition)
	if s.inner != nil {
		return s.inner.ReleaseLease(ctx, lease)
	}
	return nil
}

func (s c33SkelStore) LoadOffset(ctx context.Context, topic string, partition int32) (checkpoint.OffsetState, error) {
	if s.inner != nil {
		st, err := s.inner.LoadOffset(ctx, topic, partition)
		s.w.NoteLoad(topic, partition, st.Offset, err)
		return st, err
	}
	off, err := s.w.Load(topic, partition)
	if err != nil {
		return checkpoint.OffsetState{}, err
	}
	return checkpoint.OffsetState{Topic: topic, Partition: partition, Offset: off}, nil
}

func (s c33SkelStore) CommitOffset(ctx context.Context, state checkpoint.OffsetState) error {
	if s.inner != nil {
		err := s.inner.CommitOffset(ctx, state)
		s.w.NoteCommit(state.Topic, state.Partition, state.Offset, err)
		return err
	}
	return s.w.Commit(state.Topic, state.Partition, state.Offset)
}

type c33SkelSink struct{ w *c33World }

func (s c33SkelSink) Write(ctx context.Context, records []sink.Record) error {
	return s.w.SinkWrite(len(records), func(i int) c33Out {
		r := &records[i]
		return c33Out{Topic: r.Topic, Part: r.Partition, Off: r.Offset, Value: r.Payload}
	})
}

func (s c33SkelSink) Close(ctx context.Context) error { return nil }

func c33SkelBuild(w *c33World) func(ctx context.Context) error {
	var store checkpoint.Store = c33SkelStore{w: w}
	if w.c.Store == "default" {
		store = c33SkelStore{w: w, inner: checkpoint.New()} // what processor.New wires
	}
	p := &Processor{
		cfg:      config.Config{},
		discover: c33SkelLister{w},
		decode:   c33SkelDecoder{w},
		store:    store,
		sink:     c33SkelSink{w},
		locks:    newTopicLocker(),
	}
	return p.Run
}

func c33SkelRun(t *testing.T, leg string) {
	c33TuneRaceRuntime()
	r := verifkit.Start(t, "C33", leg)
	defer r.Finish(c33Rule, c33Assumptions...)
	caps := c33Caps{Proc: "skeleton", PollSecs: []int{5}, RandQuick: 150, RandThorough: 4000, RandLargeQuick: 40, RandLargeThorough: 600} // the skeleton processor's polling interval is a constant
	var replay map[string]any
	if rep := verifkit.Replay(); rep != nil {
		replay, _ = rep["replay"].(map[string]any)
	}
	c33Main(t, r, caps, c33SkelBuild, replay)
}

func TestVerifC33Skeleton(t *testing.T) { c33SkelRun(t, "skeleton") }
