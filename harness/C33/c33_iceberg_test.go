//go:build verif

package processor

import (
	"context"
	"crypto/sha256"
	"encoding/hex"
	"errors"
	"io"
	"testing"

	"github.com/KafScale/platform/addons/processors/iceberg-processor/internal/checkpoint"
	"github.com/KafScale/platform/addons/processors/iceberg-processor/internal/config"
	"github.com/KafScale/platform/addons/processors/iceberg-processor/internal/decoder"
	"github.com/KafScale/platform/addons/processors/iceberg-processor/internal/discovery"
	"github.com/KafScale/platform/addons/processors/iceberg-processor/internal/sink"
	"github.com/KafScale/platform/addons/processors/iceberg-processor/internal/verifkit"
	"github.com/KafScale/platform/pkg/lfs"
)

type c33IceLister struct{ w *c33World }

func (l c33IceLister) ListCompleted(ctx context.Context) ([]discovery.SegmentRef, error) {
	segs, err := l.w.List()
	if err != nil {
		return nil, err
	}
	out := make([]discovery.SegmentRef, 0, len(segs))
	for _, s := range segs {
		out = append(out, discovery.SegmentRef{Topic: s.Topic, Partition: s.Part, BaseOffset: s.Base, SegmentKey: s.Key, IndexKey: s.Key + ".index"})
	}
	return out, nil
}

type c33IceDecoder struct{ w *c33World }

func (d c33IceDecoder) Decode(ctx context.Context, segmentKey, indexKey, topic string, partition int32) ([]decoder.Record, error) {
	s, err := d.w.Decode(segmentKey)
	if err != nil {
		return nil, err
	}
	out := make([]decoder.Record, 0, len(s.Recs))
	arena := make([]byte, 0, d.w.ValueBytes(s)) // all values of this call in one fresh allocation
	key := []byte("k")
	var v []byte
	for _, r := range s.Recs {
		arena, v = d.w.AppendValue(arena, s, r)
		out = append(out, decoder.Record{Topic: s.Topic, Partition: s.Part, Offset: r.Off, Timestamp: 1000 + r.Off, Key: key, Value: v})
	}
	return out, nil
}

// c33IceStore: inner == nil -> persistent fake with the etcd store's contract; else a spy around the module's own store.
type c33IceStore struct {
	w     *c33World
	inner checkpoint.Store
}

func (s c33IceStore) ClaimLease(ctx context.Context, topic string, partition int32, ownerID string) (checkpoint.Lease, error) {
	if s.inner != nil {
		l, err := s.inner.ClaimLease(ctx, topic, partition, ownerID)
		if err == nil {
			_ = s.w.Claim(topic, partition)
		}
		return l, err
	}
	if err := s.w.Claim(topic, partition); err != nil {
		return checkpoint.Lease{}, err
	}
	return checkpoint.Lease{Topic: topic, Partition: partition, OwnerID: ownerID, LeaseID: 7}, nil
}

func (s c33IceStore) RenewLease(ctx context.Context, lease checkpoint.Lease) error {
	if s.inner != nil {
		_ = s.w.Renew(lease.Topic, lease.Partition)
		return s.inner.RenewLease(ctx, lease)
	}
	return s.w.Renew(lease.Topic, lease.Partition)
}

func (s c33IceStore) ReleaseLease(ctx context.Context, lease checkpoint.Lease) error {
	s.w.Release(lease.Topic, lease.Partition)
	if s.inner != nil {
		return s.inner.ReleaseLease(ctx, lease)
	}
	return nil
}

func (s c33IceStore) LoadOffset(ctx context.Context, topic string, partition int32) (checkpoint.OffsetState, error) {
	if s.inner != nil {
		st, err := s.inner.LoadOffset(ctx, topic, partition)
		s.w.NoteLoad(topic, partition, st.Offset, err)
		return st, err
	}
	off, err := s.w.Load(topic, partition)
	if err != nil {
		return checkpoint.OffsetState{}, err
	}
	return checkpoint.OffsetState{Topic: topic, Partition: partition, Offset: off}, nil
}

func (s c33IceStore) CommitOffset(ctx context.Context, state checkpoint.OffsetState) error {
	if s.inner != nil {
		err := s.inner.CommitOffset(ctx, state)
		s.w.NoteCommit(state.Topic, state.Partition, state.Offset, err)
		return err
	}
	return s.w.Commit(state.Topic, state.Partition, state.Offset)
}

type c33IceSink struct{ w *c33World }

func (s c33IceSink) Write(ctx context.Context, records []sink.Record) error {
	return s.w.SinkWrite(len(records), func(i int) c33Out {
		r := &records[i]
		return c33Out{Topic: r.Topic, Part: r.Partition, Off: r.Offset, Value: r.Value}
	})
}

func (s c33IceSink) Close(ctx context.Context) error { return nil }

type c33IceS3 struct{ w *c33World }

func (s c33IceS3) Fetch(ctx context.Context, key string) ([]byte, error) { return s.w.Fetch(key) }
func (s c33IceS3) Stream(ctx context.Context, key string) (io.ReadCloser, int64, error) {
	return nil, 0, errors.New("c33: Stream not used by the processor")
}

func c33IceEncodeLFS(key string, blob []byte) []byte {
	sum := sha256.Sum256(blob)
	b, err := lfs.EncodeEnvelope(lfs.Envelope{Version: 1, Bucket: "c33-bucket", Key: key, Size: int64(len(blob)), SHA256: hex.EncodeToString(sum[:]), ContentType: "text/plain"})
	if err != nil {
		panic(err)
	}
	return b
}

func TestVerifC33Iceberg(t *testing.T) {
	c33TuneRaceRuntime()
	r := verifkit.Start(t, "C33", "iceberg")
	defer r.Finish(c33Rule, c33Assumptions...)
	caps := c33Caps{Proc: "iceberg", LFS: true, PollSecs: []int{5, 1, 7, 12}, RandQuick: 100, RandThorough: 2000, RandLargeQuick: 40, RandLargeThorough: 500, EncodeLFS: c33IceEncodeLFS}
	build := func(w *c33World) func(ctx context.Context) error {
		var store checkpoint.Store = c33IceStore{w: w}
		if w.c.Store == "default" {
			inner, err := checkpoint.New(config.Config{}) // the module's own default: offsets.backend unset
			if err != nil {
				t.Fatalf("checkpoint.New: %v", err)
			}
			store = c33IceStore{w: w, inner: inner}
		}
		p := &Processor{
			cfg:            config.Config{Processor: config.ProcessorConfig{PollIntervalSeconds: w.c.PollSec}},
			discover:       c33IceLister{w},
			decode:         c33IceDecoder{w},
			store:          store,
			sink:           c33IceSink{w},
			validator:      nil,
			mappingByTopic: map[string]config.Mapping{},
		}
		if w.c.LFSMode != "" {
			chk := w.c.LFSChecksum
			m := config.Mapping{Table: "t", Mode: "append", Lfs: config.LfsConfig{Mode: w.c.LFSMode, MaxInlineSize: 1 << 20, StoreMetadata: w.c.LFSConc%2 == 0, ValidateChecksum: &chk, ResolveConcurrency: w.c.LFSConc}}
			seen := map[string]bool{}
			for _, s := range w.c.Segs {
				if !seen[s.Topic] {
					seen[s.Topic] = true
					m.Topic = s.Topic
					p.mappingByTopic[s.Topic] = m
				}
			}
			p.lfsS3 = c33IceS3{w}
		}
		return p.Run
	}
	var replay map[string]any
	if rep := verifkit.Replay(); rep != nil {
		replay, _ = rep["replay"].(map[string]any)
	}
	c33Main(t, r, caps, build, replay)
}
