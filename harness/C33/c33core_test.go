//go:build verif

// C33 core: processor-neutral world model, fault scheduler, monitors and case
// generator. It is compiled into each processor's `processor` package next to a
// thin adapter (c33_<name>_test.go) that turns the world's hooks into that
// module's Lister / Decoder / Store / Writer / S3Reader and runs the real
// Processor.Run inside a testing/synctest bubble (virtual time).
//
// Stdlib only: the three processors are three modules with three different
// verifkit import paths, so the kit is reached through the c33Reporter interface.
package processor

import (
	"bytes"
	"context"
	"encoding/json"
	"errors"
	"fmt"
	"io"
	"log"
	"math/rand"
	"os"
	"sort"
	"strings"
	"sync"
	"syscall"
	"testing"
	"testing/synctest"
	"time"
)

// ---------------------------------------------------------------- case model

type c33Rec struct {
	Off int64 `json:"off"`
	LFS bool  `json:"lfs,omitempty"` // value is an LFS envelope (iceberg only)
}

type c33Seg struct {
	Topic    string   `json:"topic"`
	Part     int32    `json:"part"`
	Key      string   `json:"key"`
	Base     int64    `json:"base"`
	Recs     []c33Rec `json:"recs"`
	AppearAt int      `json:"appear_at"` // first polling cycle whose listing contains the segment
	// Run > 0: a LARGE segment written compactly: Run records with the contiguous offsets
	// Base..Base+Run-1 (Recs is left nil in the case and materialised by the world);
	// LFSEvery > 0 makes every LFSEvery-th of them an LFS envelope (iceberg only).
	Run      int `json:"run,omitempty"`
	LFSEvery int `json:"lfs_every,omitempty"`
}

// expand materialises the records of a Run segment.
func (s c33Seg) expand() c33Seg {
	if s.Run <= 0 {
		return s
	}
	out := s
	out.Recs = make([]c33Rec, s.Run)
	for j := range out.Recs {
		out.Recs[j] = c33Rec{Off: s.Base + int64(j), LFS: s.LFSEvery > 0 && j%s.LFSEvery == s.LFSEvery-1}
	}
	return out
}

func (s c33Seg) size() int {
	if s.Run > 0 {
		return s.Run
	}
	return len(s.Recs)
}

func (s c33Seg) hasLFS() bool {
	if s.Run > 0 {
		return s.LFSEvery > 0 && s.Run >= s.LFSEvery
	}
	for _, r := range s.Recs {
		if r.LFS {
			return true
		}
	}
	return false
}

func (s c33Seg) firstOff() (int64, bool) {
	if s.Run > 0 {
		return s.Base, true
	}
	if len(s.Recs) > 0 {
		return s.Recs[0].Off, true
	}
	return 0, false
}

// c33Fault is one transient failure.
//
//	list            the ListCompleted call of polling cycle Cycle fails
//	claim           the Nth ClaimLease call of cycle Cycle fails
//	load            the Nth LoadOffset call of cycle Cycle fails
//	decode          Decode of segment #Nth (index into Segs) fails in cycle Cycle
//	lfs             the S3 fetch of the first LFS record of segment #Nth fails in cycle Cycle
//	sink            Write of a batch that starts in segment #Nth fails in cycle Cycle (nothing written)
//	sink_call       the Nth (0-based) Write call of polling cycle Cycle fails, whatever it carries (nothing written)
//	sink_partial    the Nth (0-based) Write call of polling cycle Cycle accepts its first min(Keep, len-1) records
//	                (they ARE in the sink from then on) and then fails
//	commit_lost     CommitOffset of an offset of segment #Nth fails in cycle Cycle, nothing persisted
//	commit_ack_lost same, but the offset IS persisted and only the reply is an error (etcd store: first Put ok, later Put fails)
//	renew           the Nth RenewLease call of the run (1-based) fails
type c33Fault struct {
	Comp  string `json:"comp"`
	Cycle int    `json:"cycle,omitempty"`
	Nth   int    `json:"nth"`
	Keep  int    `json:"keep,omitempty"` // sink_partial only
}

func (f c33Fault) String() string {
	if f.Comp == "renew" {
		return fmt.Sprintf("renew#%d", f.Nth)
	}
	if f.Comp == "sink_partial" {
		return fmt.Sprintf("c%d:%s#%d+%d", f.Cycle, f.Comp, f.Nth, f.Keep)
	}
	return fmt.Sprintf("c%d:%s#%d", f.Cycle, f.Comp, f.Nth)
}

type c33Case struct {
	Layout      string     `json:"layout"`
	Segs        []c33Seg   `json:"segs"`
	Store       string     `json:"store"`                   // "default" = the module's own checkpoint.New(...) ; "persistent" = fake with the etcd store's contract
	Pre         *int64     `json:"pre_committed,omitempty"` // persistent only: offset committed before the run (records <= Pre are not owed)
	PrePart     string     `json:"pre_partition,omitempty"`
	Faults      []c33Fault `json:"faults"`
	PollSec     int        `json:"poll_sec"`
	LFSMode     string     `json:"lfs_mode,omitempty"` // "" = topic has no mapping
	LFSConc     int        `json:"lfs_conc,omitempty"`
	LFSChecksum bool       `json:"lfs_checksum,omitempty"`
}

func (c c33Case) sig() string {
	b, _ := json.Marshal(c)
	return string(b)
}

// c33Caps says what the processor under test supports.
type c33Caps struct {
	Proc                              string
	LFS                               bool                                 // processor has an LFS resolve stage
	PollSecs                          []int                                // poll intervals the processor can be configured with
	EncodeLFS                         func(key string, blob []byte) []byte // envelope encoder (module's pkg/lfs)
	RandQuick, RandThorough           int                                  // length of the PRNG case list per tier
	RandLargeQuick, RandLargeThorough int                                  // same for the PRNG list of large-segment cases
}

type c33Reporter interface {
	Violation(class, summary string, replay any)
	Case(sig string, nontrivial bool)
	Count(name string, n int64)
	Seen(set, member string)
	Sample(v any)
	Inconclusive(reason string)
	N(quick, thorough int) int
	Rand(i int) *rand.Rand
	Floor(name string, min int64)
	Exhaustive(b bool)
	Thorough() bool
	Note(key string, v any)
}

// ---------------------------------------------------------------- world

type c33PK struct {
	Topic string
	Part  int32
}

func (p c33PK) String() string { return fmt.Sprintf("%s/%d", p.Topic, p.Part) }

type c33RK struct {
	c33PK
	Off int64
}

// c33Out is one record handed to the sink.
type c33Out struct {
	Topic string
	Part  int32
	Off   int64
	Value []byte
}

type c33Missing struct {
	Part  string `json:"partition"`
	Off   int64  `json:"offset"`
	Seg   int    `json:"segment"`
	Cause string `json:"cause"`
}

type c33Viol struct {
	Class   string
	Summary string
	Missing []c33Missing
	At      string
}

type c33World struct {
	c    c33Case
	caps c33Caps
	id   string
	segs []c33Seg         // c.Segs with the records of Run segments materialised
	ids  map[c33RK]string // unique id of every record (read-only after construction)

	mu        sync.Mutex
	cycle     int
	calls     map[string]int // per-cycle call counters (claim, load)
	renews    int
	fired     []bool
	lastFault int // polling cycle of the last fired fault
	events    []string

	segOf     map[c33RK]int   // ground truth: record -> segment index
	delivered map[c33RK]int   // successful sink writes
	committed map[c33PK]int64 // persistent store state
	lease     *c33PK          // current lease holder's partition
	leaseAt   int             // cycle in which it was claimed
	cycFailed map[int]string  // segments that hit a fault in the current cycle -> component
	cycSinkOK map[int]int     // current cycle: successful sink writes that started in the segment
	cycPrefix map[int]bool    // current cycle: a sink write into the segment failed after the sink had accepted earlier records of it in this cycle
	cycLFS    map[c33RK]bool  // records whose LFS fetch failed in the current cycle
	loadSeq   []int           // current cycle: segment index the k-th LoadOffset call belongs to (inferred, classification only)
	reportedA map[c33RK]bool
	viols     []c33Viol

	nSinkOK, nSinkFail, nCommits, nPersist, nLoads, nDecodes, nFetch, nRenew, nClaims, nForeign int
	nSinkPartial, nSinkLaterFail, nLargeDecodes, nLargeWrites, nRecsAccepted                    int
	panicked                                                                                    any
}

func c33NewWorld(c c33Case, caps c33Caps, id string) *c33World {
	w := &c33World{c: c, caps: caps, id: id, calls: map[string]int{}, fired: make([]bool, len(c.Faults)),
		segOf: map[c33RK]int{}, delivered: map[c33RK]int{}, committed: map[c33PK]int64{},
		cycFailed: map[int]string{}, cycLFS: map[c33RK]bool{}, reportedA: map[c33RK]bool{},
		cycSinkOK: map[int]int{}, cycPrefix: map[int]bool{}, ids: map[c33RK]string{}}
	w.segs = make([]c33Seg, len(c.Segs))
	for i, s := range c.Segs {
		w.segs[i] = s.expand()
		for _, r := range w.segs[i].Recs {
			rk := c33RK{c33PK{s.Topic, s.Part}, r.Off}
			w.segOf[rk] = i
			w.ids[rk] = fmt.Sprintf("c33:%s:%s/%d/%d", id, s.Topic, s.Part, r.Off)
		}
	}
	if c.Pre != nil && c.Store == "persistent" {
		w.committed[w.prePart()] = *c.Pre
	}
	return w
}

func (w *c33World) prePart() c33PK {
	if len(w.c.Segs) == 0 {
		return c33PK{}
	}
	return c33PK{w.c.Segs[0].Topic, w.c.Segs[0].Part}
}

func (w *c33World) logf(format string, a ...any) {
	if len(w.events) < 600 {
		w.events = append(w.events, fmt.Sprintf("c%d ", w.cycle)+fmt.Sprintf(format, a...))
	}
}

// fire reports whether an armed fault (comp, current cycle, nth) exists and consumes it.
func (w *c33World) fire(comp string, nth int) bool { return w.fireIdx(comp, nth) >= 0 }

// fireIdx is fire returning the index of the consumed fault, -1 if none.
func (w *c33World) fireIdx(comp string, nth int) int {
	for i, f := range w.c.Faults {
		if w.fired[i] || f.Comp != comp || f.Nth != nth {
			continue
		}
		if comp != "renew" && f.Cycle != w.cycle {
			continue
		}
		w.fired[i] = true
		w.lastFault = w.cycle
		if comp == "renew" {
			w.lastFault = w.cycle + 1 // fires between two polling cycles
		}
		return i
	}
	return -1
}

func (w *c33World) persistent() bool { return w.c.Store == "persistent" }

func (w *c33World) recID(topic string, part int32, off int64) string {
	if id, ok := w.ids[c33RK{c33PK{topic, part}, off}]; ok {
		return id
	}
	return fmt.Sprintf("c33:%s:%s/%d/%d", w.id, topic, part, off)
}

// Value is the record value the decoder fake hands out: unique per (case, record).
func (w *c33World) Value(s *c33Seg, r c33Rec) []byte {
	id := w.recID(s.Topic, s.Part, r.Off)
	if r.LFS && w.caps.EncodeLFS != nil {
		return w.caps.EncodeLFS("lfs|"+id, []byte("blob|"+id))
	}
	return []byte("v|" + id)
}

// ValueBytes is the number of bytes AppendValue needs for all non-LFS records of s.
func (w *c33World) ValueBytes(s *c33Seg) int {
	n := 0
	for _, r := range s.Recs {
		if !(r.LFS && w.caps.EncodeLFS != nil) {
			n += 2 + len(w.recID(s.Topic, s.Part, r.Off))
		}
	}
	return n
}

// AppendValue appends the value of a record to arena and returns the grown arena and the value
// (capacity-limited sub-slice). The decoder fakes carve all values of one Decode call out of one
// fresh allocation: a fresh slice per call like the real decoder, without one allocation per record
// (segments have up to 5000 records). LFS envelopes are allocated separately.
func (w *c33World) AppendValue(arena []byte, s *c33Seg, r c33Rec) ([]byte, []byte) {
	if r.LFS && w.caps.EncodeLFS != nil {
		return arena, w.Value(s, r)
	}
	start := len(arena)
	arena = append(arena, 'v', '|')
	arena = append(arena, w.recID(s.Topic, s.Part, r.Off)...)
	return arena, arena[start:len(arena):len(arena)]
}

// ---- lister

func (w *c33World) List() ([]c33Seg, error) {
	w.mu.Lock()
	defer w.mu.Unlock()
	w.cycle++
	w.calls = map[string]int{}
	w.cycFailed = map[int]string{}
	w.cycLFS = map[c33RK]bool{}
	w.cycSinkOK = map[int]int{}
	w.cycPrefix = map[int]bool{}
	w.loadSeq = nil
	if w.fire("list", 0) {
		w.logf("list FAULT")
		return nil, errors.New("c33: transient list failure")
	}
	var out []c33Seg
	for i, s := range w.c.Segs { // the adapters use Topic, Part, Base and Key only
		if s.AppearAt <= w.cycle {
			out = append(out, s)
			if w.lease != nil && s.Topic == w.lease.Topic && s.Part == w.lease.Part {
				w.loadSeq = append(w.loadSeq, i)
			}
		}
	}
	return out, nil
}

func (w *c33World) visibleSegsOf(p c33PK) []int {
	var out []int
	for i, s := range w.c.Segs {
		if s.AppearAt <= w.cycle && s.Topic == p.Topic && s.Part == p.Part {
			out = append(out, i)
		}
	}
	return out
}

// ---- checkpoint store (persistent fake: the etcd store's contract; "default": spy around the module's own store)

func (w *c33World) Claim(topic string, part int32) error {
	w.mu.Lock()
	defer w.mu.Unlock()
	n := w.calls["claim"]
	w.calls["claim"]++
	w.nClaims++
	pk := c33PK{topic, part}
	if w.persistent() {
		if w.fire("claim", n) {
			w.logf("claim %s FAULT", pk)
			return errors.New("c33: transient claim failure")
		}
		if w.lease != nil {
			w.logf("claim %s refused: lease held", pk)
			return errors.New("lease already held")
		}
	}
	w.lease = &pk
	w.leaseAt = w.cycle
	w.loadSeq = w.visibleSegsOf(pk)
	w.logf("claim %s ok", pk)
	return nil
}

func (w *c33World) Renew(topic string, part int32) error {
	w.mu.Lock()
	defer w.mu.Unlock()
	w.renews++
	w.nRenew++
	if w.persistent() {
		if w.fire("renew", w.renews) {
			w.logf("renew #%d FAULT", w.renews)
			return errors.New("c33: transient renew failure")
		}
		if w.lease == nil {
			return errors.New("lease not found")
		}
	}
	return nil
}

func (w *c33World) Release(topic string, part int32) {
	w.mu.Lock()
	defer w.mu.Unlock()
	if w.lease != nil && w.lease.Topic == topic && w.lease.Part == part {
		w.lease = nil
		w.logf("release %s/%d", topic, part)
	}
}

// Load: persistent store. -1 when nothing was ever committed (etcd store's contract).
func (w *c33World) Load(topic string, part int32) (int64, error) {
	w.mu.Lock()
	defer w.mu.Unlock()
	n := w.calls["load"]
	w.calls["load"]++
	w.nLoads++
	if w.fire("load", n) {
		if n < len(w.loadSeq) {
			w.cycFailed[w.loadSeq[n]] = "load"
		}
		w.logf("load #%d FAULT", n)
		return 0, errors.New("c33: transient load failure")
	}
	off, ok := w.committed[c33PK{topic, part}]
	if !ok {
		off = -1
	}
	return off, nil
}

// NoteLoad: default store (spy).
func (w *c33World) NoteLoad(topic string, part int32, off int64, err error) {
	w.mu.Lock()
	defer w.mu.Unlock()
	w.calls["load"]++
	w.nLoads++
	if w.nLoads <= 3 {
		w.logf("default store LoadOffset(%s/%d) = %d, %v", topic, part, off, err)
	}
}

func (w *c33World) Commit(topic string, part int32, off int64) error {
	w.mu.Lock()
	defer w.mu.Unlock()
	w.nCommits++
	pk := c33PK{topic, part}
	seg, known := w.segOf[c33RK{pk, off}]
	if !known {
		seg = -1
	}
	if w.fire("commit_lost", seg) {
		w.cycFailed[seg] = "commit_lost"
		w.logf("commit %s@%d FAULT (nothing persisted)", pk, off)
		return errors.New("c33: transient commit failure")
	}
	ackLost := w.fire("commit_ack_lost", seg)
	w.committed[pk] = off
	w.nPersist++
	w.logf("commit %s@%d persisted%s", pk, off, map[bool]string{true: " (reply lost: FAULT)", false: ""}[ackLost])
	w.monitorCheckpoint(pk, off, seg)
	if ackLost {
		return errors.New("c33: commit reply lost")
	}
	return nil
}

// NoteCommit: default store (spy). The module's own store decides what a commit means; nothing is judged here.
func (w *c33World) NoteCommit(topic string, part int32, off int64, err error) {
	w.mu.Lock()
	defer w.mu.Unlock()
	w.nCommits++
	w.logf("default store CommitOffset(%s/%d@%d) = %v", topic, part, off, err)
}

// monitorCheckpoint is monitor (A): the persisted checkpoint of pk is now `off`;
// every record of pk with offset <= off (and > the pre-existing checkpoint) that a
// listed segment holds must already have been written successfully.
func (w *c33World) monitorCheckpoint(pk c33PK, off int64, commitSeg int) {
	var miss []c33Missing
	for i, s := range w.segs {
		if s.Topic != pk.Topic || s.Part != pk.Part || s.AppearAt > w.cycle {
			continue
		}
		for _, r := range s.Recs {
			rk := c33RK{pk, r.Off}
			if r.Off > off || w.exempt(rk) || w.delivered[rk] > 0 || w.reportedA[rk] {
				continue
			}
			cause := "checkpoint_past_unwritten_record"
			switch {
			case i <= commitSeg && w.cycLFS[rk]:
				cause = "lfs_fetch_failure_drops_record"
			case i < commitSeg && w.cycPrefix[i]:
				cause = "segment_tail_skipped_after_partial_write"
			case i != commitSeg && i < commitSeg && w.cycFailed[i] != "" && w.cycFailed[i] != "commit_lost":
				cause = "failed_segment_skipped_by_later_commit"
			}
			w.reportedA[rk] = true
			miss = append(miss, c33Missing{pk.String(), r.Off, i, cause})
		}
	}
	w.report(miss, fmt.Sprintf("cycle %d: checkpoint of %s persisted at %d", w.cycle, pk, off),
		func(n int, recs string) string {
			return fmt.Sprintf("checkpoint of %s moved to %d past %d record(s) never written to the sink: %s", pk, off, n, recs)
		})
}

func (w *c33World) exempt(rk c33RK) bool {
	return w.c.Pre != nil && w.persistent() && rk.c33PK == w.prePart() && rk.Off <= *w.c.Pre
}

func (w *c33World) report(miss []c33Missing, at string, summary func(n int, recs string) string) {
	by := map[string][]c33Missing{}
	for _, m := range miss {
		by[m.Cause] = append(by[m.Cause], m)
	}
	causes := make([]string, 0, len(by))
	for c := range by {
		causes = append(causes, c)
	}
	sort.Strings(causes)
	for _, c := range causes {
		ms := by[c]
		var offs []string
		for k, m := range ms {
			if len(ms) > 24 && k >= 8 && k < len(ms)-4 {
				if k == 8 {
					offs = append(offs, fmt.Sprintf("... %d more ...", len(ms)-12))
				}
				continue
			}
			offs = append(offs, fmt.Sprintf("%s@%d(seg%d)", m.Part, m.Off, m.Seg))
		}
		w.viols = append(w.viols, c33Viol{Class: c, Summary: summary(len(ms), strings.Join(offs, " ")), Missing: ms, At: at})
	}
}

// ---- decoder

func (w *c33World) Decode(segKey string) (*c33Seg, error) {
	w.mu.Lock()
	defer w.mu.Unlock()
	w.nDecodes++
	for i := range w.segs {
		if w.segs[i].Key != segKey {
			continue
		}
		if w.fire("decode", i) {
			w.cycFailed[i] = "decode"
			w.logf("decode seg%d FAULT", i)
			return nil, errors.New("c33: transient decode failure")
		}
		s := w.segs[i]
		if len(s.Recs) > c33LargeMark {
			w.nLargeDecodes++
		}
		return &s, nil
	}
	return nil, fmt.Errorf("c33: unknown segment key %q", segKey)
}

// ---- LFS blob store

func (w *c33World) Fetch(key string) ([]byte, error) {
	w.mu.Lock()
	defer w.mu.Unlock()
	w.nFetch++
	// key = "lfs|c33:<id>:<topic>/<part>/<off>"
	var topic string
	var part int32
	var off int64
	rest := strings.TrimPrefix(key, "lfs|c33:"+w.id+":")
	parts := strings.Split(rest, "/")
	if rest == key || len(parts) != 3 {
		return nil, fmt.Errorf("c33: unknown blob %q", key)
	}
	topic = parts[0]
	var p64 int64
	if _, err := fmt.Sscanf(parts[1]+" "+parts[2], "%d %d", &p64, &off); err != nil {
		return nil, fmt.Errorf("c33: unknown blob %q", key)
	}
	part = int32(p64)
	rk := c33RK{c33PK{topic, part}, off}
	seg, ok := w.segOf[rk]
	if !ok {
		return nil, fmt.Errorf("c33: unknown blob %q", key)
	}
	first := int64(-1)
	for _, r := range w.segs[seg].Recs {
		if r.LFS {
			first = r.Off
			break
		}
	}
	if off == first && w.fire("lfs", seg) {
		w.cycLFS[rk] = true
		w.logf("lfs fetch %s@%d (seg%d) FAULT", rk.c33PK, off, seg)
		return nil, errors.New("c33: transient S3 failure")
	}
	return []byte("blob|" + w.recID(topic, part, off)), nil
}

// ---- sink

// c33LargeMark: a segment / sink batch with more records than this counts as "large" in the evidence counters.
const c33LargeMark = 900

// c33OffsStr renders the offsets of a batch; long batches are abbreviated.
func c33OffsStr(n int, at func(i int) c33Out) string {
	if n <= 12 {
		offs := make([]string, 0, n)
		for i := 0; i < n; i++ {
			offs = append(offs, fmt.Sprint(at(i).Off))
		}
		return strings.Join(offs, " ")
	}
	contiguous := true
	for i := 1; i < n; i++ {
		if at(i).Off != at(i-1).Off+1 {
			contiguous = false
			break
		}
	}
	return fmt.Sprintf("%d..%d n=%d contiguous=%v", at(0).Off, at(n-1).Off, n, contiguous)
}

// SinkWrite is the sink. A call either accepts all its records, or fails having accepted
// nothing (faults sink, sink_call), or fails having accepted a proper prefix (sink_partial).
// Only accepted records count as written. The batch is n records read through at(i) during the
// call (nothing is retained, so the adapters need not copy a 5000-record batch).
func (w *c33World) SinkWrite(n int, at func(i int) c33Out) error {
	w.mu.Lock()
	defer w.mu.Unlock()
	if n == 0 {
		return nil
	}
	call := w.calls["sink"]
	w.calls["sink"]++
	r0 := at(0)
	seg, known := w.segOf[c33RK{c33PK{r0.Topic, r0.Part}, r0.Off}]
	if !known {
		seg = -1
	}
	if n > c33LargeMark {
		w.nLargeWrites++
	}
	accept := n
	fault := ""
	if w.fire("sink", seg) {
		fault, accept = "sink", 0
	} else if w.fire("sink_call", call) {
		fault, accept = "sink_call", 0
	} else if i := w.fireIdx("sink_partial", call); i >= 0 {
		fault, accept = "sink_partial", w.c.Faults[i].Keep
		if accept > n-1 {
			accept = n - 1
		}
		if accept < 0 {
			accept = 0
		}
	}
	if fault != "" {
		w.cycFailed[seg] = "sink"
		if w.cycSinkOK[seg] > 0 || accept > 0 {
			w.cycPrefix[seg] = true
		}
		w.nSinkFail++
		if accept > 0 {
			w.nSinkPartial++
		}
		if call > 0 {
			w.nSinkLaterFail++
		}
	}
	for i := 0; i < accept; i++ {
		r := at(i)
		rk := c33RK{c33PK{r.Topic, r.Part}, r.Off}
		if _, ok := w.segOf[rk]; !ok {
			w.nForeign++
			continue
		}
		if !bytes.Contains(r.Value, []byte(w.recID(r.Topic, r.Part, r.Off))) {
			w.viols = append(w.viols, c33Viol{Class: "sink_record_payload_mismatch",
				Summary: fmt.Sprintf("record %s@%d reached the sink with a value that is not that record's (%q)", rk.c33PK, r.Off, string(r.Value)),
				At:      fmt.Sprintf("cycle %d sink write", w.cycle)})
			continue
		}
		w.delivered[rk]++
		w.nRecsAccepted++
	}
	if fault != "" {
		w.logf("sink write call#%d seg%d FAULT %s (%d records [%s], first %d accepted)", call, seg, fault, n, c33OffsStr(n, at), accept)
		return errors.New("c33: transient sink failure")
	}
	w.cycSinkOK[seg]++
	w.nSinkOK++
	w.logf("sink write call#%d seg%d ok %s/%d [%s]", call, seg, r0.Topic, r0.Part, c33OffsStr(n, at))
	return nil
}

// ---------------------------------------------------------------- running one case

// c33Progress is the bound N of monitor (B), in fault-free polling cycles.
func c33Progress(c c33Case) int {
	n := len(c.Segs) + 2
	if n < 5 {
		n = 5
	}
	return n
}

type c33Build func(w *c33World) (run func(ctx context.Context) error)

// c33RunCase runs the real Processor.Run against the world inside a synctest
// bubble until N fault-free polling cycles have passed after the last fault and
// after the last segment appeared, then judges monitor (B).
func c33RunCase(t *testing.T, w *c33World, build c33Build) (cycles int, quiet bool) {
	c := w.c
	N := c33Progress(c)
	static := 0
	armedRenew := 0
	for _, f := range c.Faults {
		if f.Comp == "renew" {
			armedRenew++
		} else if f.Cycle > static {
			static = f.Cycle
		}
	}
	for _, s := range c.Segs {
		if s.AppearAt > static {
			static = s.AppearAt
		}
	}
	hardCap := static + N + 40
	synctest.Test(t, func(t *testing.T) {
		run := build(w)
		ctx, cancel := context.WithCancel(context.Background())
		done := make(chan error, 1)
		go func() {
			defer func() {
				if p := recover(); p != nil {
					w.mu.Lock()
					w.panicked = p
					w.mu.Unlock()
					done <- fmt.Errorf("panic: %v", p)
				}
			}()
			done <- run(ctx)
		}()
		poll := time.Duration(c.PollSec) * time.Second
		time.Sleep(time.Millisecond)
		exited := false
		for !exited {
			time.Sleep(poll)
			synctest.Wait()
			select {
			case err := <-done:
				w.mu.Lock()
				w.logf("Run returned early: %v", err)
				w.mu.Unlock()
				exited = true
				continue
			default:
			}
			w.mu.Lock()
			cyc, last := w.cycle, w.lastFault
			pendingRenew := 0
			for i, f := range c.Faults {
				if f.Comp == "renew" && !w.fired[i] {
					pendingRenew++
				}
			}
			w.mu.Unlock()
			horizon := static
			if last > horizon {
				horizon = last
			}
			if (cyc >= horizon+N && pendingRenew == 0) || cyc >= hardCap {
				break
			}
		}
		w.mu.Lock()
		cycles = w.cycle
		quiet = !exited && w.cycle >= w.lastFault+N && w.cycle >= static+N
		if quiet {
			w.judgeFinal(N)
		}
		w.mu.Unlock()
		cancel()
		if !exited {
			<-done
		}
		synctest.Wait()
	})
	return cycles, quiet
}

// judgeFinal is monitor (B): bounded progress. Caller holds w.mu.
func (w *c33World) judgeFinal(N int) {
	if w.lease == nil || w.leaseAt > w.cycle-N+1 {
		return // no partition was leased throughout the fault-free tail: nothing is owed
	}
	pk := *w.lease
	var miss []c33Missing
	loadsZero := !w.persistent()
	for i, s := range w.segs {
		if s.Topic != pk.Topic || s.Part != pk.Part || s.AppearAt > w.cycle-N+1 {
			continue
		}
		for _, r := range s.Recs {
			rk := c33RK{pk, r.Off}
			if w.exempt(rk) || w.delivered[rk] > 0 || w.reportedA[rk] {
				continue
			}
			cause := "not_delivered_within_bound"
			cp, has := w.committed[pk]
			switch {
			case loadsZero && r.Off == 0:
				cause = "offset0_never_delivered"
			case w.persistent() && has && cp >= r.Off:
				cause = "checkpoint_past_unwritten_record"
			}
			miss = append(miss, c33Missing{pk.String(), r.Off, i, cause})
		}
	}
	w.report(miss, fmt.Sprintf("after cycle %d: %d fault-free polling cycles since the last fault (cycle %d), lease on %s held since cycle %d", w.cycle, w.cycle-w.lastFault, w.lastFault, pk, w.leaseAt),
		func(n int, recs string) string {
			return fmt.Sprintf("%d record(s) of a completed segment of the leased partition still not in the sink: %s", n, recs)
		})
}

// ---------------------------------------------------------------- case lists

func c33Range(from int64, n int) []c33Rec {
	out := make([]c33Rec, 0, n)
	for i := 0; i < n; i++ {
		out = append(out, c33Rec{Off: from + int64(i)})
	}
	return out
}

func c33Offs(offs ...int64) []c33Rec {
	out := make([]c33Rec, 0, len(offs))
	for _, o := range offs {
		out = append(out, c33Rec{Off: o})
	}
	return out
}

func c33SortSegs(segs []c33Seg) {
	for i := range segs {
		if len(segs[i].Recs) > 0 {
			segs[i].Base = segs[i].Recs[0].Off
		}
	}
	// the real listers sort by (topic, partition, base offset)
	sort.SliceStable(segs, func(i, j int) bool {
		if segs[i].Topic != segs[j].Topic {
			return segs[i].Topic < segs[j].Topic
		}
		if segs[i].Part != segs[j].Part {
			return segs[i].Part < segs[j].Part
		}
		return segs[i].Base < segs[j].Base
	})
	for i := range segs {
		segs[i].Key = fmt.Sprintf("%s/%d/segment-%020d.kfs", segs[i].Topic, segs[i].Part, segs[i].Base)
		if segs[i].AppearAt == 0 {
			segs[i].AppearAt = 1
		}
	}
}

type c33Layout struct {
	Name string
	Segs []c33Seg
}

func c33Layouts() []c33Layout {
	o := func(recs []c33Rec) c33Seg { return c33Seg{Topic: "orders", Part: 0, Recs: recs} }
	ls := []c33Layout{
		{"one-seg-from-0", []c33Seg{o(c33Range(0, 3))}},
		{"one-record-at-0", []c33Seg{o(c33Range(0, 1))}},
		{"two-segs-from-0", []c33Seg{o(c33Range(0, 3)), o(c33Range(3, 3))}},
		{"three-segs-from-0", []c33Seg{o(c33Range(0, 2)), o(c33Range(2, 2)), o(c33Range(4, 3))}},
		{"three-single-record-segs", []c33Seg{o(c33Range(0, 1)), o(c33Range(1, 1)), o(c33Range(2, 1))}},
		{"two-segs-from-5", []c33Seg{o(c33Range(5, 3)), o(c33Range(8, 2))}},
		{"gaps", []c33Seg{o(c33Offs(0, 2, 5)), o(c33Offs(7, 9))}},
		{"other-partition-after", []c33Seg{o(c33Range(0, 3)), o(c33Range(3, 2)), {Topic: "orders", Part: 1, Recs: c33Range(0, 2)}}},
		{"other-topic-first", []c33Seg{{Topic: "audit", Part: 0, Recs: c33Range(0, 2)}, {Topic: "audit", Part: 0, Recs: c33Range(2, 2)}, o(c33Range(0, 3))}},
		{"late-third-segment", []c33Seg{o(c33Range(0, 2)), o(c33Range(2, 2)), {Topic: "orders", Part: 0, Recs: c33Range(4, 2), AppearAt: 2}}},
	}
	for i := range ls {
		c33SortSegs(ls[i].Segs)
	}
	return ls
}

func c33CloneSegs(in []c33Seg) []c33Seg {
	out := make([]c33Seg, len(in))
	for i, s := range in {
		out[i] = s
		out[i].Recs = append([]c33Rec(nil), s.Recs...)
	}
	return out
}

// c33Universe lists every single fault that can matter for the case over polling cycles 1..cycles.
func c33Universe(c c33Case, cycles int) []c33Fault {
	if len(c.Segs) == 0 {
		return nil
	}
	lp := c33PK{c.Segs[0].Topic, c.Segs[0].Part}
	var leased []int
	for i, s := range c.Segs {
		if s.Topic == lp.Topic && s.Part == lp.Part {
			leased = append(leased, i)
		}
	}
	resolves := c.LFSMode == "resolve" || c.LFSMode == "hybrid"
	var u []c33Fault
	for cy := 1; cy <= cycles; cy++ {
		u = append(u, c33Fault{Comp: "list", Cycle: cy})
		for k, i := range leased {
			if c.Segs[i].AppearAt > cy {
				continue
			}
			u = append(u, c33Fault{Comp: "decode", Cycle: cy, Nth: i}, c33Fault{Comp: "sink", Cycle: cy, Nth: i})
			if resolves && c.Segs[i].hasLFS() {
				u = append(u, c33Fault{Comp: "lfs", Cycle: cy, Nth: i})
			}
			if c.Store == "persistent" {
				u = append(u, c33Fault{Comp: "load", Cycle: cy, Nth: k}, c33Fault{Comp: "commit_lost", Cycle: cy, Nth: i}, c33Fault{Comp: "commit_ack_lost", Cycle: cy, Nth: i})
			}
		}
		if c.Store == "persistent" {
			u = append(u, c33Fault{Comp: "claim", Cycle: cy})
		}
	}
	if c.Store == "persistent" {
		u = append(u, c33Fault{Comp: "renew", Nth: 1}, c33Fault{Comp: "renew", Nth: 2})
	}
	return u
}

// c33LeasedSegs: indexes of the segments of the partition the processor leases (that of the first listed segment).
func c33LeasedSegs(c c33Case) []int {
	var leased []int
	for i, s := range c.Segs {
		if s.Topic == c.Segs[0].Topic && s.Part == c.Segs[0].Part {
			leased = append(leased, i)
		}
	}
	return leased
}

// c33UniverseX lists the sink faults that are addressed by the position of the Write call
// within a polling cycle instead of by segment: call 0..calls-1 of cycles 1..cycles fails with
// nothing written (sink_call) or after the sink accepted a prefix of `keep` records (sink_partial).
// Which record batch the k-th call carries is up to the processor.
func c33UniverseX(cycles, calls int, keeps []int) []c33Fault {
	var u []c33Fault
	for cy := 1; cy <= cycles; cy++ {
		for k := 0; k < calls; k++ {
			u = append(u, c33Fault{Comp: "sink_call", Cycle: cy, Nth: k})
			for _, keep := range keeps {
				u = append(u, c33Fault{Comp: "sink_partial", Cycle: cy, Nth: k, Keep: keep})
			}
		}
	}
	return u
}

func c33MarkLFS(segs []c33Seg, pick func(seg, rec int) bool) {
	for i := range segs {
		for j := range segs[i].Recs {
			segs[i].Recs[j].LFS = pick(i, j)
		}
	}
}

type c33Variant struct {
	Case  c33Case
	Full  bool // only part of the full variant list (no-fault section, thorough single-fault enumeration)
	Pairs bool // enumerated with every pair of faults in the thorough tier
}

// c33Variants: store kinds (and for iceberg the LFS stage) a layout is run with.
func c33Variants(l c33Layout, caps c33Caps) []c33Variant {
	var out []c33Variant
	poll := caps.PollSecs[0]
	base := func(store string) c33Case {
		return c33Case{Layout: l.Name, Segs: c33CloneSegs(l.Segs), Store: store, PollSec: poll}
	}
	out = append(out, c33Variant{base("default"), false, true}, c33Variant{base("persistent"), false, true})
	if caps.LFS {
		for _, store := range []string{"default", "persistent"} {
			c := base(store)
			c.LFSMode, c.LFSConc, c.LFSChecksum = "resolve", 2, true
			c33MarkLFS(c.Segs, func(s, r int) bool { return (s+r)%2 == 0 })
			out = append(out, c33Variant{c, store == "default", store == "persistent"})
		}
		c := base("persistent")
		c.LFSMode, c.LFSConc = "hybrid", 1
		c33MarkLFS(c.Segs, func(s, r int) bool { return r%2 == 1 })
		out = append(out, c33Variant{c, true, false})
		c = base("persistent")
		c.LFSMode = "reference"
		c33MarkLFS(c.Segs, func(s, r int) bool { return true })
		out = append(out, c33Variant{c, true, false})
		c = base("persistent")
		c.LFSMode = "off"
		out = append(out, c33Variant{c, true, false})
	}
	if len(l.Segs) > 0 && len(l.Segs[0].Recs) > 0 {
		c := base("persistent")
		pre := l.Segs[0].Recs[0].Off
		c.Pre = &pre
		c.PrePart = (c33PK{l.Segs[0].Topic, l.Segs[0].Part}).String()
		out = append(out, c33Variant{c, true, !caps.LFS})
	}
	return out
}

func c33RandCase(rng *rand.Rand, caps c33Caps, thorough bool) c33Case {
	c := c33Case{Layout: "random", PollSec: caps.PollSecs[rng.Intn(len(caps.PollSecs))]}
	maxSegs := 3
	if thorough {
		maxSegs = 4
	}
	n := 1 + rng.Intn(maxSegs)
	off := []int64{0, 0, 0, 0, 1, 5}[rng.Intn(6)]
	for i := 0; i < n; i++ {
		k := 1 + rng.Intn(3)
		if rng.Intn(8) == 0 && i > 0 {
			k = 0 // a completed segment without records
			off++
		}
		var recs []c33Rec
		for j := 0; j < k; j++ {
			recs = append(recs, c33Rec{Off: off})
			off++
			if rng.Intn(5) == 0 {
				off += int64(1 + rng.Intn(3)) // compaction / control-batch gap
			}
		}
		s := c33Seg{Topic: "orders", Part: 0, Recs: recs, Base: off - 1}
		if k > 0 {
			s.Base = recs[0].Off
		}
		if i == n-1 && i > 0 && rng.Intn(4) == 0 {
			s.AppearAt = 2 + rng.Intn(2)
		}
		c.Segs = append(c.Segs, s)
	}
	switch rng.Intn(6) {
	case 0:
		c.Segs = append(c.Segs, c33Seg{Topic: "orders", Part: 1, Recs: c33Range(0, 1+rng.Intn(3))})
	case 1:
		c.Segs = append(c.Segs, c33Seg{Topic: "audit", Part: 0, Recs: c33Range(0, 1+rng.Intn(3))})
	case 2:
		c.Segs = append(c.Segs, c33Seg{Topic: "zeta", Part: 3, Recs: c33Range(4, 2)})
	}
	c33SortSegs(c.Segs)
	if rng.Intn(5) < 2 {
		c.Store = "default"
	} else {
		c.Store = "persistent"
		if rng.Intn(5) == 0 && len(c.Segs[0].Recs) > 0 {
			first := c.Segs[0]
			var all []int64
			for _, s := range c.Segs {
				if s.Topic == first.Topic && s.Part == first.Part {
					for _, r := range s.Recs {
						all = append(all, r.Off)
					}
				}
			}
			pre := all[rng.Intn(len(all))]
			if rng.Intn(3) == 0 {
				pre = all[0] - 1
			}
			c.Pre = &pre
			c.PrePart = (c33PK{first.Topic, first.Part}).String()
		}
	}
	if caps.LFS {
		c.LFSMode = []string{"", "off", "resolve", "resolve", "hybrid", "reference"}[rng.Intn(6)]
		if c.LFSMode == "resolve" || c.LFSMode == "hybrid" || c.LFSMode == "reference" {
			c.LFSConc = rng.Intn(4)
			c.LFSChecksum = rng.Intn(2) == 0
			p := 1 + rng.Intn(3)
			c33MarkLFS(c.Segs, func(s, r int) bool { return rng.Intn(4) < p })
		}
	}
	u := c33Universe(c, 4)
	nf := rng.Intn(5)
	seen := map[c33Fault]bool{}
	for i := 0; i < nf && len(u) > 0; i++ {
		f := u[rng.Intn(len(u))]
		if !seen[f] {
			seen[f] = true
			c.Faults = append(c.Faults, f)
		}
	}
	sort.Slice(c.Faults, func(i, j int) bool { return c.Faults[i].String() < c.Faults[j].String() })
	return c
}

// ---------------------------------------------------------------- large segments

// c33Runs builds contiguous Run segments of the given sizes for orders/0 starting at base;
// gapAt > 0 leaves a hole of 100 offsets before segment #gapAt.
func c33Runs(base int64, gapAt int, sizes ...int) []c33Seg {
	var out []c33Seg
	off := base
	for i, n := range sizes {
		if gapAt > 0 && i == gapAt {
			off += 100
		}
		out = append(out, c33Seg{Topic: "orders", Part: 0, Base: off, Run: n})
		off += int64(n)
	}
	return out
}

// c33LargeLayouts: several completed segments of one partition per polling cycle, at least one of
// them far larger than the handful of records of c33Layouts (sizes around and well above plausible
// internal batch sizes of a processor or sink: 999/1000/1001, 2000/2001, 4096/4097, 5000).
//
// The first c33LargeQuick layouts get the full schedule list in the quick tier, the others
// (the heaviest ones) a short one; the thorough tier runs the full list on all of them.
func c33LargeLayouts() []c33Layout {
	ls := []c33Layout{
		{"L-1001+3", c33Runs(0, 0, 1001, 3)},
		{"L-2500+10+10", c33Runs(0, 0, 2500, 10, 10)},
		{"L-999+1000+1001", c33Runs(0, 0, 999, 1000, 1001)},
		{"L-2001+2000", c33Runs(0, 0, 2001, 2000)},
		{"L-3+1500+2", c33Runs(0, 0, 3, 1500, 2)},
		{"L-from7-1000+1001+1", c33Runs(7, 0, 1000, 1001, 1)},
		{"L-2000-gap-1200+1", c33Runs(0, 1, 2000, 1200, 1)},
		{"L-1+1+3000+1", c33Runs(0, 0, 1, 1, 3000, 1)},
		{"L-4096+1+4097", c33Runs(0, 0, 4096, 1, 4097)},
		{"L-5000+2", c33Runs(0, 0, 5000, 2)},
	}
	for i := range ls {
		c33SortSegs(ls[i].Segs)
	}
	return ls
}

const c33LargeQuick = 6

type c33LargeVariant struct {
	Case c33Case
	Kind string // "persistent" | "default" | "pre" | "lfs"
}

func c33LargeVariants(li int, l c33Layout, caps c33Caps) []c33LargeVariant {
	base := func(store string) c33Case {
		return c33Case{Layout: l.Name, Segs: c33CloneSegs(l.Segs), Store: store, PollSec: caps.PollSecs[0]}
	}
	out := []c33LargeVariant{{base("persistent"), "persistent"}, {base("default"), "default"}}
	if li%3 == 0 {
		// a checkpoint that existed before the run, in the middle of the first large segment
		c := base("persistent")
		for _, s := range c.Segs {
			if s.Run > c33LargeMark {
				pre := s.Base + int64(s.Run/2) - 1
				c.Pre = &pre
				c.PrePart = (c33PK{s.Topic, s.Part}).String()
				break
			}
		}
		if c.Pre != nil {
			out = append(out, c33LargeVariant{c, "pre"})
		}
	}
	if caps.LFS && li%3 == 1 {
		c := base("persistent")
		c.LFSMode, c.LFSConc, c.LFSChecksum = "resolve", 3, true
		for i := range c.Segs {
			c.Segs[i].LFSEvery = 7
		}
		out = append(out, c33LargeVariant{c, "lfs"})
	}
	return out
}

// c33LargeSchedules: the fault schedules a large layout is run with (besides "no fault").
func c33LargeSchedules(v c33LargeVariant, thorough, short bool) [][]c33Fault {
	sc := func(cy, k int) c33Fault { return c33Fault{Comp: "sink_call", Cycle: cy, Nth: k} }
	sp := func(cy, k, keep int) c33Fault { return c33Fault{Comp: "sink_partial", Cycle: cy, Nth: k, Keep: keep} }
	var out [][]c33Fault
	if short {
		if v.Kind == "persistent" {
			out = append(out, []c33Fault{sc(1, 1)}, []c33Fault{sc(1, 2)}, []c33Fault{sp(1, 0, 1000)}, []c33Fault{sp(1, 1, 2000)})
		}
		return out
	}
	if v.Kind == "default" {
		// the modules' own store holds no checkpoint: every cycle rewrites everything
		out = append(out, []c33Fault{sc(1, 1)}, []c33Fault{sc(2, 1)}, []c33Fault{sp(1, 0, 1000)})
		if thorough {
			out = append(out, []c33Fault{sc(1, 0)}, []c33Fault{sc(1, 2)}, []c33Fault{sc(2, 2)}, []c33Fault{sp(1, 1, 1)}, []c33Fault{sp(2, 0, 999)})
		}
		return out
	}
	calls, cycles, keeps := 4, 1, []int(nil)
	if thorough {
		calls, cycles, keeps = 6, 2, []int{1, 1000, 1001, 2000}
	}
	if v.Kind != "persistent" {
		calls = 3
		if thorough {
			calls, keeps = 4, []int{1, 1000}
		}
	}
	for _, f := range c33UniverseX(cycles, calls, keeps) {
		out = append(out, []c33Fault{f})
	}
	if !thorough {
		for _, f := range []c33Fault{sp(1, 0, 1), sp(1, 0, 1000), sp(1, 1, 1), sp(1, 1, 999), sp(1, 2, 500)} {
			out = append(out, []c33Fault{f})
		}
	}
	if v.Kind != "persistent" {
		return out
	}
	// pairs: a second failure on the retry in the next cycle, or a failing commit next to the failing write
	lost := func(seg int) c33Fault { return c33Fault{Comp: "commit_lost", Cycle: 1, Nth: seg} }
	ackLost := func(seg int) c33Fault { return c33Fault{Comp: "commit_ack_lost", Cycle: 1, Nth: seg} }
	out = append(out,
		[]c33Fault{sc(1, 1), sc(2, 0)}, []c33Fault{sc(1, 1), sc(2, 1)}, []c33Fault{sp(1, 0, 1000), sc(2, 0)},
		[]c33Fault{sc(1, 1), lost(0)}, []c33Fault{sc(1, 1), ackLost(0)}, []c33Fault{sc(1, 2), lost(1)})
	if thorough {
		out = append(out, []c33Fault{sc(1, 2), sc(2, 1)}, []c33Fault{sc(1, 2), lost(0)}, []c33Fault{sp(1, 0, 1000), lost(0)}, []c33Fault{sc(1, 2), ackLost(1)})
		u := c33UniverseX(2, 3, []int{1000})
		for i := range u {
			for j := i + 1; j < len(u); j++ {
				out = append(out, []c33Fault{u[i], u[j]})
			}
		}
	}
	return out
}

var c33SpecialSizes = []int{999, 1000, 1001, 1999, 2000, 2001, 2047, 2048, 2049, 3000, 4095, 4096, 4097, 5000, 500, 512, 1024, 1500, 2500}

// c33RandLarge: PRNG case with 2..4 segments of the leased partition, at least one of them (never
// only the last) with about 1000 to 5000 records, and 1..4 faults of which at least one is a sink
// failure addressed by the position of the Write call in polling cycle 1 or 2.
func c33RandLarge(rng *rand.Rand, caps c33Caps) c33Case {
	c := c33Case{Layout: "random-large", PollSec: caps.PollSecs[rng.Intn(len(caps.PollSecs))]}
	n := 2 + rng.Intn(3)
	big := rng.Intn(n - 1)
	budget := 6000 // records in the segments other than the guaranteed large one
	off := []int64{0, 0, 0, 1, 5, 100000}[rng.Intn(6)]
	for i := 0; i < n; i++ {
		var k int
		switch {
		case i == big:
			k = c33SpecialSizes[rng.Intn(len(c33SpecialSizes)-5)] // > 900
			if rng.Intn(3) == 0 {
				k = 1001 + rng.Intn(4000)
			}
		case rng.Intn(3) == 0:
			k = 1 + rng.Intn(3)
		case rng.Intn(2) == 0:
			k = 1 + rng.Intn(5000)
		default:
			k = c33SpecialSizes[rng.Intn(len(c33SpecialSizes))]
		}
		if i != big {
			if k > budget {
				k = 1 + rng.Intn(3)
			}
			budget -= k
		}
		if i > 0 && rng.Intn(5) == 0 {
			off += int64(1 + rng.Intn(50)) // compaction / control-batch gap between segments
		}
		s := c33Seg{Topic: "orders", Part: 0, Base: off, Run: k}
		if i == n-1 && rng.Intn(5) == 0 {
			s.AppearAt = 2 + rng.Intn(2)
		}
		c.Segs = append(c.Segs, s)
		off += int64(k)
	}
	switch rng.Intn(8) {
	case 0:
		c.Segs = append(c.Segs, c33Seg{Topic: "orders", Part: 1, Recs: c33Range(0, 1+rng.Intn(3))})
	case 1:
		c.Segs = append(c.Segs, c33Seg{Topic: "audit", Part: 0, Recs: c33Range(0, 1+rng.Intn(3))})
	}
	c33SortSegs(c.Segs)
	c.Store = "persistent"
	if rng.Intn(5) == 0 {
		c.Store = "default"
	} else if rng.Intn(4) == 0 {
		first := c.Segs[0]
		lo, _ := first.firstOff()
		pre := lo - 1 + int64(rng.Intn(first.size()+1))
		c.Pre = &pre
		c.PrePart = (c33PK{first.Topic, first.Part}).String()
	}
	if caps.LFS && rng.Intn(3) == 0 {
		c.LFSMode = []string{"resolve", "resolve", "hybrid", "reference"}[rng.Intn(4)]
		c.LFSConc = rng.Intn(4)
		c.LFSChecksum = rng.Intn(2) == 0
		for i := range c.Segs {
			if c.Segs[i].Run > 0 && rng.Intn(2) == 0 {
				c.Segs[i].LFSEvery = []int{2, 5, 17, 100}[rng.Intn(4)]
			}
		}
	}
	keeps := []int{1, 2, 499, 500, 999, 1000, 1001, 2000, 1 + rng.Intn(5000)}
	x := c33UniverseX(2, 6, keeps)
	xa := c33UniverseX(3, 8, keeps)
	u := c33Universe(c, 3)
	seen := map[c33Fault]bool{}
	add := func(f c33Fault) {
		if !seen[f] {
			seen[f] = true
			c.Faults = append(c.Faults, f)
		}
	}
	f0 := x[rng.Intn(len(x))]
	if rng.Intn(2) == 0 {
		f0.Comp, f0.Keep = "sink_call", 0
	}
	add(f0)
	for i, nf := 0, rng.Intn(4); i < nf; i++ {
		switch {
		case rng.Intn(2) == 0 && len(u) > 0:
			add(u[rng.Intn(len(u))])
		case rng.Intn(2) == 0:
			f := xa[rng.Intn(len(xa))]
			f.Comp, f.Keep = "sink_call", 0
			add(f)
		default:
			add(xa[rng.Intn(len(xa))])
		}
	}
	sort.Slice(c.Faults, func(i, j int) bool { return c.Faults[i].String() < c.Faults[j].String() })
	return c
}

// ---------------------------------------------------------------- main

const c33Rule = "real Processor.Run in a testing/synctest bubble (virtual polling/lease tickers) over in-package fakes; fault schedule = finite list of (cycle, component, n) transient failures of lister, lease claim/renew, checkpoint load/commit (lost, or persisted with the reply lost), decoder, LFS blob fetch and sink. A sink Write call either accepts all its records, or fails having accepted none (addressed by the segment its batch starts in, or by its position k=0,1,2.. among the Write calls of the polling cycle, whatever it carries), or fails after accepting a proper prefix of its records; only accepted records count as written. Workload: small layouts (<=4 segments of 0-3 records) and large layouts (2-4 completed segments of one partition listed in the same polling cycle, at least one of them with 999..5000 records: 999/1000/1001, 2000/2001, 2500, 3000, 4096/4097, 5000 and PRNG sizes 1..5000; with/without a pre-existing checkpoint inside the large segment, gaps, other partitions, LFS envelopes every n-th record for Iceberg), each with no fault, with sink failures on the k-th Write call of cycle 1-2 (alone, repeated on the retry in the next cycle, or next to a failing commit) and with PRNG mixes of all fault kinds. Monitor A (store with a checkpoint = persistent fake honouring the etcd store's contract: -1 when never committed): at every persisted CommitOffset(o) of partition p every record of a listed segment of p with offset <= o (and above a checkpoint that existed before the run) has been accepted by the sink. Monitor B (both that store and the module's own default store): once N=max(5,segments+2) fault-free polling cycles have passed after the last fired fault / last segment appearance with the lease held throughout, every record of every listed segment of the leased partition, offset 0 included, is in the sink with that record's own unique value. non-trivial = at least one successful sink write and one commit were observed and, if the schedule has faults, at least one fired"

var c33Assumptions = []string{
	"segments are listed in (topic, partition, base offset) order like the real S3 listers; record values are unique per (case, record)",
	"monitor A is applied only to a store that actually holds a checkpoint (the persistent fake); the modules' default noop store is judged by monitor B only",
	"bounded progress is judged N fault-free polling cycles (virtual time) after the last fault; nothing is claimed beyond that bound",
	"LFS: only transient blob-fetch failures are injected (modes resolve/hybrid); permanent failures (checksum mismatch, undecodable envelope) and mode=skip drop records by design and are not generated",
	"store faults (claim/renew/load/commit) are injected into the persistent fake only; the modules' default store never fails",
	"a sink Write that returns an error has accepted either nothing or a proper prefix of the batch in batch order (never a later record without the earlier ones); the processor is not told how many records were accepted; a Write that returns nil accepted the whole batch",
	"the decoder fake returns a fresh record slice per call whose values share one fresh allocation; the k-th-Write-call faults make no assumption about what a processor puts into its k-th call (one segment, a slice of a segment, several segments)",
	"speed only: the test binary re-executes itself once with GORACE clear_shadow_mmap_threshold raised (race runtime clears the shadow of large slices by memset instead of re-mapping it); section_wall_ms in the notes is a wall-clock budget diagnostic that no monitor reads",
}

type c33Totals struct {
	cases, nontrivial int
}

// c33TuneRaceRuntime re-executes the test binary once (same pid, same arguments) with the race
// runtime option clear_shadow_mmap_threshold raised from 64 KiB to 64 MiB, every other GORACE
// option (log_path, halt_on_error) kept. Speed only: by default the race runtime clears the shadow
// of every allocation above 64 KiB by re-mapping it, and each 100-500 KB record slice of a large
// segment then pays a burst of page faults (20-50 ms per slice on a loaded box with transparent
// huge pages, against < 1 ms with memset). Call it first in the test function. Does nothing
// without the race detector's environment contract (GORACE is merely ignored then).
func c33TuneRaceRuntime() {
	const opt = "clear_shadow_mmap_threshold"
	cur := os.Getenv("GORACE")
	if strings.Contains(cur, opt) || os.Getenv("C33_NO_REEXEC") != "" {
		return
	}
	for _, a := range os.Args {
		if strings.Contains(a, "profile") || strings.Contains(a, "test.trace") {
			return // a profiling timer armed by the testing package would kill the new image
		}
	}
	exe, err := os.Executable()
	if err != nil {
		return
	}
	os.Setenv("GORACE", strings.TrimSpace(cur+" "+opt+"=67108864"))
	os.Setenv("C33_NO_REEXEC", "1") // never loop, whatever happens to GORACE
	_ = syscall.Exec(exe, os.Args, os.Environ())
	os.Setenv("GORACE", cur) // exec failed: carry on in this process, just slower
}

// c33Main generates the tier's case list, runs it and reports.
func c33Main(t *testing.T, r c33Reporter, caps c33Caps, build c33Build, replay map[string]any) {
	oldOut := log.Writer()
	log.SetOutput(io.Discard) // the iceberg processor logs every injected sink / LFS failure
	defer log.SetOutput(oldOut)

	idx := 0
	samples := 0
	sectionMs := map[string]int64{} // budget diagnostics only (wall clock; never consulted by a monitor)
	defer func() { r.Note("section_wall_ms", sectionMs) }()
	runOne := func(c c33Case, section string) {
		id := fmt.Sprintf("%s-%d", section, idx)
		idx++
		t0 := time.Now()
		defer func() { sectionMs[section] += time.Since(t0).Milliseconds() }()
		w := c33NewWorld(c, caps, id)
		cycles, quiet := c33RunCase(t, w, build)
		firedN := 0
		var unfired []string
		for i, f := range c.Faults {
			if w.fired[i] {
				firedN++
				r.Seen("fault_kinds_fired", f.Comp)
			} else {
				unfired = append(unfired, f.String())
			}
		}
		nontrivial := w.nSinkOK > 0 && w.nCommits > 0 && (len(c.Faults) == 0 || firedN > 0)
		r.Case(c.sig(), nontrivial && quiet)
		r.Count("polling_cycles", int64(cycles))
		r.Count("sink_writes_ok", int64(w.nSinkOK))
		r.Count("sink_writes_failed", int64(w.nSinkFail))
		r.Count("commit_calls", int64(w.nCommits))
		r.Count("checkpoints_persisted_and_audited", int64(w.nPersist))
		r.Count("faults_fired", int64(firedN))
		r.Count("faults_never_reached", int64(len(unfired)))
		r.Count("lfs_fetches", int64(w.nFetch))
		r.Count("lease_renewals", int64(w.nRenew))
		r.Count("sink_writes_partial", int64(w.nSinkPartial))
		r.Count("sink_failures_on_later_write_of_cycle", int64(w.nSinkLaterFail))
		r.Count("large_segments_decoded", int64(w.nLargeDecodes))
		r.Count("large_sink_batches", int64(w.nLargeWrites))
		r.Count("records_accepted_by_sink", int64(w.nRecsAccepted))
		r.Count("cases_"+section, 1)
		r.Count("cases_store_"+c.Store, 1)
		r.Count(fmt.Sprintf("cases_with_%d_faults_fired", firedN), 1)
		if quiet {
			r.Count("bounded_progress_judged", 1)
		} else {
			r.Inconclusive(fmt.Sprintf("case %s: never reached %d fault-free cycles (cycles=%d)", id, c33Progress(c), cycles))
		}
		var fs []string
		for _, f := range c.Faults {
			fs = append(fs, f.String())
		}
		r.Seen("fault_schedules", c.Layout+"|"+c.Store+"|"+c.LFSMode+"|"+strings.Join(fs, ","))
		if w.panicked != nil {
			r.Violation("processor_panic:"+caps.Proc, fmt.Sprintf("Processor.Run panicked: %v", w.panicked), map[string]any{"case": c, "events": w.events})
		}
		for _, v := range w.viols {
			miss := v.Missing
			if len(miss) > 40 {
				miss = append(append([]c33Missing(nil), miss[:30]...), miss[len(miss)-10:]...)
			}
			r.Violation(v.Class+":"+caps.Proc, v.Summary, map[string]any{"case": c, "case_id": id, "at": v.At, "missing": miss, "missing_total": len(v.Missing), "events": w.events, "faults_never_reached": unfired})
		}
		if samples < 3 && nontrivial && (samples == 0 || firedN > 0) {
			samples++
			r.Sample(map[string]any{"case": c, "cycles": cycles, "events": w.events, "violations": len(w.viols)})
		}
	}

	if replay != nil {
		if raw, ok := replay["case"]; ok {
			b, _ := json.Marshal(raw)
			var c c33Case
			if err := json.Unmarshal(b, &c); err != nil {
				t.Fatalf("c33: bad replay case: %v", err)
			}
			if c.PollSec == 0 {
				c.PollSec = caps.PollSecs[0]
			}
			runOne(c, "replay")
			runOne(c, "replay")
			return
		}
	}

	thorough := r.Thorough()
	layouts := c33Layouts()

	// section 1: no faults at all, every layout x variant
	for _, l := range layouts {
		for _, v := range c33Variants(l, caps) {
			runOne(v.Case, "nofault")
		}
	}
	// section 2: exhaustive fault schedules, smallest first: every single fault over polling cycles
	// 1..cycles1; thorough: every pair of faults over cycles 1..2
	cycles1 := 2
	if thorough {
		cycles1 = 3
	}
	for _, l := range layouts {
		if len(l.Segs) > 3 {
			continue
		}
		for _, v := range c33Variants(l, caps) {
			if v.Full && !thorough {
				continue
			}
			u := c33Universe(v.Case, cycles1)
			for i := range u {
				c := v.Case
				c.Faults = []c33Fault{u[i]}
				runOne(c, "enum1")
			}
			if !thorough || !v.Pairs {
				continue
			}
			u = c33Universe(v.Case, 2)
			for i := range u {
				for j := i + 1; j < len(u); j++ {
					c := v.Case
					c.Faults = []c33Fault{u[i], u[j]}
					runOne(c, "enum2")
				}
			}
		}
	}
	r.Exhaustive(false) // exhaustive only within the stated bound; the random section is a sample
	r.Note("enumeration_bound", map[string]any{"single_faults_over_cycles": cycles1, "fault_pairs_over_cycles": map[bool]int{true: 2, false: 0}[thorough], "max_segments": 3, "layouts": len(layouts)})
	// section 3: PRNG cases with 0..4 faults over cycles 1..4, random layouts
	n := r.N(caps.RandQuick, caps.RandThorough)
	for i := 0; i < n; i++ {
		runOne(c33RandCase(r.Rand(i), caps, thorough), "rand")
	}
	// section 4: the small layouts again, with sink failures addressed by the position of the Write
	// call within the polling cycle (fails outright, or after the sink accepted the first record)
	for _, l := range layouts {
		for _, v := range c33Variants(l, caps) {
			if v.Full && !thorough {
				continue
			}
			for _, f := range c33UniverseX(cycles1, len(c33LeasedSegs(v.Case)), []int{1}) {
				c := v.Case
				c.Faults = []c33Fault{f}
				runOne(c, "enum1x")
			}
		}
	}
	// section 5: large segments (1001..5000 records) x several segments per cycle x sink failures on
	// the k-th Write call of a cycle / after a prefix was accepted, alone and paired with a second
	// failure on the retry or with a failing commit
	for li, l := range c33LargeLayouts() {
		short := !thorough && li >= c33LargeQuick
		for _, v := range c33LargeVariants(li, l, caps) {
			if short && v.Kind != "persistent" {
				continue
			}
			runOne(v.Case, "large_nofault")
			for _, fs := range c33LargeSchedules(v, thorough, short) {
				c := v.Case
				c.Faults = append([]c33Fault(nil), fs...)
				sort.Slice(c.Faults, func(i, j int) bool { return c.Faults[i].String() < c.Faults[j].String() })
				runOne(c, "large_enum")
			}
		}
	}
	// section 6: PRNG cases with large segments
	nl := r.N(caps.RandLargeQuick, caps.RandLargeThorough)
	for i := 0; i < nl; i++ {
		runOne(c33RandLarge(r.Rand(1_000_000+i), caps), "large_rand")
	}
	r.Floor("sink_failures_on_later_write_of_cycle", 40)
	r.Floor("sink_writes_partial", 20)
	r.Floor("large_segments_decoded", 500)
	r.Floor("checkpoints_persisted_and_audited", 200)
	r.Floor("faults_fired", 100)
	r.Floor("bounded_progress_judged", 200)
	r.Floor("fault_kinds_fired", 4)
}
