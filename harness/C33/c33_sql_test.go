//go:build verif

package processor

import (
	"context"
	"testing"

	"github.com/kafscale/platform/addons/processors/sql-processor/internal/checkpoint"
	"github.com/kafscale/platform/addons/processors/sql-processor/internal/config"
	"github.com/kafscale/platform/addons/processors/sql-processor/internal/decoder"
	"github.com/kafscale/platform/addons/processors/sql-processor/internal/discovery"
	"github.com/kafscale/platform/addons/processors/sql-processor/internal/sink"
	"github.com/kafscale/platform/addons/processors/sql-processor/internal/verifkit"
)

type c33SQLLister struct{ w *c33World }

func (l c33SQLLister) ListCompleted(ctx context.Context) ([]discovery.SegmentRef, error) {
	segs, err := l.w.List()
	if err != nil {
		return nil, err
	}
	out := make([]discovery.SegmentRef, 0, len(segs))
	for _, s := range segs {
		out = append(out, discovery.SegmentRef{Topic: s.Topic, Partition: s.Part, BaseOffset: s.Base, SegmentKey: s.Key, IndexKey: s.Key + ".index"})
	}
	return out, nil
}

type c33SQLDecoder struct{ w *c33World }

func (d c33SQLDecoder) Decode(ctx context.Context, segmentKey, indexKey, topic string, partition int32) ([]decoder.Record, error) {
	s, err := d.w.Decode(segmentKey)
	if err != nil {
		return nil, err
	}
	out := make([]decoder.Record, 0, len(s.Recs))
	arena := make([]byte, 0, d.w.ValueBytes(s)) // all values of this call in one fresh allocation
	key := []byte("k")
	var v []byte
	for _, r := range s.Recs {
		arena, v = d.w.AppendValue(arena, s, r)
		out = append(out, decoder.Record{Topic: s.Topic, Partition: s.Part, Offset: r.Off, Timestamp: 1000 + r.Off, Key: key, Value: v})
	}
	return out, nil
}

// c33SQLStore: inner == nil -> persistent fake with the etcd store's contract; else a spy around the module's own store.
type c33SQLStore struct {
	w     *c33World
	inner checkpoint.Store
}

func (s c33SQLStore) ClaimLease(ctx context.Context, topic string, partition int32, ownerID string) (checkpoint.Lease, error) {
	if s.inner != nil {
		l, err := s.inner.ClaimLease(ctx, topic, partition, ownerID)
		if err == nil {
			_ = s.w.Claim(topic, partition)
		}
		return l, err
	}
	if err := s.w.Claim(topic, partition); err != nil {
		return checkpoint.Lease{}, err
	}
	return checkpoint.Lease{Topic: topic, Partition: partition, OwnerID: ownerID}, nil
}

func (s c33SQLStore) RenewLease(ctx context.Context, lease checkpoint.Lease) error {
	if s.inner != nil {
		_ = s.w.Renew(lease.Topic, lease.Partition)
		return s.inner.RenewLease(ctx, lease)
	}
	return s.w.Renew(lease.Topic, lease.Partition)
}

func (s c33SQLStore) ReleaseLease(ctx context.Context, lease checkpoint.Lease) error {
	s.w.Release(lease.Topic, lease.Partition)
	if s.inner != nil {
		return s.inner.ReleaseLease(ctx, lease)
	}
	return nil
}

func (s c33SQLStore) LoadOffset(ctx context.Context, topic string, partition int32) (checkpoint.OffsetState, error) {
	if s.inner != nil {
		st, err := s.inner.LoadOffset(ctx, topic, partition)
		s.w.NoteLoad(topic, partition, st.Offset, err)
		return st, err
	}
	off, err := s.w.Load(topic, partition)
	if err != nil {
		return checkpoint.OffsetState{}, err
	}
	return checkpoint.OffsetState{Topic: topic, Partition: partition, Offset: off}, nil
}

func (s c33SQLStore) CommitOffset(ctx context.Context, state checkpoint.OffsetState) error {
	if s.inner != nil {
		err := s.inner.CommitOffset(ctx, state)
		s.w.NoteCommit(state.Topic, state.Partition, state.Offset, err)
		return err
	}
	return s.w.Commit(state.Topic, state.Partition, state.Offset)
}

type c33SQLSink struct{ w *c33World }

func (s c33SQLSink) Write(ctx context.Context, records []sink.Record) error {
	return s.w.SinkWrite(len(records), func(i int) c33Out {
		r := &records[i]
		return c33Out{Topic: r.Topic, Part: r.Partition, Off: r.Offset, Value: r.Payload}
	})
}

func (s c33SQLSink) Close(ctx context.Context) error { return nil }

func c33SQLBuild(w *c33World) func(ctx context.Context) error {
	var store checkpoint.Store = c33SQLStore{w: w}
	if w.c.Store == "default" {
		store = c33SQLStore{w: w, inner: checkpoint.New()} // what processor.New wires
	}
	p := &Processor{
		cfg:      config.Config{},
		discover: c33SQLLister{w},
		decode:   c33SQLDecoder{w},
		store:    store,
		sink:     c33SQLSink{w},
		locks:    newTopicLocker(),
	}
	return p.Run
}

func c33SQLRun(t *testing.T, leg string) {
	c33TuneRaceRuntime()
	r := verifkit.Start(t, "C33", leg)
	defer r.Finish(c33Rule, c33Assumptions...)
	caps := c33Caps{Proc: "sql", PollSecs: []int{5}, RandQuick: 150, RandThorough: 4000, RandLargeQuick: 40, RandLargeThorough: 600} // the SQL processor's polling interval is a constant
	var replay map[string]any
	if rep := verifkit.Replay(); rep != nil {
		replay, _ = rep["replay"].(map[string]any)
	}
	c33Main(t, r, caps, c33SQLBuild, replay)
}

func TestVerifC33SQL(t *testing.T) { c33SQLRun(t, "sql") }
