//go:build verif

package cache

import (
	"bytes"
	"fmt"
	"sync"
	"sync/atomic"
	"testing"
	"time"

	"github.com/KafScale/platform/internal/verifkit"
	"github.com/anishathalye/porcupine"
)

type c09Key struct {
	Topic string
	Part  int32
	Base  int64
}

func (k c09Key) String() string { return fmt.Sprintf("%q/%d/%d", k.Topic, k.Part, k.Base) }

// keys deliberately include names whose naive "topic:partition:base" rendering is close.
var c09Keys = []c09Key{
	{"t", 0, 0}, {"t", 0, 1}, {"t", 1, 0}, {"u", 0, 0}, {"t:0", 0, 0}, {"t", 10, 0}, {"t:1", 0, 0}, {"", 0, 0},
}

// c09Audit walks the live structure under the cache's own lock: the bad state
// (size drift, over capacity, list/map disagreement) is checked where it would
// be observable to the next operation.
func c09Audit(c *SegmentCache) (sum int, size int, n int, ok bool, why string) {
	c.mu.Lock()
	defer c.mu.Unlock()
	for e := c.ll.Front(); e != nil; e = e.Next() {
		ent := e.Value.(*cacheEntry)
		sum += len(ent.data)
		n++
		if c.items[ent.key] != e {
			return sum, c.size, n, false, "list entry not in map: " + ent.key
		}
	}
	if n != len(c.items) {
		return sum, c.size, n, false, fmt.Sprintf("list has %d entries, map %d", n, len(c.items))
	}
	if sum != c.size {
		return sum, c.size, n, false, fmt.Sprintf("accounted size %d != held bytes %d", c.size, sum)
	}
	if sum > c.capacity {
		return sum, c.size, n, false, fmt.Sprintf("holds %d bytes > capacity %d", sum, c.capacity)
	}
	return sum, c.size, n, true, ""
}

type c09Op struct {
	Op   string `json:"op"`
	Key  string `json:"key"`
	Size int    `json:"size,omitempty"`
	Tag  int    `json:"tag,omitempty"`
	Hit  *bool  `json:"hit,omitempty"`
}

func c09Value(tag, size int) []byte {
	b := make([]byte, size)
	for i := range b {
		b[i] = byte(tag*31 + i*7 + tag>>8)
	}
	if size >= 4 {
		b[0], b[1], b[2], b[3] = byte(tag>>24), byte(tag>>16), byte(tag>>8), byte(tag)
	}
	return b
}

func TestVerifC09Seq(t *testing.T) {
	r := verifkit.Start(t, "C09", "seq")
	defer r.Finish("PRNG op lists (set/get) over 3-6 keys, value sizes 0..2x capacity, capacities 1..4096; after every op the live structure is audited under the cache lock (sum(len)==size<=capacity), a hit must equal the shadow model's latest value, and every slice ever returned by GetSegment is re-compared with a private copy taken at return time; non-trivial = case had an overwrite of a live key, an eviction and an over-capacity value",
		"sequential leg: single goroutine")
	type alias struct {
		got  []byte
		copy []byte
		key  string
		at   int
	}
	n := r.N(1500, 150000)
	for ci := 0; ci < n; ci++ {
		rng := r.Rand(ci)
		capacity := []int{1, 7, 64, 100, 1000, 4096}[rng.Intn(6)]
		nk := 3 + rng.Intn(4)
		keys := make([]c09Key, nk)
		perm := rng.Perm(len(c09Keys))
		for i := range keys {
			keys[i] = c09Keys[perm[i]]
		}
		c := NewSegmentCache(capacity)
		model := map[c09Key][]byte{} // latest value set; presence in cache not modelled (eviction is allowed any time)
		var aliases []alias
		var ops []c09Op
		nops := 8 + rng.Intn(40)
		tag := 0
		var sawOverwrite, sawEvict, sawHuge bool
		bad := false
		for oi := 0; oi < nops && !bad; oi++ {
			k := keys[rng.Intn(nk)]
			if rng.Intn(100) < 55 {
				tag++
				var size int
				switch rng.Intn(6) {
				case 0:
					size = 0
				case 1:
					size = capacity
				case 2:
					size = capacity + 1 + rng.Intn(capacity+1)
					sawHuge = true
				default:
					size = rng.Intn(capacity + 1)
				}
				val := c09Value(ci*1000+tag, size)
				_, _, before, _, _ := c09Audit(c)
				if _, live := c.GetSegmentNoTouch(k); live {
					sawOverwrite = true
				}
				in := append([]byte(nil), val...)
				c.SetSegment(k.Topic, k.Part, k.Base, in)
				// the caller may reuse its buffer afterwards: the cache must hold a copy
				for i := range in {
					in[i] ^= 0xff
				}
				model[k] = val
				_, _, after, _, _ := c09Audit(c)
				if after <= before && size > 0 {
					sawEvict = true
				}
				ops = append(ops, c09Op{Op: "set", Key: k.String(), Size: size, Tag: ci*1000 + tag})
			} else {
				got, hit := c.GetSegment(k.Topic, k.Part, k.Base)
				h := hit
				ops = append(ops, c09Op{Op: "get", Key: k.String(), Hit: &h, Size: len(got)})
				if hit {
					want, ever := model[k]
					if !ever {
						r.Violation("hit_without_set", "GetSegment hit on a key never set: "+k.String(), map[string]any{"capacity": capacity, "ops": ops})
						bad = true
					} else if !bytes.Equal(got, want) {
						r.Violation("hit_returns_stale_or_foreign_bytes", fmt.Sprintf("GetSegment(%s) returned %d bytes != latest set (%d bytes)", k, len(got), len(want)), map[string]any{"capacity": capacity, "ops": ops})
						bad = true
					}
					aliases = append(aliases, alias{got: got, copy: append([]byte(nil), got...), key: k.String(), at: oi})
				}
			}
			if _, _, _, ok, why := c09Audit(c); !ok {
				r.Violation("capacity_or_accounting", why, map[string]any{"capacity": capacity, "ops": ops})
				bad = true
			}
			for _, a := range aliases {
				if !bytes.Equal(a.got, a.copy) {
					r.Violation("returned_bytes_changed_later", fmt.Sprintf("bytes returned by GetSegment(%s) at op %d changed after op %d (%s)", a.key, a.at, oi, ops[len(ops)-1].Op), map[string]any{"capacity": capacity, "ops": ops})
					bad = true
					break
				}
			}
		}
		r.Case(verifkit.Hash(capacity, ops), sawOverwrite && sawEvict && sawHuge)
		if sawOverwrite {
			r.Count("cases_with_live_overwrite", 1)
		}
		if sawEvict {
			r.Count("cases_with_eviction", 1)
		}
		r.Count("ops", int64(len(ops)))
		r.Count("aliases_tracked", int64(len(aliases)))
		if ci < 2 {
			r.Sample(map[string]any{"capacity": capacity, "ops": ops})
		}
	}
	r.Floor("cases_with_live_overwrite", 10)
	r.Floor("cases_with_eviction", 10)
}

// GetSegmentNoTouch is a harness-side peek that does not disturb LRU order.
func (c *SegmentCache) GetSegmentNoTouch(k c09Key) ([]byte, bool) {
	c.mu.Lock()
	defer c.mu.Unlock()
	if e, ok := c.items[makeKey(k.Topic, k.Part, k.Base)]; ok {
		return e.Value.(*cacheEntry).data, true
	}
	return nil, false
}

type c09In struct {
	Key   int
	Write bool
	Tag   int64
}
type c09Out struct {
	Hit bool
	Tag int64 // tag decoded from the returned bytes; -1 = bytes are not any written value
}

func c09ConcValue(tag int64, size int) []byte {
	b := make([]byte, size)
	for i := range b {
		b[i] = byte(tag + int64(i)*13)
	}
	for i := 0; i < 8; i++ {
		b[i] = byte(tag >> (8 * (7 - i)))
	}
	return b
}

func c09DecodeTag(b []byte) int64 {
	if len(b) < 8 {
		return -1
	}
	var tag int64
	for i := 0; i < 8; i++ {
		tag = tag<<8 | int64(b[i])
	}
	if tag <= 0 {
		return -1
	}
	size := 8 + int(tag%57)
	if len(b) != size || !bytes.Equal(b, c09ConcValue(tag, size)) {
		return -1
	}
	return tag
}

func TestVerifC09Conc(t *testing.T) {
	r := verifkit.Start(t, "C09", "conc")
	defer r.Finish("many short concurrent histories: 8 goroutines x 12 ops over 3 keys on a cache that holds ~2 values, every written value carries a unique tag, call/return stamped from one atomic counter at the client boundary; checked per key with porcupine against a register-with-eviction model (miss always legal and empties the key; a hit must equal the current value); readers also re-verify earlier returned slices; the race detector watches reader-vs-SetSegment access; non-trivial = history with at least one hit and one miss",
		"porcupine v1.3.0 per-key partition; timeout => inconclusive")
	model := porcupine.Model{
		Partition: func(h []porcupine.Operation) [][]porcupine.Operation {
			m := map[int][]porcupine.Operation{}
			for _, o := range h {
				m[o.Input.(c09In).Key] = append(m[o.Input.(c09In).Key], o)
			}
			var out [][]porcupine.Operation
			for _, v := range m {
				out = append(out, v)
			}
			return out
		},
		Init: func() any { return int64(0) }, // 0 = absent
		Step: func(st, in, out any) (bool, any) {
			i, o, s := in.(c09In), out.(c09Out), st.(int64)
			if i.Write {
				return true, i.Tag // (a value bigger than capacity is never written by this leg)
			}
			if !o.Hit {
				return true, int64(0)
			}
			return s != 0 && o.Tag == s, s
		},
		DescribeOperation: func(in, out any) string { return fmt.Sprintf("%+v -> %+v", in, out) },
	}
	n := r.N(400, 25000)
	var clock atomic.Int64
	for ci := 0; ci < n; ci++ {
		rng := r.Rand(ci)
		c := NewSegmentCache(100 + rng.Intn(60)) // values are 8..64 bytes: 2-4 fit
		const G, K = 8, 3
		ops := make([][]porcupine.Operation, G)
		seeds := make([]int64, G)
		for g := range seeds {
			seeds[g] = rng.Int63()
		}
		var wg sync.WaitGroup
		var changed atomic.Int64
		var foreign atomic.Int64
		var tagCtr atomic.Int64
		tagCtr.Store(int64(ci) * 100000)
		for g := 0; g < G; g++ {
			wg.Add(1)
			go func(g int) {
				defer wg.Done()
				lr := r.Rand(int(seeds[g] % 1000000007))
				type al struct{ got, cp []byte }
				var als []al
				for i := 0; i < 12; i++ {
					k := lr.Intn(K)
					if lr.Intn(2) == 0 {
						tag := tagCtr.Add(1)
						v := c09ConcValue(tag, 8+int(tag%57))
						call := clock.Add(1)
						c.SetSegment("t", int32(k), 0, v)
						ret := clock.Add(1)
						ops[g] = append(ops[g], porcupine.Operation{ClientId: g, Input: c09In{k, true, tag}, Call: call, Output: c09Out{}, Return: ret})
					} else {
						call := clock.Add(1)
						got, hit := c.GetSegment("t", int32(k), 0)
						ret := clock.Add(1)
						out := c09Out{Hit: hit}
						if hit {
							cp := append([]byte(nil), got...)
							out.Tag = c09DecodeTag(cp)
							if out.Tag < 0 {
								foreign.Add(1)
							}
							als = append(als, al{got, cp})
						}
						ops[g] = append(ops[g], porcupine.Operation{ClientId: g, Input: c09In{k, false, 0}, Call: call, Output: out, Return: ret})
					}
					for _, a := range als {
						if !bytes.Equal(a.got, a.cp) {
							changed.Add(1)
						}
					}
				}
			}(g)
		}
		wg.Wait()
		var hist []porcupine.Operation
		hits, misses := 0, 0
		for _, o := range ops {
			for _, x := range o {
				if !x.Input.(c09In).Write {
					if x.Output.(c09Out).Hit {
						hits++
					} else {
						misses++
					}
				}
			}
			hist = append(hist, o...)
		}
		r.Count("ops", int64(len(hist)))
		r.Count("hits", int64(hits))
		r.Count("misses", int64(misses))
		describe := func() []string {
			var s []string
			for _, o := range hist {
				s = append(s, fmt.Sprintf("c%d [%d,%d] %+v -> %+v", o.ClientId, o.Call, o.Return, o.Input, o.Output))
			}
			return s
		}
		if _, _, _, ok, why := c09Audit(c); !ok {
			r.Violation("capacity_or_accounting", "after concurrent history: "+why, map[string]any{"case": ci, "history": describe()})
		}
		if changed.Load() > 0 {
			r.Violation("returned_bytes_changed_later", fmt.Sprintf("%d re-checks found a slice returned by GetSegment modified afterwards (concurrent SetSegment on the same key)", changed.Load()), map[string]any{"case": ci, "history": describe()})
		}
		if foreign.Load() > 0 {
			r.Violation("hit_returns_stale_or_foreign_bytes", "a hit returned bytes that are not any value ever written (torn)", map[string]any{"case": ci, "history": describe()})
		}
		res, _ := porcupine.CheckOperationsVerbose(model, hist, 2*time.Minute)
		switch res {
		case porcupine.Illegal:
			if foreign.Load() == 0 {
				r.Violation("not_linearizable_register", "per-key history is not a register-with-eviction history", map[string]any{"case": ci, "history": describe()})
			}
		case porcupine.Unknown:
			r.Inconclusive(fmt.Sprintf("case %d: porcupine timeout", ci))
		}
		r.Case(verifkit.Hash(describe()), hits > 0 && misses > 0)
		if ci == 0 {
			r.Sample(map[string]any{"capacity": c.capacity, "history": describe()})
		}
	}
	r.Floor("hits", 50)
	r.Floor("misses", 50)
}
