//go:build verif

package broker

import (
	"fmt"
	"sort"
	"testing"

	"github.com/KafScale/platform/internal/verifkit"
)

// c12Gen is what the observer knows about one generation of one incarnation of the group.
type c12Gen struct {
	synced         map[string]map[string][]int32 // member id -> assignment received by its latest successful sync
	syncedStr      map[string]string
	subAtAssign    map[string][]string // member id -> subscription in force when the first sync of this generation succeeded
	topicsAtAssign map[string]int      // store topics -> partition count at that moment (partitions added later belong to later generations)
	resubscribed   map[string]bool     // member re-joined inside this generation (after the assignment existed) with another subscription
	complete       bool
}

type c12Obs struct {
	r       *verifkit.Run
	ci      int
	epoch   int // incarnation of the group (bumped whenever the group is observed absent)
	gens    map[string]*c12Gen
	flagged bool

	syncOK, fullGens, resubInGen, multiMember int
}

func (o *c12Obs) key(gen int32) string { return fmt.Sprintf("%d/%d", o.epoch, gen) }

func c12Parts(topics map[string]int, subs map[string][]string) map[string]bool {
	// universe of (topic,partition) that must be owned: partitions of store topics subscribed by >= 1 member
	u := map[string]bool{}
	for _, sub := range subs {
		for _, t := range sub {
			for p := 0; p < topics[t]; p++ {
				u[fmt.Sprintf("%s/%d", t, p)] = true
			}
		}
	}
	return u
}

func (o *c12Obs) violate(w *gWorld, ev *gEvent, class, summary string, extra map[string]any) {
	if o.flagged {
		return
	}
	o.flagged = true
	o.r.Violation(class, summary, gWitness(w, ev.I, extra))
}

func (o *c12Obs) observe(w *gWorld, ev *gEvent) {
	for _, tr := range ev.afters() { // overlapped requests: the group was absent at SOME instant during the pair
		if !tr.Exists {
			o.epoch++
			break
		}
	}
	switch ev.K {
	case "join":
		// a re-join inside a generation whose assignment already exists, with a different subscription
		if ev.Code == 0 && ev.MemberID != "" {
			if g := o.gens[o.key(ev.Gen)]; g != nil && g.subAtAssign != nil {
				if old, ok := g.subAtAssign[ev.MemberID]; ok && fmt.Sprint(gSortedCopy(old)) != fmt.Sprint(ev.ReqSub) {
					if !g.resubscribed[ev.MemberID] {
						o.resubInGen++
					}
					g.resubscribed[ev.MemberID] = true
				}
			}
		}
	case "sync":
		if ev.Code != 0 {
			return
		}
		tr := ev.After
		if ev.overlapped() && !ev.quiet() {
			// the other request of the pair changed generation, membership or a subscription while this one
			// was in flight: which of the states the reply belongs to is not known. The reply is not judged;
			// what the pair left behind is judged at the following (sequential) syncs. Only the moment of the
			// generation's first successful sync is remembered (partitions added later are not its business).
			o.r.Count("sync_success_overlapped_by_membership_change_not_judged", 1)
			for _, c := range ev.Cands {
				if c.Exists && c.Gen == ev.ReqGen {
					k := o.key(ev.ReqGen)
					if o.gens[k] == nil {
						o.gens[k] = &c12Gen{synced: map[string]map[string][]int32{}, syncedStr: map[string]string{}, resubscribed: map[string]bool{}}
					}
					if g := o.gens[k]; g.subAtAssign == nil {
						g.subAtAssign = map[string][]string{}
						g.topicsAtAssign = w.cfg.Topics
						for id := range c.Members {
							if info := w.ids[id]; info != nil {
								g.subAtAssign[id] = info.Sub
							}
						}
					}
					break
				}
			}
			return
		}
		// only judged when the reply is about the group's current generation and a current member
		// (anything else is C13's business)
		if !tr.Exists || tr.Gen != ev.ReqGen || !tr.has(ev.ReqID) {
			o.r.Count("sync_success_not_current_member_or_generation", 1)
			return
		}
		o.syncOK++
		o.r.Count("sync_success", 1)
		if ev.AssignErr != "" {
			o.violate(w, ev, "assignment_undecodable", "successful SyncGroup reply carries bytes that are not a consumer-protocol assignment: "+ev.AssignErr, nil)
			return
		}
		k := o.key(ev.ReqGen)
		g := o.gens[k]
		if g == nil {
			g = &c12Gen{synced: map[string]map[string][]int32{}, syncedStr: map[string]string{}, resubscribed: map[string]bool{}}
			o.gens[k] = g
		}
		if g.subAtAssign == nil {
			g.subAtAssign = map[string][]string{}
			g.topicsAtAssign = w.cfg.Topics
			for id := range tr.Members {
				if info := w.ids[id]; info != nil {
					g.subAtAssign[id] = info.Sub
				}
			}
		}
		me := ev.ReqID
		info := w.ids[me]
		if info == nil {
			return // a member id nobody was ever told: cannot know its subscription
		}
		as := gAssignString(ev.Assign)
		// (c) same member, same generation => same assignment
		if prev, ok := g.syncedStr[me]; ok && prev != as {
			o.violate(w, ev, "assignment_changes_within_generation", fmt.Sprintf("member %s got %q and later %q in generation %d", me, prev, as, ev.ReqGen), nil)
			return
		}
		g.synced[me], g.syncedStr[me] = ev.Assign, as
		// no duplicate partition inside one reply
		for t, ps := range ev.Assign {
			seen := map[int32]bool{}
			for _, p := range ps {
				if seen[p] {
					o.violate(w, ev, "partition_listed_twice", fmt.Sprintf("member %s got %s/%d twice in one assignment", me, t, p), nil)
					return
				}
				seen[p] = true
			}
		}
		// (a) only subscribed topics
		for t := range ev.Assign {
			if len(ev.Assign[t]) == 0 {
				continue
			}
			if !gContains(info.Sub, t) {
				class := "assigned_topic_not_subscribed"
				if g.resubscribed[me] && gContains(g.subAtAssign[me], t) {
					class = "stable_rejoin_with_new_subscription_keeps_old_assignment"
				}
				o.violate(w, ev, class, fmt.Sprintf("member %s (subscription %v as of its latest join) received partitions %v of topic %q in generation %d", me, info.Sub, ev.Assign[t], t, ev.ReqGen),
					map[string]any{"member": me, "subscription": info.Sub, "assignment": ev.Assign})
				return
			}
		}
		// (b) pairwise disjoint among current members' views of this generation
		for other, oa := range g.synced {
			if other == me || !tr.has(other) {
				continue
			}
			for t, ps := range ev.Assign {
				for _, p := range ps {
					for _, q := range oa[t] {
						if p == q {
							o.violate(w, ev, "partition_assigned_to_two_members", fmt.Sprintf("%s/%d handed to both %s and %s in generation %d", t, p, me, other, ev.ReqGen), nil)
							return
						}
					}
				}
			}
		}
		// (d) once every current member has synced: exact cover of the partitions of every subscribed store topic
		all := true
		for id := range tr.Members {
			if _, ok := g.synced[id]; !ok {
				all = false
			}
		}
		if !all {
			return
		}
		if !g.complete {
			g.complete = true
			o.fullGens++
			if len(tr.Members) > 1 {
				o.multiMember++
			}
			o.r.Seen("complete_generation_shapes", fmt.Sprintf("m%d/t%v", len(tr.Members), w.cfg.Topics))
		}
		cur := map[string][]string{}
		atAssign := map[string][]string{}
		anyResub := false
		for id := range tr.Members {
			if i := w.ids[id]; i != nil {
				cur[id] = i.Sub
			}
			atAssign[id] = g.subAtAssign[id]
			if g.resubscribed[id] {
				anyResub = true
			}
		}
		owned := map[string]int{}
		for id := range tr.Members {
			for t, ps := range g.synced[id] {
				if _, inStore := g.topicsAtAssign[t]; !inStore {
					continue // topic absent from the store: the phantom partition is neither required nor forbidden
				}
				for _, p := range ps {
					owned[fmt.Sprintf("%s/%d", t, p)]++
				}
			}
		}
		check := func(universe map[string]bool) (missing, extra []string) {
			for k := range universe {
				if owned[k] != 1 {
					missing = append(missing, fmt.Sprintf("%s x%d", k, owned[k]))
				}
			}
			for k := range owned {
				if !universe[k] {
					extra = append(extra, k)
				}
			}
			sort.Strings(missing)
			sort.Strings(extra)
			return
		}
		miss, extra := check(c12Parts(g.topicsAtAssign, cur))
		if len(miss) > 0 || len(extra) > 0 {
			class := "partitions_not_covered_exactly_once"
			if anyResub {
				if m0, e0 := check(c12Parts(g.topicsAtAssign, atAssign)); len(m0) == 0 && len(e0) == 0 {
					class = "stable_rejoin_with_new_subscription_keeps_old_assignment"
				}
			}
			o.violate(w, ev, class, fmt.Sprintf("generation %d fully synced by %d members: not owned exactly once %v, owned but nobody subscribes / no such partition %v", ev.ReqGen, len(tr.Members), miss, extra),
				map[string]any{"subscriptions": cur, "assignments": g.synced})
		}
	}
}

func TestVerifC12(t *testing.T) {
	r := verifkit.Start(t, "C12", "group")
	gSeedSalt = r.Seed
	defer r.Finish("real GroupCoordinator over the real InMemoryStore on synctest virtual time; PRNG op lists (join new/existing with random subscriptions, sync, heartbeat, leave, commit, time advance incl. session/rebalance expiry, well-behaved settle rounds) for <=4 members, <=3 store topics of 1-5 partitions plus an optional topic missing from the store. At every successful SyncGroup reply of the group's current generation (generation/membership read from the stored group record): decoded assignment has only topics of that member's latest subscription; pairwise disjoint from what other current members received in the same generation; identical to what the same member received earlier in that generation; once every current member has synced, the union covers every partition (store metadata as of the generation's first successful sync; an administrator op adds partitions between requests) of every topic subscribed by >=1 member exactly once. non-trivial = case in which a generation of >=2 members was fully synced",
		"subscription of a member = the one sent with its latest JoinGroup", "topics absent from the store have no partitions in the oracle's universe (the phantom partition 0 is neither required nor forbidden)", "assignment bytes decoded with franz-go kmsg.ConsumerMemberAssignment")
	p := gDefaultProfile
	p.WGrow = 3
	n := r.N(600, 25000)
	seen := func(w *gWorld, ev *gEvent) { r.Seen("group_states", w.stateSig(ev.After)) }
	account := func(ci int, w *gWorld, o *c12Obs) {
		if w.blocked {
			r.Inconclusive(fmt.Sprintf("case %d: a coordinator call never returned", ci))
		}
		r.Case(gOpsSig(w), o.multiMember > 0)
		r.Count("steps", int64(len(w.log)))
		r.Count("generations_fully_synced", int64(o.fullGens))
		r.Count("generations_fully_synced_multi_member", int64(o.multiMember))
		r.Count("rejoin_with_changed_subscription_inside_generation", int64(o.resubInGen))
		for _, e := range w.log {
			if e.K == "grow" {
				r.Count("partition_count_increases", 1)
			}
		}
		if ci < 2 {
			r.Sample(gWitness(w, -1, nil))
		}
	}
	for ci := 0; ci < n; ci++ {
		rng := r.Rand(ci)
		if ci%3 == 2 { // two groups served by one coordinator, interleaved
			cfgs, ops := gGenPair(rng, p, fmt.Sprintf("g%d", ci))
			var os [2]*c12Obs
			ws := gRunPair(t, cfgs, ops, int64(ci)*100000, func(i int, w *gWorld) {
				os[i] = &c12Obs{r: r, ci: ci, gens: map[string]*c12Gen{}}
				w.obs = append(w.obs, os[i].observe, seen)
			})
			account(ci, ws[0], os[0])
			account(ci, ws[1], os[1])
			r.Count("cases_with_two_groups_on_one_coordinator", 1)
			continue
		}
		cfg := gGenConfig(rng, p, fmt.Sprintf("g%d", ci))
		ops := gGenOps(rng, p, cfg)
		o := &c12Obs{r: r, ci: ci, gens: map[string]*c12Gen{}}
		w := gRunCase(t, cfg, ops, int64(ci)*100000, func(w *gWorld) { w.obs = append(w.obs, o.observe, seen) })
		account(ci, w, o)
	}
	r.Floor("sync_success", 200)
	r.Floor("generations_fully_synced_multi_member", 50)
	r.Floor("group_states", 12)
	r.Exhaustive(false) // a sample of histories; the bounded-exhaustive part is leg enum
}

// Overlap leg: two requests in flight. See harness/_shared/group/overlap_test.go.
func TestVerifC12Overlap(t *testing.T) {
	r := verifkit.Start(t, "C12", "overlap")
	gSeedSalt = r.Seed
	gRealTimerStart()
	defer r.Finish("real GroupCoordinator over the real InMemoryStore behind the recording store decorator, synctest virtual time, TWO requests in flight: PRNG scenarios for 2-4 clients in which the group is brought into some phase (forming, rebalance completed but leader not synced, stable, disturbed by a leave / new member / changed subscription with all or some members re-joined) and then a pair (A,B) of requests by different clients is overlapped: the decorator parks one store call of A (Metadata lookup of the leader's SyncGroup, PutConsumerGroup / DeleteConsumerGroup of a join, sync, heartbeat or leave, CommitConsumerOffset, FetchConsumerGroup; before or after the real store executed it), B (leave, join of a new member, re-join with the same or another subscription, heartbeat, commit, sync, or a time advance that expires sessions) is sent while A is parked, then A is released; well-behaved settle rounds and ordinary requests follow. If the coordinator holds a lock across A's store call (TryLock probe of its mutex fields) B is simply sent after A. The C12 oracle of leg 'group' judges every successful SyncGroup reply; a reply of an overlapped request is judged only if generation, membership and subscriptions were the same in every boundary snapshot taken during the pair (otherwise the state it belongs to is unknown); all later, sequential replies are judged in full, so an assignment that a pair installed into the wrong generation or computed from a superseded membership is seen at the next sync of the members. non-trivial = case in which a pair was overlapped (A parked) and afterwards a generation of >=2 members was fully synced",
		"subscription of a member = the one sent with its latest JoinGroup", "topics absent from the store have no partitions in the oracle's universe", "the real-time bound under which B is awaited while A is parked is a scheduling aid: if it expires nothing is judged and the case is cut")
	p := gDefaultOvlProfile
	p.Grow = true
	n := r.N(500, 8000)
	for ci := 0; ci < n; ci++ {
		rng := r.Rand(ci)
		cfg, ops := gGenOverlapCase(rng, p, fmt.Sprintf("o%d", ci))
		o := &c12Obs{r: r, ci: ci, gens: map[string]*c12Gen{}}
		w := gRunCase(t, cfg, ops, int64(ci)*100000, func(w *gWorld) {
			w.obs = append(w.obs, o.observe, func(w *gWorld, ev *gEvent) { r.Seen("group_states", w.stateSig(ev.After)) })
		})
		if w.blocked {
			r.Inconclusive(fmt.Sprintf("case %d: a coordinator call never returned", ci))
		}
		parked := w.ovl.LockHeld+w.ovl.Inside > 0
		r.Case(gOpsSig(w), parked && o.multiMember > 0)
		r.Count("steps", int64(len(w.log)))
		r.Count("generations_fully_synced", int64(o.fullGens))
		r.Count("generations_fully_synced_multi_member", int64(o.multiMember))
		gOvlAccount(w, r.Count, r.Seen)
		if ci < 2 {
			r.Sample(gWitness(w, -1, nil))
		}
	}
	r.Floor("sync_success", 200)
	r.Floor("generations_fully_synced_multi_member", 50)
	r.Floor("overlap_a_parked", int64(r.N(200, 3000)))
	r.Floor("overlap_b_ran_inside_a_store_call", 5) // CommitConsumerOffset is called without the lock even by the unchanged coordinator
	r.Exhaustive(false)
}
