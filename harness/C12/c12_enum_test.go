//go:build verif

package broker

import (
	"fmt"
	"testing"

	"github.com/KafScale/platform/internal/verifkit"
)

// Bounded-exhaustive leg: every sequence of a fixed length of (re-)joins with
// three different subscriptions, syncs, a leave and a session expiry by two members.
func TestVerifC12Enum(t *testing.T) {
	r := verifkit.Start(t, "C12", "enum")
	gSeedSalt = r.Seed
	a, ab, b := []string{"ta"}, []string{"ta", "tb"}, []string{"tb"}
	spec := gEnumSpec{
		Cfg: gConfig{Topics: map[string]int{"ta": 2, "tb": 3}, Universe: []string{"ta", "tb"}, M: 2,
			SessionMs: []int64{10000, 10000}, RebalMs: []int64{3000, 3000}, CleanupMs: 1000},
		Alphabet: []gOp{
			{K: "join", Slot: 0, Sub: a}, {K: "join", Slot: 0, Sub: ab}, {K: "join", Slot: 0, Sub: b},
			{K: "join", Slot: 1, Sub: a}, {K: "join", Slot: 1, Sub: ab},
			{K: "sync", Slot: 0}, {K: "sync", Slot: 1},
			{K: "leave", Slot: 1},
			{K: "advance", DtMs: 11000},
		},
		Names: []string{"J0[ta]", "J0[ta,tb]", "J0[tb]", "J1[ta]", "J1[ta,tb]", "S0", "S1", "L1", "+11s"},
		Depth: r.N(3, 5),
		Preambles: map[string][]gOp{
			"empty":   nil,
			"stable2": {{K: "join", Slot: 0, Sub: a}, {K: "join", Slot: 1, Sub: ab}, {K: "settle"}},
		},
	}
	defer r.Finish(fmt.Sprintf("bounded-exhaustive: ALL %d sequences of length %d (hence every shorter one as a prefix) over the alphabet %v, started from the empty group and from a settled Stable group of 2 members (subscriptions [ta] and [ta,tb]), for 2 members and topics ta(2 partitions), tb(3) are run on the real coordinator on virtual time and judged at every successful SyncGroup by the C12 observer of leg 'group' (only subscribed topics; disjoint; stable within a generation; exact cover once all members synced). non-trivial = sequence in which a 2-member generation was fully synced", spec.total(), spec.Depth, spec.Names))
	var cur *c12Obs
	gEnumerate(t, spec, func(seq string) []gObserver {
		cur = &c12Obs{r: r, gens: map[string]*c12Gen{}}
		return []gObserver{cur.observe, func(w *gWorld, ev *gEvent) { r.Seen("group_states", w.stateSig(ev.After)) }}
	}, func(seq string, w *gWorld) {
		if w.blocked {
			r.Inconclusive("sequence " + seq + ": a coordinator call never returned")
		}
		r.Case(seq, cur.multiMember > 0)
		r.Count("generations_fully_synced", int64(cur.fullGens))
		r.Count("generations_fully_synced_multi_member", int64(cur.multiMember))
		r.Count("rejoin_with_changed_subscription_inside_generation", int64(cur.resubInGen))
		if cur.multiMember > 0 {
			r.Sample(map[string]any{"sequence": seq, "run": gWitness(w, -1, nil)})
		}
	})
	r.Exhaustive(true)
	r.Note("sequences", spec.total())
	r.Floor("sync_success", 500)
	r.Floor("generations_fully_synced_multi_member", int64(r.N(20, 200)))
}
