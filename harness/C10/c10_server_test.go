//go:build verif

package broker

// C10, server leg: the same hostile corpus, but sent over loopback TCP to the
// real broker.Server connection loop running in a child process. The monitor
// is the process boundary: handleConnection has no recover, so a decode panic
// is observable as the death of the whole server. A death is only reported
// after the single input reproduced it alone against a fresh child.

import (
	"context"
	"encoding/binary"
	"encoding/hex"
	"errors"
	"fmt"
	"io"
	"log"
	"math/rand"
	"net"
	"os"
	"os/exec"
	"path/filepath"
	"strings"
	"testing"
	"time"

	"github.com/twmb/franz-go/pkg/kmsg"

	"github.com/KafScale/platform/internal/verifkit"
	"github.com/KafScale/platform/internal/verifkreq"
	"github.com/KafScale/platform/pkg/protocol"
)

type c10sHandler struct{}

// Handle answers every parsed request with the default response of its kind, encoded by the real EncodeResponse.
func (c10sHandler) Handle(ctx context.Context, header *protocol.RequestHeader, req kmsg.Request) ([]byte, error) {
	return protocol.EncodeResponse(header.CorrelationID, header.APIVersion, req.ResponseKind()), nil
}

// TestVerifC10ServerChild runs the server until the parent kills it.
func TestVerifC10ServerChild(t *testing.T) {
	addr := os.Getenv("C10_SERVER_ADDR")
	if addr == "" {
		t.Skip("server child: run by TestVerifC10Server")
	}
	log.SetOutput(io.Discard) // one log line per rejected input; the runtime's panic trace still goes to stderr
	srv := &Server{Addr: addr, Handler: c10sHandler{}}
	if err := srv.ListenAndServe(context.Background()); err != nil {
		t.Fatalf("ListenAndServe: %v", err)
	}
}

type c10sChild struct {
	addr   string
	cmd    *exec.Cmd
	exited chan struct{}
	log    string
}

func c10sFreeAddr() (string, error) {
	ln, err := net.Listen("tcp", "127.0.0.1:0")
	if err != nil {
		return "", err
	}
	defer ln.Close()
	return ln.Addr().String(), nil
}

func c10sStart(dir string, n int) (*c10sChild, error) {
	addr, err := c10sFreeAddr()
	if err != nil {
		return nil, err
	}
	logPath := filepath.Join(dir, fmt.Sprintf("server-%d.log", n))
	lf, err := os.Create(logPath)
	if err != nil {
		return nil, err
	}
	cmd := exec.Command(os.Args[0], "-test.run=^TestVerifC10ServerChild$", "-test.timeout=60m")
	cmd.Env = append(os.Environ(), "C10_SERVER_ADDR="+addr)
	cmd.Stdout, cmd.Stderr = lf, lf
	if err := cmd.Start(); err != nil {
		lf.Close()
		return nil, err
	}
	lf.Close()
	c := &c10sChild{addr: addr, cmd: cmd, exited: make(chan struct{}), log: logPath}
	go func() { _ = cmd.Wait(); close(c.exited) }()
	for i := 0; i < 1200; i++ { // setup: wait for the listener
		select {
		case <-c.exited:
			b, _ := os.ReadFile(logPath)
			return nil, fmt.Errorf("server child exited during start-up: %s", b)
		default:
		}
		cn, err := net.DialTimeout("tcp", addr, time.Second)
		if err == nil {
			cn.Close()
			return c, nil
		}
		time.Sleep(25 * time.Millisecond)
	}
	c.kill()
	return nil, errors.New("server child never listened")
}

func (c *c10sChild) kill() {
	_ = c.cmd.Process.Kill()
	<-c.exited
}

func (c *c10sChild) dead() bool {
	select {
	case <-c.exited:
		return true
	default:
		return false
	}
}

func (c *c10sChild) logTail() string {
	b, _ := os.ReadFile(c.log)
	s := string(b)
	if i := strings.Index(s, "panic:"); i >= 0 {
		s = s[i:]
	} else if i := strings.Index(s, "fatal error:"); i >= 0 {
		s = s[i:]
	}
	if len(s) > 2500 {
		s = s[:2500]
	}
	return s
}

const c10sPerInput = 6 * time.Second // budget watchdog per input; firing = "slow", never a verdict

// send writes one client stream (split into 1..n byte writes), half-closes, and reads until the server is done with
// the connection. done=false => the watchdog fired.
func (c *c10sChild) send(in verifkreq.Input) (done bool) {
	cn, err := net.DialTimeout("tcp", c.addr, 5*time.Second)
	if err != nil {
		return true // judged by the liveness check that follows
	}
	defer cn.Close()
	_ = cn.SetDeadline(time.Now().Add(c10sPerInput))
	rng := rand.New(rand.NewSource(in.Chunk))
	b := in.Bytes
	for len(b) > 0 {
		n := 1 + rng.Intn(64)
		if rng.Intn(3) == 0 {
			n = len(b)
		}
		if n > len(b) {
			n = len(b)
		}
		if _, err := cn.Write(b[:n]); err != nil {
			break // server already dropped the connection
		}
		b = b[n:]
	}
	if tc, ok := cn.(*net.TCPConn); ok {
		_ = tc.CloseWrite()
	}
	_, err = io.Copy(io.Discard, cn)
	var ne net.Error
	if errors.As(err, &ne) && ne.Timeout() {
		return false
	}
	return true
}

// ping: a fresh connection, a valid ApiVersions v0 request, its reply.
func (c *c10sChild) ping() bool {
	cn, err := net.DialTimeout("tcp", c.addr, 5*time.Second)
	if err != nil {
		return false
	}
	defer cn.Close()
	_ = cn.SetDeadline(time.Now().Add(c10sPerInput))
	req := kmsg.NewPtrApiVersionsRequest()
	req.SetVersion(0)
	cid := "verif-ping"
	if _, err := cn.Write(verifkreq.Encode(req, 0x70696e67, &cid)); err != nil {
		return false
	}
	var hdr [8]byte
	if _, err := io.ReadFull(cn, hdr[:]); err != nil {
		return false
	}
	return binary.BigEndian.Uint32(hdr[4:]) == 0x70696e67
}

// c10sFrames returns the payloads of the complete frames of a client stream, in order.
func c10sFrames(in []byte) [][]byte {
	var out [][]byte
	for len(in) >= 4 {
		n := int(int32(binary.BigEndian.Uint32(in)))
		if n < 0 || 4+n > len(in) {
			break
		}
		out = append(out, in[4:4+n])
		in = in[4+n:]
	}
	return out
}

func c10sFirstPayload(in []byte) []byte {
	if f := c10sFrames(in); len(f) > 0 {
		return f[0]
	}
	return nil
}

func c10sClass(in []byte, trace string) string {
	if strings.Contains(trace, "SkipTaggedFields") {
		for _, p := range c10sFrames(in) { // the server reads frame after frame; the first one that overflows is the one it died on
			if verifkreq.HeaderTagSizeOverflows(p) {
				return "tagged_field_size_overflow"
			}
		}
	}
	fn := "unknown"
	for _, line := range strings.Split(trace, "\n") {
		if i := strings.Index(line, "KafScale/platform/pkg/"); i >= 0 && strings.Contains(line, "(") && !strings.Contains(line, ".go:") {
			fn = line[i+len("KafScale/platform/pkg/"):]
			if j := strings.LastIndex(fn, "("); j > 0 {
				fn = fn[:j]
			}
			break
		}
	}
	return "server_process_death:" + fn
}

func TestVerifC10Server(t *testing.T) {
	r := verifkit.Start(t, "C10", "server")
	defer r.Finish("the corpus of the crash leg (sampled; tag-section mutations last) is sent over loopback TCP, split into 1..n byte writes, to the real broker.Server accept/handleConnection loop running in a child process with a handler that answers every parsed request; after the server has finished with each connection (EOF on the client side) a fresh connection must still get an ApiVersions reply. The server process dying is the violation (handleConnection has no recover: one client can take the broker down); it is reported only after that single input, sent alone to a fresh child, killed it again. non-trivial = the frame was complete, so the server's parser ran",
		"per-input watchdog 6 s: an input that keeps the server busy that long is counted as slow and skipped (the codec's tag loop), not judged",
		"after 2 (quick) / 6 (thorough) server deaths the remaining inputs are not sent (counter not_sent_after_deaths): every death costs a child restart")
	dir := os.Getenv("VERIF_SCRATCH")
	if dir == "" {
		dir = t.TempDir()
	}
	dir = filepath.Join(dir, "c10server")
	if err := os.MkdirAll(dir, 0o755); err != nil {
		t.Fatal(err)
	}
	all := verifkreq.Corpus(r.Rand(0), verifkreq.CorpusSizes{Thorough: r.Thorough()})
	// sample: keep the list a pure function of the seed; tag sections go last
	keep := r.N(500, 30000)
	rng := r.Rand(1)
	var first, tags []verifkreq.Input
	for _, in := range all {
		if in.Kind == "huge_len" || verifkreq.DeclaredLen(in.Bytes) > 1<<20 {
			continue // the up-front allocation is not this leg's subject
		}
		if strings.HasPrefix(in.Kind, "hdr_tags") {
			tags = append(tags, in)
		} else {
			first = append(first, in)
		}
	}
	rng.Shuffle(len(first), func(i, j int) { first[i], first[j] = first[j], first[i] })
	rng.Shuffle(len(tags), func(i, j int) { tags[i], tags[j] = tags[j], tags[i] })
	if len(first) > keep {
		first = first[:keep]
	}
	if len(tags) > keep/5 {
		tags = tags[:keep/5]
	}
	corpus := append(first, tags...)
	replaying := false
	if rp := verifkit.Replay(); rp != nil && rp["leg"] == "server" { // bin/check C10 --replay <witness>: only that client stream
		if w, ok := rp["replay"].(map[string]any); ok {
			if b, err := hex.DecodeString(fmt.Sprint(w["input_hex"])); err == nil && len(b) > 0 {
				in := verifkreq.Input{Kind: "replay", Bytes: b}
				fmt.Sscan(fmt.Sprint(w["chunk_seed"]), &in.Chunk)
				corpus, replaying = []verifkreq.Input{in}, true
			}
		}
	}

	nChild := 0
	start := func() *c10sChild {
		nChild++
		c, err := c10sStart(dir, nChild)
		if err != nil {
			t.Fatalf("server child: %v", err)
		}
		return c
	}
	// confirm: does this input, alone, kill a fresh server? (killed, decided): decided=false when the fresh server could
	// not even be pinged before the input was sent (box too busy) - then nothing is concluded from this attempt.
	confirm := func(in verifkreq.Input) (killed bool, trace string, decided bool) {
		c := start()
		defer func() {
			if !c.dead() {
				c.kill()
			}
		}()
		up := false
		for k := 0; k < 3 && !up; k++ {
			up = c.ping()
		}
		if !up {
			return false, "", false
		}
		c.send(in)
		// a server that survived answers the next ping; one that is going down does not, and then its exit is awaited
		if c.ping() && c.ping() && !c.dead() {
			return false, "", true
		}
		select {
		case <-c.exited:
			return true, c.logTail(), true
		case <-time.After(60 * time.Second):
			return false, "", false
		}
	}
	child := start()
	defer func() {
		if !child.dead() {
			child.kill()
		}
	}()
	deaths := 0
	maxDeaths := r.N(2, 6)
	for i := 0; i < len(corpus); i++ {
		in := corpus[i]
		if deaths >= maxDeaths {
			r.Count("not_sent_after_deaths", int64(len(corpus)-i))
			break
		}
		done := child.send(in)
		complete := len(c10sFirstPayload(in.Bytes)) >= 8
		if !done {
			r.Count("slow_inputs_skipped", 1)
			child.kill()
			child = start()
			r.Case(verifkit.Hash("server", in.Bytes), false)
			continue
		}
		r.Count("sent", 1)
		r.Count("kind_"+in.Kind, 1)
		if child.ping() {
			r.Case(verifkit.Hash("server", in.Bytes), complete)
			if complete {
				r.Count("parser_ran", 1)
			}
			continue
		}
		// no reply on a fresh connection: is the process gone?
		select {
		case <-child.exited:
		case <-time.After(30 * time.Second):
			r.Inconclusive(fmt.Sprintf("input %d: liveness ping failed but the server process is still running", i))
			child.kill()
		}
		trace := child.logTail()
		deaths++
		r.Count("server_deaths", 1)
		// attribute: this input, else one of the two before it (a ping may slip in between the panic and the exit)
		blamed, undecided := false, false
		for _, j := range []int{i, i - 1, i - 2} {
			if j < 0 {
				continue
			}
			killed, tr, decided := confirm(corpus[j])
			if !decided {
				undecided = true
				continue
			}
			if killed {
				class := c10sClass(corpus[j].Bytes, tr)
				first := strings.SplitN(tr, "\n", 2)[0]
				r.Violation(class, fmt.Sprintf("a %d-byte client stream (%s) kills the broker.Server process: %s", len(corpus[j].Bytes), corpus[j].Kind, first),
					map[string]any{"input_hex": fmt.Sprintf("%x", corpus[j].Bytes), "kind": corpus[j].Kind, "chunk_seed": fmt.Sprint(corpus[j].Chunk), "server_output": tr, "confirmed_alone_on_fresh_server": true})
				blamed = true
				break
			}
		}
		if !blamed {
			r.Inconclusive(fmt.Sprintf("server process died around input %d (%s) but no single input of the last three reproduces the death alone (undecided attempts: %v); output: %s", i, in.Kind, undecided, trace))
		}
		r.Case(verifkit.Hash("server", in.Bytes), complete)
		child = start()
	}
	r.Note("children_started", nChild)
	if len(corpus) > 0 {
		r.Sample(map[string]any{"kind": corpus[0].Kind, "input_hex": fmt.Sprintf("%x", corpus[0].Bytes[:min(len(corpus[0].Bytes), 96)])})
		r.Sample(map[string]any{"kind": corpus[len(corpus)-1].Kind, "input_hex": fmt.Sprintf("%x", corpus[len(corpus)-1].Bytes[:min(len(corpus[len(corpus)-1].Bytes), 96)])})
	}
	if !replaying {
		r.Floor("parser_ran", 200)
	}
}
