//go:build verif

package protocol

// C10: request decoding never crashes and round-trips.
//
// Legs in this file (package pkg/protocol):
//   crash     – crashbox (DESIGN §3.6): corpus of valid client encodings, structure-aware
//               mutations and noise, executed by child processes through
//               ReadFrame(chunked reader) + ParseRequestHeader + ParseRequest + ParseRequestBody.
//   roundtrip – every kmsg request key x version x generated bodies encoded by the franz-go
//               client formatter must parse back to the same key/version/correlation id/client id/body.

import (
	"bufio"
	"bytes"
	"encoding/binary"
	"encoding/hex"
	"encoding/json"
	"fmt"
	"io"
	"math"
	"math/rand"
	"os"
	"os/exec"
	"path/filepath"
	"reflect"
	"runtime"
	"runtime/debug"
	"runtime/metrics"
	"sort"
	"strings"
	"sync"
	"sync/atomic"
	"syscall"
	"testing"
	"time"

	"github.com/twmb/franz-go/pkg/kmsg"

	"github.com/KafScale/platform/internal/verifkit"
	"github.com/KafScale/platform/internal/verifkreq"
)

// ---------------------------------------------------------------------------
// the monitored call sequence (what broker.Server.handleConnection and the
// proxy's handleConnection do with client bytes)
// ---------------------------------------------------------------------------

// c10ChunkReader hands out the input 1..n bytes per Read, sometimes (0,nil),
// sometimes the last chunk together with io.EOF — all legal io.Reader behaviour
// of a TCP connection.
type c10ChunkReader struct {
	b   []byte
	rng *rand.Rand
}

func (c *c10ChunkReader) Read(p []byte) (int, error) {
	if len(c.b) == 0 {
		return 0, io.EOF
	}
	if len(p) == 0 {
		return 0, nil
	}
	if c.rng.Intn(23) == 0 {
		return 0, nil
	}
	n := 1 + c.rng.Intn(17)
	if c.rng.Intn(5) == 0 {
		n = 1 + c.rng.Intn(4096)
	}
	if n > len(p) {
		n = len(p)
	}
	if n > len(c.b) {
		n = len(c.b)
	}
	copy(p, c.b[:n])
	c.b = c.b[n:]
	if len(c.b) == 0 && c.rng.Intn(2) == 0 {
		return n, io.EOF
	}
	return n, nil
}

// stages, in the order the server reaches them
const (
	c10StFrameErr  = 1 // ReadFrame returned an error for the first frame
	c10StHeaderErr = 2 // frame read, header rejected
	c10StBodyErr   = 3 // header parsed, body rejected (incl. unknown api key)
	c10StParsed    = 4 // a request was returned
	c10StPanic     = 5
	c10StSlow      = 6 // the call used more CPU than the per-input budget; the child gave up on it (not judged)
)

// c10Cur is what the recover handler reports: the payload being parsed when a panic happened.
type c10Cur struct {
	payload  []byte
	frameIdx int
	call     string
}

// c10Exercise runs one client byte stream through the server's decode path.
// deepest = deepest stage reached by any frame; flexHdr = a flexible header's tag section was entered.
func c10Exercise(in []byte, chunkSeed int64, cur *c10Cur) (deepest int, known bool, problem string) {
	rd := &c10ChunkReader{b: in, rng: rand.New(rand.NewSource(chunkSeed))}
	for fi := 0; fi < 4; fi++ {
		cur.frameIdx, cur.payload, cur.call = fi, nil, "ReadFrame"
		fr, err := ReadFrame(rd)
		if err != nil {
			if fr != nil {
				return deepest, known, "ReadFrame returned both a frame and an error"
			}
			if fi == 0 {
				deepest = c10StFrameErr
			}
			return deepest, known, ""
		}
		if fr == nil {
			return deepest, known, "ReadFrame returned neither a frame nor an error"
		}
		if int(fr.Length) != len(fr.Payload) {
			return deepest, known, fmt.Sprintf("ReadFrame: Length %d != len(Payload) %d", fr.Length, len(fr.Payload))
		}
		cur.payload = fr.Payload
		cur.call = "ParseRequestHeader"
		hdr, body, herr := ParseRequestHeader(fr.Payload)
		if herr == nil && hdr == nil {
			return deepest, known, "ParseRequestHeader returned neither a header nor an error"
		}
		if len(fr.Payload) >= 2 && kmsg.RequestForKey(int16(binary.BigEndian.Uint16(fr.Payload))) != nil {
			known = true
		}
		cur.call = "ParseRequest"
		h2, req, perr := ParseRequest(fr.Payload)
		st := c10StHeaderErr
		switch {
		case perr == nil:
			if h2 == nil || req == nil {
				return deepest, known, "ParseRequest returned nil error but no request"
			}
			st = c10StParsed
			if herr != nil {
				return deepest, known, "ParseRequest accepted a payload whose header ParseRequestHeader rejected"
			}
			if h2.APIKey != hdr.APIKey || h2.APIVersion != hdr.APIVersion || h2.CorrelationID != hdr.CorrelationID {
				return deepest, known, "ParseRequest and ParseRequestHeader disagree on the header"
			}
			if req.Key() != h2.APIKey || req.GetVersion() != h2.APIVersion {
				return deepest, known, "returned request's key/version differ from the header"
			}
		case herr == nil:
			st = c10StBodyErr
		}
		if herr == nil {
			cur.call = "ParseRequestBody"
			_, req2, berr := ParseRequestBody(hdr, body)
			if (berr == nil) != (perr == nil) {
				return deepest, known, "ParseRequestBody and ParseRequest disagree on the same bytes"
			}
			if berr == nil && req2 == nil {
				return deepest, known, "ParseRequestBody returned nil error but no request"
			}
		}
		if st > deepest {
			deepest = st
		}
		if perr != nil {
			return deepest, known, "" // the server drops the connection here
		}
	}
	return deepest, known, ""
}

// ---------------------------------------------------------------------------
// corpus
// ---------------------------------------------------------------------------

// ---------------------------------------------------------------------------
// classification of a panic witness (narrow and deterministic)
// ---------------------------------------------------------------------------

// c10Classify derives the class from the payload that was being parsed: an independent walk of the
// header decides whether the first thing that can go wrong is a tagged field whose size does not fit
// a non-negative int. Any other panic gets a class made of the innermost pkg/protocol frame and the panic kind.
func c10Classify(payload []byte, panicMsg, stack string) string {
	if strings.Contains(stack, "SkipTaggedFields") && verifkreq.HeaderTagSizeOverflows(payload) {
		return "tagged_field_size_overflow"
	}
	fn := "unknown"
	for _, line := range strings.Split(stack, "\n") {
		if i := strings.Index(line, "pkg/protocol."); i >= 0 && !strings.Contains(line, "c10") && !strings.Contains(line, "C10") {
			fn = line[i+len("pkg/protocol."):]
			if j := strings.Index(fn, "("); j >= 0 && !strings.HasPrefix(fn, "(") {
				fn = fn[:j]
			} else if strings.HasPrefix(fn, "(") { // method: (*byteReader).read(...)
				if j := strings.Index(fn, ")."); j >= 0 {
					rest := fn[j+2:]
					if k := strings.Index(rest, "("); k >= 0 {
						rest = rest[:k]
					}
					fn = strings.Trim(fn[:j+1], "(*)") + "." + rest
				}
			}
			break
		}
		if i := strings.Index(line, "franz-go/pkg/kmsg."); i >= 0 && fn == "unknown" {
			fn = "kmsg"
		}
	}
	kind := "other"
	switch {
	case strings.Contains(panicMsg, "slice bounds out of range"):
		kind = "slice_bounds"
	case strings.Contains(panicMsg, "index out of range"):
		kind = "index"
	case strings.Contains(panicMsg, "nil pointer"):
		kind = "nil_deref"
	case strings.Contains(panicMsg, "makeslice"):
		kind = "makeslice"
	}
	return "panic:" + fn + ":" + kind
}

// ---------------------------------------------------------------------------
// crashbox: child
// ---------------------------------------------------------------------------

type c10ChildPanic struct {
	Index   int    `json:"index"`
	Msg     string `json:"msg,omitempty"`
	Stack   string `json:"stack,omitempty"`
	Call    string `json:"call,omitempty"`
	Frame   int    `json:"frame,omitempty"`
	Payload []byte `json:"payload,omitempty"`
	Problem string `json:"problem,omitempty"` // set instead of Msg: the entry points disagreed
	Alloc   uint64 `json:"alloc,omitempty"`   // set instead of Msg: bytes allocated by the call (> 64 MiB)
}

// Files written by a child (all append-only, so that they survive its death):
//   progress: 4-byte index BEFORE each call        stages: 1 byte AFTER each call (stage | 0x80 if key known)
//   events:   JSON lines (panic / problem / huge allocation)   done: written last

func c10WriteInputs(path string, ins []verifkreq.Input) error {
	f, err := os.Create(path)
	if err != nil {
		return err
	}
	w := bufio.NewWriter(f)
	var hdr [12]byte
	for _, in := range ins {
		binary.BigEndian.PutUint64(hdr[0:], uint64(in.Chunk))
		binary.BigEndian.PutUint32(hdr[8:], uint32(len(in.Bytes)))
		w.Write(hdr[:])
		w.Write(in.Bytes)
	}
	if err := w.Flush(); err != nil {
		return err
	}
	return f.Close()
}

func c10ReadInputs(path string) ([]verifkreq.Input, error) {
	b, err := os.ReadFile(path)
	if err != nil {
		return nil, err
	}
	var out []verifkreq.Input
	for len(b) > 0 {
		if len(b) < 12 {
			return nil, fmt.Errorf("short input file")
		}
		ch := int64(binary.BigEndian.Uint64(b))
		n := int(binary.BigEndian.Uint32(b[8:]))
		b = b[12:]
		out = append(out, verifkreq.Input{Bytes: b[:n:n], Chunk: ch})
		b = b[n:]
	}
	return out, nil
}

// TestVerifC10Child is the crashbox child: it only does something when the parent re-executes the test binary.
func TestVerifC10Child(t *testing.T) {
	inPath := os.Getenv("C10_CHILD_IN")
	if inPath == "" {
		t.Skip("crashbox child: run by TestVerifC10Crash")
	}
	debug.SetMemoryLimit(6 << 30)
	runtime.GOMAXPROCS(2)
	ins, err := c10ReadInputs(inPath)
	if err != nil {
		t.Fatal(err)
	}
	start := 0
	fmt.Sscan(os.Getenv("C10_CHILD_START"), &start)
	base := os.Getenv("C10_CHILD_BASE")
	open := func(suffix string) *os.File {
		f, err := os.OpenFile(base+suffix, os.O_CREATE|os.O_WRONLY|os.O_APPEND, 0o644)
		if err != nil {
			t.Fatal(err)
		}
		return f
	}
	progress, stages, events := open(".progress"), open(".stages"), open(".events")
	emit := func(e c10ChildPanic) {
		b, _ := json.Marshal(e)
		events.Write(append(b, '\n'))
	}
	allocSample := []metrics.Sample{{Name: "/gc/heap/allocs:bytes"}}
	allocated := func() uint64 {
		metrics.Read(allocSample)
		if allocSample[0].Value.Kind() == metrics.KindUint64 {
			return allocSample[0].Value.Uint64()
		}
		return 0
	}
	// CPU budget per input (process CPU time, so machine load does not matter): pure parsing of a <=8 KiB stream
	// needs microseconds; the codec's tag loop on a hostile count needs minutes. Exceeding the budget is recorded
	// as "slow" and the child exits so that the parent restarts after that input. Slowness is never a verdict.
	const cpuBudget = 250 * time.Millisecond
	cpuNow := func() time.Duration {
		var ru syscall.Rusage
		if syscall.Getrusage(syscall.RUSAGE_SELF, &ru) != nil {
			return 0
		}
		return time.Duration(ru.Utime.Nano() + ru.Stime.Nano())
	}
	var curIdx, curStart atomic.Int64
	curIdx.Store(-1)
	go func() {
		for {
			time.Sleep(25 * time.Millisecond)
			i := curIdx.Load()
			if i < 0 {
				continue
			}
			st := curStart.Load()
			if cpuNow()-time.Duration(st) > cpuBudget && curIdx.Load() == i && curStart.Load() == st {
				stages.Write([]byte{c10StSlow | 0x80})
				os.WriteFile(base+".slow", []byte(fmt.Sprint(i)), 0o644)
				os.Exit(7)
			}
		}
	}()
	var idx [4]byte
	for i := start; i < len(ins); i++ {
		binary.BigEndian.PutUint32(idx[:], uint32(i))
		progress.Write(idx[:])                            // before the call: a death is attributed to this index
		if verifkreq.DeclaredLen(ins[i].Bytes) < 64<<20 { // huge announced sizes cost CPU in the allocator (and in the race runtime); they have their own record
			curStart.Store(int64(cpuNow()))
			curIdx.Store(int64(i))
		}
		before := allocated()
		var cur c10Cur
		var stage byte
		func() {
			defer func() {
				if p := recover(); p != nil {
					stage = c10StPanic | 0x80
					cp := c10ChildPanic{Index: i, Msg: fmt.Sprint(p), Stack: c10TrimStack(string(debug.Stack())), Call: cur.call, Frame: cur.frameIdx}
					if len(cur.payload) <= 8192 {
						cp.Payload = cur.payload
					}
					emit(cp)
				}
			}()
			st, known, problem := c10Exercise(ins[i].Bytes, ins[i].Chunk, &cur)
			stage = byte(st)
			if known {
				stage |= 0x80
			}
			if problem != "" {
				emit(c10ChildPanic{Index: i, Problem: problem})
			}
		}()
		curIdx.Store(-1)
		if d := allocated() - before; d > 64<<20 {
			emit(c10ChildPanic{Index: i, Alloc: d})
		}
		stages.Write([]byte{stage})
	}
	if err := os.WriteFile(base+".done", []byte("done"), 0o644); err != nil {
		t.Fatal(err)
	}
}

// c10TrimStack keeps the frames between the panic and the harness.
func c10TrimStack(s string) string {
	lines := strings.Split(s, "\n")
	var out []string
	seenPanic := false
	for i := 0; i < len(lines); i++ {
		l := lines[i]
		if strings.HasPrefix(l, "panic(") {
			seenPanic = true
			i++ // its file line
			continue
		}
		if !seenPanic {
			continue
		}
		if strings.Contains(l, "c10Exercise") {
			break
		}
		out = append(out, strings.TrimSpace(l))
	}
	if len(out) > 16 {
		out = out[:16]
	}
	return strings.Join(out, "\n")
}

// ---------------------------------------------------------------------------
// crashbox: parent
// ---------------------------------------------------------------------------

const c10CrashRule = "[crash] crashbox: a PRNG-determined corpus (valid franz-go encodings of every kmsg request key/version; structure-aware mutations: frame size 0/-1/2^31-1/off-by-one, client-id length, header and body tagged-field sections with counts/sizes 0..2^64-1 and over-long varints, int32/int16 overwrites, truncation at every byte, version/key swaps, several frames per stream, uniform noise) is fed by child processes through ReadFrame (reader returning 1..n bytes per call) -> ParseRequestHeader -> ParseRequest -> ParseRequestBody, as broker.Server.handleConnection does; each call must return a value or an error: a recovered panic or a child death (attributed to the index logged before the call) is a violation; also the three entry points must agree with each other on the same bytes. non-trivial = the frame was read and carried an API key known to the codec, so the header/body parser ran"

const c10RoundtripRule = "[roundtrip] for every request key known to the codec x every version 0..max x PRNG bodies (all fields from the full value range, nil/empty/filled arrays, nullable fields both ways, unknown tagged fields) and client id nil/empty/ascii/unicode/long: the frame produced by franz-go's kmsg.RequestFormatter is read with ReadFrame (chunked reader) and ParseRequest; oracle: same api key, version, correlation id, client id (nil stays nil, empty stays empty); the returned request re-encodes to exactly the client's body bytes and is deeply equal to what the codec itself decodes from those body bytes; ParseRequestHeader returns exactly the body bytes. non-trivial = body is non-empty"

// TestVerifC10Decode is the in-process leg: the crashbox (children do the parsing, the parent waits) and, while the
// children run, the round trip of client-encoded requests. One go test invocation, one result file.
func TestVerifC10Decode(t *testing.T) {
	r := verifkit.Start(t, "C10", "decode")
	defer r.Finish(c10CrashRule+" ;; "+c10RoundtripRule,
		"a large up-front allocation for an honestly announced frame size is recorded (counter huge_alloc_calls), not judged: the statement says crash",
		"a child death while processing an input whose size prefix announces >= 128 MiB is attributed to that allocation and recorded as an observation",
		"ControlledShutdown v0 (header without client id by protocol definition, not served by KafScale) is excluded from the valid encodings and from the round trip",
		"budget only: an input whose decode uses more than 250 ms of process CPU time is recorded as slow (stage_slow_not_judged) and the child restarts after it; slowness is not judged. Cause seen: the codec's body tag reader (kmsg internalReadTags) loops `count` times even after the input is exhausted, so a 5-byte count in a flexible body costs up to 2^32 iterations; the corpus keeps deliberate body tag counts <= 128, the rest arise from reinterpreted bytes",
		"backstop: a child that logs no new index for 180 s of wall time is killed and the input skipped (counter stalled_inputs_skipped)",
		"round trip: body equality is judged on the wire bytes and on the codec's own decode of them (kmsg is the codec on both sides)")
	replaying := false
	var replayIn verifkreq.Input
	if in, ok := c10ReplayInput("decode"); ok { // bin/check C10 --replay <witness>: only that client stream
		replayIn, replaying = in, true
	}
	rtDone := make(chan struct{})
	go func() {
		defer close(rtDone)
		if !replaying {
			c10Roundtrip(r)
			c10Pipelined(r)
		}
	}()
	c10Crash(t, r, replaying, replayIn)
	<-rtDone
}

func c10Crash(t *testing.T, r *verifkit.Run, replaying bool, replayIn verifkreq.Input) {
	tGen := time.Now()
	corpus := verifkreq.Corpus(r.Rand(0), verifkreq.CorpusSizes{Thorough: r.Thorough()})
	t.Logf("corpus: %d inputs built in %s", len(corpus), time.Since(tGen).Round(time.Millisecond))
	if replaying {
		corpus = []verifkreq.Input{replayIn}
	}
	dir := os.Getenv("VERIF_SCRATCH")
	if dir == "" {
		dir = t.TempDir()
	}
	dir = filepath.Join(dir, "c10crash")
	if err := os.MkdirAll(dir, 0o755); err != nil {
		t.Fatal(err)
	}
	const workers = 4
	stallAfter := 180 * time.Second
	type shardOut struct {
		stages      []byte
		events      []c10ChildPanic
		deaths      []map[string]any
		obs         []map[string]any
		stalls      []map[string]any
		slow        int
		slowSamples []map[string]any
		err         error
	}
	shards := make([][]verifkreq.Input, workers)
	index := make([][]int, workers)
	for i, in := range corpus {
		w := i % workers
		shards[w] = append(shards[w], in)
		index[w] = append(index[w], i)
	}
	outs := make([]shardOut, workers)
	var wg sync.WaitGroup
	for w := 0; w < workers; w++ {
		wg.Add(1)
		go func(w int) {
			defer wg.Done()
			o := &outs[w]
			o.stages = make([]byte, len(shards[w]))
			// the shard is handed to the children in chunks: a restart (after a slow input or a death) then re-reads a
			// small file instead of the whole shard
			const chunkSize = 4000
			attempt := 0
			for cb := 0; cb < len(shards[w]); cb += chunkSize {
				ce := min(cb+chunkSize, len(shards[w]))
				chunk := shards[w][cb:ce]
				inPath := filepath.Join(dir, fmt.Sprintf("in-%d-%d.bin", w, cb))
				if o.err = c10WriteInputs(inPath, chunk); o.err != nil {
					return
				}
				start := 0
				for ; start < len(chunk); attempt++ {
					if attempt > 5000 {
						o.err = fmt.Errorf("shard %d: more than 5000 child restarts", w)
						return
					}
					base := filepath.Join(dir, fmt.Sprintf("child-%d-%d", w, attempt))
					lf, err := os.Create(base + ".log")
					if err != nil {
						o.err = err
						return
					}
					cmd := exec.Command(os.Args[0], "-test.run=^TestVerifC10Child$", "-test.timeout=60m")
					cmd.Env = append(os.Environ(), "C10_CHILD_IN="+inPath, fmt.Sprintf("C10_CHILD_START=%d", start), "C10_CHILD_BASE="+base)
					cmd.Stdout, cmd.Stderr = lf, lf
					if err := cmd.Start(); err != nil {
						o.err = err
						return
					}
					// stall watchdog (budget only, never a verdict): a child that logs no new index for stallAfter is
					// killed and the input it was on is recorded as slow and skipped
					exited := make(chan struct{})
					var stalled atomic.Bool
					go func() {
						lastSize, lastChange := int64(-1), time.Now()
						tick := time.NewTicker(500 * time.Millisecond)
						defer tick.Stop()
						for {
							select {
							case <-exited:
								return
							case <-tick.C:
							}
							var sz int64
							if st, err := os.Stat(base + ".progress"); err == nil {
								sz = st.Size()
							}
							if sz != lastSize {
								lastSize, lastChange = sz, time.Now()
							} else if time.Since(lastChange) > stallAfter {
								stalled.Store(true)
								_ = cmd.Process.Kill()
								return
							}
						}
					}()
					runErr := cmd.Wait()
					close(exited)
					lf.Close()
					// whatever the child managed to record is kept
					if sb, err := os.ReadFile(base + ".stages"); err == nil {
						copy(o.stages[cb+start:ce], sb)
					}
					if eb, err := os.ReadFile(base + ".events"); err == nil {
						for _, line := range bytes.Split(eb, []byte{'\n'}) {
							var e c10ChildPanic
							if len(line) > 0 && json.Unmarshal(line, &e) == nil {
								e.Index += cb // chunk-local -> shard-local
								o.events = append(o.events, e)
							}
						}
					}
					if _, err := os.Stat(base + ".done"); err == nil {
						attempt++
						break
					}
					// the child died: which input was it on?
					pb, _ := os.ReadFile(base + ".progress")
					if len(pb) < 4 {
						o.err = fmt.Errorf("shard %d: child failed before the first input (%v); see %s.log", w, runErr, base)
						return
					}
					lastLocal := int(binary.BigEndian.Uint32(pb[len(pb)-4:]))
					if lastLocal >= len(chunk) {
						o.err = fmt.Errorf("shard %d: progress file names input %d of a %d-input chunk", w, lastLocal, len(chunk))
						return
					}
					last := cb + lastLocal
					logb, _ := os.ReadFile(base + ".log")
					tail := string(logb)
					if len(tail) > 3000 {
						tail = tail[:3000]
					}
					rec := map[string]any{"corpus_index": index[w][last], "kind": shards[w][last].Kind, "input_hex": fmt.Sprintf("%x", c10Clip(shards[w][last].Bytes, 4096)),
						"chunk_seed": fmt.Sprint(shards[w][last].Chunk), "exit": fmt.Sprint(runErr), "child_output": tail}
					if _, err := os.Stat(base + ".slow"); err == nil {
						o.slow++
						if len(o.slowSamples) < 3 {
							o.slowSamples = append(o.slowSamples, rec)
						}
						o.stages[last] = c10StSlow | 0x80
						start = lastLocal + 1
						continue
					}
					if stalled.Load() {
						o.stalls = append(o.stalls, rec)
					} else if verifkreq.DeclaredLen(shards[w][last].Bytes) >= 128<<20 {
						o.obs = append(o.obs, rec)
					} else {
						o.deaths = append(o.deaths, rec)
					}
					o.stages[last] = c10StPanic
					start = lastLocal + 1
				}
				os.Remove(inPath)
			}
		}(w)
	}
	wg.Wait()

	stageName := map[byte]string{0: "not_run", c10StFrameErr: "frame_error", c10StHeaderErr: "header_error", c10StBodyErr: "body_error", c10StParsed: "parsed", c10StPanic: "panic_or_death", c10StSlow: "slow_not_judged"}
	kinds := map[string]bool{}
	for w := 0; w < workers; w++ {
		o := outs[w]
		if o.err != nil {
			t.Fatalf("crashbox: %v", o.err)
		}
		for j, st := range o.stages {
			in := shards[w][j]
			known := st&0x80 != 0
			s := st & 0x7f
			r.Count("stage_"+stageName[s], 1)
			r.Count("kind_"+in.Kind, 1)
			kinds[in.Kind] = true
			nontrivial := known && s >= c10StHeaderErr && s != c10StSlow
			r.Case(verifkit.Hash(in.Bytes, in.Chunk), nontrivial)
			if nontrivial {
				r.Count("reached_parser", 1)
			}
		}
		for _, e := range o.events {
			in := shards[w][e.Index]
			switch {
			case e.Problem != "":
				r.Violation("inconsistent_result", e.Problem, map[string]any{"input_hex": fmt.Sprintf("%x", in.Bytes), "kind": in.Kind, "chunk_seed": fmt.Sprint(in.Chunk), "corpus_index": index[w][e.Index]})
			case e.Alloc != 0:
				r.Count("huge_alloc_calls", 1)
				r.Note(fmt.Sprintf("huge_alloc_input_%d", index[w][e.Index]), map[string]any{"announced_size": verifkreq.DeclaredLen(in.Bytes), "bytes_allocated": e.Alloc, "bytes_sent": len(in.Bytes)})
			default:
				class := c10Classify(e.Payload, e.Msg, e.Stack)
				r.Count("panics", 1)
				r.Violation(class, fmt.Sprintf("%s panicked on a %d-byte client stream (%s): %s", e.Call, len(in.Bytes), in.Kind, e.Msg),
					map[string]any{"input_hex": fmt.Sprintf("%x", in.Bytes), "kind": in.Kind, "chunk_seed": fmt.Sprint(in.Chunk), "frame_index": e.Frame, "payload_hex": fmt.Sprintf("%x", e.Payload), "panic": e.Msg, "stack": e.Stack, "corpus_index": index[w][e.Index]})
			}
		}
		for _, d := range o.deaths {
			r.Violation("process_death", fmt.Sprintf("child process died while decoding corpus input %v (%v)", d["corpus_index"], d["kind"]), d)
		}
		for _, d := range o.stalls {
			r.Count("stalled_inputs_skipped", 1)
			r.Note(fmt.Sprintf("stalled_input_%v", d["corpus_index"]), map[string]any{"kind": d["kind"], "input_hex": d["input_hex"]})
		}
		for _, d := range o.slowSamples {
			r.Note(fmt.Sprintf("slow_input_%v", d["corpus_index"]), map[string]any{"kind": d["kind"], "input_hex": d["input_hex"]})
		}
		for _, d := range o.obs {
			r.Count("death_on_huge_announced_size", 1)
			r.Note(fmt.Sprintf("death_on_huge_announced_size_%v", d["corpus_index"]), d["exit"])
		}
	}
	var ks []string
	for k := range kinds {
		ks = append(ks, k)
	}
	sort.Strings(ks)
	r.Note("input_kinds", ks)
	for i := 0; i < len(corpus) && i < 3; i++ {
		j := (i*7919 + 13) % len(corpus)
		r.Sample(map[string]any{"kind": corpus[j].Kind, "input_hex": fmt.Sprintf("%x", c10Clip(corpus[j].Bytes, 96))})
	}
	if !replaying {
		r.Floor("reached_parser", 1000)
		r.Floor("stage_parsed", 200)
		r.Floor("kind_hdr_tags", 100)
	}
}

// c10ReplayInput extracts the client stream of a witness written by this leg (VERIF_REPLAY).
func c10ReplayInput(leg string) (verifkreq.Input, bool) {
	rp := verifkit.Replay()
	if rp == nil || rp["leg"] != leg {
		return verifkreq.Input{}, false
	}
	w, _ := rp["replay"].(map[string]any)
	hx, _ := w["input_hex"].(string)
	b, err := hex.DecodeString(hx)
	if err != nil || len(b) == 0 {
		return verifkreq.Input{}, false
	}
	in := verifkreq.Input{Kind: "replay", Bytes: b}
	if k, ok := w["kind"].(string); ok {
		in.Kind = k
	}
	fmt.Sscan(fmt.Sprint(w["chunk_seed"]), &in.Chunk)
	return in, true
}

func c10Clip(b []byte, n int) []byte {
	if len(b) > n {
		return b[:n]
	}
	return b
}

// ---------------------------------------------------------------------------
// round trip
// ---------------------------------------------------------------------------

func c10Roundtrip(r *verifkit.Run) {
	handled := map[int16]bool{}
	for _, k := range verifkreq.HandledKeys {
		handled[k] = true
	}
	ci := 0
	for key := int16(0); key <= kmsg.MaxKey; key++ {
		probe := kmsg.RequestForKey(key)
		if probe == nil {
			continue
		}
		nb := r.N(6, 120)
		if handled[key] {
			nb = r.N(25, 600)
		}
		for ver := int16(0); ver <= probe.MaxVersion(); ver++ {
			if key == 7 && ver == 0 {
				continue
			}
			for b := 0; b < nb; b++ {
				ci++
				rng := r.Rand(ci)
				req := kmsg.RequestForKey(key)
				req.SetVersion(ver)
				verifkreq.Fill(rng, req, verifkreq.Opts{MaxArray: 3, Tags: true})
				cid := verifkreq.ClientID(rng)
				corr := int32(rng.Uint32())
				switch rng.Intn(8) {
				case 0:
					corr = 0
				case 1:
					corr = math.MinInt32
				case 2:
					corr = math.MaxInt32
				case 3:
					corr = -1
				}
				wire := verifkreq.Encode(req, corr, cid)
				bodyOff := verifkreq.BodyOffset(req, cid)
				wantBody := wire[4+bodyOff:]
				replay := map[string]any{"key": key, "version": ver, "case": ci, "wire_hex": fmt.Sprintf("%x", c10Clip(wire, 600)), "correlation_id": corr, "client_id": cid}
				name := kmsg.NameForKey(key)
				fail := func(class, what string) {
					r.Violation(class, fmt.Sprintf("%s v%d: %s", name, ver, what), replay)
				}
				func() {
					defer func() {
						if p := recover(); p != nil {
							fail("panic_on_valid_request", fmt.Sprintf("panic: %v", p))
						}
					}()
					fr, err := ReadFrame(&c10ChunkReader{b: wire, rng: rng})
					if err != nil {
						fail("valid_frame_rejected", "ReadFrame: "+err.Error())
						return
					}
					if !bytes.Equal(fr.Payload, wire[4:]) {
						fail("frame_payload_differs", "ReadFrame payload != bytes sent")
						return
					}
					hdr, got, err := ParseRequest(fr.Payload)
					if err != nil {
						fail("valid_request_rejected", "ParseRequest: "+err.Error())
						return
					}
					if hdr.APIKey != key || got.Key() != key {
						fail("api_key_differs", fmt.Sprintf("api key %d/%d", hdr.APIKey, got.Key()))
					}
					if hdr.APIVersion != ver || got.GetVersion() != ver {
						fail("version_differs", fmt.Sprintf("version %d/%d", hdr.APIVersion, got.GetVersion()))
					}
					if hdr.CorrelationID != corr {
						fail("correlation_id_differs", fmt.Sprintf("correlation id %d want %d", hdr.CorrelationID, corr))
					}
					switch {
					case (cid == nil) != (hdr.ClientID == nil):
						fail("client_id_differs", fmt.Sprintf("client id nil-ness: sent nil=%v got nil=%v", cid == nil, hdr.ClientID == nil))
					case cid != nil && *cid != *hdr.ClientID:
						fail("client_id_differs", fmt.Sprintf("client id %q want %q", *hdr.ClientID, *cid))
					}
					if re := got.AppendTo(nil); !bytes.Equal(re, wantBody) {
						fail("body_differs", fmt.Sprintf("re-encoded body (%d bytes) != body sent (%d bytes)", len(re), len(wantBody)))
					}
					ref := kmsg.RequestForKey(key)
					ref.SetVersion(ver)
					if err := ref.ReadFrom(wantBody); err != nil {
						r.Inconclusive(fmt.Sprintf("codec cannot decode its own %s v%d body: %v", name, ver, err))
						return
					}
					if !reflect.DeepEqual(ref, got) {
						fail("body_differs", "parsed request differs from the codec's decode of the body bytes sent")
					}
					_, hb, err := ParseRequestHeader(fr.Payload)
					if err != nil || !bytes.Equal(hb, wantBody) {
						fail("body_differs", "ParseRequestHeader's body bytes != body sent")
					}
				}()
				r.Case(verifkit.Hash(wire), len(wantBody) > 0)
				r.Seen("key_version", fmt.Sprintf("%d/%d", key, ver))
				if req.IsFlexible() {
					r.Count("flexible_cases", 1)
				}
				if cid == nil {
					r.Count("nil_client_id", 1)
				} else if *cid == "" {
					r.Count("empty_client_id", 1)
				} else if len(*cid) != len([]rune(*cid)) {
					r.Count("multibyte_client_id", 1)
				}
				if handled[key] {
					r.Count("handled_key_cases", 1)
				}
				if ci%997 == 1 {
					r.Sample(map[string]any{"api": name, "version": ver, "wire_hex": fmt.Sprintf("%x", c10Clip(wire, 160))})
				}
			}
		}
	}
	r.Floor("key_version", 300)
	r.Floor("flexible_cases", 500)
	r.Floor("nil_client_id", 50)
	r.Floor("multibyte_client_id", 50)
}

// ---------------------------------------------------------------------------
// pipelined round trip: several requests back to back in ONE byte stream (a client that does not wait for
// replies; consecutive small requests share a TCP segment). Every frame must come out exactly as sent, in order,
// whatever the reader's chunking — a frame reader that reads ahead must not lose the bytes of the next frame.
// ---------------------------------------------------------------------------

// c10GreedyReader returns as many bytes as the caller asks for (up to what is left): the read-ahead-friendly case.
type c10GreedyReader struct{ b []byte }

func (g *c10GreedyReader) Read(p []byte) (int, error) {
	if len(g.b) == 0 {
		return 0, io.EOF
	}
	n := copy(p, g.b)
	g.b = g.b[n:]
	return n, nil
}

func c10Pipelined(r *verifkit.Run) {
	n := r.N(1500, 40000)
	bad := 0
	for ci := 0; ci < n && bad < 5; ci++ { // a broken frame reader mis-reads payload bytes as huge lengths: stop after a few witnesses
		rng := r.Rand(1000000 + ci)
		k := 2 + rng.Intn(5)
		var stream []byte
		var wires [][]byte
		var desc []string
		for i := 0; i < k; i++ {
			key := verifkreq.HandledKeys[rng.Intn(len(verifkreq.HandledKeys))]
			req := kmsg.RequestForKey(key)
			ver := int16(rng.Intn(int(req.MaxVersion()) + 1))
			if key == 7 && ver == 0 {
				ver = 1
			}
			req.SetVersion(ver)
			verifkreq.Fill(rng, req, verifkreq.Opts{MaxArray: 2, Tags: true})
			w := verifkreq.Encode(req, int32(rng.Uint32()), verifkreq.ClientID(rng))
			wires = append(wires, w)
			stream = append(stream, w...)
			desc = append(desc, fmt.Sprintf("%s v%d (%d bytes)", kmsg.NameForKey(key), ver, len(w)))
		}
		var rd io.Reader
		mode := []string{"greedy", "chunked", "greedy", "bytes.Reader"}[rng.Intn(4)]
		switch mode {
		case "greedy":
			rd = &c10GreedyReader{b: append([]byte(nil), stream...)}
		case "chunked":
			rd = &c10ChunkReader{b: append([]byte(nil), stream...), rng: rng}
		default:
			rd = bytes.NewReader(stream)
		}
		replay := map[string]any{"case": ci, "reader": mode, "requests": desc, "stream_hex": fmt.Sprintf("%x", c10Clip(stream, 800))}
		func() {
			defer func() {
				if p := recover(); p != nil {
					bad++
					r.Violation("panic_on_pipelined_requests", fmt.Sprintf("panic: %v", p), replay)
				}
			}()
			for i, w := range wires {
				fr, err := ReadFrame(rd)
				if err != nil {
					bad++
					r.Violation("pipelined_frame_lost", fmt.Sprintf("request %d of %d (%s) in one stream: ReadFrame: %v", i, k, desc[i], err), replay)
					return
				}
				if !bytes.Equal(fr.Payload, w[4:]) {
					bad++
					r.Violation("pipelined_frame_differs", fmt.Sprintf("request %d of %d (%s) in one stream: payload differs from the bytes sent", i, k, desc[i]), replay)
					return
				}
				if _, _, err := ParseRequest(fr.Payload); err != nil {
					bad++
					r.Violation("pipelined_request_rejected", fmt.Sprintf("request %d of %d (%s): %v", i, k, desc[i], err), replay)
					return
				}
				r.Count("pipelined_frames_read", 1)
			}
		}()
		r.Case(fmt.Sprint("pipelined", ci, mode, desc), true)
	}
	if bad == 0 {
		r.Floor("pipelined_frames_read", 1000)
	}
}
