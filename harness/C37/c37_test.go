//go:build verif

package proxy

import (
	"bytes"
	"context"
	"encoding/binary"
	"fmt"
	"io"
	"log"
	"math/rand"
	"net"
	"sort"
	"strconv"
	"strings"
	"sync"
	"testing"
	"time"

	"github.com/jackc/pgproto3/v2"

	"github.com/kafscale/platform/addons/processors/sql-processor/internal/config"
	"github.com/kafscale/platform/addons/processors/sql-processor/internal/decoder"
	"github.com/kafscale/platform/addons/processors/sql-processor/internal/discovery"
	"github.com/kafscale/platform/addons/processors/sql-processor/internal/server"
	kafsql "github.com/kafscale/platform/addons/processors/sql-processor/internal/sql"
	"github.com/kafscale/platform/addons/processors/sql-processor/internal/verifkit"
)

// ---------------------------------------------------------------------------
// The upstream: the real SQL server over a known universe of topics. Every
// topic owns one segment whose size is a distinct power of two (EXPLAIN's byte
// estimate then names the topics it counted) and one schema column with a
// private name (DESCRIBE / information_schema then name the topic they read).
// ---------------------------------------------------------------------------

var c37Universe = []string{"orders", "payments", "secret", "audit_log", "orders_eu", "metrics", "t", "pii.users",
	// families of topics whose names differ only in a number that is set off by non-word characters
	"metrics-1", "metrics-2", "tenant-3.audit", "tenant-7.audit", "region-1", "region-2", "events.2025", "events.2026"}

// c37Families: the members of one family differ only in digits (same length).
var c37Families = [][]string{{"metrics-1", "metrics-2"}, {"tenant-3.audit", "tenant-7.audit"}, {"region-1", "region-2"}, {"events.2025", "events.2026"}}

// c37SegSize: the size of topic i's only segment. The numbers are odd and all
// sums of two of them (a topic with itself included) are distinct, so EXPLAIN's
// byte estimate - one topic, or left + right of a join, possibly the same topic
// twice - identifies exactly which topics' segments it counted. All sums < 1024,
// so the estimate is printed exactly ("N B").
var c37SegSize = []int64{1, 3, 7, 15, 25, 41, 61, 89, 131, 161, 193, 245, 295, 363, 407, 503}

// c37CheckSizes: the attribution of EXPLAIN estimates relies on distinct sums below 1024.
func c37CheckSizes() error {
	if len(c37SegSize) != len(c37Universe) {
		return fmt.Errorf("%d sizes for %d topics", len(c37SegSize), len(c37Universe))
	}
	seen := map[int64]string{}
	for i, a := range c37SegSize {
		for j := i; j < len(c37SegSize); j++ {
			for _, n := range []int64{a, a + c37SegSize[j]} {
				who := fmt.Sprintf("%d+%d", i, j)
				if n == a {
					who = fmt.Sprintf("%d", i)
				}
				if prev, dup := seen[n]; dup && prev != who {
					return fmt.Errorf("estimate %d is ambiguous: %s and %s", n, prev, who)
				}
				seen[n] = who
				if n >= 1024 {
					return fmt.Errorf("estimate %d would not be printed exactly", n)
				}
			}
		}
	}
	return nil
}

func c37DecodeEstimate(n int64) ([]string, bool) {
	for i, a := range c37SegSize {
		if n == a {
			return []string{c37Universe[i]}, true
		}
		for j := i; j < len(c37SegSize); j++ {
			if n == a+c37SegSize[j] {
				return []string{c37Universe[i], c37Universe[j]}, true
			}
		}
	}
	return nil, false
}

func c37TopicIndex(t string) int {
	for i, u := range c37Universe {
		if u == t {
			return i
		}
	}
	return -1
}

type c37Event struct {
	How   string // decode | partitions | enumerate
	Topic string
}

type c37Recorder struct {
	mu     sync.Mutex
	events []c37Event
}

func (r *c37Recorder) add(how, topic string) {
	r.mu.Lock()
	r.events = append(r.events, c37Event{how, topic})
	r.mu.Unlock()
}

func (r *c37Recorder) drain() []c37Event {
	r.mu.Lock()
	defer r.mu.Unlock()
	ev := r.events
	r.events = nil
	return ev
}

type c37Lister struct{ rec *c37Recorder }

func (l c37Lister) ListCompleted(ctx context.Context) ([]discovery.SegmentRef, error) {
	out := make([]discovery.SegmentRef, 0, len(c37Universe))
	for i, t := range c37Universe {
		out = append(out, discovery.SegmentRef{Topic: t, Partition: 0, BaseOffset: 0,
			SegmentKey: "ns/" + t + "/0/segment-00000000000000000000.kfs", IndexKey: "ns/" + t + "/0/segment-00000000000000000000.index", SizeBytes: c37SegSize[i]})
	}
	return out, nil
}

type c37Decoder struct{ rec *c37Recorder }

func (d c37Decoder) Decode(ctx context.Context, segmentKey, indexKey string, topic string, partition int32) ([]decoder.Record, error) {
	d.rec.add("decode", topic)
	now := time.Now().UnixMilli()
	return []decoder.Record{
		{Topic: topic, Partition: partition, Offset: 0, Timestamp: now, Key: []byte("k1"), Value: []byte(`{"id":"k1","v":1}`)},
		{Topic: topic, Partition: partition, Offset: 1, Timestamp: now, Key: []byte("k2"), Value: []byte(`{"id":"k2","v":2}`)},
	}, nil
}

type c37Resolver struct{ rec *c37Recorder }

func (r c37Resolver) Topics(ctx context.Context) ([]string, error) {
	r.rec.add("enumerate", "")
	return append([]string(nil), c37Universe...), nil
}

func (r c37Resolver) Partitions(ctx context.Context, topic string) ([]int32, error) {
	r.rec.add("partitions", topic)
	return []int32{0}, nil
}

type c37TeeConn struct {
	net.Conn
	mu  sync.Mutex
	buf bytes.Buffer // everything the upstream server read = everything the proxy wrote
}

func (c *c37TeeConn) Read(p []byte) (int, error) {
	n, err := c.Conn.Read(p)
	if n > 0 {
		c.mu.Lock()
		c.buf.Write(p[:n])
		c.mu.Unlock()
	}
	return n, err
}

type c37Fwd struct {
	Type byte
	Text string // query text of Query ('Q') and Parse ('P') messages
}

// forwarded returns every message the upstream received after the startup message.
func (c *c37TeeConn) forwarded() ([]c37Fwd, error) {
	c.mu.Lock()
	b := append([]byte(nil), c.buf.Bytes()...)
	c.mu.Unlock()
	if len(b) < 4 {
		return nil, nil
	}
	n := int(binary.BigEndian.Uint32(b[:4])) // startup message: length-prefixed, untyped
	if n > len(b) {
		return nil, nil
	}
	b = b[n:]
	var out []c37Fwd
	for len(b) >= 5 {
		l := int(binary.BigEndian.Uint32(b[1:5]))
		if l < 4 || 1+l > len(b) {
			return out, fmt.Errorf("incomplete message of type %q", b[0])
		}
		body := b[5 : 1+l]
		m := c37Fwd{Type: b[0]}
		switch b[0] {
		case 'Q':
			m.Text = string(bytes.TrimSuffix(body, []byte{0}))
		case 'P':
			if i := bytes.IndexByte(body, 0); i >= 0 {
				rest := body[i+1:]
				if j := bytes.IndexByte(rest, 0); j >= 0 {
					m.Text = string(rest[:j])
				}
			}
		}
		out = append(out, m)
		b = b[1+l:]
	}
	return out, nil
}

type c37Upstream struct {
	rec  *c37Recorder
	ln   net.Listener
	mu   sync.Mutex
	last *c37TeeConn
}

func c37StartUpstream(t *testing.T) *c37Upstream {
	rec := &c37Recorder{}
	cfg := config.Config{}
	cfg.Server.ServerVersion = "15.0"
	cfg.Server.ClientEncoding = "UTF8"
	cfg.Query.DefaultLimit = 100
	cfg.Query.MaxUnbounded = 10000
	for i, name := range c37Universe {
		cfg.Metadata.Topics = append(cfg.Metadata.Topics, config.TopicConfig{Name: name, Partitions: []int32{0},
			Schema: config.SchemaConfig{Columns: []config.SchemaColumn{{Name: "c37col_" + strconv.Itoa(i), Type: "string", Path: "$.id"}}}})
	}
	srv := server.NewVerifC37(cfg, log.New(io.Discard, "", 0), c37Lister{rec}, c37Decoder{rec}, c37Resolver{rec})
	ln, err := net.Listen("tcp", "127.0.0.1:0")
	if err != nil {
		t.Fatalf("upstream listen: %v", err)
	}
	u := &c37Upstream{rec: rec, ln: ln}
	go func() {
		for {
			conn, err := ln.Accept()
			if err != nil {
				return
			}
			tee := &c37TeeConn{Conn: conn}
			u.mu.Lock()
			u.last = tee
			u.mu.Unlock()
			go srv.VerifC37ServeConn(context.Background(), tee)
		}
	}()
	return u
}

// ---------------------------------------------------------------------------
// ACL reference (written from the configuration's meaning: deny wins, an empty
// allow list allows everything, patterns are names, "*" or "prefix*").
// ---------------------------------------------------------------------------

type c37ACL struct {
	Allow []string `json:"allow"`
	Deny  []string `json:"deny"`
}

func c37Match(patterns []string, topic string) bool {
	for _, p := range patterns {
		if p == "*" || p == topic || (strings.HasSuffix(p, "*") && strings.HasPrefix(topic, strings.TrimSuffix(p, "*"))) {
			return true
		}
	}
	return false
}

func (a c37ACL) allows(topic string) bool {
	if c37Match(a.Deny, topic) {
		return false
	}
	return len(a.Allow) == 0 || c37Match(a.Allow, topic)
}

var c37ACLs = []c37ACL{
	{Allow: []string{"orders"}},
	{Allow: []string{"orders", "payments"}},
	{Allow: []string{"orders*"}},
	{Deny: []string{"secret"}},
	{Deny: []string{"secret", "pii.*"}},
	{Allow: []string{"*"}, Deny: []string{"secret", "audit_log"}},
	{Allow: []string{"orders*", "t", "metrics"}, Deny: []string{"orders_eu"}},
	{Allow: []string{"*"}},
	{},
	// one member of a digit family allowed, its sibling not
	{Allow: []string{"orders", "metrics-1", "tenant-7.audit", "region-1", "events.2026"}},
	{Deny: []string{"metrics-1", "tenant-3.audit", "region-2", "events.2025"}},
	{Allow: []string{"*"}, Deny: []string{"secret", "metrics-2", "tenant-7.audit", "region-1", "events.2026"}},
	{Allow: []string{"metrics-*", "region-*", "tenant-*", "events.*", "payments"}, Deny: []string{"metrics-2", "region-2", "tenant-3.audit", "events.2025"}},
}

// ---------------------------------------------------------------------------
// Query generator
// ---------------------------------------------------------------------------

type c37Query struct {
	Text  string `json:"text"`
	Shape string `json:"shape"`
}

func c37Case(rng *rand.Rand, s string) string {
	switch rng.Intn(3) {
	case 0:
		return strings.ToUpper(s)
	case 1:
		return s
	default:
		b := []byte(s)
		for i, c := range b {
			if 'a' <= c && c <= 'z' && rng.Intn(2) == 0 {
				b[i] = c - 32
			}
		}
		return string(b)
	}
}

func c37Pad(rng *rand.Rand, n int) string {
	if n < 1 {
		n = 1
	}
	b := make([]byte, n)
	mode := rng.Intn(3)
	for i := range b {
		b[i] = ' '
		if mode == 1 && i%7 == 3 {
			b[i] = '\n'
		}
		if mode == 2 && i%5 == 1 {
			b[i] = '\t'
		}
	}
	return string(b)
}

func c37Cols(rng *rand.Rand, minLen int) string {
	if minLen <= 0 {
		return []string{"*", "_key, _value", "_offset,_ts", "json_value(_value, '$.id') AS id", "_key"}[rng.Intn(5)]
	}
	var sb strings.Builder
	for i := 0; sb.Len() < minLen; i++ {
		if i > 0 {
			sb.WriteString(", ")
		}
		fmt.Fprintf(&sb, "json_value(_value, '$.field_%03d') AS c%03d", i, i)
	}
	return sb.String()
}

func c37PickTopic(rng *rand.Rand, acl c37ACL, wantAllowed bool) string {
	perm := rng.Perm(len(c37Universe))
	for _, i := range perm {
		if acl.allows(c37Universe[i]) == wantAllowed {
			return c37Universe[i]
		}
	}
	return c37Universe[perm[0]]
}

// c37Target picks the byte offset at which the interesting topic token should start.
func c37Target(rng *rand.Rand, tokLen int) (int, string) {
	switch rng.Intn(8) {
	case 0, 1:
		return 0, "short" // no padding
	case 2:
		return 512 - tokLen - rng.Intn(4), "ends_at_or_before_512"
	case 3:
		return 512 - 1 - rng.Intn(tokLen), "straddles_512"
	case 4:
		return 512 + rng.Intn(4), "starts_at_512"
	case 5:
		return 560 + rng.Intn(300), "beyond_512"
	case 6:
		return 300 + rng.Intn(150), "before_512_long_tail"
	default:
		return 1500 + rng.Intn(3000), "far_beyond_512"
	}
}

const c37Mark = "\x01"

// c37Place replaces the pad marker by whitespace so that the token which starts
// delta bytes after the marker begins at byte offset target (0 = one space).
func c37Place(rng *rand.Rand, text string, delta, target int) string {
	m := strings.Index(text, c37Mark)
	n := 1
	if target > m+delta+1 {
		n = target - m - delta
	}
	return strings.Replace(text, c37Mark, c37Pad(rng, n), 1)
}

func c37GenQuery(rng *rand.Rand, acl c37ACL) c37Query {
	k := func(s string) string { return c37Case(rng, s) }
	semi := []string{"", "", ";", " ;", ";;", "; "}[rng.Intn(6)]
	kind := rng.Intn(20)
	switch {
	case kind == 0:
		return c37Query{k("show topics") + semi, "show_topics"}
	case kind == 1:
		return c37Query{[]string{"SELECT table_name FROM information_schema.tables", "select * from information_schema.columns", "SELECT * FROM pg_catalog.pg_tables",
			"select * from " + c37PickTopic(rng, acl, true) + " information_schema.tables", "SET application_name = 'information_schema.columns'",
			"select * from pg_catalog.pg_class"}[rng.Intn(6)] + semi, "catalog"}
	case kind == 2:
		return c37Query{[]string{"SET client_encoding = 'UTF8'", "set search_path to public", "RESET ALL", "set x = 'select * from secret'"}[rng.Intn(4)] + semi, "set"}
	case kind == 3 || kind == 4:
		topic := c37PickTopic(rng, acl, rng.Intn(2) == 0)
		tok := k(topic)
		target, where := c37Target(rng, len(tok))
		text := c37Place(rng, k("show partitions from")+c37Mark+tok, 0, target)
		return c37Query{text + semi, "show_partitions/" + where}
	case kind == 5 || kind == 6:
		topic := c37PickTopic(rng, acl, rng.Intn(2) == 0)
		tok := k(topic)
		target, where := c37Target(rng, len(tok))
		text := c37Place(rng, k("describe")+c37Mark+tok, 0, target)
		return c37Query{text + semi, "describe/" + where}
	}
	explain := ""
	shape := "select"
	if rng.Intn(4) == 0 {
		explain = k("explain") + " "
		shape = "explain"
	}
	join := rng.Intn(5) < 3
	primaryAllowed := join && rng.Intn(10) < 8 || !join && rng.Intn(2) == 0
	p := c37PickTopic(rng, acl, primaryAllowed)
	ptok := k(p)
	if !join {
		target, where := c37Target(rng, len(ptok))
		var text string
		if rng.Intn(2) == 0 || target == 0 {
			// padding between FROM and the topic
			text = explain + k("select") + " " + c37Cols(rng, 0) + " " + k("from") + c37Mark + ptok
			text = c37Place(rng, text, 0, target)
			where = "pad_after_from/" + where
		} else {
			// a long column list pushes FROM and the topic to the target
			head := explain + k("select") + " "
			text = head + c37Cols(rng, target-len(head)-6) + " " + k("from") + " " + ptok
			where = "long_columns/" + where
		}
		tail := []string{"", " " + k("limit") + " 5", " " + k("last") + " 1h", " " + k("tail") + " 3", " " + k("scan full"), " " + k("where") + " _partition = 0", " " + k("order by") + " _ts " + k("desc") + " " + k("limit") + " 2"}[rng.Intn(7)]
		if strings.Contains(where, "far_beyond") && rng.Intn(2) == 0 {
			tail += c37Pad(rng, 600)
		}
		return c37Query{text + tail + semi, shape + "/" + where}
	}
	j := c37PickTopic(rng, acl, rng.Intn(10) < 3)
	jtok := k(j)
	for strings.EqualFold(jtok, ptok) {
		j = c37Universe[rng.Intn(len(c37Universe))]
		jtok = k(j)
	}
	target, where := c37Target(rng, len(jtok))
	la, ra := []string{"", "a", "l"}[rng.Intn(3)], []string{"", "b", "r"}[rng.Intn(3)]
	jkw := k("join")
	if rng.Intn(3) == 0 {
		jkw = k("left") + " " + k("join")
	}
	on := ""
	if rng.Intn(4) != 0 {
		l, r := "_key", "_key"
		if la != "" {
			l = la + "._key"
		}
		if ra != "" {
			r = ra + "._key"
		}
		if rng.Intn(3) == 0 && ra != "" {
			r = "json_value(" + ra + "._value, '$.id')"
		}
		on = " " + k("on") + " " + l + " = " + r
	}
	if la != "" {
		la = " " + la
	}
	if ra != "" {
		ra = " " + ra
	}
	head := explain + k("select") + " "
	cols := c37Cols(rng, 0)
	if strings.Contains(cols, "json_value(_value") || strings.Contains(cols, "_offset") {
		cols = "*"
	}
	var text string
	delta := 0
	switch rng.Intn(4) {
	case 0: // whitespace between the primary topic and JOIN
		delta = len(jkw) + 1
		text = head + cols + " " + k("from") + " " + ptok + la + c37Mark + jkw + " " + jtok + ra + on
		where = "pad_before_join/" + where
	case 1: // whitespace between JOIN and its topic
		text = head + cols + " " + k("from") + " " + ptok + la + " " + jkw + c37Mark + jtok + ra + on
		where = "pad_after_join_kw/" + where
	case 2: // whitespace between FROM and the primary topic: both topics move
		delta = len(ptok) + len(la) + 1 + len(jkw) + 1
		text = head + cols + " " + k("from") + c37Mark + ptok + la + " " + jkw + " " + jtok + ra + on
		where = "pad_after_from/" + where
	default: // long column list, primary topic kept inside the first 512 bytes only if target is small
		text = head + "*" + " " + k("from") + " " + ptok + la + " " + jkw + c37Mark + jtok + ra + on
		where = "pad_after_join_kw/" + where
	}
	text = c37Place(rng, text, delta, target)
	text += " " + k("within") + " 10m " + k("last") + " 1h"
	if rng.Intn(3) == 0 {
		text += " " + k("limit") + " 10"
	}
	return c37Query{text + semi, shape + "_join/" + where}
}

// c37Variant re-spells a query without changing its meaning for the dialect:
// keyword/identifier case and the amount of whitespace (what the proxy's
// decision cache considers equal).
func c37Variant(rng *rand.Rand, q c37Query) c37Query {
	var sb strings.Builder
	for _, f := range strings.Fields(q.Text) {
		if sb.Len() > 0 {
			sb.WriteString([]string{" ", "  ", "\n", " \t"}[rng.Intn(4)])
		}
		if strings.ContainsAny(f, "'$") {
			sb.WriteString(f)
		} else {
			sb.WriteString(c37Case(rng, f))
		}
	}
	return c37Query{sb.String(), q.Shape + "+respelled"}
}

// c37SwapTail keeps the first 512 bytes (after trimming) of a long query and
// replaces a topic that lies behind them.
func c37SwapTail(rng *rand.Rand, q c37Query, acl c37ACL) (c37Query, bool) {
	t := strings.TrimSpace(q.Text)
	if len(t) <= 520 {
		return q, false
	}
	lowerTail := strings.ToLower(t[512:])
	for _, i := range rng.Perm(len(c37Universe)) {
		u := c37Universe[i]
		at := strings.Index(lowerTail, " "+u+" ")
		if at < 0 {
			continue
		}
		repl := c37PickTopic(rng, acl, false)
		if repl == u {
			repl = c37PickTopic(rng, acl, true)
		}
		return c37Query{t[:512] + t[512:][:at+1] + repl + t[512:][at+1+len(u):], q.Shape + "+tail_topic_swapped"}, true
	}
	return q, false
}

// c37SplitFamilies returns the (allowed member, forbidden sibling) pairs of the
// digit families under acl.
func c37SplitFamilies(acl c37ACL) [][2]string {
	var out [][2]string
	for _, fam := range c37Families {
		for _, a := range fam {
			for _, b := range fam {
				if acl.allows(a) && !acl.allows(b) {
					out = append(out, [2]string{a, b})
				}
			}
		}
	}
	return out
}

// c37GenFamilyQuery writes a query that reads family member m (as the only
// topic, as EXPLAIN subject, as either side of a join, in SHOW PARTITIONS /
// DESCRIBE; short or longer than 512 bytes) with literals in its tail.
func c37GenFamilyQuery(rng *rand.Rand, acl c37ACL, m string) c37Query {
	k := func(s string) string { return c37Case(rng, s) }
	semi := []string{"", "", ";", " ;"}[rng.Intn(4)]
	tail := []string{"", " " + k("limit") + " 5", " " + k("last") + " 1h", " " + k("tail") + " 3", " " + k("scan full"), " " + k("where") + " _partition = 0",
		" " + k("where") + " _offset >= 1 " + k("limit") + " 20", " " + k("limit") + " 2 " + k("last") + " 15m"}[rng.Intn(8)]
	cols := c37Cols(rng, 0)
	if rng.Intn(5) == 0 {
		cols = c37Cols(rng, 520+rng.Intn(200))
	}
	other := c37PickTopic(rng, acl, true)
	for other == m {
		other = c37PickTopic(rng, acl, true)
	}
	jtail := " " + k("within") + " 10m " + k("last") + " 1h"
	on := []string{"", " " + k("on") + " a._key = b._key", " " + k("on") + " a._key = json_value(b._value, '$.id')"}[rng.Intn(3)]
	switch rng.Intn(8) {
	case 0, 1:
		return c37Query{k("select") + " " + cols + " " + k("from") + " " + k(m) + tail + semi, "family/select"}
	case 2:
		return c37Query{k("explain") + " " + k("select") + " " + cols + " " + k("from") + " " + k(m) + tail + semi, "family/explain"}
	case 3, 4:
		jkw := []string{k("join"), k("left") + " " + k("join")}[rng.Intn(2)]
		return c37Query{k("select") + " * " + k("from") + " " + k(other) + " a " + jkw + " " + k(m) + " b" + on + jtail + semi, "family/join_topic"}
	case 5:
		ex := ""
		if rng.Intn(3) == 0 {
			ex = k("explain") + " "
		}
		return c37Query{ex + k("select") + " * " + k("from") + " " + k(m) + " a " + k("join") + " " + k(other) + " b" + on + jtail + semi, "family/join_primary"}
	case 6:
		return c37Query{k("show partitions from") + " " + k(m) + semi, "family/show_partitions"}
	default:
		return c37Query{k("describe") + " " + k(m) + semi, "family/describe"}
	}
}

// c37SwapMember replaces every occurrence (any letter case) of family member a
// by its sibling b; the two differ only in digits, so the text is otherwise
// byte for byte the same.
func c37SwapMember(text, a, b string) string {
	if len(a) != len(b) {
		panic("c37: family members must have the same length")
	}
	out := []byte(text)
	lower := strings.ToLower(text)
	for from := 0; ; {
		i := strings.Index(lower[from:], a)
		if i < 0 {
			break
		}
		i += from
		for k := 0; k < len(a); k++ {
			if a[k] != b[k] {
				out[i+k] = b[k]
			}
		}
		from = i + len(a)
	}
	return string(out)
}

// c37FamilySession: an allowed family member is queried first (possibly again,
// respelled, so that a cached decision is also hit legitimately), then the very
// same text with the forbidden sibling's digits.
func c37FamilySession(rng *rand.Rand, acl c37ACL, pairs [][2]string) []c37Query {
	var qs []c37Query
	for i, n := 0, 1+rng.Intn(2); i < n; i++ {
		pr := pairs[rng.Intn(len(pairs))]
		q1 := c37GenFamilyQuery(rng, acl, pr[0])
		q1.Shape += "/allowed_member"
		qs = append(qs, q1)
		if rng.Intn(3) == 0 {
			qs = append(qs, c37Variant(rng, q1))
		}
		q2 := c37Query{c37SwapMember(q1.Text, pr[0], pr[1]), strings.TrimSuffix(q1.Shape, "/allowed_member") + "/forbidden_sibling"}
		if rng.Intn(3) == 0 {
			q2 = c37Variant(rng, q2)
		}
		qs = append(qs, q2)
		if rng.Intn(4) == 0 {
			qs = append(qs, q1)
		}
	}
	return qs
}

// ---------------------------------------------------------------------------
// Statement-terminator / separator / comment / quoting oddities. The upstream
// parser tokenises the forwarded text on white space, drops one trailing ';',
// knows no comments, no quoting and no second statement: the token after the
// first FROM and the token after the first [LEFT] JOIN are the topics it reads,
// wherever they stand. These texts put an allowed or a forbidden topic into such
// a position before / behind / inside something that another reader of the same
// bytes might take for the end of the statement, a comment, a string or a second
// statement.
// ---------------------------------------------------------------------------

var c37OddWS = []string{"\n", "\t", "\r\n", "  ", " \n ", "\f", "\v", "\u00a0", "\u2003", "\n\n", " \r"}

func c37Gap(rng *rand.Rand) string {
	if rng.Intn(8) == 0 {
		return c37OddWS[rng.Intn(len(c37OddWS))]
	}
	return " "
}

// c37GenSep returns what stands between two parts of a text (with the white
// space around it, possibly none) and the kind of separator it is.
func c37GenSep(rng *rand.Rand) (string, string) {
	var core, fam string
	switch x := rng.Intn(10); {
	case x < 6:
		core, fam = []string{";", ";", ";", ";;", ";;;", "; ;", ";\n;", ";\t;;"}[rng.Intn(8)], "semicolon"
	case x < 8:
		core, fam = []string{"--", "/*", "*/", "/**/", "#", "//", "/* x */", "-- x"}[rng.Intn(8)], "comment"
	case x < 9:
		core, fam = []string{",", ")", "(", "\\;", "';'", "\";\"", "\\", "()"}[rng.Intn(8)], "punct"
	default:
		core, fam = "", "whitespace"
	}
	side := func() string {
		switch rng.Intn(10) {
		case 0, 1:
			return ""
		case 2, 3, 4:
			return c37OddWS[rng.Intn(len(c37OddWS))]
		}
		return " "
	}
	l, r := side(), side()
	if core == "" && l+r == "" {
		l = c37OddWS[rng.Intn(len(c37OddWS))]
	}
	glue := "own_token"
	switch {
	case core == "":
		glue = "only"
	case l == "" && r == "":
		glue = "glued_both"
	case l == "":
		glue = "glued_left"
	case r == "":
		glue = "glued_right"
	}
	return l + core + r, fam + "_" + glue
}

func c37GenSepQuery(rng *rand.Rand, acl c37ACL) c37Query {
	k := func(s string) string { return c37Case(rng, s) }
	g := func() string { return c37Gap(rng) }
	spell := func(t string) string { // letter case, now and then quoted
		t = k(t)
		switch rng.Intn(14) {
		case 0:
			return `"` + t + `"`
		case 1:
			return "'" + t + "'"
		case 2:
			return "`" + t + "`"
		}
		return t
	}
	a := c37PickTopic(rng, acl, true)
	x := c37PickTopic(rng, acl, false) // any topic if the ACL forbids none
	if rng.Intn(4) == 0 {
		x = c37PickTopic(rng, acl, true)
	}
	for x == a {
		x = c37Universe[rng.Intn(len(c37Universe))]
	}
	b := c37PickTopic(rng, acl, true)
	for tries := 0; b == a || b == x; tries++ {
		if tries < 8 {
			b = c37PickTopic(rng, acl, true)
		} else {
			b = c37Universe[rng.Intn(len(c37Universe))]
		}
	}
	sep, sepName := c37GenSep(rng)
	end := []string{"", "", ";", " ;", ";;", "; ", " ; ;", ";\n", "; -- done", ";/* */", " ;\u00a0"}[rng.Intn(11)]
	ex := ""
	if rng.Intn(4) == 0 {
		ex = k("explain") + g()
	}
	cols := c37Cols(rng, 0)
	jcols := cols
	if strings.Contains(jcols, "json_value(_value") || strings.Contains(jcols, "_offset") {
		jcols = "*"
	}
	jtail := " " + k("within") + " 10m " + k("last") + " 1h"
	if rng.Intn(3) == 0 {
		jtail += " " + k("limit") + " 10"
	}
	stail := func() string {
		return []string{"", "", " " + k("limit") + " 5", " " + k("last") + " 1h", " " + k("tail") + " 3", " " + k("scan full"), " " + k("where") + " _partition = 0",
			" " + k("order by") + " _ts " + k("desc") + " " + k("limit") + " 2"}[rng.Intn(8)]
	}
	jkw := k("join")
	if rng.Intn(3) == 0 {
		jkw = k("left") + g() + k("join")
	}
	la, ra := []string{"", "a", "o"}[rng.Intn(3)], []string{"", "b", "s"}[rng.Intn(3)]
	on := ""
	if rng.Intn(4) != 0 {
		l, r := "_key", "_key"
		if la != "" {
			l = la + "._key"
		}
		if ra != "" {
			r = ra + "._key"
		}
		if rng.Intn(4) == 0 && ra != "" {
			r = "json_value(" + ra + "._value, '$.id')"
		}
		on = " " + k("on") + " " + l + " = " + r
	}
	if la != "" {
		la = " " + la
	}
	if ra != "" {
		ra = " " + ra
	}
	var text, tmpl string
	switch t := rng.Intn(14); {
	case t < 5: // the join clause stands behind the separator
		tmpl = "join_behind_separator"
		text = ex + k("select") + " " + jcols + " " + k("from") + g() + spell(a) + la + sep + jkw + g() + spell(x) + ra + on + jtail
	case t < 6: // the separator stands somewhere inside the join clause
		tmpl = "separator_inside_join_clause"
		s1, s2, s3 := " ", " ", " "
		switch rng.Intn(3) {
		case 0:
			s1 = sep
		case 1:
			s2 = sep
		default:
			s3 = sep
		}
		text = ex + k("select") + " " + jcols + " " + k("from") + " " + spell(a) + la + " " + jkw + s1 + spell(x) + s2 + strings.TrimPrefix(ra+on, " ") + s3 + strings.TrimPrefix(jtail, " ")
	case t < 9: // two parts that each look like a statement (or a clause, or nothing), a topic in each
		tmpl = "two_parts"
		part := func(t string) string {
			switch rng.Intn(10) {
			case 0, 1, 2, 3:
				pex := ""
				if rng.Intn(5) == 0 {
					pex = k("explain") + " "
				}
				return pex + k("select") + " " + c37Cols(rng, 0) + " " + k("from") + g() + spell(t) + stail()
			case 4:
				return k("show partitions from") + g() + spell(t)
			case 5:
				return k("describe") + g() + spell(t)
			case 6:
				return k("show topics")
			case 7:
				return []string{"SET x = 1", "RESET ALL", "set search_path to " + t}[rng.Intn(3)]
			case 8:
				return []string{"", "foo", "commit", k("from") + " " + spell(t), k("select") + " 1"}[rng.Intn(5)]
			default:
				return jkw + g() + spell(t) + jtail
			}
		}
		p1, p2 := part(x), part(a)
		if rng.Intn(2) == 0 {
			p1, p2 = part(a), part(x)
		}
		text = p1 + sep + p2
	case t < 11: // a clause enclosed in something that is a comment / a string / a statement of its own elsewhere
		tmpl = "enclosed_clause"
		pi := rng.Intn(10)
		pair := [][2]string{{"/*", "*/"}, {"--", "\n"}, {";", ";"}, {"(", ")"}, {"'", "'"}, {"\"", "\""}, {"/*", "*/;"}, {"#", "\n"}, {"$$", "$$"}, {"--", "\r\n"}}[pi]
		og, cg := " ", " "
		if rng.Intn(5) == 0 {
			og = ""
		}
		if rng.Intn(5) == 0 || strings.TrimSpace(pair[1]) == "" {
			cg = ""
		}
		open, cl := " "+pair[0]+og, cg+pair[1]+" "
		sepName = "enclosed_in_" + []string{"block_comment", "line_comment_lf", "semicolons", "parentheses", "single_quotes", "double_quotes", "block_comment_semicolon", "hash_comment_lf", "dollar_quotes", "line_comment_crlf"}[pi]
		if rng.Intn(2) == 0 {
			text = ex + k("select") + " * " + k("from") + " " + spell(a) + " a" + open + jkw + " " + spell(x) + " x" + cl + k("join") + " " + spell(b) + " b " + k("on") + " a._key = b._key" + jtail
		} else {
			text = ex + k("select") + " " + cols + open + k("from") + " " + spell(x) + cl + k("from") + " " + spell(a) + stail()
		}
	case t < 12: // the separator stands around FROM
		tmpl = "separator_at_from"
		switch rng.Intn(3) {
		case 0:
			text = ex + k("select") + " " + cols + sep + k("from") + g() + spell(x) + stail()
		case 1:
			text = ex + k("select") + " " + cols + " " + k("from") + sep + spell(x) + stail()
		default:
			text = ex + k("select") + " " + cols + " " + k("from") + g() + spell(x) + sep + strings.TrimPrefix(stail(), " ")
		}
	default:
		tmpl = "show_describe"
		y := a
		if rng.Intn(2) == 0 {
			x, y = y, x
		}
		switch rng.Intn(6) {
		case 0:
			text = k("show partitions from") + g() + spell(x) + sep + spell(y)
		case 1:
			text = k("describe") + g() + spell(x) + sep + spell(y)
		case 2:
			text = k("show partitions from") + sep + spell(x)
		case 3:
			text = k("describe") + sep + spell(x)
		case 4:
			text = k("show partitions") + sep + k("from") + g() + spell(x)
		default:
			text = k("show") + sep + k("topics") + g() + spell(x)
		}
	}
	return c37Query{text + end, "sep/" + tmpl + "/" + sepName}
}

// c37UpstreamPlan answers "which topics does the upstream's own parser find in
// exactly this text": the real kafsql.Parse, after the two things the upstream
// does with a text before parsing it (catalog texts are answered from the topic
// list - the seams and the answer show that -, SET / RESET are acknowledged).
func c37UpstreamPlan(text string) (kind string, topics []c37Read) {
	defer func() {
		if p := recover(); p != nil {
			kind, topics = "parser_panic", nil
		}
	}()
	trimmed := strings.TrimSpace(text)
	lower := strings.ToLower(trimmed)
	if strings.Contains(lower, "pg_catalog") || strings.Contains(lower, "information_schema") {
		return "catalog", nil
	}
	if strings.HasPrefix(lower, "set ") || strings.HasPrefix(lower, "reset ") {
		return "set", nil
	}
	parsed, err := kafsql.Parse(text)
	if err != nil {
		return "rejected", nil
	}
	kind = string(parsed.Type)
	q := parsed
	if q.Type == kafsql.QueryExplain && q.Explain != nil {
		q = *q.Explain
	}
	switch q.Type {
	case kafsql.QuerySelect:
		topics = append(topics, c37Read{q.Topic, "FROM topic for kafsql.Parse(forwarded text)"})
		if q.JoinTopic != "" {
			topics = append(topics, c37Read{q.JoinTopic, "JOIN topic for kafsql.Parse(forwarded text)"})
		}
	case kafsql.QueryShowPartitions, kafsql.QueryDescribe:
		topics = append(topics, c37Read{q.Topic, "topic for kafsql.Parse(forwarded text)"})
	}
	return kind, topics
}

// c37MidTextSemicolon: a ';' with something other than ';' and white space behind it.
func c37MidTextSemicolon(q string) bool {
	i := strings.IndexByte(q, ';')
	return i >= 0 && strings.TrimSpace(strings.ReplaceAll(q[i:], ";", " ")) != ""
}

var c37CommentMarks = []string{"--", "/*", "*/", "#", "//"}

func c37HasCommentMark(q string) bool {
	for _, m := range c37CommentMarks {
		if strings.Contains(q, m) {
			return true
		}
	}
	return false
}

func c37BlankOut(q string, marks ...string) string {
	for _, m := range marks {
		q = strings.ReplaceAll(q, m, strings.Repeat(" ", len(m)))
	}
	return q
}

// ---------------------------------------------------------------------------
// Client and session
// ---------------------------------------------------------------------------

const c37IO = 60 * time.Second // socket watchdog; expiry => inconclusive

type c37Answer struct {
	Errors []string
	Cells  []string // every DataRow value
	Tags   []string
}

func c37RoundTrip(conn net.Conn, fe *pgproto3.Frontend, q string, asParse bool) (c37Answer, error) {
	var a c37Answer
	conn.SetDeadline(time.Now().Add(c37IO))
	var msg pgproto3.FrontendMessage = &pgproto3.Query{String: q}
	if asParse {
		msg = &pgproto3.Parse{Name: "", Query: q} // extended protocol: one message, the proxy answers each with error + ready
	}
	if err := fe.Send(msg); err != nil {
		return a, err
	}
	for {
		conn.SetDeadline(time.Now().Add(c37IO))
		msg, err := fe.Receive()
		if err != nil {
			return a, err
		}
		switch m := msg.(type) {
		case *pgproto3.ReadyForQuery:
			return a, nil
		case *pgproto3.ErrorResponse:
			a.Errors = append(a.Errors, m.Message)
		case *pgproto3.DataRow:
			for _, v := range m.Values {
				a.Cells = append(a.Cells, string(v))
			}
		case *pgproto3.CommandComplete:
			a.Tags = append(a.Tags, string(m.CommandTag))
		}
	}
}

type c37Read struct {
	Topic string `json:"topic"`
	How   string `json:"how"`
}

// c37TopicsRead is the monitor's answer to "which topics did the upstream read
// for this query": storage seam events plus the topic-private markers and topic
// names present in the answer that went back through the proxy.
func c37TopicsRead(events []c37Event, ans c37Answer) (reads []c37Read, undecodable []string) {
	seen := map[string]string{}
	add := func(t, how string) {
		if c37TopicIndex(t) < 0 {
			return // not an existing topic: nothing can be read from it
		}
		if _, ok := seen[t]; !ok {
			seen[t] = how
		}
	}
	enumerated := false
	for _, e := range events {
		switch e.How {
		case "decode":
			add(e.Topic, "segment decoded")
		case "partitions":
			add(e.Topic, "partitions listed")
		case "enumerate":
			enumerated = true
		}
	}
	for _, c := range ans.Cells {
		if rest, ok := strings.CutPrefix(c, "  Estimated bytes: "); ok {
			if n, err := strconv.ParseInt(strings.TrimSuffix(rest, " B"), 10, 64); err == nil && n > 0 {
				if ts, ok := c37DecodeEstimate(n); ok {
					for _, t := range ts {
						add(t, "segments counted by EXPLAIN")
					}
				} else {
					undecodable = append(undecodable, c)
				}
			} else if err != nil {
				undecodable = append(undecodable, c)
			}
		}
		if rest, ok := strings.CutPrefix(c, "c37col_"); ok {
			if i, err := strconv.Atoi(rest); err == nil && i >= 0 && i < len(c37Universe) {
				add(c37Universe[i], "schema column returned")
			}
		}
		if enumerated && c37TopicIndex(c) >= 0 {
			add(c, "topic name returned from the catalog")
		}
	}
	out := make([]c37Read, 0, len(seen))
	for t, how := range seen {
		out = append(out, c37Read{t, how})
	}
	sort.Slice(out, func(i, j int) bool { return out[i].Topic < out[j].Topic })
	return out, undecodable
}

// c37Class names the way a forwarded query escaped authorization, from the witness alone.
func c37Class(q string, bad []c37Read) string {
	trimmed := strings.TrimSpace(q)
	lower := strings.ToLower(trimmed)
	if strings.Contains(lower, "pg_catalog") || strings.Contains(lower, "information_schema") {
		return "catalog_query_discloses_unauthorized_topics"
	}
	if len(trimmed) > 512 {
		beyond, cut := false, false
		for _, b := range bad {
			// first whitespace-separated word that is the topic's name
			for i := 0; i < len(lower); {
				for i < len(lower) && strings.ContainsRune(" \t\n\r", rune(lower[i])) {
					i++
				}
				j := i
				for j < len(lower) && !strings.ContainsRune(" \t\n\r", rune(lower[j])) {
					j++
				}
				if strings.TrimRight(lower[i:j], ";") == b.Topic {
					switch {
					case i >= 512:
						beyond = true
					case j >= 512: // cut inside the name, or "..." glued to its end
						cut = true
					}
					break
				}
				i = j
			}
		}
		if beyond {
			return "topic_beyond_byte_512_not_authorized"
		}
		if cut {
			return "topic_name_altered_by_cut_at_byte_512"
		}
	}
	return "unauthorized_topic_read"
}

type c37Step struct {
	Query     string    `json:"query"`
	Bytes     int       `json:"bytes"`
	Shape     string    `json:"shape"`
	Forwarded bool      `json:"forwarded"`
	Read      []c37Read `json:"upstream_read"`
	Parsed    []c37Read `json:"upstream_parser_topics,omitempty"` // existing topics kafsql.Parse finds in the forwarded text
	Audit     string    `json:"proxy_audit,omitempty"`
	Errors    []string  `json:"errors,omitempty"`
}

type c37LogBuf struct {
	mu sync.Mutex
	b  bytes.Buffer
}

func (l *c37LogBuf) Write(p []byte) (int, error) {
	l.mu.Lock()
	defer l.mu.Unlock()
	return l.b.Write(p)
}

func (l *c37LogBuf) take() string {
	l.mu.Lock()
	defer l.mu.Unlock()
	s := l.b.String()
	l.b.Reset()
	return s
}

func c37Clip(s string) string {
	if len(s) > 300 {
		return s[:140] + fmt.Sprintf(" …[%d bytes]… ", len(s)-280) + s[len(s)-140:]
	}
	return s
}

type c37Env struct {
	up  *c37Upstream
	pln net.Listener
	mu  sync.Mutex
	cur *Server
}

func c37NewEnv(t *testing.T) *c37Env {
	e := &c37Env{up: c37StartUpstream(t)}
	pln, err := net.Listen("tcp", "127.0.0.1:0")
	if err != nil {
		t.Fatal(err)
	}
	e.pln = pln
	go func() {
		for {
			conn, err := pln.Accept()
			if err != nil {
				return
			}
			e.mu.Lock()
			ps := e.cur
			e.mu.Unlock()
			go ps.handleConn(context.Background(), conn) // as in (*Server).Run
		}
	}()
	return e
}

func (e *c37Env) close() { e.pln.Close(); e.up.ln.Close() }

// c37Obs is what the monitors saw for one client message.
type c37Obs struct {
	Step   c37Step
	Fwd    []c37Fwd   // messages that reached the upstream because of it
	Events []c37Event // storage seam events at the upstream
	Bad    []c37Read  // topics read that the ACL does not allow
}

// session runs one client connection through a fresh proxy instance (sessions
// are strictly sequential, so upstream observations belong to the query in flight).
func (e *c37Env) session(acl c37ACL, cacheEntries int, qs []c37Query) ([]c37Obs, string) {
	logs := &c37LogBuf{}
	ps := New(config.ProxyConfig{Listen: "unused", Upstreams: []string{e.up.ln.Addr().String()}, CacheTTLSeconds: 3600, CacheMaxEntries: cacheEntries,
		ACL: config.ProxyACLConfig{Allow: acl.Allow, Deny: acl.Deny}}, log.New(logs, "", 0))
	e.mu.Lock()
	e.cur = ps
	e.mu.Unlock()
	conn, err := net.DialTimeout("tcp", e.pln.Addr().String(), 10*time.Second)
	if err != nil {
		return nil, "dial proxy: " + err.Error()
	}
	defer conn.Close()
	fe := pgproto3.NewFrontend(pgproto3.NewChunkReader(conn), conn)
	conn.SetDeadline(time.Now().Add(c37IO))
	fe.Send(&pgproto3.StartupMessage{ProtocolVersion: pgproto3.ProtocolVersionNumber, Parameters: map[string]string{"user": "verif"}})
	for {
		msg, err := fe.Receive()
		if err != nil {
			return nil, "startup through the proxy failed: " + err.Error()
		}
		if _, ready := msg.(*pgproto3.ReadyForQuery); ready {
			break
		}
	}
	e.up.mu.Lock()
	tee := e.up.last
	e.up.mu.Unlock()
	e.up.rec.drain()
	logs.take()
	var out []c37Obs
	seen := 0
	for qi, q := range qs {
		ans, err := c37RoundTrip(conn, fe, q.Text, strings.HasPrefix(q.Shape, "extended_parse"))
		if err != nil {
			return out, fmt.Sprintf("query %d: connection through the proxy failed: %v", qi, err)
		}
		o := c37Obs{Events: e.up.rec.drain()}
		fwd, ferr := tee.forwarded()
		if ferr != nil {
			return out, fmt.Sprintf("query %d: upstream byte stream not parseable: %v", qi, ferr)
		}
		o.Fwd = fwd[seen:]
		seen = len(fwd)
		o.Step = c37Step{Query: q.Text, Bytes: len(q.Text), Shape: q.Shape, Forwarded: len(o.Fwd) > 0, Errors: ans.Errors, Audit: strings.TrimSpace(logs.take())}
		if len(o.Step.Audit) > 400 {
			o.Step.Audit = o.Step.Audit[:400] + "…"
		}
		if len(o.Fwd) > 0 {
			var undec []string
			o.Step.Read, undec = c37TopicsRead(o.Events, ans)
			if len(undec) > 0 {
				return out, fmt.Sprintf("query %d: EXPLAIN estimate %q cannot be attributed to topics", qi, undec)
			}
			for _, rd := range o.Step.Read {
				if !acl.allows(rd.Topic) {
					o.Bad = append(o.Bad, rd)
				}
			}
			// the same question put to the upstream's parser: which existing topics does it find in the forwarded bytes
			for _, f := range o.Fwd {
				if f.Type != 'Q' {
					continue
				}
				_, named := c37UpstreamPlan(f.Text)
			nextNamed:
				for _, rd := range named {
					if c37TopicIndex(rd.Topic) < 0 {
						continue // not an existing topic: nothing can be read from it
					}
					o.Step.Parsed = append(o.Step.Parsed, rd)
					if acl.allows(rd.Topic) {
						continue
					}
					for _, b := range o.Bad {
						if b.Topic == rd.Topic {
							continue nextNamed
						}
					}
					o.Bad = append(o.Bad, rd)
				}
			}
		}
		out = append(out, o)
	}
	return out, ""
}

func c37Squeeze(q string) string { return strings.Join(strings.Fields(q), " ") }

func TestVerifC37Proxy(t *testing.T) {
	r := verifkit.Start(t, "C37", "proxy")
	defer r.Finish("real proxy (proxy.New + handleConn per accepted loopback connection, default dialer) in front of the real SQL server whose lister/decoder/resolver seams record topic accesses; sessions of 1-6 messages (single topic, joins, EXPLAIN, SHOW PARTITIONS, DESCRIBE, SHOW TOPICS, catalog, SET, extended-protocol Parse; the interesting topic placed before / across / at / beyond byte 512 by whitespace or a long column list; respellings and same-first-512-bytes siblings inside one session to meet the decision cache) x 13 ACL configurations x cache sizes (decision cache TTL one hour in every session); the upstream also holds four families of topics whose names differ only in a number set off by non-word characters (metrics-1/-2, tenant-3.audit/tenant-7.audit, region-1/-2, events.2025/.2026), four ACLs allow one member and forbid its sibling (allow list, deny list, * with deny, prefix* with deny), and under those every second session (cache size 1, 2 or 100) sends a query on the allowed member (only topic, EXPLAIN, either side of a join, SHOW PARTITIONS, DESCRIBE, with literals in its tail; sometimes repeated respelled) and then the byte-identical text with the forbidden sibling's digits. Per client message the bytes the proxy wrote to the upstream are parsed (tee): either nothing, or exactly one Query message whose text equals the client's; nothing but Query messages is ever forwarded; for a forwarded query every existing topic the upstream read (segment decoded, partitions listed, segments counted by EXPLAIN, schema column or catalog name returned) must be allowed by a reference reading of the ACL. Further n/2 sessions (2-4 messages each, now and then respelled or repeated for the decision cache) consist of texts with statement-terminator / separator / comment / quoting oddities around FROM and JOIN clauses that name allowed and forbidden topics: a separator (one or several ';' as a token of its own or glued to the token before / behind it, comment marks -- /* */ # //, other punctuation, unusual white space: CR, LF, FF, VT, NBSP, EM SPACE) between FROM <topic> [alias] and a [LEFT] JOIN clause, inside the join clause, around FROM, between two statement-like parts (SELECT / EXPLAIN / SHOW PARTITIONS / DESCRIBE / SHOW TOPICS / SET / a dangling JOIN or FROM clause / garbage, topic roles in either order), a JOIN or FROM clause enclosed in /* */, -- ... LF, ; ... ;, ( ), quotes or $$ in front of the regular clause, SHOW PARTITIONS / DESCRIBE with a separator before or behind the topic, topic names sometimes in double / single / back quotes, trailing ';', ';;', '; -- done', ';/* */'. For every forwarded Query message the monitor additionally asks the upstream's own parser (the real kafsql.Parse, called on exactly the forwarded bytes, after the upstream's catalog / SET dispatch): every existing topic it finds as FROM / JOIN / SHOW PARTITIONS / DESCRIBE topic (also under EXPLAIN) must be allowed by the reference ACL, whether or not the upstream got as far as touching storage. non-trivial = a forwarded query that made the upstream read at least one topic under an ACL that forbids some topic",
		"the accept loops of proxy.Run and server.Run are reproduced by the harness (port 0 listeners); handleConn / handleConnection are the code under test",
		"a topic that does not exist upstream (e.g. a name with a trailing ';') cannot be read and is never counted",
		"queries are ASCII: the parser crash on length-changing runes (C35) would kill the proxy process too",
		"the upstream's dispatch in front of its parser (a text containing pg_catalog / information_schema is answered from the topic list, SET / RESET are acknowledged) is mirrored by the monitor when it asks kafsql.Parse which topics the forwarded text names; what the upstream really touched is still taken from the seams",
		"classes authorized_on_text_cut_at_statement_terminator / authorized_on_text_with_comment_removed are assigned by a counterfactual: the same text with every ';' (resp. every comment mark) blanked out, sent alone under the same ACL, is denied or reads no forbidden topic",
		"violation classes that mention byte 512 are assigned by a counterfactual: the same query with its whitespace squeezed below 512 bytes, sent alone under the same ACL, is denied or reads no forbidden topic")
	if rp := verifkit.Replay(); rp != nil {
		// bin/check --replay <witness>: only the witness session is run (floors do not apply)
		if w, ok := rp["replay"].(map[string]any); ok {
			if acl, cache, qs, ok := c37Replay(w); ok {
				env := c37NewEnv(t)
				defer env.close()
				c37Judge(r, env, 0, -1, acl, cache, qs)
				return
			}
		}
	}
	if err := c37CheckSizes(); err != nil {
		t.Fatalf("harness: %v", err)
	}
	const workers = 4 // each with its own proxy listener, upstream server and recorder
	n := r.N(400, 6000)
	nSep := n / 2 // further sessions (indices n..n+nSep-1) of texts with terminator / separator / comment / quoting oddities
	var wg sync.WaitGroup
	for w := 0; w < workers; w++ {
		env := c37NewEnv(t)
		defer env.close()
		wg.Add(1)
		go func(w int, env *c37Env) {
			defer wg.Done()
			for si := w; si < n+nSep; si += workers {
				if si < n {
					c37Session(r, env, si)
				} else {
					c37SepSession(r, env, si)
				}
			}
		}(w, env)
	}
	wg.Wait()
	r.Floor("forwarded_and_read_topics", int64(n/4))
	r.Floor("denied", int64(n/8))
	r.Floor("queries_longer_than_512", int64(n/4))
	r.Floor("shapes", 30)
	r.Floor("forbidden_digit_sibling_sent_after_forwarded_allowed_member", int64(n/16))
	r.Floor("digit_sibling_shapes", 6)
	r.Floor("separator_oddity_messages", int64(nSep))
	r.Floor("separator_oddity_forwarded_and_read_topics", int64(nSep/4))
	r.Floor("separator_oddity_texts_in_which_upstream_parser_finds_forbidden_topic", int64(nSep/4))
	r.Floor("mid_text_semicolon_texts_in_which_upstream_parser_finds_forbidden_topic", int64(nSep/10))
	r.Floor("comment_mark_texts_in_which_upstream_parser_finds_forbidden_topic", int64(nSep/40))
	r.Floor("separator_kinds", 16)
	r.Floor("separator_templates", 6)
}

// c37SepSession: 2-4 texts with terminator / separator / comment / quoting
// oddities, now and then respelled or repeated (decision cache), under one ACL.
func c37SepSession(r *verifkit.Run, env *c37Env, si int) {
	rng := r.Rand(si)
	aclIdx := si % len(c37ACLs)
	acl := c37ACLs[aclIdx]
	cacheEntries := []int{0, 1, 2, 100}[rng.Intn(4)]
	var qs []c37Query
	for nq := 2 + rng.Intn(3); len(qs) < nq; {
		q := c37GenSepQuery(rng, acl)
		qs = append(qs, q)
		switch rng.Intn(8) {
		case 0:
			qs = append(qs, c37Variant(rng, q))
		case 1:
			qs = append(qs, q)
		}
	}
	c37Judge(r, env, si, aclIdx, acl, cacheEntries, qs)
}

func c37Session(r *verifkit.Run, env *c37Env, si int) {
	rng := r.Rand(si)
	aclIdx := si % len(c37ACLs)
	acl := c37ACLs[aclIdx]
	cacheEntries := []int{0, 1, 2, 100}[rng.Intn(4)]
	var qs []c37Query
	nq := 1 + rng.Intn(4)
	for len(qs) < nq {
		q := c37GenQuery(rng, acl)
		if rng.Intn(25) == 0 {
			q.Shape = "extended_parse/" + q.Shape
		}
		qs = append(qs, q)
		switch rng.Intn(4) {
		case 0:
			qs = append(qs, c37Variant(rng, q))
		case 1:
			if sw, ok := c37SwapTail(rng, q, acl); ok {
				qs = append(qs, sw)
			}
		}
	}
	if pairs := c37SplitFamilies(acl); len(pairs) > 0 && rng.Intn(2) == 0 {
		// the ACL separates members of a digit family: allowed member first, forbidden sibling second,
		// decision cache enabled (TTL is one hour in every session)
		qs = c37FamilySession(rng, acl, pairs)
		cacheEntries = []int{1, 2, 100}[rng.Intn(3)]
	}
	c37Judge(r, env, si, aclIdx, acl, cacheEntries, qs)
}

// c37Replay rebuilds the session of a witness written by this check.
func c37Replay(w map[string]any) (acl c37ACL, cache int, qs []c37Query, ok bool) {
	strs := func(v any) []string {
		var out []string
		if l, ok := v.([]any); ok {
			for _, x := range l {
				out = append(out, fmt.Sprint(x))
			}
		}
		return out
	}
	if a, ok := w["acl"].(map[string]any); ok {
		acl = c37ACL{Allow: strs(a["allow"]), Deny: strs(a["deny"])}
	}
	if c, ok := w["cache_max_entries"].(float64); ok {
		cache = int(c)
	}
	if l, ok := w["session"].([]any); ok {
		for _, x := range l {
			if st, ok := x.(map[string]any); ok {
				qs = append(qs, c37Query{Text: fmt.Sprint(st["query"]), Shape: fmt.Sprint(st["shape"])})
			}
		}
	}
	return acl, cache, qs, len(qs) > 0
}

func c37Judge(r *verifkit.Run, env *c37Env, si, aclIdx int, acl c37ACL, cacheEntries int, qs []c37Query) {
	{
		obs, problem := env.session(acl, cacheEntries, qs)
		if problem != "" {
			r.Inconclusive(fmt.Sprintf("session %d: %s", si, problem))
		}
		restrictive := len(acl.Allow)+len(acl.Deny) > 0 && !(len(acl.Deny) == 0 && c37Match(acl.Allow, "\x00any"))
		for qi, o := range obs {
			q := qs[qi]
			replay := func() map[string]any {
				var all []c37Step
				for i := 0; i <= qi; i++ {
					st := obs[i].Step
					if i < qi {
						st.Audit = ""
					}
					all = append(all, st)
				}
				return map[string]any{"acl": acl, "cache_max_entries": cacheEntries, "session": all, "query_index": qi}
			}
			r.Count("messages", 1)
			r.Seen("shapes", q.Shape)
			if len(strings.TrimSpace(q.Text)) > 512 {
				r.Count("queries_longer_than_512", 1)
			}
			if strings.HasPrefix(q.Shape, "family/") && strings.Contains(q.Shape, "/forbidden_sibling") && cacheEntries > 0 {
				// did the session really get the allowed member through (and so into the cache) before?
				for qj := 0; qj < qi; qj++ {
					if strings.Contains(qs[qj].Shape, "/allowed_member") && obs[qj].Step.Forwarded && len(obs[qj].Bad) == 0 {
						r.Count("forbidden_digit_sibling_sent_after_forwarded_allowed_member", 1)
						r.Seen("digit_sibling_shapes", strings.SplitN(q.Shape, "/", 3)[1])
						if len(o.Fwd) == 0 {
							r.Count("forbidden_digit_sibling_denied", 1)
						}
						break
					}
				}
			}
			isSep := strings.HasPrefix(q.Shape, "sep/")
			if isSep {
				r.Count("separator_oddity_messages", 1)
				r.Seen("separator_kinds", strings.SplitN(q.Shape[strings.LastIndexByte(q.Shape, '/')+1:], "+", 2)[0])
				r.Seen("separator_templates", strings.SplitN(q.Shape, "/", 3)[1])
				// would the upstream's parser find a forbidden existing topic in this text, if it got it?
				_, named := c37UpstreamPlan(q.Text)
				for _, rd := range named {
					if c37TopicIndex(rd.Topic) >= 0 && !acl.allows(rd.Topic) {
						r.Count("separator_oddity_texts_in_which_upstream_parser_finds_forbidden_topic", 1)
						if c37MidTextSemicolon(q.Text) {
							r.Count("mid_text_semicolon_texts_in_which_upstream_parser_finds_forbidden_topic", 1)
						}
						if c37HasCommentMark(q.Text) {
							r.Count("comment_mark_texts_in_which_upstream_parser_finds_forbidden_topic", 1)
						}
						break
					}
				}
				if len(o.Fwd) > 0 && len(o.Step.Read) > 0 {
					r.Count("separator_oddity_forwarded_and_read_topics", 1)
				}
			}
			isParse := strings.HasPrefix(q.Shape, "extended_parse")
			var queries []c37Fwd
			for _, f := range o.Fwd {
				if f.Type == 'Q' {
					queries = append(queries, f)
				} else {
					r.Violation("non_query_message_forwarded", fmt.Sprintf("a %q message reached the upstream (text %q)", f.Type, c37Clip(f.Text)), replay())
				}
			}
			switch {
			case isParse && len(o.Fwd) > 0:
				// reported above or below
			case len(queries) > 1:
				r.Violation("query_forwarded_more_than_once", fmt.Sprintf("one client query reached the upstream %d times", len(queries)), replay())
			case len(queries) == 1 && queries[0].Text != q.Text:
				r.Violation("forwarded_text_differs_from_client_text", fmt.Sprintf("client sent %q, upstream received %q", c37Clip(q.Text), c37Clip(queries[0].Text)), replay())
			}
			if isParse {
				r.Count("extended_protocol_messages", 1)
			}
			if len(o.Fwd) == 0 {
				r.Count("denied", 1)
				if len(o.Events) > 0 {
					r.Violation("upstream_activity_without_forwarded_query", fmt.Sprintf("upstream storage was touched (%v) although nothing was forwarded", o.Events), replay())
				}
				r.Case(verifkit.Hash(aclIdx, q.Shape[:1], q.Text), false)
				continue
			}
			r.Count("forwarded", 1)
			if len(o.Step.Read) > 0 {
				r.Count("forwarded_and_read_topics", 1)
			}
			if len(o.Bad) > 0 {
				cls := c37Class(q.Text, o.Bad)
				if qi > 0 && cls != "catalog_query_discloses_unauthorized_topics" {
					// is it the session's history (decision cache)? the identical text, alone in a new session
					cf, problem := env.session(acl, 0, []c37Query{{Text: q.Text, Shape: "counterfactual"}})
					if problem != "" || len(cf) != 1 {
						r.Inconclusive(fmt.Sprintf("session %d: counterfactual session failed: %s", si, problem))
					} else if len(cf[0].Fwd) == 0 || len(cf[0].Bad) == 0 {
						cls = "cached_decision_reused_for_different_query"
					}
				}
				if strings.Contains(cls, "byte_512") {
					// does the length matter? the same statement, whitespace squeezed, alone in a new session
					if sq := c37Squeeze(q.Text); len(sq) <= 512 {
						cf, problem := env.session(acl, 0, []c37Query{{Text: sq, Shape: "counterfactual"}})
						if problem != "" || len(cf) != 1 {
							r.Inconclusive(fmt.Sprintf("session %d: counterfactual session failed: %s", si, problem))
						} else if len(cf[0].Bad) > 0 {
							cls = "unauthorized_topic_read"
						}
					}
				}
				if cls == "unauthorized_topic_read" {
					// do statement terminators / comment marks in the text matter? the same text with those
					// characters blanked out (same length, same offsets), alone in a new session
					try := func(text, class string) {
						if cls != "unauthorized_topic_read" || text == q.Text {
							return
						}
						cf, problem := env.session(acl, 0, []c37Query{{Text: text, Shape: "counterfactual"}})
						if problem != "" || len(cf) != 1 {
							r.Inconclusive(fmt.Sprintf("session %d: counterfactual session failed: %s", si, problem))
						} else if len(cf[0].Fwd) == 0 || len(cf[0].Bad) == 0 {
							cls = class
						}
					}
					if c37MidTextSemicolon(q.Text) {
						try(c37BlankOut(q.Text, ";"), "authorized_on_text_cut_at_statement_terminator")
					}
					if c37HasCommentMark(q.Text) {
						try(c37BlankOut(q.Text, c37CommentMarks...), "authorized_on_text_with_comment_removed")
					}
				}
				r.Violation(cls, fmt.Sprintf("ACL %+v: forwarded query (%d bytes, %s) made the upstream read %v; query=%q", acl, len(q.Text), q.Shape, o.Bad, c37Clip(q.Text)), replay())
				r.Count("forwarded_reading_forbidden_topic", 1)
			}
			r.Case(verifkit.Hash(aclIdx, q.Text), restrictive && len(o.Step.Read) > 0)
			if si < 2 && qi == 0 {
				r.Sample(map[string]any{"acl": acl, "step": o.Step})
			}
		}
	}
}
