//go:build verif

package server

import (
	"context"
	"log"
	"net"

	"github.com/kafscale/platform/addons/processors/sql-processor/internal/config"
	"github.com/kafscale/platform/addons/processors/sql-processor/internal/decoder"
	"github.com/kafscale/platform/addons/processors/sql-processor/internal/discovery"
	"github.com/kafscale/platform/addons/processors/sql-processor/internal/metadata"
)

// NewVerifC37 builds the real SQL server with its three storage seams (segment
// lister, segment decoder, metadata resolver) supplied by the C37 monitor, so
// that the monitor sees which topics a query makes the server read. Everything
// between the wire and those seams is the unchanged server code.
// (Overlay-only file of /verif/harness/C37; not part of /repo.)
func NewVerifC37(cfg config.Config, logger *log.Logger, l discovery.Lister, d decoder.Decoder, r metadata.Resolver) *Server {
	s := New(cfg, logger)
	s.lister, s.listerInit = l, true
	s.decoder, s.decoderInit = d, true
	s.resolver, s.resolverInit = r, true
	return s
}

// VerifC37ServeConn serves one accepted connection exactly as Run does.
func (s *Server) VerifC37ServeConn(ctx context.Context, conn net.Conn) {
	s.handleConnection(ctx, conn)
}
