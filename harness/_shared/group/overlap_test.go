//go:build verif

// Overlap mode of the GROUP driver: two requests in flight at once.
//
// The sequential driver sends one request and waits for the coordinator to be
// idle. Defects of the kind "a request gives up the coordinator's lock while it
// waits for the metadata store and continues with what it knew before" need a
// SECOND request to execute while the first one is inside its store call. An
// "ovl" op does that: the recording store decorator parks one chosen store call
// (by kind and ordinal, before or after the real store executed it) of request
// A, request B is then started, and A is released when B has returned or is
// known / found to be waiting for A.
//
// Soundness rules (a false alarm is the worst outcome):
//   - the coordinator under test may well hold its lock across store calls (the
//     unchanged one does). Then B can only run after A: the harness probes the
//     coordinator's mutex fields with TryLock while A is parked and, if one is
//     held, simply runs A to completion and B afterwards (an ordinary sequential
//     history). No waiting, nothing new to judge.
//   - if no lock is held (or the probe finds no mutex field), B is started. A
//     goroutine waiting for a sync.Mutex is not durably blocked for synctest, so
//     B is awaited under a REAL-time bound taken from a timer outside the bubble.
//     The bound is a scheduling aid only: if B returns in time it ran entirely
//     inside A's store call; if not, A is released, both finish in an order the
//     harness does not know, nothing is judged and the rest of the case is cut.
//   - events of an overlapped pair are shown to the observers only after both
//     requests have returned (client bookkeeping of both replies is complete),
//     carry EVERY boundary snapshot taken during A's interval (gEvent.Cands) and
//     the observers object to an overlapped reply only if it is wrong with
//     respect to all of them (see the oracles in harness/C12, C13, C14).
//
// Everything after the pair is an ordinary sequential history again, judged as
// before: that is where an assignment installed into the wrong generation, or
// a group left in a state nobody can complete, becomes visible.

package broker

import (
	"fmt"
	"math/rand"
	"reflect"
	"sync"
	"testing/synctest"
	"time"
	"unsafe"
)

// gParkSpec selects the store call of request A that is parked.
type gParkSpec struct {
	Kind  string `json:"kind,omitempty"`  // "" any | metadata | put | delete | commit | fetchgroup | fetchoffset
	Ord   int    `json:"ord,omitempty"`   // the Ord-th matching call after arming
	After bool   `json:"after,omitempty"` // park after the real store executed the call (a write has landed), else before
}

func (p gParkSpec) String() string {
	k := p.Kind
	if k == "" {
		k = "any"
	}
	pos := "before"
	if p.After {
		pos = "after"
	}
	return fmt.Sprintf("%s#%d/%s", k, p.Ord, pos)
}

type gPark struct {
	spec    gParkSpec
	seen    int
	fired   bool
	isPark  bool
	kind    string
	parked  chan struct{}
	release chan struct{}
}

// arm installs a one-shot park point; channels are made by the caller's goroutine (inside the bubble).
func (s *gRecStore) arm(spec gParkSpec) *gPark {
	p := &gPark{spec: spec, parked: make(chan struct{}), release: make(chan struct{})}
	s.mu.Lock()
	s.park = p
	s.mu.Unlock()
	return p
}

func (s *gRecStore) disarm() { s.mu.Lock(); s.park = nil; s.mu.Unlock() }

// hit is called by every store method that can be parked; it returns the park point iff this call is the chosen one.
func (s *gRecStore) hit(kind string) *gPark {
	s.mu.Lock()
	defer s.mu.Unlock()
	p := s.park
	if p == nil || p.fired || (p.spec.Kind != "" && p.spec.Kind != kind) {
		return nil
	}
	if p.seen < p.spec.Ord {
		p.seen++
		return nil
	}
	p.fired, p.kind = true, kind
	return p
}

func (p *gPark) before() {
	if p != nil && !p.spec.After {
		p.wait()
	}
}

func (p *gPark) after() {
	if p != nil && p.spec.After {
		p.wait()
	}
}

func (p *gPark) wait() {
	close(p.parked)
	<-p.release
}

func (p *gPark) isParked() bool {
	select {
	case <-p.parked:
		return true
	default:
		return false
	}
}

// ---------------------------------------------------------------------------
// real-time bound from outside the bubble

var (
	gTimerOnce sync.Once
	gTimerReq  chan time.Duration
	gTimerResp chan (<-chan struct{})
)

// gRealTimerStart must be called OUTSIDE any synctest bubble (from the Test function) before overlap cases run.
func gRealTimerStart() {
	gTimerOnce.Do(func() {
		gTimerReq = make(chan time.Duration)
		gTimerResp = make(chan (<-chan struct{}))
		go func() {
			for d := range gTimerReq {
				ch := make(chan struct{})
				time.AfterFunc(d, func() { close(ch) })
				gTimerResp <- ch
			}
		}()
	})
}

// gRealAfter returns a channel (not owned by the bubble) that is closed after d of REAL time.
func gRealAfter(d time.Duration) <-chan struct{} {
	if gTimerReq == nil {
		panic("overlap mode: gRealTimerStart was not called outside the bubble")
	}
	gTimerReq <- d
	return <-gTimerResp
}

// gLocksFree probes every mutex-like field of the coordinator struct (anything whose pointer has
// TryLock/Unlock). known = at least one such field exists; free = all of them could be taken right now.
func gLocksFree(c *GroupCoordinator) (free, known bool) {
	type tryLocker interface {
		TryLock() bool
		Unlock()
	}
	v := reflect.ValueOf(c).Elem()
	free = true
	for i := 0; i < v.NumField(); i++ {
		f := v.Field(i)
		if f.Kind() != reflect.Struct || !f.CanAddr() {
			continue
		}
		l, ok := reflect.NewAt(f.Type(), unsafe.Pointer(f.UnsafeAddr())).Interface().(tryLocker)
		if !ok {
			continue
		}
		known = true
		if l.TryLock() {
			l.Unlock()
		} else {
			free = false
		}
	}
	return free && known, known
}

// ---------------------------------------------------------------------------

type gOvlStats struct {
	Attempts     int            // ovl ops executed
	NotParked    int            // A returned without making the chosen store call: plain sequential A;B
	LockHeld     int            // A parked while the coordinator held a lock: plain sequential A;B
	Inside       int            // B ran to completion while A was parked
	InsideByPark map[string]int // ... by kind of the parked store call
	Unordered    int            // B did not return within the bound: nothing judged, case cut
	InsideKinds  map[string]int // "<A kind>@<store call>|<B kind>"
}

const (
	gBoundLockFree    = 2 * time.Second       // the probe said no lock is held: B is expected to return at once
	gBoundLockUnknown = 20 * time.Millisecond // no mutex field found: give B a short window
)

// overlap executes an "ovl" op.
func (w *gWorld) overlap(op gOp) {
	if op.A == nil || op.B == nil || op.Park == nil {
		return
	}
	if !w.virtual {
		panic("overlap mode runs inside a synctest bubble")
	}
	a, b := *op.A, *op.B
	a.Slot = w.slotOf(a)
	a.Who = ""
	if b.K != "advance" {
		b.Slot = w.slotOf(b)
		b.Who = ""
		if b.Slot == a.Slot { // two different clients
			b.Slot = (b.Slot + 1) % len(w.slots)
		}
		if b.Slot == a.Slot {
			w.step(a)
			return
		}
	}
	w.ovl.Attempts++
	w.pairs++
	t0 := w.prev
	w.pendOffs = []int64{}
	w.prevJoin = map[string]int32{}
	defer func() { w.pendOffs, w.prevJoin = nil, nil }()

	pa, ok := w.prep(a)
	if !ok {
		return
	}
	park := w.rec.arm(*op.Park)
	doneA := make(chan struct{})
	go func() {
		defer close(doneA)
		pa.run()
	}()
	synctest.Wait() // nobody else is in flight: A has returned or sits in the park point
	isDone := func(ch chan struct{}) bool {
		select {
		case <-ch:
			return true
		default:
			return false
		}
	}
	if isDone(doneA) {
		w.rec.disarm()
		w.ovl.NotParked++
		w.emit(pa.fin())
		w.step(b)
		return
	}
	if !park.isParked() {
		w.blocked = true
		return
	}
	t1 := w.truth()
	free, known := gLocksFree(w.coord)
	finishA := func() bool {
		close(park.release)
		synctest.Wait()
		w.rec.disarm()
		if !isDone(doneA) {
			w.blocked = true
			return false
		}
		return true
	}
	if known && !free {
		// the coordinator holds a lock across this store call: whatever is sent now waits for A. A;B.
		w.ovl.LockHeld++
		if finishA() {
			w.emit(pa.fin())
			w.step(b)
		}
		return
	}
	if b.K == "advance" && !known {
		// the cleanup loop might wait for A on a mutex the probe cannot see: time must not be advanced
		if finishA() {
			w.emit(pa.fin())
		}
		return
	}
	// B runs while A is parked
	w.prev = t1
	w.hold, w.inPair, w.stuck = true, true, false
	w.pairBound = gBoundLockUnknown
	if known {
		w.pairBound = gBoundLockFree
	}
	w.step(b)
	w.hold, w.inPair = false, false
	held := w.held
	w.held = nil
	if w.stuck {
		// B is (probably) waiting for A: release A, let both finish; their order is not known to the harness
		w.ovl.Unordered++
		w.cut = true
		finishA()
		return
	}
	if !finishA() {
		return
	}
	evA := pa.fin()
	evA.At = w.now()
	evA.AtMs = int64(evA.At / time.Millisecond)
	t3 := w.truth()
	evA.Before, evA.After = t0, t3
	w.prev = t3
	w.ovl.Inside++
	if w.ovl.InsideByPark == nil {
		w.ovl.InsideByPark, w.ovl.InsideKinds = map[string]int{}, map[string]int{}
	}
	w.ovl.InsideByPark[park.kind]++
	w.ovl.InsideKinds[fmt.Sprintf("%s@%s|%s", a.K, park.kind, b.K)]++

	cands := []gTruth{t0, t1}
	for _, e := range held {
		cands = append(cands, e.After)
	}
	cands = append(cands, t3)
	// distinct snapshots only
	var uniq []gTruth
	for _, c := range cands {
		dup := false
		for _, u := range uniq {
			if gTruthEqual(u, c) {
				dup = true
				break
			}
		}
		if !dup {
			uniq = append(uniq, c)
		}
	}
	prevJoin := w.prevJoin
	mark := func(e *gEvent, role string) {
		e.Ovl, e.Pair, e.Cands, e.PrevJoin = role, w.pairs, uniq, prevJoin
	}
	mark(evA, "A")
	evA.Park = fmt.Sprintf("%s/%s", park.kind, map[bool]string{false: "before", true: "after"}[op.Park.After])
	for _, e := range held {
		mark(e, "B")
	}
	// order of presentation = order in which the two requests' store WRITES landed (parked before the real
	// store executed A's call: B's writes first)
	if op.Park.After {
		w.publish(evA)
	}
	for _, e := range held {
		w.publish(e)
	}
	if !op.Park.After {
		w.publish(evA)
	}
}

// ---------------------------------------------------------------------------
// generation of overlap cases

type gOvlProfile struct {
	PStale float64 // probability that an hb/sync/commit in a pair (and in the tail) uses a foreign/stale identity
	WA     map[string]int // weights of A kinds: syncleader sync join joinresub joinfresh hb commit leave
	WB     map[string]int // weights of B kinds: leave joinfresh joinresub join hb commit sync expire
	Grow   bool           // partitions may be added between pairs
}

var gDefaultOvlProfile = gOvlProfile{
	PStale: 0.1,
	WA:     map[string]int{"syncleader": 6, "sync": 2, "join": 5, "joinresub": 2, "joinfresh": 2, "hb": 2, "commit": 3, "leave": 1},
	WB:     map[string]int{"leave": 5, "joinfresh": 3, "joinresub": 3, "join": 2, "hb": 2, "commit": 3, "sync": 2, "expire": 1},
}

var gOvlAKinds = []string{"syncleader", "sync", "join", "joinresub", "joinfresh", "hb", "commit", "leave"}
var gOvlBKinds = []string{"leave", "joinfresh", "joinresub", "join", "hb", "commit", "sync", "expire"}

func gPickWeighted(rng *rand.Rand, kinds []string, w map[string]int) string {
	total := 0
	for _, k := range kinds {
		total += w[k]
	}
	x := rng.Intn(total)
	for _, k := range kinds {
		if x < w[k] {
			return k
		}
		x -= w[k]
	}
	return kinds[0]
}

// parks that make sense for a request kind (the store calls such a request makes), plus "any"
var gOvlParks = map[string][]string{
	"join":   {"put", "put", "fetchgroup", "", "", ""},
	"sync":   {"metadata", "metadata", "put", "", "", ""},
	"hb":     {"put", "", ""},
	"leave":  {"put", "delete", "", "", ""},
	"commit": {"commit", "", ""},
}

// gGenOverlapCase draws one overlap scenario: 2-4 clients form a group, then a few rounds of
// [bring the group into some phase; one overlapped pair; well-behaved or random follow-up], then
// settle rounds so that what the pair left behind is exercised by ordinary requests.
func gGenOverlapCase(rng *rand.Rand, p gOvlProfile, group string) (gConfig, []gOp) {
	base := gDefaultProfile
	base.Ghost = 0.1
	cfg := gGenConfig(rng, base, group)
	cfg.M = 2 + rng.Intn(3)
	for len(cfg.SessionMs) < cfg.M {
		cfg.SessionMs = append(cfg.SessionMs, base.Sessions[rng.Intn(len(base.Sessions))])
		cfg.RebalMs = append(cfg.RebalMs, cfg.RebalMs[0])
	}
	cfg.SessionMs, cfg.RebalMs = cfg.SessionMs[:cfg.M], cfg.RebalMs[:cfg.M]
	maxS := int64(0)
	for _, s := range cfg.SessionMs {
		if s > maxS {
			maxS = s
		}
	}
	var ops []gOp
	ident := func(op *gOp) {
		if rng.Float64() < p.PStale {
			op.Ident = gIdentModes[rng.Intn(len(gIdentModes))]
			op.Pick = rng.Intn(64)
		}
	}
	request := func(kind string) gOp {
		op := gOp{Slot: rng.Intn(cfg.M)}
		switch kind {
		case "syncleader":
			op.K, op.Who = "sync", "leader"
		case "sync":
			op.K = "sync"
			ident(&op)
		case "join":
			op.K = "join"
		case "joinresub":
			op.K, op.Sub = "join", gRandSub(rng, cfg.Universe)
		case "joinfresh":
			op.K, op.Fresh, op.Sub = "join", true, gRandSub(rng, cfg.Universe)
		case "hb":
			op.K = "hb"
			ident(&op)
		case "commit":
			op.K, op.Topic, op.Part = "commit", cfg.Universe[rng.Intn(len(cfg.Universe))], int32(rng.Intn(5))
			ident(&op)
		case "leave":
			op.K = "leave"
		case "expire":
			op.K, op.DtMs = "advance", maxS+cfg.CleanupMs+rng.Int63n(1000)
		}
		return op
	}
	// the group forms
	first := 2 + rng.Intn(cfg.M-1)
	for i := 0; i < first; i++ {
		ops = append(ops, gOp{K: "join", Slot: i, Sub: gRandSub(rng, cfg.Universe)})
	}
	phase := func() {
		switch rng.Intn(6) {
		case 0: // as it is
		case 1, 2: // everybody polls: the rebalance completes, the leader has not synced yet
			ops = append(ops, gOp{K: "joinall"})
		case 3: // stable
			ops = append(ops, gOp{K: "settle"})
		case 4: // stable, then somebody disturbs it and everybody polls again
			ops = append(ops, gOp{K: "settle"}, request([]string{"leave", "joinfresh", "joinresub"}[rng.Intn(3)]), gOp{K: "joinall"})
		case 5: // stable, disturbed, only some have re-joined
			ops = append(ops, gOp{K: "settle"}, request([]string{"leave", "joinfresh", "joinresub"}[rng.Intn(3)]))
			for i := 0; i < cfg.M; i++ {
				if rng.Intn(2) == 0 {
					ops = append(ops, gOp{K: "hbr", Slot: i})
				}
			}
		}
	}
	rounds := 1 + rng.Intn(3)
	for r := 0; r < rounds; r++ {
		phase()
		a := request(gPickWeighted(rng, gOvlAKinds, p.WA))
		b := request(gPickWeighted(rng, gOvlBKinds, p.WB))
		parks := gOvlParks[a.K]
		park := gParkSpec{Kind: parks[rng.Intn(len(parks))], After: rng.Intn(2) == 0}
		if (park.Kind == "" && rng.Intn(3) == 0) || rng.Intn(10) == 0 {
			park.Ord = 1 // e.g. the group record write that follows the leader sync's Metadata lookup
		}
		if park.Kind == "metadata" || park.Kind == "fetchgroup" {
			park.After = rng.Intn(4) == 0
		}
		ops = append(ops, gOp{K: "ovl", A: &a, B: &b, Park: &park})
		switch rng.Intn(5) {
		case 0, 1:
			ops = append(ops, gOp{K: "settle"})
		case 2:
			ops = append(ops, gOp{K: "joinall"}, gOp{K: "settle"})
		case 3:
			for i := 0; i < cfg.M; i++ {
				ops = append(ops, gOp{K: "hbr", Slot: i})
			}
		case 4:
			sp := gDefaultProfile
			sp.MinOps, sp.MaxOps, sp.PStale = 2, 6, p.PStale
			ops = append(ops, gGenOps(rng, sp, cfg)...)
		}
		if p.Grow && rng.Intn(6) == 0 {
			ops = append(ops, gOp{K: "grow", Topic: cfg.Universe[rng.Intn(len(cfg.Universe))], Part: int32(1 + rng.Intn(2))})
		}
	}
	// what the pairs left behind, exercised by well-behaved clients
	ops = append(ops, gOp{K: "settle"})
	for i := 0; i < cfg.M; i++ {
		switch rng.Intn(3) {
		case 0:
			ops = append(ops, request("hb"))
		case 1:
			ops = append(ops, request("commit"))
		}
	}
	ops = append(ops, gOp{K: "settle"})
	return cfg, ops
}

// gOvlAccount adds the overlap statistics of a finished world to counters via count.
func gOvlAccount(w *gWorld, count func(name string, n int64), seen func(set, member string)) {
	o := w.ovl
	count("overlap_pairs_attempted", int64(o.Attempts))
	count("overlap_a_made_no_such_store_call", int64(o.NotParked))
	count("overlap_a_parked", int64(o.LockHeld+o.Inside+o.Unordered))
	count("overlap_coordinator_lock_held_across_store_call_b_ran_after_a", int64(o.LockHeld))
	count("overlap_b_ran_inside_a_store_call", int64(o.Inside))
	count("overlap_order_unknown_case_cut", int64(o.Unordered))
	for k, n := range o.InsideByPark {
		count("overlap_b_ran_inside_"+k, int64(n))
	}
	for k := range o.InsideKinds {
		seen("overlapped_pairs", k)
	}
}
