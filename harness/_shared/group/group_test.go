//go:build verif

//go:debug randseednop=0

// Shared consumer-group scenario driver ("GROUP") for C12, C13, C14, C15, C43.
//
// It runs the real GroupCoordinator over the real InMemoryStore (or EtcdStore)
// wrapped by a recording decorator, inside a testing/synctest bubble on virtual
// time, and feeds every request/response plus a boundary snapshot ("truth":
// the group's record as stored + DescribeGroups) to property-specific observers.
// Nothing in here judges a property; the oracles live in harness/<ID>/.
//
// Ground truth about membership is read at the boundary (the record the
// coordinator persisted / DescribeGroups), never from coordinator internals.
// Member ids are opaque: the driver only remembers what a reply told it.

package broker

import (
	"context"
	"encoding/json"
	"fmt"
	"math/rand"
	"sort"
	"strings"
	"sync"
	"testing"
	"testing/synctest"
	"time"

	"github.com/twmb/franz-go/pkg/kmsg"
	"google.golang.org/protobuf/proto"

	metadatapb "github.com/KafScale/platform/pkg/gen/metadata"
	"github.com/KafScale/platform/pkg/metadata"
	"github.com/KafScale/platform/pkg/protocol"
)

// ---------------------------------------------------------------------------
// recording store decorator

type gMut struct {
	Kind      string // commit | put | delete
	Group     string
	Topic     string
	Partition int32
	Offset    int64
	Put       *metadatapb.ConsumerGroup
}

// gRecStore forwards to the real store, records every mutation the coordinator
// makes (so "changed no committed offset" is observable as "made no call") and
// optionally tees group/offset mutations into shadow stores (used by C15 to
// keep an identical copy for the no-failover twin).
type gRecStore struct {
	mu      sync.Mutex
	in      metadata.Store
	muts    []gMut
	commits int
	puts    int
	lastPut map[string]*metadatapb.ConsumerGroup // last record written per group (nil = deleted)
	tees    []metadata.Store
	errs    int // errors returned by the real store to the coordinator (etcd hiccups make a case inconclusive)
	park    *gPark // overlap mode: the one store call (of the request in flight) that is held until released
}

func newGRecStore(inner metadata.Store, tees ...metadata.Store) *gRecStore {
	return &gRecStore{in: inner, lastPut: map[string]*metadatapb.ConsumerGroup{}, tees: tees}
}

// inner is the real store currently behind the decorator.
func (s *gRecStore) inner() metadata.Store { s.mu.Lock(); defer s.mu.Unlock(); return s.in }

// retarget points the decorator at another store and drops the tees (C15: the
// never-failed-over twin moves to its shadow copy).
func (s *gRecStore) retarget(to metadata.Store) { s.mu.Lock(); s.in, s.tees = to, nil; s.mu.Unlock() }

func (s *gRecStore) noteErr(err error) {
	if err != nil {
		s.mu.Lock()
		s.errs++
		s.mu.Unlock()
	}
}

func (s *gRecStore) errors() int { s.mu.Lock(); defer s.mu.Unlock(); return s.errs }

func (s *gRecStore) Metadata(ctx context.Context, topics []string) (*metadata.ClusterMetadata, error) {
	p := s.hit("metadata")
	p.before()
	m, err := s.inner().Metadata(ctx, topics)
	p.after()
	return m, err
}
func (s *gRecStore) NextOffset(ctx context.Context, topic string, partition int32) (int64, error) {
	return s.inner().NextOffset(ctx, topic, partition)
}
func (s *gRecStore) UpdateOffsets(ctx context.Context, topic string, partition int32, lastOffset int64) error {
	return s.inner().UpdateOffsets(ctx, topic, partition, lastOffset)
}
func (s *gRecStore) ListConsumerOffsets(ctx context.Context) ([]metadata.ConsumerOffset, error) {
	return s.inner().ListConsumerOffsets(ctx)
}
func (s *gRecStore) ListConsumerGroups(ctx context.Context) ([]*metadatapb.ConsumerGroup, error) {
	return s.inner().ListConsumerGroups(ctx)
}
func (s *gRecStore) FetchTopicConfig(ctx context.Context, topic string) (*metadatapb.TopicConfig, error) {
	return s.inner().FetchTopicConfig(ctx, topic)
}
func (s *gRecStore) UpdateTopicConfig(ctx context.Context, cfg *metadatapb.TopicConfig) error {
	return s.inner().UpdateTopicConfig(ctx, cfg)
}
func (s *gRecStore) CreatePartitions(ctx context.Context, topic string, partitionCount int32) error {
	return s.inner().CreatePartitions(ctx, topic, partitionCount)
}
func (s *gRecStore) CreateTopic(ctx context.Context, spec metadata.TopicSpec) (*protocol.MetadataTopic, error) {
	return s.inner().CreateTopic(ctx, spec)
}
func (s *gRecStore) DeleteTopic(ctx context.Context, name string) error {
	return s.inner().DeleteTopic(ctx, name)
}

func (s *gRecStore) FetchConsumerGroup(ctx context.Context, groupID string) (*metadatapb.ConsumerGroup, error) {
	p := s.hit("fetchgroup")
	p.before()
	g, err := s.inner().FetchConsumerGroup(ctx, groupID)
	s.noteErr(err)
	p.after()
	return g, err
}

func (s *gRecStore) FetchConsumerOffset(ctx context.Context, group, topic string, partition int32) (int64, string, error) {
	p := s.hit("fetchoffset")
	p.before()
	o, m, err := s.inner().FetchConsumerOffset(ctx, group, topic, partition)
	s.noteErr(err)
	p.after()
	return o, m, err
}

func (s *gRecStore) CommitConsumerOffset(ctx context.Context, group, topic string, partition int32, offset int64, meta string) error {
	s.mu.Lock()
	s.commits++
	s.muts = append(s.muts, gMut{Kind: "commit", Group: group, Topic: topic, Partition: partition, Offset: offset})
	in, tees := s.in, s.tees
	s.mu.Unlock()
	p := s.hit("commit")
	p.before()
	err := in.CommitConsumerOffset(ctx, group, topic, partition, offset, meta)
	s.noteErr(err)
	if err == nil {
		for _, t := range tees {
			_ = t.CommitConsumerOffset(ctx, group, topic, partition, offset, meta)
		}
	}
	p.after()
	return err
}

func (s *gRecStore) PutConsumerGroup(ctx context.Context, group *metadatapb.ConsumerGroup) error {
	cp := proto.Clone(group).(*metadatapb.ConsumerGroup)
	s.mu.Lock()
	s.puts++
	s.muts = append(s.muts, gMut{Kind: "put", Group: group.GetGroupId(), Put: cp})
	s.lastPut[group.GetGroupId()] = cp
	in, tees := s.in, s.tees
	s.mu.Unlock()
	p := s.hit("put")
	p.before()
	err := in.PutConsumerGroup(ctx, group)
	s.noteErr(err)
	if err == nil {
		for _, t := range tees {
			_ = t.PutConsumerGroup(ctx, proto.Clone(group).(*metadatapb.ConsumerGroup))
		}
	}
	p.after()
	return err
}

func (s *gRecStore) DeleteConsumerGroup(ctx context.Context, groupID string) error {
	s.mu.Lock()
	s.muts = append(s.muts, gMut{Kind: "delete", Group: groupID})
	s.lastPut[groupID] = nil
	in, tees := s.in, s.tees
	s.mu.Unlock()
	p := s.hit("delete")
	p.before()
	err := in.DeleteConsumerGroup(ctx, groupID)
	s.noteErr(err)
	if err == nil {
		for _, t := range tees {
			_ = t.DeleteConsumerGroup(ctx, groupID)
		}
	}
	p.after()
	return err
}

var _ metadata.Store = (*gRecStore)(nil)

func (s *gRecStore) commitCalls() int { s.mu.Lock(); defer s.mu.Unlock(); return s.commits }

func (s *gRecStore) mutCount() int { s.mu.Lock(); defer s.mu.Unlock(); return len(s.muts) }

// commitCallsSince counts the CommitConsumerOffset calls recorded after position mark, leaving out those
// that carry one of the offsets in others (unique offsets of other commits in flight) other than own.
func (s *gRecStore) commitCallsSince(mark int, own int64, others []int64) int {
	s.mu.Lock()
	defer s.mu.Unlock()
	n := 0
	for _, m := range s.muts[mark:] {
		if m.Kind != "commit" {
			continue
		}
		foreign := false
		for _, o := range others {
			if o != own && o == m.Offset {
				foreign = true
			}
		}
		if !foreign {
			n++
		}
	}
	return n
}

func (s *gRecStore) lastWritten(group string) *metadatapb.ConsumerGroup {
	s.mu.Lock()
	defer s.mu.Unlock()
	return s.lastPut[group]
}

// ---------------------------------------------------------------------------
// scenario description

type gConfig struct {
	Group     string         `json:"group"`
	Topics    map[string]int `json:"topics"`   // topics that exist in the store -> partitions
	Universe  []string       `json:"universe"` // names members may subscribe to (may include a topic absent from the store)
	M         int            `json:"members"`
	SessionMs []int64        `json:"session_ms"`   // per slot
	RebalMs   []int64        `json:"rebalance_ms"` // per slot
	CleanupMs int64          `json:"cleanup_ms"`
}

func (c gConfig) metadata() metadata.ClusterMetadata {
	names := make([]string, 0, len(c.Topics))
	for n := range c.Topics {
		names = append(names, n)
	}
	sort.Strings(names)
	var topics []protocol.MetadataTopic
	for _, n := range names {
		name := n
		mt := protocol.MetadataTopic{Topic: &name}
		for p := 0; p < c.Topics[n]; p++ {
			mt.Partitions = append(mt.Partitions, protocol.MetadataPartition{Partition: int32(p), Leader: 1, Replicas: []int32{1}, ISR: []int32{1}})
		}
		topics = append(topics, mt)
	}
	return metadata.ClusterMetadata{
		Brokers: []protocol.MetadataBroker{{NodeID: 1, Host: "127.0.0.1", Port: 9092}},
		Topics:  topics,
	}
}

// gOp is one abstract client action; every random parameter is drawn when the
// list is generated, the concrete request is derived from what the acting
// member was last told.
type gOp struct {
	K     string   `json:"k"`               // join sync hb hbr leave commit fetch advance settle failover grow joinall ovl
	Slot  int      `json:"m"`               // acting member slot
	Sub   []string `json:"sub,omitempty"`   // join: subscription to send (nil = keep previous)
	Fresh bool     `json:"fresh,omitempty"` // join: send an empty member id although one is known
	Ident string   `json:"id,omitempty"`    // hb/sync/commit: "" own | stale | other | unknown | future | past | noid | foreign
	Pick  int      `json:"pick,omitempty"`  // selector for stale/other
	DtMs  int64    `json:"dt,omitempty"`    // advance
	Topic string   `json:"t,omitempty"`     // commit/fetch
	Part  int32    `json:"p,omitempty"`
	G     int      `json:"g,omitempty"` // which group of a pair sharing one coordinator (gRunPair)
	// join: the session timeout this member announces from now on (a reconfigured / restarted client
	// re-using its member id); 0 = keep announcing what it announced last (initially cfg.SessionMs[slot])
	SessMs int64 `json:"sess,omitempty"`
	// Who, when set, overrides Slot at run time: "leader" = the slot holding the member id that the latest
	// join reply named as leader (falls back to Slot)
	Who string `json:"who,omitempty"`
	// K == "ovl" (overlap mode, see overlap_test.go): request A is parked inside the store call selected by
	// Park, request B runs meanwhile
	A    *gOp       `json:"a,omitempty"`
	B    *gOp       `json:"b,omitempty"`
	Park *gParkSpec `json:"park,omitempty"`
}

type gIdent struct {
	ID  string
	Gen int32
}

type gSlot struct {
	ID       string   // member id last told ("" = none)
	Gen      int32    // generation of the latest join reply
	Sub      []string // subscription sent with the latest join
	JoinCode int16
	Hist     []gIdent // every (member id, generation) pair this slot was ever told
	Left     bool
	SessMs   int64 // session timeout the slot currently announces (0 = cfg.SessionMs[slot])
}

// gIDInfo is what the observer knows about one member id from replies.
type gIDInfo struct {
	Slot        int
	LastJoinGen int32    // generation carried by its latest join reply
	Sub         []string // subscription sent with its latest join
	SessionMs   int64    // session timeout announced with its latest join
	LastJoinAt  time.Duration
}

type gTruthMember struct {
	Subs   []string           `json:"subs,omitempty"`
	Assign map[string][]int32 `json:"assign,omitempty"`
}

// gTruth is the boundary snapshot taken after every step.
type gTruth struct {
	Exists      bool                    `json:"exists"`
	State       string                  `json:"state,omitempty"`
	Gen         int32                   `json:"gen,omitempty"`
	Leader      string                  `json:"leader,omitempty"`
	Members     map[string]gTruthMember `json:"members,omitempty"`
	DescState   string                  `json:"desc_state,omitempty"`
	DescMembers []string                `json:"desc_members,omitempty"`
	DescCode    int16                   `json:"desc_code,omitempty"`
}

func (t gTruth) has(id string) bool { _, ok := t.Members[id]; return ok }

func (t gTruth) memberIDs() []string {
	ids := make([]string, 0, len(t.Members))
	for id := range t.Members {
		ids = append(ids, id)
	}
	sort.Strings(ids)
	return ids
}

// gEvent is one observed step: the request as sent, the reply, what the store
// decorator saw, and the boundary snapshot before/after.
type gEvent struct {
	I    int           `json:"i"`
	At   time.Duration `json:"-"`
	AtMs int64         `json:"at_ms"`
	K    string        `json:"k"` // join sync hb leave commit fetch tick failover
	Slot int           `json:"m"`

	ReqID  string   `json:"req_id,omitempty"`
	ReqGen int32    `json:"req_gen,omitempty"`
	ReqSub []string `json:"req_sub,omitempty"`
	Ident  string   `json:"ident,omitempty"`
	SessMs int64    `json:"sess,omitempty"` // join: SessionTimeoutMillis as sent

	Code      int16               `json:"code"`
	Gen       int32               `json:"gen,omitempty"`
	MemberID  string              `json:"member,omitempty"`
	Leader    string              `json:"leader,omitempty"`
	Members   map[string][]string `json:"members,omitempty"` // join reply: member id -> subscription
	HasList   bool                `json:"has_list,omitempty"`
	Assign    map[string][]int32  `json:"assign,omitempty"`
	AssignRaw []byte              `json:"-"`
	AssignErr string              `json:"assign_err,omitempty"`
	Protocol  string              `json:"-"`
	ProtoType string              `json:"-"`

	Topic       string `json:"t,omitempty"`
	Part        int32  `json:"p,omitempty"`
	Offset      int64  `json:"off,omitempty"`
	CommitCalls int    `json:"commit_calls,omitempty"`
	DtMs        int64  `json:"dt,omitempty"`
	Err         string `json:"err,omitempty"`

	Before gTruth `json:"-"`
	After  gTruth `json:"after"`

	// overlap mode only. Ovl: "A" = this request was parked inside a store call while request(s) "B" ran.
	// Cands: EVERY boundary snapshot taken between A's invocation and A's return (before A, while A was
	// parked, after each B step, after A returned): the state a reply of A or B was computed from is one of
	// these up to the requests' own effects, so an oracle may only object to an overlapped reply that is
	// wrong with respect to all of them. PrevJoin: for member ids whose "latest join reply" bookkeeping was
	// changed by the pair, the generation recorded before the pair (-1 = id was unknown).
	Ovl      string           `json:"ovl,omitempty"`
	Pair     int              `json:"pair,omitempty"`
	Park     string           `json:"park,omitempty"`
	Cands    []gTruth         `json:"cands,omitempty"`
	PrevJoin map[string]int32 `json:"prev_join,omitempty"`
}

func (e *gEvent) overlapped() bool { return e.Ovl != "" }

// befores / afters: the boundary snapshots a reply may be judged against.
func (e *gEvent) befores() []gTruth {
	if e.overlapped() {
		return e.Cands
	}
	return []gTruth{e.Before}
}

func (e *gEvent) afters() []gTruth {
	if e.overlapped() {
		return e.Cands
	}
	return []gTruth{e.After}
}

// quiet: not overlapped, or generation, member ids and subscriptions were the same in every snapshot
// taken during the overlap (so that any order of the two requests leads to the same judgement).
func (e *gEvent) quiet() bool {
	if !e.overlapped() {
		return true
	}
	sig := func(t gTruth) string {
		var sb strings.Builder
		fmt.Fprintf(&sb, "%v/%d/", t.Exists, t.Gen)
		for _, id := range t.memberIDs() {
			fmt.Fprintf(&sb, "%s%v;", id, gSortedCopy(t.Members[id].Subs))
		}
		return sb.String()
	}
	for _, c := range e.Cands[1:] {
		if sig(c) != sig(e.Cands[0]) {
			return false
		}
	}
	return true
}

type gObserver func(w *gWorld, ev *gEvent)

// gWorld is one running scenario.
type gWorld struct {
	t       testing.TB
	cfg     gConfig
	virtual bool
	rec     *gRecStore
	coord   *GroupCoordinator
	coords  []*GroupCoordinator
	tick0   time.Time // creation instant of the current coordinator: cleanup ticks at tick0 + k*Cleanup
	start   time.Time
	slots   []*gSlot
	ids     map[string]*gIDInfo
	log     []*gEvent
	obs     []gObserver
	offSeq  int64
	offBase int64
	prev    gTruth
	blocked bool
	name    string
	peer    *gWorld // the other group on the same coordinator (pair mode)

	// overlap mode
	lastLeader string           // leader named by the latest join reply
	hold       bool             // events are collected in held instead of being shown to the observers
	held       []*gEvent        //
	inPair     bool             // a request is parked: further requests run under a real-time bound (see call)
	pairBound  time.Duration    //
	stuck      bool             // a request started while another one was parked did not return within the bound
	cut        bool             // the rest of the case is not executed (order of two requests unknown)
	pairs      int              //
	pendOffs   []int64          // unique offsets of the commits in flight (attribution of CommitConsumerOffset calls)
	prevJoin   map[string]int32 // see gEvent.PrevJoin
	ovl        gOvlStats
}

// gSeedSalt is set from VERIF_SEED by each test so that member ids differ between seeds.
var gSeedSalt int64

var gBroker = protocol.MetadataBroker{NodeID: 1, Host: "127.0.0.1", Port: 9092}

func newGWorld(t testing.TB, cfg gConfig, store metadata.Store, virtual bool, offBase int64, tees ...metadata.Store) *gWorld {
	// the coordinator draws member ids from the global math/rand source: seeding it per scenario makes a
	// case a pure function of (VERIF_SEED, case index); nothing depends on the values themselves
	rand.Seed(gSeedSalt*1000003 + offBase + int64(len(cfg.Group))) //nolint:staticcheck
	w := &gWorld{t: t, cfg: cfg, virtual: virtual, ids: map[string]*gIDInfo{}, offBase: offBase, name: "A"}
	w.rec = newGRecStore(store, tees...)
	w.start = time.Now()
	w.startCoordinator()
	for i := 0; i < cfg.M; i++ {
		w.slots = append(w.slots, &gSlot{})
	}
	w.prev = w.truth()
	return w
}

// fork makes a twin of w over another store with a FRESH coordinator (= what a
// failover does when store is the one w wrote to): same client-side knowledge,
// same clock origin, same unique-offset sequence.
func (w *gWorld) fork(name string, store metadata.Store) *gWorld {
	f := &gWorld{t: w.t, cfg: w.cfg, virtual: w.virtual, ids: map[string]*gIDInfo{}, offBase: w.offBase, offSeq: w.offSeq, name: name, start: w.start}
	f.rec = newGRecStore(store)
	for _, s := range w.slots {
		c := *s
		c.Sub = append([]string(nil), s.Sub...)
		c.Hist = append([]gIdent(nil), s.Hist...)
		f.slots = append(f.slots, &c)
	}
	for id, info := range w.ids {
		c := *info
		f.ids[id] = &c
	}
	f.startCoordinator()
	f.prev = f.truth()
	return f
}

func (w *gWorld) startCoordinator() {
	w.tick0 = time.Now()
	w.coord = NewGroupCoordinator(w.rec, gBroker, &CoordinatorConfig{CleanupInterval: time.Duration(w.cfg.CleanupMs) * time.Millisecond})
	w.coords = append(w.coords, w.coord)
}

// stopAll stops every coordinator ever started (a bubble may only end when
// their cleanup goroutines are gone).
func (w *gWorld) stopAll() {
	for _, c := range w.coords {
		c.Stop()
	}
	if w.virtual {
		synctest.Wait()
	}
}

func (w *gWorld) now() time.Duration { return time.Since(w.start) }

// call runs f in its own goroutine; on virtual time it reports whether f
// returned once every goroutine in the bubble is durably blocked.
func (w *gWorld) call(f func()) bool {
	if !w.virtual {
		f()
		return true
	}
	done := make(chan struct{})
	go func() {
		defer close(done)
		f()
	}()
	if w.inPair {
		// another request is parked inside a store call. If the coordinator serialises f behind it, f waits
		// on a sync.Mutex, which is not durably blocking: synctest.Wait would never return. Wait for f under
		// a REAL-time bound instead (a scheduling aid only; no oracle depends on it).
		select {
		case <-done:
			return true
		case <-gRealAfter(w.pairBound):
			w.stuck = true
			return false
		}
	}
	synctest.Wait()
	select {
	case <-done:
		return true
	default:
		w.blocked = true
		return false
	}
}

func gSortedCopy(s []string) []string {
	out := append([]string(nil), s...)
	sort.Strings(out)
	return out
}

func gEncodeSubscription(topics []string) []byte {
	m := kmsg.NewConsumerMemberMetadata()
	m.Version = 0
	m.Topics = append([]string(nil), topics...)
	return m.AppendTo(nil)
}

func gDecodeSubscription(b []byte) ([]string, error) {
	var m kmsg.ConsumerMemberMetadata
	if err := m.ReadFrom(b); err != nil {
		return nil, err
	}
	return append([]string(nil), m.Topics...), nil
}

func gDecodeAssignment(b []byte) (map[string][]int32, error) {
	out := map[string][]int32{}
	if len(b) == 0 {
		return out, nil
	}
	var a kmsg.ConsumerMemberAssignment
	if err := a.ReadFrom(b); err != nil {
		return nil, err
	}
	for _, t := range a.Topics {
		out[t.Topic] = append(out[t.Topic], t.Partitions...)
	}
	return out, nil
}

func (w *gWorld) truth() gTruth {
	return gTruthOf(w.rec, w.coord, w.cfg.Group) // through the decorator only so that store errors are counted; reads are not recorded
}

func gTruthOf(store metadata.Store, coord *GroupCoordinator, group string) gTruth {
	ctx := context.Background()
	var tr gTruth
	g, err := store.FetchConsumerGroup(ctx, group)
	if err == nil && g != nil {
		tr.Exists = true
		tr.State = g.GetState()
		tr.Gen = g.GetGenerationId()
		tr.Leader = g.GetLeader()
		tr.Members = map[string]gTruthMember{}
		for id, m := range g.GetMembers() {
			tm := gTruthMember{Subs: append([]string(nil), m.GetSubscriptions()...)}
			if len(m.GetAssignments()) > 0 {
				tm.Assign = map[string][]int32{}
				for _, a := range m.GetAssignments() {
					tm.Assign[a.GetTopic()] = append(tm.Assign[a.GetTopic()], a.GetPartitions()...)
				}
			}
			tr.Members[id] = tm
		}
	}
	if coord != nil {
		req := kmsg.NewPtrDescribeGroupsRequest()
		req.Groups = []string{group}
		if resp, err := coord.DescribeGroups(ctx, req); err == nil && len(resp.Groups) == 1 {
			dg := resp.Groups[0]
			tr.DescCode = dg.ErrorCode
			tr.DescState = dg.State
			for _, m := range dg.Members {
				tr.DescMembers = append(tr.DescMembers, m.MemberID)
			}
			sort.Strings(tr.DescMembers)
		}
	}
	return tr
}

// joinedCount: current members whose latest join reply carried the current generation.
func (w *gWorld) joinedCount(tr gTruth) int {
	n := 0
	for id := range tr.Members {
		if info := w.ids[id]; info != nil && info.LastJoinGen == tr.Gen {
			n++
		}
	}
	return n
}

// stateSig is the coverage tuple (state, #members, #joined, leader present).
func (w *gWorld) stateSig(tr gTruth) string {
	if !tr.Exists {
		return "absent"
	}
	return fmt.Sprintf("%s/m%d/j%d/l%v", tr.State, len(tr.Members), w.joinedCount(tr), tr.has(tr.Leader))
}

func (w *gWorld) emit(ev *gEvent) {
	ev.At = w.now()
	ev.AtMs = int64(ev.At / time.Millisecond)
	ev.Before = w.prev
	ev.After = w.truth()
	w.prev = ev.After
	if w.hold {
		w.held = append(w.held, ev)
		return
	}
	w.publish(ev)
}

func (w *gWorld) publish(ev *gEvent) {
	ev.I = len(w.log)
	w.log = append(w.log, ev)
	for _, o := range w.obs {
		o(w, ev)
	}
}

// identity resolves which (member id, generation) an hb/sync/commit sends.
func (w *gWorld) identity(op gOp) (string, int32) {
	s := w.slots[op.Slot]
	switch op.Ident {
	case "stale":
		if len(s.Hist) > 0 {
			h := s.Hist[op.Pick%len(s.Hist)]
			return h.ID, h.Gen
		}
	case "other":
		o := w.slots[(op.Slot+1+op.Pick%maxInt(1, len(w.slots)-1))%len(w.slots)]
		if o.ID != "" {
			return o.ID, s.Gen
		}
	case "foreign": // a member id that is valid, but in the OTHER group served by this coordinator
		if w.peer != nil {
			if o := w.peer.slots[op.Pick%len(w.peer.slots)]; o.ID != "" {
				return o.ID, s.Gen
			}
		}
		return fmt.Sprintf("%s-nobody-%d", w.cfg.Group, op.Pick), s.Gen
	case "unknown":
		return fmt.Sprintf("%s-nobody-%d", w.cfg.Group, op.Pick), s.Gen
	case "future":
		return s.ID, s.Gen + 1
	case "past":
		return s.ID, s.Gen - 1
	case "noid":
		return "", s.Gen
	}
	return s.ID, s.Gen
}

func maxInt(a, b int) int {
	if a > b {
		return a
	}
	return b
}

// step executes one abstract op (settle expands into several).
func (w *gWorld) step(op gOp) {
	if w.blocked || w.cut {
		return
	}
	switch op.K {
	case "ovl":
		w.overlap(op)
	case "joinall":
		// one poll round: every slot that holds a member id sends one JoinGroup
		for i, s := range w.slots {
			if s.ID != "" && !w.blocked && !w.cut {
				w.doJoin(gOp{K: "join", Slot: i})
			}
		}
	case "join":
		w.doJoin(op)
	case "sync":
		w.doSync(op)
	case "hb":
		w.doHeartbeat(op)
	case "hbr":
		// a client that reacts like a real one: told to re-join, it re-joins (and syncs when the join succeeds)
		if ev := w.doHeartbeat(op); ev != nil && (ev.Code == 22 || ev.Code == 25 || ev.Code == 27) {
			if j := w.doJoin(gOp{K: "join", Slot: op.Slot}); j != nil && j.Code == 0 {
				w.doSync(gOp{K: "sync", Slot: op.Slot})
			}
		}
	case "leave":
		w.doLeave(op)
	case "commit":
		w.doCommit(op)
	case "fetch":
		w.doFetch(op)
	case "advance":
		w.advance(time.Duration(op.DtMs) * time.Millisecond)
	case "settle":
		w.settle()
	case "failover":
		w.failover()
	case "grow":
		w.grow(op.Topic, int(op.Part))
	}
}

// grow adds partitions to a topic in the store (an administrator's action, not
// a coordinator request). The config's topic map is replaced, not mutated.
func (w *gWorld) grow(topic string, by int) {
	cur, ok := w.cfg.Topics[topic]
	if !ok || by <= 0 {
		return
	}
	if err := w.rec.inner().CreatePartitions(context.Background(), topic, int32(cur+by)); err != nil {
		return
	}
	nt := map[string]int{}
	for k, v := range w.cfg.Topics {
		nt[k] = v
	}
	nt[topic] = cur + by
	w.cfg.Topics = nt
	w.emit(&gEvent{K: "grow", Slot: -1, Topic: topic, Part: int32(cur + by)})
}

// slotSession is the session timeout slot i announces with its next join.
func (w *gWorld) slotSession(i int) int64 {
	if s := w.slots[i]; s.SessMs > 0 {
		return s.SessMs
	}
	return w.cfg.SessionMs[i]
}

// gPending is a prepared request: run performs the coordinator call, fin does the client-side bookkeeping
// of the reply and returns the event (not yet shown to anybody).
type gPending struct {
	run func()
	fin func() *gEvent
}

// do runs a prepared request to completion and reports it.
func (w *gWorld) do(p gPending) *gEvent {
	if !w.call(p.run) {
		return nil
	}
	ev := p.fin()
	w.emit(ev)
	return ev
}

// slotOf resolves the acting slot of an op.
func (w *gWorld) slotOf(op gOp) int {
	if op.Who == "leader" && w.lastLeader != "" {
		for i, s := range w.slots {
			if s.ID == w.lastLeader {
				return i
			}
		}
	}
	return op.Slot
}

// prep prepares the request of a single-request op (join sync hb leave commit fetch).
func (w *gWorld) prep(op gOp) (gPending, bool) {
	op.Slot = w.slotOf(op)
	switch op.K {
	case "join":
		return w.prepJoin(op), true
	case "sync":
		return w.prepSync(op), true
	case "hb":
		return w.prepHeartbeat(op), true
	case "leave":
		return w.prepLeave(op), true
	case "commit":
		return w.prepCommit(op), true
	case "fetch":
		return w.prepFetch(op), true
	}
	return gPending{}, false
}

func (w *gWorld) doJoin(op gOp) *gEvent      { op.Slot = w.slotOf(op); return w.do(w.prepJoin(op)) }
func (w *gWorld) doSync(op gOp) *gEvent      { op.Slot = w.slotOf(op); return w.do(w.prepSync(op)) }
func (w *gWorld) doHeartbeat(op gOp) *gEvent { op.Slot = w.slotOf(op); return w.do(w.prepHeartbeat(op)) }
func (w *gWorld) doLeave(op gOp) *gEvent     { op.Slot = w.slotOf(op); return w.do(w.prepLeave(op)) }
func (w *gWorld) doCommit(op gOp) *gEvent    { op.Slot = w.slotOf(op); return w.do(w.prepCommit(op)) }
func (w *gWorld) doFetch(op gOp) *gEvent     { op.Slot = w.slotOf(op); return w.do(w.prepFetch(op)) }

func (w *gWorld) prepJoin(op gOp) gPending {
	s := w.slots[op.Slot]
	if op.SessMs > 0 {
		s.SessMs = op.SessMs
	}
	sess := w.slotSession(op.Slot)
	sub := op.Sub
	if sub == nil {
		sub = s.Sub
	}
	if sub == nil {
		sub = []string{}
	}
	id := s.ID
	if op.Fresh {
		id = ""
	}
	req := kmsg.NewPtrJoinGroupRequest()
	req.Group = w.cfg.Group
	req.MemberID = id
	req.ProtocolType = "consumer"
	req.SessionTimeoutMillis = int32(sess)
	req.RebalanceTimeoutMillis = int32(w.cfg.RebalMs[op.Slot])
	p := kmsg.NewJoinGroupRequestProtocol()
	p.Name = "range"
	p.Metadata = gEncodeSubscription(sub)
	req.Protocols = []kmsg.JoinGroupRequestProtocol{p}
	ev := &gEvent{K: "join", Slot: op.Slot, ReqID: id, ReqSub: gSortedCopy(sub), SessMs: sess}
	var resp *kmsg.JoinGroupResponse
	var err error
	run := func() { resp, err = w.coord.JoinGroup(context.Background(), req) }
	fin := func() *gEvent {
		if err != nil || resp == nil {
			ev.Err = fmt.Sprint(err)
			ev.Code = -1
			return ev
		}
		ev.Code, ev.Gen, ev.MemberID, ev.Leader = resp.ErrorCode, resp.Generation, resp.MemberID, resp.LeaderID
		if len(resp.Members) > 0 {
			ev.HasList = true
			ev.Members = map[string][]string{}
			for _, m := range resp.Members {
				topics, derr := gDecodeSubscription(m.ProtocolMetadata)
				if derr != nil {
					topics = []string{"<undecodable:" + derr.Error() + ">"}
				}
				ev.Members[m.MemberID] = gSortedCopy(topics)
			}
		}
		if resp.LeaderID != "" {
			w.lastLeader = resp.LeaderID
		}
		// client-side bookkeeping: what this member was told
		if resp.MemberID != "" {
			s.ID, s.Gen, s.Sub, s.JoinCode, s.Left = resp.MemberID, resp.Generation, append([]string(nil), sub...), resp.ErrorCode, false
			s.Hist = append(s.Hist, gIdent{resp.MemberID, resp.Generation})
			info := w.ids[resp.MemberID]
			if w.prevJoin != nil {
				if _, noted := w.prevJoin[resp.MemberID]; !noted {
					if info == nil {
						w.prevJoin[resp.MemberID] = -1
					} else {
						w.prevJoin[resp.MemberID] = info.LastJoinGen
					}
				}
			}
			if info == nil {
				info = &gIDInfo{Slot: op.Slot}
				w.ids[resp.MemberID] = info
			}
			info.LastJoinGen = resp.Generation
			info.Sub = gSortedCopy(sub)
			info.SessionMs = sess
			info.LastJoinAt = w.now()
		}
		return ev
	}
	return gPending{run, fin}
}

func (w *gWorld) prepSync(op gOp) gPending {
	id, gen := w.identity(op)
	req := kmsg.NewPtrSyncGroupRequest()
	req.Group, req.MemberID, req.Generation = w.cfg.Group, id, gen
	ev := &gEvent{K: "sync", Slot: op.Slot, ReqID: id, ReqGen: gen, Ident: op.Ident}
	var resp *kmsg.SyncGroupResponse
	var err error
	run := func() { resp, err = w.coord.SyncGroup(context.Background(), req) }
	fin := func() *gEvent {
		if err != nil || resp == nil {
			ev.Err, ev.Code = fmt.Sprint(err), -1
			return ev
		}
		ev.Code = resp.ErrorCode
		if resp.ErrorCode == 0 {
			ev.AssignRaw = append([]byte(nil), resp.MemberAssignment...)
			a, derr := gDecodeAssignment(resp.MemberAssignment)
			if derr != nil {
				ev.AssignErr = derr.Error()
			}
			ev.Assign = a
			if resp.Protocol != nil {
				ev.Protocol = *resp.Protocol
			}
			if resp.ProtocolType != nil {
				ev.ProtoType = *resp.ProtocolType
			}
		}
		return ev
	}
	return gPending{run, fin}
}

func (w *gWorld) prepHeartbeat(op gOp) gPending {
	id, gen := w.identity(op)
	req := kmsg.NewPtrHeartbeatRequest()
	req.Group, req.MemberID, req.Generation = w.cfg.Group, id, gen
	ev := &gEvent{K: "hb", Slot: op.Slot, ReqID: id, ReqGen: gen, Ident: op.Ident}
	var resp *kmsg.HeartbeatResponse
	run := func() { resp = w.coord.Heartbeat(context.Background(), req) }
	fin := func() *gEvent {
		ev.Code = resp.ErrorCode
		return ev
	}
	return gPending{run, fin}
}

func (w *gWorld) prepLeave(op gOp) gPending {
	s := w.slots[op.Slot]
	req := kmsg.NewPtrLeaveGroupRequest()
	req.Group, req.MemberID = w.cfg.Group, s.ID
	ev := &gEvent{K: "leave", Slot: op.Slot, ReqID: s.ID}
	var resp *kmsg.LeaveGroupResponse
	run := func() { resp = w.coord.LeaveGroup(context.Background(), req) }
	fin := func() *gEvent {
		ev.Code = resp.ErrorCode
		if resp.ErrorCode == 0 {
			s.Left = true
			s.ID = "" // a member that left has no identity any more; its old pairs stay in Hist
		}
		return ev
	}
	return gPending{run, fin}
}

func (w *gWorld) prepCommit(op gOp) gPending {
	id, gen := w.identity(op)
	w.offSeq++
	off := w.offBase + w.offSeq // unique per commit
	req := kmsg.NewPtrOffsetCommitRequest()
	req.Group, req.MemberID, req.Generation = w.cfg.Group, id, gen
	rt := kmsg.NewOffsetCommitRequestTopic()
	rt.Topic = op.Topic
	rp := kmsg.NewOffsetCommitRequestTopicPartition()
	rp.Partition, rp.Offset = op.Part, off
	meta := fmt.Sprintf("c%d", off)
	rp.Metadata = &meta
	rt.Partitions = append(rt.Partitions, rp)
	req.Topics = append(req.Topics, rt)
	ev := &gEvent{K: "commit", Slot: op.Slot, ReqID: id, ReqGen: gen, Ident: op.Ident, Topic: op.Topic, Part: op.Part, Offset: off}
	mark := w.rec.mutCount()
	if w.pendOffs != nil {
		w.pendOffs = append(w.pendOffs, off)
	}
	var resp *kmsg.OffsetCommitResponse
	var err error
	run := func() { resp, err = w.coord.OffsetCommit(context.Background(), req) }
	fin := func() *gEvent {
		// CommitConsumerOffset calls made since the request was prepared, except those that carry the unique
		// offset of ANOTHER commit in flight (only in overlap mode are there any)
		ev.CommitCalls = w.rec.commitCallsSince(mark, off, w.pendOffs)
		if err != nil || resp == nil || len(resp.Topics) != 1 || len(resp.Topics[0].Partitions) != 1 {
			ev.Err, ev.Code = fmt.Sprintf("err=%v malformed reply", err), -1
		} else {
			ev.Code = resp.Topics[0].Partitions[0].ErrorCode
		}
		return ev
	}
	return gPending{run, fin}
}

func (w *gWorld) prepFetch(op gOp) gPending {
	req := kmsg.NewPtrOffsetFetchRequest()
	req.Group = w.cfg.Group
	rt := kmsg.NewOffsetFetchRequestTopic()
	rt.Topic = op.Topic
	rt.Partitions = []int32{op.Part}
	req.Topics = append(req.Topics, rt)
	ev := &gEvent{K: "fetch", Slot: op.Slot, Topic: op.Topic, Part: op.Part}
	var resp *kmsg.OffsetFetchResponse
	var err error
	run := func() { resp, err = w.coord.OffsetFetch(context.Background(), req) }
	fin := func() *gEvent {
		if err != nil || resp == nil || len(resp.Topics) != 1 || len(resp.Topics[0].Partitions) != 1 {
			ev.Err, ev.Code = fmt.Sprintf("err=%v malformed reply", err), -1
		} else {
			ev.Code = resp.Topics[0].Partitions[0].ErrorCode
			ev.Offset = resp.Topics[0].Partitions[0].Offset
		}
		return ev
	}
	return gPending{run, fin}
}

// storedOffset reads the committed offset straight from the store.
func (w *gWorld) storedOffset(topic string, part int32) int64 {
	off, _, _ := w.rec.inner().FetchConsumerOffset(context.Background(), w.cfg.Group, topic, part)
	return off
}

// advance moves virtual time forward by d, probing the boundary at every
// cleanup tick instant of the current coordinator (and at the end), so that a
// removal is observed at the tick that made it.
func (w *gWorld) advance(d time.Duration) { gAdvance(d, w) }

// gAdvance advances the (shared) virtual clock for several worlds living in one bubble.
func gAdvance(d time.Duration, worlds ...*gWorld) {
	if len(worlds) == 0 || !worlds[0].virtual || d <= 0 {
		return
	}
	end := time.Now().Add(d)
	for {
		now := time.Now()
		if !now.Before(end) {
			break
		}
		next := end
		for _, w := range worlds {
			interval := time.Duration(w.cfg.CleanupMs) * time.Millisecond
			k := now.Sub(w.tick0)/interval + 1
			if tk := w.tick0.Add(k * interval); tk.Before(next) {
				next = tk
			}
		}
		time.Sleep(next.Sub(now))
		synctest.Wait()
		for _, w := range worlds {
			w.emit(&gEvent{K: "tick", Slot: -1, DtMs: int64(next.Sub(now) / time.Millisecond)})
		}
	}
}

// alignToTick advances to the next cleanup tick instant of the current coordinator.
func (w *gWorld) alignToTick() {
	interval := time.Duration(w.cfg.CleanupMs) * time.Millisecond
	now := time.Now()
	k := now.Sub(w.tick0) / interval
	if w.tick0.Add(k * interval).Equal(now) {
		return
	}
	w.advance(w.tick0.Add((k + 1) * interval).Sub(now))
}

// failover replaces the coordinator by a fresh one over the same store (the
// old one is stopped: a crashed process writes nothing more).
func (w *gWorld) failover() {
	w.coord.Stop()
	if w.virtual {
		synctest.Wait()
	}
	w.startCoordinator()
	w.emit(&gEvent{K: "failover", Slot: -1})
}

// settle drives a well-behaved client round: every slot that holds a member id
// polls join until all were answered 0 in one generation, then the leader
// syncs, then the others. Every request is an ordinary observed step.
func (w *gWorld) settle() {
	for round := 0; round < 4; round++ {
		allOK, gen, any := true, int32(-1), false
		var leader string
		for i, s := range w.slots {
			if s.ID == "" {
				continue
			}
			any = true
			ev := w.doJoin(gOp{K: "join", Slot: i})
			if ev == nil {
				return
			}
			if ev.Code != 0 {
				allOK = false
			}
			if gen == -1 {
				gen = ev.Gen
			} else if gen != ev.Gen {
				allOK = false
			}
			leader = ev.Leader
		}
		if !any {
			return
		}
		if !allOK {
			continue
		}
		// leader first, then the rest
		for i, s := range w.slots {
			if s.ID != "" && s.ID == leader {
				if w.doSync(gOp{K: "sync", Slot: i}) == nil {
					return
				}
			}
		}
		for i, s := range w.slots {
			if s.ID != "" && s.ID != leader {
				if w.doSync(gOp{K: "sync", Slot: i}) == nil {
					return
				}
			}
		}
		return
	}
}

// ---------------------------------------------------------------------------
// generation of scenarios

type gProfile struct {
	WJoin, WSync, WHB, WLeave, WCommit, WFetch, WAdvance, WSettle, WFailover, WHBR, WGrow int
	PStale                                                                                float64 // probability that an hb/sync/commit uses a foreign/stale identity
	PResub                                                                                float64 // probability that a re-join changes the subscription
	PFresh                                                                                float64 // probability that a member holding an id joins with an empty one
	PBigJump                                                                              float64 // probability that an advance is long enough to expire somebody
	PResess                                                                               float64 // probability that a join announces a session timeout drawn afresh from Sessions (0: never; no PRNG draw then)
	Sessions                                                                              []int64
	Rebals                                                                                []int64
	Cleanups                                                                              []int64
	MixRebal                                                                              bool // members may use different rebalance timeouts
	Ghost                                                                                 float64
	MinOps                                                                                int
	MaxOps                                                                                int
}

var gDefaultProfile = gProfile{
	WJoin: 30, WSync: 18, WHB: 12, WLeave: 5, WCommit: 8, WFetch: 2, WAdvance: 12, WSettle: 9, WFailover: 0,
	PStale: 0.15, PResub: 0.25, PFresh: 0.08, PBigJump: 0.25,
	Sessions: []int64{3000, 5000, 10000}, Rebals: []int64{2000, 4000, 8000}, Cleanups: []int64{250, 500, 1000},
	Ghost: 0.2, MinOps: 8, MaxOps: 40,
}

var gTopicNames = []string{"ta", "tb", "tc"}

func gGenConfig(rng *rand.Rand, p gProfile, group string) gConfig {
	cfg := gConfig{Group: group, Topics: map[string]int{}}
	nt := 1 + rng.Intn(3)
	for i := 0; i < nt; i++ {
		cfg.Topics[gTopicNames[i]] = 1 + rng.Intn(5)
		cfg.Universe = append(cfg.Universe, gTopicNames[i])
	}
	if rng.Float64() < p.Ghost {
		cfg.Universe = append(cfg.Universe, "tghost") // subscribed by clients, absent from the store
	}
	cfg.M = 1 + rng.Intn(4)
	reb := p.Rebals[rng.Intn(len(p.Rebals))]
	for i := 0; i < cfg.M; i++ {
		cfg.SessionMs = append(cfg.SessionMs, p.Sessions[rng.Intn(len(p.Sessions))])
		if p.MixRebal && rng.Intn(3) == 0 {
			cfg.RebalMs = append(cfg.RebalMs, p.Rebals[rng.Intn(len(p.Rebals))])
		} else {
			cfg.RebalMs = append(cfg.RebalMs, reb)
		}
	}
	cfg.CleanupMs = p.Cleanups[rng.Intn(len(p.Cleanups))]
	return cfg
}

func gRandSub(rng *rand.Rand, universe []string) []string {
	sub := []string{}
	switch rng.Intn(10) {
	case 0: // empty subscription
	case 1, 2: // everything
		sub = append(sub, universe...)
	default:
		for _, t := range universe {
			if rng.Intn(2) == 0 {
				sub = append(sub, t)
			}
		}
		if len(sub) == 0 {
			sub = append(sub, universe[rng.Intn(len(universe))])
		}
	}
	rng.Shuffle(len(sub), func(i, j int) { sub[i], sub[j] = sub[j], sub[i] })
	return sub
}

var gIdentModes = []string{"stale", "stale", "stale", "other", "unknown", "future", "past", "noid", "foreign"}

// gGenOps draws the abstract op list of one case.
func gGenOps(rng *rand.Rand, p gProfile, cfg gConfig) []gOp {
	n := p.MinOps + rng.Intn(p.MaxOps-p.MinOps+1)
	total := p.WJoin + p.WSync + p.WHB + p.WLeave + p.WCommit + p.WFetch + p.WAdvance + p.WSettle + p.WFailover + p.WHBR + p.WGrow
	hasSub := make([]bool, cfg.M)
	maxS := int64(0)
	for _, s := range cfg.SessionMs {
		if s > maxS {
			maxS = s
		}
	}
	var ops []gOp
	for i := 0; i < n; i++ {
		x := rng.Intn(total)
		op := gOp{Slot: rng.Intn(cfg.M)}
		ident := func() {
			if rng.Float64() < p.PStale {
				op.Ident = gIdentModes[rng.Intn(len(gIdentModes))]
				op.Pick = rng.Intn(64)
			}
		}
		switch {
		case x < p.WJoin:
			op.K = "join"
			if !hasSub[op.Slot] || rng.Float64() < p.PResub {
				op.Sub = gRandSub(rng, cfg.Universe)
				hasSub[op.Slot] = true
			}
			op.Fresh = rng.Float64() < p.PFresh
			if p.PResess > 0 && rng.Float64() < p.PResess {
				op.SessMs = p.Sessions[rng.Intn(len(p.Sessions))]
			}
		case x < p.WJoin+p.WSync:
			op.K = "sync"
			ident()
		case x < p.WJoin+p.WSync+p.WHB:
			op.K = "hb"
			ident()
		case x < p.WJoin+p.WSync+p.WHB+p.WLeave:
			op.K = "leave"
		case x < p.WJoin+p.WSync+p.WHB+p.WLeave+p.WCommit:
			op.K = "commit"
			op.Topic = cfg.Universe[rng.Intn(len(cfg.Universe))]
			op.Part = int32(rng.Intn(5))
			ident()
		case x < p.WJoin+p.WSync+p.WHB+p.WLeave+p.WCommit+p.WFetch:
			op.K = "fetch"
			op.Topic = cfg.Universe[rng.Intn(len(cfg.Universe))]
			op.Part = int32(rng.Intn(5))
		case x < p.WJoin+p.WSync+p.WHB+p.WLeave+p.WCommit+p.WFetch+p.WAdvance:
			op.K = "advance"
			if rng.Float64() < p.PBigJump {
				op.DtMs = cfg.SessionMs[op.Slot]/2 + rng.Int63n(maxS)
			} else {
				op.DtMs = 20 + rng.Int63n(1500)
			}
		case x < p.WJoin+p.WSync+p.WHB+p.WLeave+p.WCommit+p.WFetch+p.WAdvance+p.WSettle:
			op.K = "settle"
		case x < p.WJoin+p.WSync+p.WHB+p.WLeave+p.WCommit+p.WFetch+p.WAdvance+p.WSettle+p.WFailover:
			op.K = "failover"
		case x < p.WJoin+p.WSync+p.WHB+p.WLeave+p.WCommit+p.WFetch+p.WAdvance+p.WSettle+p.WFailover+p.WHBR:
			op.K = "hbr"
		default:
			op.K = "grow"
			op.Topic = cfg.Universe[rng.Intn(len(cfg.Universe))]
			op.Part = int32(1 + rng.Intn(2))
		}
		ops = append(ops, op)
	}
	return ops
}

// gRunCase runs one scenario inside its own synctest bubble.
func gRunCase(t *testing.T, cfg gConfig, ops []gOp, offBase int64, setup func(w *gWorld)) *gWorld {
	var world *gWorld
	synctest.Test(t, func(t *testing.T) {
		world = gRunCaseInBubble(t, cfg, ops, offBase, setup)
	})
	return world
}

// sibling is a second group served by the SAME coordinator and store as w:
// own members, own bookkeeping, own observers.
func (w *gWorld) sibling(cfg gConfig) *gWorld {
	s := &gWorld{t: w.t, cfg: cfg, virtual: w.virtual, rec: w.rec, coord: w.coord, tick0: w.tick0, start: w.start,
		ids: map[string]*gIDInfo{}, offBase: w.offBase + 50000, name: "sibling"}
	for i := 0; i < cfg.M; i++ {
		s.slots = append(s.slots, &gSlot{})
	}
	s.prev = s.truth()
	return s
}

// gRunPair runs two groups on ONE coordinator inside one bubble; ops carry G=0/1.
// Time advances are probed for both groups. No failover in pair mode.
func gRunPair(t *testing.T, cfgs [2]gConfig, ops []gOp, offBase int64, setup func(i int, w *gWorld)) [2]*gWorld {
	var ws [2]*gWorld
	synctest.Test(t, func(t *testing.T) {
		store := metadata.NewInMemoryStore(cfgs[0].metadata())
		ws[0] = newGWorld(t, cfgs[0], store, true, offBase)
		ws[1] = ws[0].sibling(cfgs[1])
		ws[0].peer, ws[1].peer = ws[1], ws[0]
		for i := range ws {
			if setup != nil {
				setup(i, ws[i])
			}
		}
		for _, op := range ops {
			switch op.K {
			case "advance":
				gAdvance(time.Duration(op.DtMs)*time.Millisecond, ws[0], ws[1])
			case "failover":
			case "grow":
				ws[op.G].step(op)
				ws[1-op.G].cfg.Topics = ws[op.G].cfg.Topics // one store, one topic list
			default:
				ws[op.G].step(op)
			}
		}
		ws[0].stopAll()
	})
	return ws
}

// gGenPair draws two configurations over the same topics and one interleaved op list.
func gGenPair(rng *rand.Rand, p gProfile, name string) ([2]gConfig, []gOp) {
	a := gGenConfig(rng, p, name+"x")
	b := gGenConfig(rng, p, name+"y")
	b.Topics, b.Universe, b.CleanupMs = a.Topics, a.Universe, a.CleanupMs
	p.WFailover = 0
	oa, ob := gGenOps(rng, p, a), gGenOps(rng, p, b)
	for i := range ob {
		ob[i].G = 1
	}
	var ops []gOp
	for len(oa) > 0 || len(ob) > 0 {
		if len(ob) == 0 || (len(oa) > 0 && rng.Intn(2) == 0) {
			ops, oa = append(ops, oa[0]), oa[1:]
		} else {
			ops, ob = append(ops, ob[0]), ob[1:]
		}
	}
	return [2]gConfig{a, b}, ops
}

// gRunCaseInBubble runs one scenario in the bubble the caller is already in
// (several independent scenarios may share a bubble: each has its own store,
// coordinator and clock origin, and its coordinators are stopped at the end).
func gRunCaseInBubble(t testing.TB, cfg gConfig, ops []gOp, offBase int64, setup func(w *gWorld)) *gWorld {
	store := metadata.NewInMemoryStore(cfg.metadata())
	w := newGWorld(t, cfg, store, true, offBase)
	if setup != nil {
		setup(w)
	}
	for _, op := range ops {
		w.step(op)
	}
	w.stopAll()
	return w
}

// gWitness renders a scenario for a violation replay / evidence sample.
func gWitness(w *gWorld, upTo int, extra map[string]any) map[string]any {
	evs := w.log
	if upTo >= 0 && upTo+1 < len(evs) {
		evs = evs[:upTo+1]
	}
	// drop uneventful ticks to keep witnesses readable
	var out []json.RawMessage
	for i, e := range evs {
		if e.K == "tick" && i != len(evs)-1 && gTruthEqual(e.Before, e.After) {
			continue
		}
		b, _ := json.Marshal(e)
		out = append(out, b)
	}
	m := map[string]any{"config": w.cfg, "events": out}
	for k, v := range extra {
		m[k] = v
	}
	return m
}

func gTruthEqual(a, b gTruth) bool {
	ja, _ := json.Marshal(a)
	jb, _ := json.Marshal(b)
	return string(ja) == string(jb)
}

func gAssignString(a map[string][]int32) string {
	names := make([]string, 0, len(a))
	for n := range a {
		names = append(names, n)
	}
	sort.Strings(names)
	var sb strings.Builder
	for _, n := range names {
		ps := append([]int32(nil), a[n]...)
		sort.Slice(ps, func(i, j int) bool { return ps[i] < ps[j] })
		fmt.Fprintf(&sb, "%s%v;", n, ps)
	}
	return sb.String()
}

func gContains(s []string, x string) bool {
	for _, v := range s {
		if v == x {
			return true
		}
	}
	return false
}

// gOpsSig is the signature of a case: its config and the kinds/results of its steps.
func gOpsSig(w *gWorld) string {
	var sb strings.Builder
	fmt.Fprintf(&sb, "%v|", w.cfg)
	for _, e := range w.log {
		if e.K == "tick" {
			continue
		}
		if e.K == "join" && e.SessMs != w.cfg.SessionMs[e.Slot] {
			fmt.Fprintf(&sb, "s%d/", e.SessMs)
		}
		if e.Ovl != "" {
			fmt.Fprintf(&sb, "~%s", e.Ovl)
		}
		fmt.Fprintf(&sb, "%s%d:%d;", e.K, e.Slot, e.Code)
	}
	return sb.String()
}
