//go:build verif

package verifkreq

// Hostile byte-stream corpus for "never crashes" properties (DESIGN.md §3.5):
// valid client encodings, structure-aware mutations, uniform noise.

import (
	"encoding/binary"
	"math"
	"math/rand"

	"github.com/twmb/franz-go/pkg/kmsg"
)

type Input struct {
	Kind  string
	Bytes []byte
	Chunk int64
}

type Base struct {
	key, ver int16
	payload  []byte // frame without size prefix
	flexible bool
	tagOff   int // offset of the header tag section (flexible only)
	bodyOff  int
}

func Frame(payload []byte) []byte {
	out := make([]byte, 4, 4+len(payload))
	binary.BigEndian.PutUint32(out, uint32(len(payload)))
	return append(out, payload...)
}

func FrameLen(l uint32, payload []byte) []byte {
	out := make([]byte, 4, 4+len(payload))
	binary.BigEndian.PutUint32(out, l)
	return append(out, payload...)
}

func UvarintBytes(v uint64) []byte {
	var tmp [binary.MaxVarintLen64]byte
	return append([]byte(nil), tmp[:binary.PutUvarint(tmp[:], v)]...)
}

func Cat(parts ...[]byte) []byte {
	var out []byte
	for _, p := range parts {
		out = append(out, p...)
	}
	return out
}

var OverlongVarints = [][]byte{
	{0x80, 0x00},             // non-canonical 0
	{0x81, 0x80, 0x80, 0x00}, // non-canonical 1
	{0x80, 0x80, 0x80, 0x80, 0x80, 0x80, 0x80, 0x80, 0x80, 0x80, 0x01}, // 11 bytes: overflow
	{0xff, 0xff, 0xff, 0xff, 0xff, 0xff, 0xff, 0xff, 0xff, 0x7f},       // 10 bytes, last > 1: overflow
	{0xff, 0xff, 0xff, 0xff, 0xff, 0xff, 0xff, 0xff, 0xff, 0x01},       // 2^64-1
	{0x80, 0x80, 0x80, 0x80, 0x80, 0x80, 0x80, 0x80, 0x80, 0x01},       // 2^63
	{0x80}, // unterminated
	{0xff, 0xff, 0xff, 0xff, 0xff, 0xff, 0xff, 0xff, 0xff, 0xff, 0xff, 0xff, 0xff, 0xff, 0xff, 0xff},
}

// TagSections builds tagged-field sections (count, then tag,size,data per field) that a hostile client can send.
//
// maxCount bounds the announced field count. The header's SkipTaggedFields stops at the first missing byte, so any
// count is cheap there; the codec's body tag reader (kmsg internalReadTags) keeps looping `count` times after the
// input is exhausted, so a 5-byte count of 2^31 in a BODY costs ~2^31 iterations (minutes under -race). That is a
// slow request, not a crash; the corpus keeps body tag counts small on purpose and the parent has a stall watchdog.
func TagSections(rem int, maxCount uint64) [][]byte {
	key := [2]uint64{uint64(rem), maxCount}
	if v, ok := tagSectionCache[key]; ok {
		return v
	}
	v := tagSections(rem, maxCount)
	tagSectionCache[key] = v
	return v
}

// the sections only depend on (rem, maxCount); the corpus builder asks for them thousands of times (single goroutine)
var tagSectionCache = map[[2]uint64][][]byte{}

func tagSections(rem int, maxCount uint64) [][]byte {
	var out [][]byte
	sizes := []uint64{0, 1, 2, 127, 128, uint64(rem), uint64(rem + 1), 1<<31 - 1, 1 << 31, 1<<32 - 1, 1 << 32, 1 << 62, 1<<63 - 1, 1 << 63, 1<<63 + 1, 1<<64 - 2, 1<<64 - 1}
	if rem > 0 {
		sizes = append(sizes, uint64(rem-1))
	}
	for _, s := range sizes {
		out = append(out, Cat(UvarintBytes(1), UvarintBytes(0), UvarintBytes(s)))
		out = append(out, Cat(UvarintBytes(2), UvarintBytes(0), UvarintBytes(1), []byte{0xaa}, UvarintBytes(7), UvarintBytes(s)))
	}
	for _, c := range []uint64{2, 127, 128, 1 << 31, 1 << 32, 1 << 63, 1<<64 - 1} {
		if c > maxCount {
			continue
		}
		out = append(out, UvarintBytes(c))
		out = append(out, Cat(UvarintBytes(c), UvarintBytes(0), UvarintBytes(0), UvarintBytes(1), UvarintBytes(0)))
	}
	out = append(out, Cat(UvarintBytes(1), UvarintBytes(1<<64-1), UvarintBytes(0)))
	for _, ol := range OverlongVarints {
		if maxCount == math.MaxUint64 {
			out = append(out, ol) // as count
		}
		out = append(out, Cat(UvarintBytes(1), ol, UvarintBytes(0)))                  // as tag
		out = append(out, Cat(UvarintBytes(1), UvarintBytes(0), ol))                  // as size
		out = append(out, Cat(UvarintBytes(1), UvarintBytes(0), ol, []byte{1, 2, 3})) // as size, data follows
	}
	return out
}

func Bases(rng *rand.Rand, bodiesHandled, bodiesOther int) []Base {
	handled := map[int16]bool{}
	for _, k := range HandledKeys {
		handled[k] = true
	}
	var bases []Base
	for key := int16(0); key <= kmsg.MaxKey; key++ {
		probe := kmsg.RequestForKey(key)
		if probe == nil {
			continue
		}
		nb := bodiesOther
		if handled[key] {
			nb = bodiesHandled
		}
		for ver := int16(0); ver <= probe.MaxVersion()+1; ver++ {
			if key == 7 && ver == 0 { // ControlledShutdown v0 has no client id in its header (not served by KafScale)
				continue
			}
			for b := 0; b < nb; b++ {
				req := kmsg.RequestForKey(key)
				req.SetVersion(ver)
				Fill(rng, req, Opts{MaxArray: 2, Tags: true, MaxString: 16})
				cid := ClientID(rng)
				if cid != nil && len(*cid) > 64 {
					s := (*cid)[:64]
					cid = &s
				}
				wire := Encode(req, int32(rng.Uint32()), cid)
				base := Base{key: key, ver: ver, payload: wire[4:], flexible: req.IsFlexible(), bodyOff: BodyOffset(req, cid)}
				if base.flexible {
					base.tagOff = base.bodyOff - 1
				}
				bases = append(bases, base)
			}
		}
	}
	return bases
}

// Corpus is a pure function of (seed, tier): the fixed case list of the crash leg.
// CorpusSizes are the tier-dependent list lengths (the tier changes lengths, never the shapes).
type CorpusSizes struct {
	Thorough bool
}

func (z CorpusSizes) n(quick, thorough int) int {
	if z.Thorough {
		return thorough
	}
	return quick
}

// Corpus is a pure function of (rng, sizes): the fixed case list of the C10 legs.
func Corpus(rng *rand.Rand, r CorpusSizes) []Input {
	var out []Input
	add := func(kind string, b []byte) {
		out = append(out, Input{Kind: kind, Bytes: b, Chunk: rng.Int63()})
	}
	bases := Bases(rng, r.n(2, 6), r.n(1, 2))
	var flex, handledFlex []int
	handled := map[int16]bool{}
	for _, k := range HandledKeys {
		handled[k] = true
	}
	for i, b := range bases {
		if b.flexible {
			flex = append(flex, i)
			if handled[b.key] {
				handledFlex = append(handledFlex, i)
			}
		}
	}
	// A. valid encodings
	for _, b := range bases {
		add("valid", Frame(b.payload))
	}
	// M3. header tag sections on flexible headers: every section on a PRNG subset of bases, and one PRNG section on every flexible base
	nfull := r.n(12, 120)
	for i := 0; i < nfull && len(handledFlex) > 0; i++ {
		b := bases[handledFlex[rng.Intn(len(handledFlex))]]
		rem := len(b.payload) - b.tagOff - 1
		for _, sec := range TagSections(rem, math.MaxUint64) {
			p := Cat(b.payload[:b.tagOff], sec, b.payload[b.tagOff+1:])
			add("hdr_tags", Frame(p))
			if rng.Intn(4) == 0 {
				add("hdr_tags_nobody", Frame(Cat(b.payload[:b.tagOff], sec)))
			}
		}
	}
	for _, i := range flex {
		b := bases[i]
		secs := TagSections(len(b.payload)-b.tagOff-1, math.MaxUint64)
		bodySecs := TagSections(len(b.payload)-b.tagOff-1, 128)
		for k := 0; k < r.n(2, 8); k++ {
			sec := secs[rng.Intn(len(secs))]
			add("hdr_tags", Frame(Cat(b.payload[:b.tagOff], sec, b.payload[b.tagOff+1:])))
		}
		// body: the last byte of a flexible body is its (empty) tag section
		for k := 0; k < r.n(1, 4); k++ {
			sec := bodySecs[rng.Intn(len(bodySecs))]
			add("body_tags", Frame(Cat(b.payload[:len(b.payload)-1], sec)))
		}
	}
	// M1/M2/M6/M7 on every base (PRNG choice of the variant), M4 random field overwrites
	lenVariants := func(n int) []uint32 {
		return []uint32{0, 1, 3, 7, 8, 9, 10, 11, uint32(n - 1), uint32(n + 1), uint32(n + 1000), 0xffffffff, 0x80000000, 0xfffffffe, 0xffff0000}
	}
	perBase := r.n(5, 40)
	for _, b := range bases {
		n := len(b.payload)
		lv := lenVariants(n)
		add("frame_len", FrameLen(lv[rng.Intn(len(lv))], b.payload))
		cidv := []uint16{0xffff, 0xfffe, 0x8000, 0x7fff, 0, uint16(n), uint16(n - 9), 1}
		p := append([]byte(nil), b.payload...)
		binary.BigEndian.PutUint16(p[8:], cidv[rng.Intn(len(cidv))])
		add("clientid_len", Frame(p))
		// stream cut short of what the size prefix announces
		full := Frame(b.payload)
		add("stream_cut", full[:rng.Intn(len(full))])
		// version / key swaps keeping the body
		p = append([]byte(nil), b.payload...)
		vv := []int16{-1, 0, 1, b.ver - 1, b.ver + 1, 32767, -32768, int16(rng.Intn(20))}
		binary.BigEndian.PutUint16(p[2:], uint16(vv[rng.Intn(len(vv))]))
		add("version_swap", Frame(p))
		p = append([]byte(nil), b.payload...)
		kk := []int16{-1, 32767, 1000, int16(rng.Intn(int(kmsg.MaxKey) + 3)), HandledKeys[rng.Intn(len(HandledKeys))]}
		binary.BigEndian.PutUint16(p[0:], uint16(kk[rng.Intn(len(kk))]))
		add("key_swap", Frame(p))
		for k := 0; k < perBase; k++ {
			p = append([]byte(nil), b.payload...)
			for m := 0; m <= rng.Intn(3); m++ {
				pos := rng.Intn(len(p))
				switch rng.Intn(6) {
				case 0: // int32 length/count field
					if pos+4 <= len(p) {
						binary.BigEndian.PutUint32(p[pos:], []uint32{0xffffffff, 0x7fffffff, 0x80000000, 0, 0x00ffffff, uint32(len(p))}[rng.Intn(6)])
					}
				case 1: // int16 length
					if pos+2 <= len(p) {
						binary.BigEndian.PutUint16(p[pos:], []uint16{0xffff, 0x7fff, 0x8000, 0, uint16(len(p))}[rng.Intn(5)])
					}
				case 2:
					p[pos] = []byte{0xff, 0x80, 0x00, 0x01, 0x7f, 0x81}[rng.Intn(6)]
				case 3: // splice an over-long / huge varint in
					ol := OverlongVarints[rng.Intn(len(OverlongVarints))]
					p = Cat(p[:pos], ol, p[pos:])
				case 4: // drop a byte
					p = append(p[:pos:pos], p[pos+1:]...)
					if len(p) == 0 {
						p = []byte{0}
					}
				case 5:
					p[pos] ^= byte(1 << uint(rng.Intn(8)))
				}
			}
			add("field_mut", Frame(p))
		}
	}
	// M5. truncation of the payload at every byte, size prefix consistent, on a PRNG subset of bases
	ntr := r.n(80, 1500)
	for i := 0; i < ntr; i++ {
		b := bases[rng.Intn(len(bases))]
		if i%2 == 0 && len(handledFlex) > 0 {
			b = bases[handledFlex[rng.Intn(len(handledFlex))]]
		}
		for cut := 0; cut < len(b.payload); cut++ {
			add("truncate_every_byte", Frame(b.payload[:cut]))
		}
	}
	// M8. several frames on one stream
	for i := 0; i < r.n(300, 3000); i++ {
		a, b := bases[rng.Intn(len(bases))], bases[rng.Intn(len(bases))]
		s := Cat(Frame(a.payload), Frame(b.payload))
		if rng.Intn(2) == 0 && b.flexible {
			secs := TagSections(len(b.payload)-b.tagOff-1, math.MaxUint64)
			s = Cat(Frame(a.payload), Frame(Cat(b.payload[:b.tagOff], secs[rng.Intn(len(secs))], b.payload[b.tagOff+1:])))
		}
		if rng.Intn(3) == 0 {
			s = s[:len(s)-rng.Intn(len(b.payload)+1)]
		}
		add("multi_frame", s)
	}
	// honest but huge size prefixes (the up-front make([]byte, length)); few, because each costs an allocation
	// (zeroing + race shadow of a 2 GiB allocation costs up to a minute on a loaded box, so the quick tier stops at 128 MiB)
	hugeLens := []uint32{0x08000000, 0x04000001}
	if r.Thorough {
		hugeLens = append(hugeLens, 0x7fffffff, 0x40000000, 0x10000000)
	}
	for _, l := range hugeLens {
		b := bases[rng.Intn(len(bases))]
		add("huge_len", FrameLen(l, b.payload))
	}
	// N. uniform noise: raw, with a consistent size prefix, behind a valid flexible header prefix
	for i := 0; i < r.n(4000, 300000); i++ {
		n := rng.Intn(96)
		if rng.Intn(10) == 0 {
			n = rng.Intn(2000)
		}
		b := make([]byte, n)
		rng.Read(b)
		switch rng.Intn(4) {
		case 0:
			if n >= 4 { // keep the announced size small so the noise is a frame, not a 2 GiB announcement
				binary.BigEndian.PutUint32(b, uint32(rng.Intn(n+8)))
			}
			add("noise_raw", b)
		case 1:
			add("noise_framed", Frame(b))
		case 2:
			hb := bases[handledFlex[rng.Intn(len(handledFlex))]]
			add("noise_after_header", Frame(Cat(hb.payload[:hb.tagOff], b)))
		case 3:
			if n >= 4 {
				binary.BigEndian.PutUint16(b[0:], uint16(HandledKeys[rng.Intn(len(HandledKeys))]))
				binary.BigEndian.PutUint16(b[2:], uint16(rng.Intn(18)))
			}
			add("noise_known_key", Frame(b))
		}
	}
	return out
}

func HeaderTagSizeOverflows(p []byte) bool {
	if len(p) < 10 {
		return false
	}
	key := int16(binary.BigEndian.Uint16(p[0:]))
	ver := int16(binary.BigEndian.Uint16(p[2:]))
	pos := 8
	l := int16(binary.BigEndian.Uint16(p[pos:]))
	pos += 2
	if l >= 0 {
		if pos+int(l) > len(p) {
			return false
		}
		pos += int(l)
	} else if l != -1 {
		return false
	}
	req := kmsg.RequestForKey(key)
	if req == nil {
		return false
	}
	req.SetVersion(ver)
	if !req.IsFlexible() {
		return false
	}
	uv := func() (uint64, bool) {
		v, n := binary.Uvarint(p[pos:])
		if n <= 0 {
			return 0, false
		}
		pos += n
		return v, true
	}
	count, ok := uv()
	if !ok {
		return false
	}
	for i := uint64(0); i < count; i++ {
		if _, ok := uv(); !ok {
			return false
		}
		size, ok := uv()
		if !ok {
			return false
		}
		if size > math.MaxInt64 {
			return true
		}
		if size > uint64(len(p)-pos) {
			return false
		}
		pos += int(size)
	}
	return false
}

func DeclaredLen(in []byte) int64 {
	if len(in) < 4 {
		return 0
	}
	return int64(int32(binary.BigEndian.Uint32(in)))
}
