//go:build verif

// Package verifkreq fills kmsg request structs from a PRNG (DESIGN.md §3.5
// "kreq"). It is overlaid at <module>/internal/verifkreq by the C10 and C11
// legs ("extra" in spec.json) and depends on kmsg + stdlib only.
//
// Two modes:
//   - hostile (Tame=false): every integer from the full range incl. boundary
//     values, strings from an alphabet with NUL-free control bytes, multi-byte
//     and case-unstable runes, nil/empty/filled arrays and nullable fields both
//     ways, unknown tagged fields. Used where the bytes are only decoded (C10).
//   - tame (Tame=true): same shapes, but the fields a live handler turns into
//     work (partition indices, partition counts, wait/timeouts, allocation
//     hints) are bounded by field name, and name-like strings come from a
//     small pool so requests hit existing topics/groups (C11).
package verifkreq

import (
	"math"
	"math/rand"
	"reflect"
	"strings"

	"github.com/twmb/franz-go/pkg/kmsg"
)

// HandledKeys are the API keys with a case in cmd/broker's handler.Handle or a
// route in cmd/proxy's handleConnection (read from the source; the C11 legs do
// not rely on it — they parse the live ApiVersions reply).
var HandledKeys = []int16{0, 1, 2, 3, 8, 9, 10, 11, 12, 13, 14, 15, 16, 18, 19, 20, 23, 32, 33, 37, 42}

type Opts struct {
	MaxArray int  // arrays get 0..MaxArray elements (default 3)
	Tame     bool // bound the fields a live handler acts on
	Tags     bool // add unknown tagged fields (only encoded at flexible versions)
	Names    []string
	Groups   []string
	Members  []string
	// Records returns the bytes for a field called Records (produce). nil => random bytes.
	Records func(rng *rand.Rand) []byte
	// MaxString bounds generated strings (default 40 hostile / 12 tame)
	MaxString int
	// OnlyPartitionZero (tame mode): every partition index is 0, which exists in every topic
	OnlyPartitionZero bool
}

var tagsType = reflect.TypeOf(kmsg.Tags{})

var hostileRunes = []rune{'a', 'b', 'Z', '0', '-', '_', '.', '/', ':', '%', ' ', '\t', '\x01', '\x7f', 'é', 'ß', 'İ', 'K', 'Ⱥ', '日', '本', '😀', '​', '�'}

// String returns a bounded string; hostile ones include "..", "/", multi-byte runes and invalid UTF-8.
func String(rng *rand.Rand, max int, hostile bool) string {
	if max <= 0 {
		max = 12
	}
	switch rng.Intn(10) {
	case 0:
		return ""
	case 1:
		if hostile {
			return []string{"..", ".", "a/../b", "t:0", "%2e%2e", " ", "\xff\xfe", "İstanbul", "ȺȺȺ"}[rng.Intn(9)]
		}
	}
	n := 1 + rng.Intn(max)
	var sb strings.Builder
	for i := 0; i < n; i++ {
		if hostile && rng.Intn(4) == 0 {
			sb.WriteRune(hostileRunes[rng.Intn(len(hostileRunes))])
		} else {
			sb.WriteByte("abcdefghijklmnopqrstuvwxyz0123456789-_."[rng.Intn(39)])
		}
	}
	return sb.String()
}

var int64Edges = []int64{0, 1, -1, 2, -2, 127, 128, 255, 256, 32767, 32768, 65535, 1<<31 - 1, 1 << 31, 1<<32 - 1, 1 << 32, math.MaxInt64, math.MinInt64, -(1 << 31), 1 << 40}

func anyInt(rng *rand.Rand) int64 {
	switch rng.Intn(3) {
	case 0:
		return int64Edges[rng.Intn(len(int64Edges))]
	case 1:
		return int64(rng.Intn(10))
	}
	return int64(rng.Uint64())
}

func pick(rng *rand.Rand, pool []string, fallback string) string {
	if len(pool) == 0 {
		return fallback
	}
	return pool[rng.Intn(len(pool))]
}

// tameInt bounds integers by field name; ok=false => no rule, use anyInt.
func tameInt(rng *rand.Rand, name string, o *Opts) (int64, bool) {
	switch name {
	case "Partition":
		if o.OnlyPartitionZero {
			return 0, true
		}
		if rng.Intn(12) == 0 {
			return []int64{-1, 3, 7}[rng.Intn(3)], true
		}
		return int64(rng.Intn(3)), true
	case "NumPartitions", "Count":
		return int64(rng.Intn(8)) - 1, true
	case "ReplicationFactor":
		return int64(rng.Intn(4)) - 1, true
	case "MaxWaitMillis":
		return int64(rng.Intn(4)), true
	case "TimeoutMillis":
		return int64(rng.Intn(200)), true
	case "SessionTimeoutMillis", "RebalanceTimeoutMillis":
		return []int64{0, 1, 100, 6000, 10000, 30000, 300000}[rng.Intn(7)], true
	case "MaxNumOffsets":
		return int64(rng.Intn(6)) - 1, true
	case "Acks":
		return []int64{-1, -1, 1, 1, 0, 2}[rng.Intn(6)], true
	case "PartitionMaxBytes", "MaxBytes", "MinBytes":
		return []int64{0, 1, 64, 1024, 1 << 20, 1<<31 - 1, -1}[rng.Intn(7)], true
	case "FetchOffset", "Offset":
		return []int64{0, 0, 1, 2, 3, 5, 100, -1, -2, math.MaxInt64}[rng.Intn(10)], true
	case "Timestamp":
		return []int64{-1, -2, -3, 0, 1, 1700000000000, math.MaxInt64}[rng.Intn(7)], true
	case "Generation":
		return []int64{-1, 0, 1, 2, 3, 100}[rng.Intn(6)], true
	case "ResourceType":
		return []int64{2, 2, 4, 0, 1, 8, 16, -1}[rng.Intn(8)], true
	}
	return 0, false
}

func tameString(rng *rand.Rand, field string, o *Opts) (string, bool) {
	switch field {
	case "Topic", "TopicNames", "ResourceName":
		if rng.Intn(8) == 0 {
			return String(rng, 10, true), true
		}
		return pick(rng, o.Names, "orders"), true
	case "Group", "Groups", "CoordinatorKey", "CoordinatorKeys":
		if rng.Intn(8) == 0 {
			return String(rng, 10, true), true
		}
		return pick(rng, o.Groups, "g1"), true
	case "MemberID":
		if rng.Intn(3) == 0 {
			return "", true
		}
		if rng.Intn(6) == 0 {
			return String(rng, 10, true), true
		}
		return pick(rng, o.Members, ""), true
	case "ProtocolType":
		return []string{"consumer", "consumer", "connect", ""}[rng.Intn(4)], true
	case "Name": // config names, protocol names
		return []string{"retention.ms", "retention.bytes", "segment.bytes", "range", "roundrobin", "cleanup.policy", ""}[rng.Intn(7)], true
	case "Value":
		return []string{"1000", "-1", "0", "abc", "", "9223372036854775807", "1048576"}[rng.Intn(7)], true
	case "ConfigNames":
		return []string{"retention.ms", "segment.bytes", "broker.id", "nope"}[rng.Intn(4)], true
	}
	return "", false
}

// Fill populates every exported field of the request (except Version) from rng.
func Fill(rng *rand.Rand, req kmsg.Request, o Opts) {
	if o.MaxArray <= 0 {
		o.MaxArray = 3
	}
	if o.MaxString <= 0 {
		if o.Tame {
			o.MaxString = 12
		} else {
			o.MaxString = 40
		}
	}
	v := reflect.ValueOf(req)
	if v.Kind() == reflect.Ptr {
		v = v.Elem()
	}
	fillStruct(rng, v, &o, 0, true)
}

func fillStruct(rng *rand.Rand, v reflect.Value, o *Opts, depth int, top bool) {
	t := v.Type()
	for i := 0; i < t.NumField(); i++ {
		sf := t.Field(i)
		if sf.PkgPath != "" { // unexported
			continue
		}
		if top && sf.Name == "Version" {
			continue
		}
		fv := v.Field(i)
		if sf.Type == tagsType {
			if o.Tags && rng.Intn(4) == 0 {
				tags := fv.Addr().Interface().(*kmsg.Tags)
				for k := 0; k < 1+rng.Intn(2); k++ {
					val := make([]byte, rng.Intn(6))
					rng.Read(val)
					// keys far above any tag Kafka defines, so they never collide with a known tagged field
					tags.Set(uint32(1000+rng.Intn(5000)), val)
				}
			}
			continue
		}
		fillValue(rng, fv, sf.Name, o, depth)
	}
}

func fillValue(rng *rand.Rand, fv reflect.Value, name string, o *Opts, depth int) {
	switch fv.Kind() {
	case reflect.Bool:
		fv.SetBool(rng.Intn(2) == 0)
	case reflect.Int8, reflect.Int16, reflect.Int32, reflect.Int64:
		if o.Tame {
			if x, ok := tameInt(rng, name, o); ok {
				fv.SetInt(truncInt(x, fv.Kind()))
				return
			}
		}
		fv.SetInt(truncInt(anyInt(rng), fv.Kind()))
	case reflect.Uint8, reflect.Uint16, reflect.Uint32, reflect.Uint64:
		x := uint64(anyInt(rng))
		switch fv.Kind() {
		case reflect.Uint8:
			x &= 0xff
		case reflect.Uint16:
			x &= 0xffff
		case reflect.Uint32:
			x &= 0xffffffff
		}
		fv.SetUint(x)
	case reflect.Float64, reflect.Float32:
		fv.SetFloat([]float64{0, 1, -1, 0.5, 1e300, -1e-300, float64(rng.Int63())}[rng.Intn(7)])
	case reflect.String:
		if o.Tame {
			if s, ok := tameString(rng, name, o); ok {
				fv.SetString(s)
				return
			}
		}
		fv.SetString(String(rng, o.MaxString, true))
	case reflect.Ptr:
		if rng.Intn(4) == 0 {
			fv.Set(reflect.Zero(fv.Type()))
			return
		}
		nv := reflect.New(fv.Type().Elem())
		fillValue(rng, nv.Elem(), name, o, depth)
		fv.Set(nv)
	case reflect.Array: // uuid [16]byte
		if rng.Intn(3) != 0 {
			return // zero id
		}
		for i := 0; i < fv.Len(); i++ {
			fv.Index(i).SetUint(uint64(rng.Intn(256)))
		}
	case reflect.Slice:
		if fv.Type().Elem().Kind() == reflect.Uint8 { // []byte
			if name == "Records" && o.Records != nil {
				fv.SetBytes(o.Records(rng))
				return
			}
			if o.Tame && name == "Metadata" {
				// JoinGroup protocol metadata: the coordinator sizes an allocation from the topic count inside these bytes
				// (make([]string, 0, count) with count up to 2^32-1), so tame mode only sends a well-formed consumer
				// subscription or fewer than the 6 bytes it looks at
				if rng.Intn(3) == 0 {
					b := make([]byte, rng.Intn(6))
					rng.Read(b)
					fv.SetBytes(b)
					return
				}
				meta := kmsg.NewConsumerMemberMetadata()
				meta.Version = int16(rng.Intn(2))
				for i := 0; i < rng.Intn(3); i++ {
					meta.Topics = append(meta.Topics, pick(rng, o.Names, "orders"))
				}
				fv.SetBytes(meta.AppendTo(nil))
				return
			}
			switch rng.Intn(5) {
			case 0:
				fv.Set(reflect.Zero(fv.Type()))
			case 1:
				fv.SetBytes([]byte{})
			default:
				b := make([]byte, 1+rng.Intn(24))
				rng.Read(b)
				fv.SetBytes(b)
			}
			return
		}
		var n int
		switch rng.Intn(6) {
		case 0:
			fv.Set(reflect.Zero(fv.Type())) // nil (null where nullable)
			return
		case 1:
			n = 0
		default:
			n = 1 + rng.Intn(o.MaxArray)
		}
		if depth >= 3 && n > 1 {
			n = 1
		}
		s := reflect.MakeSlice(fv.Type(), n, n)
		for i := 0; i < n; i++ {
			el := s.Index(i)
			if el.Kind() == reflect.Struct {
				callDefault(el)
				fillStruct(rng, el, o, depth+1, false)
			} else {
				elName := name
				if name == "Partitions" || name == "Replicas" {
					elName = "Partition"
				}
				fillValue(rng, el, elName, o, depth+1)
			}
		}
		fv.Set(s)
	case reflect.Struct:
		callDefault(fv)
		fillStruct(rng, fv, o, depth+1, false)
	}
}

// callDefault runs the kmsg Default() of a nested struct first, as a client building the request would.
func callDefault(v reflect.Value) {
	if !v.CanAddr() {
		return
	}
	if m := v.Addr().MethodByName("Default"); m.IsValid() && m.Type().NumIn() == 0 {
		m.Call(nil)
	}
}

func truncInt(x int64, k reflect.Kind) int64 {
	switch k {
	case reflect.Int8:
		return int64(int8(x))
	case reflect.Int16:
		return int64(int16(x))
	case reflect.Int32:
		return int64(int32(x))
	}
	return x
}

// ClientID variants: nil, empty, ascii, unicode, long.
func ClientID(rng *rand.Rand) *string {
	switch rng.Intn(6) {
	case 0:
		return nil
	case 1:
		s := ""
		return &s
	case 2:
		s := "日本語-client-İK-😀"
		return &s
	case 3:
		s := strings.Repeat("x", 200+rng.Intn(800))
		return &s
	case 4:
		s := String(rng, 30, true)
		return &s
	}
	s := "verif-client"
	return &s
}

// Encode renders the request exactly as franz-go's client does: 4-byte size,
// key, version, correlation id, nullable (never compact) client id, empty
// header tag section at flexible versions, body.
func Encode(req kmsg.Request, corr int32, clientID *string) []byte {
	var f *kmsg.RequestFormatter
	if clientID == nil {
		f = kmsg.NewRequestFormatter()
	} else {
		f = kmsg.NewRequestFormatter(kmsg.FormatterClientID(*clientID))
	}
	return f.AppendRequest(nil, req, corr)
}

// BodyOffset is the offset of the body inside the payload (the frame without its size prefix) of Encode's output.
func BodyOffset(req kmsg.Request, clientID *string) int {
	off := 2 + 2 + 4 + 2
	if clientID != nil {
		off += len(*clientID)
	}
	if req.IsFlexible() {
		off++
	}
	return off
}
