//go:build verif

package main

// Engine A (DESIGN.md §3.3): a deterministic scheduler over the REAL broker
// handler / PartitionLog. The handler talks to a gated fake S3 and a gated
// metadata store; every boundary call registers as a pending operation and
// blocks. Inside a testing/synctest bubble, synctest.Wait() returns exactly
// when every goroutine is durably blocked (on a gate, on flushCond, on an
// errgroup), the scheduler then picks ONE action — start an actor's next
// request, or complete one pending boundary call with an outcome (ok / fail
// without effect / fail after effect / crash before / crash after effect) — and
// monitors run while the system is quiescent.

import (
	"context"
	"encoding/binary"
	"errors"
	"fmt"
	"io"
	"log/slog"
	"math/rand"
	"sort"
	"strings"
	"sync"
	"testing"
	"testing/synctest"
	"time"

	"github.com/KafScale/platform/internal/verifkit/kbatch"
	"github.com/KafScale/platform/pkg/broker"
	"github.com/KafScale/platform/pkg/cache"
	"github.com/KafScale/platform/pkg/metadata"
	"github.com/KafScale/platform/pkg/protocol"
	"github.com/KafScale/platform/pkg/storage"
	"github.com/twmb/franz-go/pkg/kmsg"
)

// ---------------------------------------------------------------- fake S3

type vS3Event struct {
	Seq     int    `json:"seq"`
	Inst    int    `json:"inst"`
	Actor   int    `json:"actor"`
	Op      string `json:"op"`
	Key     string `json:"key"`
	Bytes   int    `json:"bytes"`
	Outcome string `json:"outcome"`
}

// vS3 is the object store shared by every broker instance of a scenario.
// Puts are atomic and read-after-write consistent (assumption of the checks).
type vS3 struct {
	mu      sync.Mutex
	objects map[string][]byte
	events  []vS3Event
}

func newVS3() *vS3 { return &vS3{objects: map[string][]byte{}} }

func (v *vS3) log(inst, actor int, op, key string, n int, outcome string) {
	v.mu.Lock()
	v.events = append(v.events, vS3Event{len(v.events), inst, actor, op, key, n, outcome})
	v.mu.Unlock()
}
func (v *vS3) put(key string, body []byte) {
	v.mu.Lock()
	v.objects[key] = append([]byte(nil), body...)
	v.mu.Unlock()
}
func (v *vS3) get(key string) ([]byte, bool) {
	v.mu.Lock()
	defer v.mu.Unlock()
	b, ok := v.objects[key]
	return b, ok
}
func (v *vS3) keys(prefix string) []string {
	v.mu.Lock()
	defer v.mu.Unlock()
	var out []string
	for k := range v.objects {
		if strings.HasPrefix(k, prefix) {
			out = append(out, k)
		}
	}
	sort.Strings(out)
	return out
}
func (v *vS3) countWrites(fromSeq int) int {
	v.mu.Lock()
	defer v.mu.Unlock()
	n := 0
	for _, e := range v.events[fromSeq:] {
		if (e.Op == "upload_segment" || e.Op == "upload_index") && (e.Outcome == "ok" || e.Outcome == "fail_after") {
			n++
		}
	}
	return n
}
func (v *vS3) eventCount() int { v.mu.Lock(); defer v.mu.Unlock(); return len(v.events) }

type instance struct {
	id   int
	mu   sync.Mutex
	dead bool
}

func (i *instance) isDead() bool { i.mu.Lock(); defer i.mu.Unlock(); return i.dead }
func (i *instance) kill()        { i.mu.Lock(); i.dead = true; i.mu.Unlock() }

var errInjected = errors.New("verif: injected S3/store failure")
var errDead = errors.New("verif: instance crashed")

type ctxActorKey struct{}

func actorOf(ctx context.Context) int {
	if v, ok := ctx.Value(ctxActorKey{}).(int); ok {
		return v
	}
	return -1
}

// s3View is one broker instance's handle on the shared store (storage.S3Client).
type s3View struct {
	v    *vS3
	inst *instance
	sc   *sched // nil => ungated
	// listAll=true lists every key under the prefix like the AWS client does.
}

func (s *s3View) write(ctx context.Context, op, key string, body []byte) error {
	if s.inst.isDead() {
		return errDead
	}
	apply := func() { s.v.put(key, body) }
	out := outOK
	if s.sc != nil && s.sc.gates(op) {
		out = s.sc.enter(ctx, s.inst, op, key, apply)
	} else {
		apply()
	}
	s.v.log(s.inst.id, actorOf(ctx), op, key, len(body), out.String())
	return out.err()
}
func (s *s3View) UploadSegment(ctx context.Context, key string, body []byte) error {
	return s.write(ctx, "upload_segment", key, body)
}
func (s *s3View) UploadIndex(ctx context.Context, key string, body []byte) error {
	return s.write(ctx, "upload_index", key, body)
}
func (s *s3View) del(ctx context.Context, op, key string) error {
	if s.inst.isDead() {
		return errDead
	}
	apply := func() { s.v.mu.Lock(); delete(s.v.objects, key); s.v.mu.Unlock() }
	out := outOK
	if s.sc != nil && s.sc.gates(op) {
		out = s.sc.enter(ctx, s.inst, op, key, apply)
	} else {
		apply()
	}
	s.v.log(s.inst.id, actorOf(ctx), op, key, 0, out.String())
	return out.err()
}
func (s *s3View) DeleteSegment(ctx context.Context, key string) error {
	return s.del(ctx, "delete_segment", key)
}
func (s *s3View) DeleteIndex(ctx context.Context, key string) error {
	return s.del(ctx, "delete_index", key)
}
func (s *s3View) DownloadSegment(ctx context.Context, key string, rng *storage.ByteRange) ([]byte, error) {
	if s.inst.isDead() {
		return nil, errDead
	}
	out := outOK
	if s.sc != nil && s.sc.gates("download_segment") {
		out = s.sc.enter(ctx, s.inst, "download_segment", key, func() {})
	}
	if out != outOK {
		s.v.log(s.inst.id, actorOf(ctx), "download_segment", key, 0, out.String())
		return nil, out.err()
	}
	b, ok := s.v.get(key)
	if !ok {
		s.v.log(s.inst.id, actorOf(ctx), "download_segment", key, 0, "notfound")
		return nil, storage.ErrNotFound
	}
	op := "download_segment"
	if rng != nil {
		op = "download_segment_range"
		// real S3 semantics: inclusive range, clamped at the end of the object;
		// a start beyond the object is an error (416)
		if rng.Start < 0 || rng.Start >= int64(len(b)) || rng.End < rng.Start {
			s.v.log(s.inst.id, actorOf(ctx), op, key, 0, "invalid_range")
			return nil, fmt.Errorf("verif s3: invalid range %d-%d for %d bytes", rng.Start, rng.End, len(b))
		}
		end := rng.End
		if end >= int64(len(b)) {
			end = int64(len(b)) - 1
		}
		b = b[rng.Start : end+1]
	}
	s.v.log(s.inst.id, actorOf(ctx), op, key, len(b), "ok")
	return append([]byte(nil), b...), nil
}
func (s *s3View) DownloadIndex(ctx context.Context, key string) ([]byte, error) {
	if s.inst.isDead() {
		return nil, errDead
	}
	b, ok := s.v.get(key)
	if !ok {
		s.v.log(s.inst.id, actorOf(ctx), "download_index", key, 0, "notfound")
		return nil, storage.ErrNotFound
	}
	s.v.log(s.inst.id, actorOf(ctx), "download_index", key, len(b), "ok")
	return append([]byte(nil), b...), nil
}
func (s *s3View) ListSegments(ctx context.Context, prefix string) ([]storage.S3Object, error) {
	if s.inst.isDead() {
		return nil, errDead
	}
	if s.sc != nil && s.sc.gates("list") {
		// a scheduling point inside the first-touch initialisation of a partition log (RestoreFromS3)
		if out := s.sc.enter(ctx, s.inst, "list", prefix, func() {}); out != outOK {
			s.v.log(s.inst.id, actorOf(ctx), "list", prefix, 0, out.String())
			return nil, out.err()
		}
	}
	var out []storage.S3Object
	for _, k := range s.v.keys(prefix) {
		b, _ := s.v.get(k)
		out = append(out, storage.S3Object{Key: k, Size: int64(len(b))})
	}
	s.v.log(s.inst.id, actorOf(ctx), "list", prefix, len(out), "ok")
	return out, nil
}
func (s *s3View) EnsureBucket(ctx context.Context) error { return nil }

// ---------------------------------------------------------------- gated store

type storeEvent struct {
	Seq       int    `json:"seq"`
	Inst      int    `json:"inst"`
	Actor     int    `json:"actor"`
	Topic     string `json:"topic"`
	Partition int32  `json:"partition"`
	Last      int64  `json:"last"`
	Outcome   string `json:"outcome"`
	NextAfter int64  `json:"next_after"`
}

// storeHub is the shared metadata store (the real InMemoryStore) plus the
// event log of every UpdateOffsets that took effect.
type storeHub struct {
	inner  *metadata.InMemoryStore
	mu     sync.Mutex
	events []storeEvent
}

// storeView is one instance's gated handle (metadata.Store).
type storeView struct {
	metadata.Store
	hub  *storeHub
	inst *instance
	sc   *sched
}

func (s *storeView) UpdateOffsets(ctx context.Context, topic string, partition int32, last int64) error {
	if s.inst.isDead() {
		return errDead
	}
	var ierr error
	apply := func() { ierr = s.hub.inner.UpdateOffsets(ctx, topic, partition, last) }
	out := outOK
	if s.sc != nil && s.sc.gates("update_offsets") {
		out = s.sc.enter(ctx, s.inst, "update_offsets", fmt.Sprintf("%s/%d=%d", topic, partition, last), apply)
	} else {
		apply()
	}
	next, _ := s.hub.inner.NextOffset(context.Background(), topic, partition)
	s.hub.mu.Lock()
	s.hub.events = append(s.hub.events, storeEvent{len(s.hub.events), s.inst.id, actorOf(ctx), topic, partition, last, out.String(), next})
	s.hub.mu.Unlock()
	if e := out.err(); e != nil {
		return e
	}
	return ierr
}

func (s *storeView) CreateTopic(ctx context.Context, spec metadata.TopicSpec) (*protocol.MetadataTopic, error) {
	if s.inst.isDead() {
		return nil, errDead
	}
	var topic *protocol.MetadataTopic
	var ierr error
	apply := func() { topic, ierr = s.hub.inner.CreateTopic(ctx, spec) }
	out := outOK
	if s.sc != nil && s.sc.gates("create_topic") {
		out = s.sc.enter(ctx, s.inst, "create_topic", spec.Name, apply)
	} else {
		apply()
	}
	if e := out.err(); e != nil {
		return nil, e
	}
	return topic, ierr
}

// ---------------------------------------------------------------- scheduler

type outcome int

const (
	outOK outcome = iota
	outFailBefore
	outFailAfter
	outCrashBefore
	outCrashAfter
	outCanceled // the request's context was cancelled (client went away): no effect, context.Canceled
)

func (o outcome) String() string {
	return [...]string{"ok", "fail_before", "fail_after", "crash_before", "crash_after", "ctx_canceled"}[o]
}
func (o outcome) err() error {
	switch o {
	case outOK:
		return nil
	case outFailBefore, outFailAfter:
		return errInjected
	case outCanceled:
		return context.Canceled
	}
	return errDead
}

type gateOp struct {
	Actor int
	Inst  *instance
	Kind  string
	Key   string
	apply func()
	ch    chan outcome
}

func (g *gateOp) label() string { return fmt.Sprintf("a%d:%s:%s", g.Actor, g.Kind, shortKey(g.Key)) }

func shortKey(k string) string {
	if i := strings.LastIndex(k, "segment-"); i >= 0 {
		k = k[:i] + strings.TrimLeft(strings.TrimPrefix(k[i:], "segment-"), "0")
		if strings.HasPrefix(k[i:], ".") {
			k = k[:i] + "0" + k[i:]
		}
	}
	return k
}

type sched struct {
	mu      sync.Mutex
	gated   map[string]bool
	pending []*gateOp
	frozen  []*gateOp
}

func (s *sched) gates(kind string) bool { return s.gated[kind] }

func (s *sched) enter(ctx context.Context, inst *instance, kind, key string, apply func()) outcome {
	if ctx.Err() != nil { // a real S3/etcd client refuses to start on a dead context
		return outCanceled
	}
	op := &gateOp{Actor: actorOf(ctx), Inst: inst, Kind: kind, Key: key, apply: apply, ch: make(chan outcome, 1)}
	s.mu.Lock()
	s.pending = append(s.pending, op)
	s.mu.Unlock()
	return <-op.ch
}

func (s *sched) snapshot() []*gateOp {
	s.mu.Lock()
	defer s.mu.Unlock()
	out := append([]*gateOp(nil), s.pending...)
	sort.SliceStable(out, func(i, j int) bool { return out[i].label() < out[j].label() })
	return out
}

func (s *sched) remove(op *gateOp) {
	s.mu.Lock()
	for i, p := range s.pending {
		if p == op {
			s.pending = append(s.pending[:i], s.pending[i+1:]...)
			break
		}
	}
	s.mu.Unlock()
}

// complete applies the chosen outcome to op (effects happen on the scheduler's
// goroutine, i.e. while everything else is blocked) and releases the caller —
// except for crashes, where the caller stays frozen until teardown.
func (s *sched) complete(op *gateOp, out outcome) {
	s.remove(op)
	switch out {
	case outOK, outFailAfter:
		op.apply()
		op.ch <- out
	case outFailBefore, outCanceled:
		op.ch <- out
	case outCrashBefore, outCrashAfter:
		if out == outCrashAfter {
			op.apply()
		}
		op.Inst.kill()
		s.mu.Lock()
		s.frozen = append(s.frozen, op)
		// every other pending call of the dead instance never completes either
		keep := s.pending[:0]
		for _, p := range s.pending {
			if p.Inst == op.Inst {
				s.frozen = append(s.frozen, p)
			} else {
				keep = append(keep, p)
			}
		}
		s.pending = keep
		s.mu.Unlock()
	}
}

// thaw releases frozen callers at teardown; their instance is dead so nothing
// they do afterwards has an external effect.
func (s *sched) thaw() {
	s.mu.Lock()
	fr := s.frozen
	s.frozen = nil
	s.mu.Unlock()
	for _, op := range fr {
		op.ch <- outCrashBefore
	}
}

// chooser picks among n enabled actions.
type chooser interface {
	pick(labels []string) int
}

type rngChooser struct {
	rng       *rand.Rand
	faultProb float64
}

func (c *rngChooser) pick(labels []string) int {
	// split into plain and fault actions so that faults keep a fixed probability
	var plain, faulty []int
	for i, l := range labels {
		if strings.HasPrefix(l, "fail") || strings.HasPrefix(l, "crash") || strings.HasPrefix(l, "cancel") {
			faulty = append(faulty, i)
		} else {
			plain = append(plain, i)
		}
	}
	if len(faulty) > 0 && (len(plain) == 0 || c.rng.Float64() < c.faultProb) {
		return faulty[c.rng.Intn(len(faulty))]
	}
	return plain[c.rng.Intn(len(plain))]
}

// dfsChooser enumerates every choice sequence (stateless search): it replays
// the recorded prefix and takes the first untried branch at the frontier.
type dfsChooser struct {
	prefix []int // choices to replay
	widths []int // branching factor seen at each depth of the current run
	taken  []int
}

func (c *dfsChooser) pick(labels []string) int {
	d := len(c.taken)
	ch := 0
	if d < len(c.prefix) {
		ch = c.prefix[d]
	}
	if ch >= len(labels) {
		ch = len(labels) - 1
	}
	c.taken = append(c.taken, ch)
	c.widths = append(c.widths, len(labels))
	return ch
}

// next computes the prefix of the next unexplored run; false when exhausted.
func (c *dfsChooser) next() ([]int, bool) {
	for d := len(c.taken) - 1; d >= 0; d-- {
		if c.taken[d]+1 < c.widths[d] {
			p := append([]int(nil), c.taken[:d]...)
			return append(p, c.taken[d]+1), true
		}
	}
	return nil, false
}

// replayChooser follows a recorded label sequence (witness replay).
type replayChooser struct {
	labels []string
	pos    int
}

func (c *replayChooser) pick(labels []string) int {
	if c.pos < len(c.labels) {
		want := c.labels[c.pos]
		c.pos++
		for i, l := range labels {
			if l == want {
				return i
			}
		}
	}
	return 0
}

// ---------------------------------------------------------------- scenario

type plogReq struct {
	Kind      string `json:"kind"` // produce | fetch | listoffsets
	Topic     string `json:"topic"`
	Partition int32  `json:"partition"`
	Acks      int16  `json:"acks,omitempty"`
	Batch     []byte `json:"-"`
	BatchID   string `json:"batch_id,omitempty"` // producer/seq, also embedded in every record value
	NRecords  int    `json:"n_records,omitempty"`
	Offset    int64  `json:"offset,omitempty"`
	MaxBytes  int32  `json:"max_bytes,omitempty"`
}

type plogRes struct {
	Actor   int     `json:"actor"`
	ReqIdx  int     `json:"req_idx"`
	Req     plogReq `json:"req"`
	Inst    int     `json:"inst"`
	Lost    bool    `json:"lost,omitempty"` // instance died before the reply: the client never saw a reply
	NoReply bool    `json:"no_reply,omitempty"`
	Err     string  `json:"err,omitempty"`
	Code    int16   `json:"code"`
	Base    int64   `json:"base"`
	HW      int64   `json:"hw"`
	Records []byte  `json:"-"`
	NBytes  int     `json:"n_bytes,omitempty"`
	Step    int     `json:"step"` // scheduler step at which the reply was observed
}

type plogActor struct {
	id      int
	reqs    []plogReq
	next    int
	busy    bool
	startCh chan int
	doneCh  chan plogRes
}

type plogCfg struct {
	Topics         map[string]int32 // topic -> partitions
	Actors         [][]plogReq
	Gated          []string // boundary ops that are scheduling points
	FaultKinds     []outcome
	FaultBudget    int
	FaultOn        []string // op kinds that may be faulted (default: uploads)
	CrashBudget    int
	CancelBudget   int // how many in-flight requests may have their context cancelled while blocked at a gate
	FlushOnAck     bool
	BufferMaxBytes int
	BufferMaxMsgs  int
	BufferMaxBatch int
	IndexInterval  int32
	CacheBytes     int // 0 = cache off
	ReadAhead      int
	DefaultHealth  bool
	MaxSteps       int
	S3Concurrency  int
	AutoCreate     bool // topics are NOT pre-created: the first requests auto-create them (CreateTopic is the boundary op "create_topic")
}

type scenario struct {
	t        *testing.T
	cfg      plogCfg
	s3       *vS3
	hub      *storeHub
	sc       *sched
	insts    []*instance
	hs       []*handler
	cur      int
	actors   []*plogActor
	orphans  []*plogActor
	results  []plogRes
	trace    []string
	step     int
	faults   int
	crashes  int
	cancels  int
	cancelMu sync.Mutex
	cancelFn map[int]context.CancelFunc
	// monitor hooks, called by the scheduler goroutine while the system is quiescent
	onReply     func(s *scenario, r plogRes)
	onQuiescent func(s *scenario)
	onRestart   func(s *scenario)
}

func discardLogger() *slog.Logger { return slog.New(slog.NewTextHandler(io.Discard, nil)) }

func (s *scenario) newInstance() {
	inst := &instance{id: len(s.insts)}
	s.insts = append(s.insts, inst)
	view := &s3View{v: s.s3, inst: inst, sc: s.sc}
	st := &storeView{Store: s.hub.inner, hub: s.hub, inst: inst, sc: s.sc}
	h := newHandler(st, view, protocol.MetadataBroker{NodeID: 1, Host: "127.0.0.1", Port: 9092}, discardLogger())
	h.flushOnAck = s.cfg.FlushOnAck
	h.autoCreateTopics = s.cfg.AutoCreate
	if s.cfg.AutoCreate {
		for _, n := range s.cfg.Topics {
			if n > h.autoCreatePartitions {
				h.autoCreatePartitions = n
			}
		}
	}
	h.logConfig.Buffer = storage.WriteBufferConfig{MaxBytes: s.cfg.BufferMaxBytes, MaxMessages: s.cfg.BufferMaxMsgs, MaxBatches: s.cfg.BufferMaxBatch}
	h.logConfig.Segment.IndexIntervalMessages = s.cfg.IndexInterval
	h.logConfig.ReadAheadSegments = s.cfg.ReadAhead
	if s.cfg.CacheBytes > 0 {
		h.cache = cache.NewSegmentCache(s.cfg.CacheBytes)
		h.logConfig.CacheEnabled = true
	} else {
		h.logConfig.CacheEnabled = false
	}
	if !s.cfg.DefaultHealth {
		h.s3Health = broker.NewS3HealthMonitor(broker.S3HealthConfig{ErrorWarn: 2, ErrorCrit: 3, LatencyWarn: time.Hour, LatencyCrit: 2 * time.Hour})
	}
	s.hs = append(s.hs, h)
	s.cur = len(s.hs) - 1
}

func newScenario(t *testing.T, cfg plogCfg) *scenario {
	s := &scenario{t: t, cfg: cfg, s3: newVS3()}
	brokerInfo := protocol.MetadataBroker{NodeID: 1, Host: "127.0.0.1", Port: 9092}
	meta := metadataForBroker(brokerInfo)
	meta.Topics = nil
	s.hub = &storeHub{inner: metadata.NewInMemoryStore(meta)}
	names := make([]string, 0, len(cfg.Topics))
	for n := range cfg.Topics {
		names = append(names, n)
	}
	sort.Strings(names)
	for _, n := range names {
		if cfg.AutoCreate {
			break
		}
		if _, err := s.hub.inner.CreateTopic(context.Background(), metadata.TopicSpec{Name: n, NumPartitions: cfg.Topics[n], ReplicationFactor: 1}); err != nil {
			t.Fatalf("create topic %q: %v", n, err)
		}
	}
	s.sc = &sched{gated: map[string]bool{}}
	for _, g := range cfg.Gated {
		s.sc.gated[g] = true
	}
	s.newInstance()
	for i, reqs := range cfg.Actors {
		s.actors = append(s.actors, &plogActor{id: i, reqs: reqs, startCh: make(chan int), doneCh: make(chan plogRes, 1)})
	}
	return s
}

func (s *scenario) faultable(kind string) bool {
	if len(s.cfg.FaultOn) == 0 {
		return kind == "upload_segment" || kind == "upload_index"
	}
	for _, k := range s.cfg.FaultOn {
		if k == kind {
			return true
		}
	}
	return false
}

// exec runs one request against handler h the way the broker's connection loop
// would (Handle → encoded response) and decodes the reply with kmsg.
func plogExec(h *handler, inst *instance, actor int, idx int, rq plogReq) plogRes {
	return plogExecCtx(context.Background(), h, inst, actor, idx, rq)
}

func plogExecCtx(parent context.Context, h *handler, inst *instance, actor int, idx int, rq plogReq) plogRes {
	ctx := context.WithValue(parent, ctxActorKey{}, actor)
	res := plogRes{Actor: actor, ReqIdx: idx, Req: rq, Inst: inst.id, Base: -1}
	defer func() {
		if p := recover(); p != nil {
			res.Err = fmt.Sprintf("panic: %v", p)
		}
	}()
	switch rq.Kind {
	case "produce":
		req := kmsg.NewPtrProduceRequest()
		req.Version = 9
		req.Acks = rq.Acks
		req.TimeoutMillis = 1000
		rt := kmsg.NewProduceRequestTopic()
		rt.Topic = rq.Topic
		rp := kmsg.NewProduceRequestTopicPartition()
		rp.Partition = rq.Partition
		rp.Records = append([]byte(nil), rq.Batch...)
		rt.Partitions = append(rt.Partitions, rp)
		req.Topics = append(req.Topics, rt)
		payload, err := h.Handle(ctx, &protocol.RequestHeader{APIKey: protocol.APIKeyProduce, APIVersion: 9, CorrelationID: int32(idx)}, req)
		if err != nil {
			res.Err = err.Error()
			return res
		}
		if payload == nil {
			res.NoReply = true
			return res
		}
		resp := kmsg.NewPtrProduceResponse()
		resp.Version = 9
		if err := resp.ReadFrom(skipRespHeader(payload, true)); err != nil {
			res.Err = "decode produce response: " + err.Error()
			return res
		}
		if len(resp.Topics) != 1 || len(resp.Topics[0].Partitions) != 1 {
			res.Err = fmt.Sprintf("produce response shape: %d topics", len(resp.Topics))
			return res
		}
		res.Code = resp.Topics[0].Partitions[0].ErrorCode
		res.Base = resp.Topics[0].Partitions[0].BaseOffset
	case "fetch":
		req := kmsg.NewPtrFetchRequest()
		req.Version = 11
		req.MaxWaitMillis = 0
		req.MaxBytes = 1 << 30
		rt := kmsg.NewFetchRequestTopic()
		rt.Topic = rq.Topic
		rp := kmsg.NewFetchRequestTopicPartition()
		rp.Partition = rq.Partition
		rp.FetchOffset = rq.Offset
		rp.PartitionMaxBytes = rq.MaxBytes
		rt.Partitions = append(rt.Partitions, rp)
		req.Topics = append(req.Topics, rt)
		payload, err := h.Handle(ctx, &protocol.RequestHeader{APIKey: protocol.APIKeyFetch, APIVersion: 11, CorrelationID: int32(idx)}, req)
		if err != nil {
			res.Err = err.Error()
			return res
		}
		resp := kmsg.NewPtrFetchResponse()
		resp.Version = 11
		if err := resp.ReadFrom(skipRespHeader(payload, false)); err != nil {
			res.Err = "decode fetch response: " + err.Error()
			return res
		}
		if len(resp.Topics) != 1 || len(resp.Topics[0].Partitions) != 1 {
			res.Err = fmt.Sprintf("fetch response shape: %d topics", len(resp.Topics))
			return res
		}
		p := resp.Topics[0].Partitions[0]
		res.Code, res.HW, res.Records = p.ErrorCode, p.HighWatermark, append([]byte(nil), p.RecordBatches...)
		res.NBytes = len(res.Records)
	case "listoffsets":
		req := kmsg.NewPtrListOffsetsRequest()
		req.Version = 4
		req.ReplicaID = -1
		rt := kmsg.NewListOffsetsRequestTopic()
		rt.Topic = rq.Topic
		rp := kmsg.NewListOffsetsRequestTopicPartition()
		rp.Partition = rq.Partition
		rp.Timestamp = rq.Offset // -1 latest, -2 earliest
		rt.Partitions = append(rt.Partitions, rp)
		req.Topics = append(req.Topics, rt)
		payload, err := h.Handle(ctx, &protocol.RequestHeader{APIKey: protocol.APIKeyListOffsets, APIVersion: 4, CorrelationID: int32(idx)}, req)
		if err != nil {
			res.Err = err.Error()
			return res
		}
		resp := kmsg.NewPtrListOffsetsResponse()
		resp.Version = 4
		if err := resp.ReadFrom(skipRespHeader(payload, false)); err != nil {
			res.Err = "decode listoffsets response: " + err.Error()
			return res
		}
		if len(resp.Topics) != 1 || len(resp.Topics[0].Partitions) != 1 {
			res.Err = "listoffsets response shape"
			return res
		}
		res.Code, res.HW = resp.Topics[0].Partitions[0].ErrorCode, resp.Topics[0].Partitions[0].Offset
	default:
		res.Err = "unknown request kind " + rq.Kind
	}
	return res
}

func skipRespHeader(payload []byte, flexible bool) []byte {
	if len(payload) < 4 {
		return nil
	}
	b := payload[4:]
	if flexible && len(b) > 0 {
		b = b[1:] // empty tagged-field section
	}
	return b
}

func (s *scenario) actorLoop(a *plogActor) {
	for idx := range a.startCh {
		h, inst := s.hs[s.cur], s.insts[s.cur]
		ctx, cancel := context.WithCancel(context.Background())
		s.cancelMu.Lock()
		if s.cancelFn == nil {
			s.cancelFn = map[int]context.CancelFunc{}
		}
		s.cancelFn[a.id] = cancel
		s.cancelMu.Unlock()
		res := plogExecCtx(ctx, h, inst, a.id, idx, a.reqs[idx])
		cancel()
		if inst.isDead() {
			res.Lost = true
		}
		a.doneCh <- res
	}
}

// run drives the scenario to completion inside the caller's synctest bubble.
func (s *scenario) run(ch chooser) {
	for _, a := range s.actors {
		go s.actorLoop(a)
	}
	maxSteps := s.cfg.MaxSteps
	if maxSteps == 0 {
		maxSteps = 400
	}
	for s.step = 0; s.step < maxSteps; s.step++ {
		synctest.Wait()
		s.collect()
		if s.onQuiescent != nil {
			s.onQuiescent(s)
		}
		type action struct {
			label string
			do    func()
		}
		var acts []action
		for _, a := range s.actors {
			a := a
			if !a.busy && a.next < len(a.reqs) {
				acts = append(acts, action{fmt.Sprintf("start:a%d#%d", a.id, a.next), func() {
					a.busy = true
					a.startCh <- a.next
					a.next++
				}})
			}
		}
		for _, op := range s.sc.snapshot() {
			op := op
			acts = append(acts, action{"ok:" + op.label(), func() { s.sc.complete(op, outOK) }})
		}
		for _, op := range s.sc.snapshot() {
			op := op
			if !s.faultable(op.Kind) {
				continue
			}
			for _, fk := range s.cfg.FaultKinds {
				fk := fk
				isCrash := fk == outCrashBefore || fk == outCrashAfter
				if isCrash && s.crashes >= s.cfg.CrashBudget {
					continue
				}
				if !isCrash && s.faults >= s.cfg.FaultBudget {
					continue
				}
				lbl := map[outcome]string{outFailBefore: "fail:", outFailAfter: "failafter:", outCrashBefore: "crashbefore:", outCrashAfter: "crashafter:"}[fk]
				acts = append(acts, action{lbl + op.label(), func() {
					if isCrash {
						s.crashes++
					} else {
						s.faults++
					}
					s.sc.complete(op, fk)
					if isCrash {
						s.restart()
					}
				}})
			}
		}
		if s.cancels < s.cfg.CancelBudget {
			byActor := map[int][]*gateOp{}
			for _, op := range s.sc.snapshot() {
				byActor[op.Actor] = append(byActor[op.Actor], op)
			}
			ids := make([]int, 0, len(byActor))
			for id := range byActor {
				ids = append(ids, id)
			}
			sort.Ints(ids)
			for _, id := range ids {
				id := id
				acts = append(acts, action{fmt.Sprintf("cancel:a%d", id), func() {
					s.cancels++
					s.cancelMu.Lock()
					cancel := s.cancelFn[id]
					s.cancelMu.Unlock()
					if cancel != nil {
						cancel()
					}
					for _, op := range s.sc.snapshot() {
						if op.Actor == id {
							s.sc.complete(op, outCanceled)
						}
					}
				}})
			}
		}
		if len(acts) == 0 {
			break
		}
		labels := make([]string, len(acts))
		for i, a := range acts {
			labels[i] = a.label
		}
		i := ch.pick(labels)
		s.trace = append(s.trace, labels[i])
		acts[i].do()
	}
	synctest.Wait()
	s.collect()
	if s.onQuiescent != nil {
		s.onQuiescent(s)
	}
}

// restart models the replacement broker: a fresh handler over the same S3
// contents and metadata store. Actors that were mid-request on the dead
// instance never get a reply.
func (s *scenario) restart() {
	synctest.Wait()
	s.collect()
	s.newInstance()
	for _, a := range s.actors {
		if a.busy {
			// its goroutine is frozen inside the dead instance; give the actor a fresh goroutine
			a.busy = false
			old := a
			s.results = append(s.results, plogRes{Actor: a.id, ReqIdx: a.next - 1, Req: a.reqs[a.next-1], Inst: s.cur - 1, Lost: true, Base: -1, Step: s.step})
			na := &plogActor{id: old.id, reqs: old.reqs, next: old.next, startCh: make(chan int), doneCh: make(chan plogRes, 1)}
			for i := range s.actors {
				if s.actors[i] == old {
					s.actors[i] = na
				}
			}
			s.orphans = append(s.orphans, old)
			go s.actorLoop(na)
		}
	}
	if s.onRestart != nil {
		s.onRestart(s)
	}
}

func (s *scenario) collect() {
	for _, a := range s.actors {
		select {
		case r := <-a.doneCh:
			a.busy = false
			r.Step = s.step
			s.results = append(s.results, r)
			if s.onReply != nil && !r.Lost {
				s.onReply(s, r)
			}
		default:
		}
	}
}

// teardown unblocks everything so that the bubble can end.
func (s *scenario) teardown() {
	for _, inst := range s.insts {
		inst.kill()
	}
	for {
		synctest.Wait()
		ops := s.sc.snapshot()
		if len(ops) == 0 {
			break
		}
		for _, op := range ops {
			s.sc.remove(op)
			op.ch <- outCrashBefore
		}
	}
	s.sc.thaw()
	synctest.Wait()
	for _, a := range append(append([]*plogActor(nil), s.actors...), s.orphans...) {
		close(a.startCh)
		select {
		case <-a.doneCh:
		default:
		}
	}
	for _, h := range s.hs {
		h.coordinator.Stop()
	}
	synctest.Wait()
}

// ---------------------------------------------------------------- reference helpers

// segObject is a parsed .kfs object.
type segObject struct {
	Key      string
	Base     int64
	Count    int32
	Last     int64
	Batches  []kbatch.Batch
	RawBatch [][]byte
	Pos      []int // byte position of each batch in the object
	Err      string
}

// parseSegment decodes a broker segment object with the reference codec:
// 32-byte header "KAFS", batches, 16-byte footer crc|last|"END!".
func parseSegment(key string, b []byte) segObject {
	o := segObject{Key: key}
	if len(b) < 48 || string(b[:4]) != "KAFS" || string(b[len(b)-4:]) != "END!" {
		o.Err = "bad segment framing"
		return o
	}
	o.Base = int64(binary.BigEndian.Uint64(b[8:16]))
	o.Count = int32(binary.BigEndian.Uint32(b[16:20]))
	o.Last = int64(binary.BigEndian.Uint64(b[len(b)-12 : len(b)-4]))
	body := b[32 : len(b)-16]
	p := 0
	for p < len(body) {
		n, err := kbatch.FrameLen(body[p:])
		if err != nil {
			o.Err = fmt.Sprintf("batch at %d: %v", 32+p, err)
			return o
		}
		x, _, _ := kbatch.Decode(body[p : p+n])
		o.Batches = append(o.Batches, x)
		o.RawBatch = append(o.RawBatch, body[p:p+n])
		o.Pos = append(o.Pos, 32+p)
		p += n
	}
	return o
}

// committedSegments returns the parsed .kfs objects of a partition that also
// have their .index object (what C01 calls "stored in an S3 segment (with its index)").
func (s *scenario) committedSegments(topic string, part int32, requireIndex bool) []segObject {
	prefix := fmt.Sprintf("default/%s/%d/", topic, part)
	var out []segObject
	for _, k := range s.s3.keys(prefix) {
		if !strings.HasSuffix(k, ".kfs") {
			continue
		}
		if requireIndex {
			if _, ok := s.s3.get(strings.TrimSuffix(k, ".kfs") + ".index"); !ok {
				continue
			}
		}
		b, _ := s.s3.get(k)
		out = append(out, parseSegment(k, b))
	}
	return out
}

// sameBatchIgnoringBase compares a stored batch with what the producer sent.
func sameBatchIgnoringBase(stored, sent []byte) bool {
	if len(stored) != len(sent) || len(sent) < 8 {
		return false
	}
	for i := 8; i < len(sent); i++ {
		if stored[i] != sent[i] {
			return false
		}
	}
	return true
}

// mkBatch builds a well-formed batch whose record values embed id (unique per scenario).
func mkBatch(rng *rand.Rand, id string, nrec int, valueBytes int) []byte {
	b := kbatch.Batch{Magic: 2, FirstTimestamp: 1000, MaxTimestamp: 1000, ProducerID: -1, ProducerEpoch: -1, BaseSequence: -1}
	for i := 0; i < nrec; i++ {
		pad := make([]byte, valueBytes)
		rng.Read(pad)
		b.Records = append(b.Records, kbatch.Record{OffsetDelta: int32(i), TimestampDelta: int64(i), Key: []byte(fmt.Sprintf("k%d", i)), Value: append([]byte(id+"#"+fmt.Sprint(i)+":"), pad...)})
	}
	return kbatch.Encode(b)
}

func traceSig(tr []string) string { return strings.Join(tr, " ") }
