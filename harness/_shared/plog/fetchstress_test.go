//go:build verif

package main

import (
	"context"
	"fmt"
	"math/rand"
	"sync"
	"testing"

	"github.com/KafScale/platform/internal/verifkit"
	"github.com/KafScale/platform/pkg/cache"
	"github.com/KafScale/platform/pkg/metadata"
	"github.com/KafScale/platform/pkg/protocol"
	"github.com/KafScale/platform/pkg/storage"
)

// runFetchStressCase: REAL goroutines (no bubble, no gates). 8 producers append to one partition at once while two
// consumers follow the log from offset 0; afterwards the whole log is read sequentially. Every reply - those taken
// while the producers ran and the final ones - is judged by judgeFetch against the reference built from ALL
// acknowledgements: whatever a fetch returns must be a contiguous run of the final acknowledged log that starts at
// a batch boundary at or before the batch holding the offset (C03) / reaches the batch holding the offset (C04).
// Interleavings are whatever the Go scheduler produces.
func runFetchStressCase(t *testing.T, r *verifkit.Run, which string, rng *rand.Rand, ci int) (sig string, nontrivial bool) {
	flushOnAck := rng.Intn(2) == 0
	bufBatches := 2 + rng.Intn(3)
	cacheBytes := []int{0, 1 << 20}[rng.Intn(2)]
	interval := []int32{1, 3, 100}[rng.Intn(3)]
	sig = fmt.Sprintf("stress flushOnAck=%v bufBatches=%d cache=%d interval=%d", flushOnAck, bufBatches, cacheBytes, interval)
	v := newVS3()
	inst := &instance{}
	brokerInfo := protocol.MetadataBroker{NodeID: 1, Host: "127.0.0.1", Port: 9092}
	meta := metadataForBroker(brokerInfo)
	meta.Topics = nil
	store := metadata.NewInMemoryStore(meta)
	if _, err := store.CreateTopic(context.Background(), metadata.TopicSpec{Name: "t", NumPartitions: 1, ReplicationFactor: 1}); err != nil {
		t.Fatal(err)
	}
	h := newHandler(store, &s3View{v: v, inst: inst}, brokerInfo, discardLogger())
	defer h.coordinator.Stop()
	h.flushOnAck = flushOnAck
	h.autoCreateTopics = false
	if flushOnAck {
		h.logConfig.Buffer = storage.WriteBufferConfig{MaxBytes: 1 << 30}
	} else {
		h.logConfig.Buffer = storage.WriteBufferConfig{MaxBatches: bufBatches}
	}
	h.logConfig.Segment.IndexIntervalMessages = interval
	h.logConfig.ReadAheadSegments = 0
	if cacheBytes > 0 {
		h.cache = cache.NewSegmentCache(cacheBytes)
		h.logConfig.CacheEnabled = true
	} else {
		h.logConfig.CacheEnabled = false
	}
	const producers, each = 8, 5
	type sent struct {
		id    string
		raw   []byte
		n     int
		base  int64
		acked bool
	}
	all := make([][]*sent, producers)
	for p := range all {
		for b := 0; b < each; b++ {
			id := fmt.Sprintf("s%d/p%d/%d", ci, p, b)
			n := 1 + rng.Intn(3)
			all[p] = append(all[p], &sent{id: id, raw: mkBatch(rng, id, n, rng.Intn(24)), n: n})
		}
	}
	acks := int16(-1)
	if !flushOnAck {
		acks = 1
	}
	type obs struct {
		o    int64
		mb   int32
		hw   int64
		rec  []byte
		when string
	}
	var omu sync.Mutex
	var observed []obs
	done := make(chan struct{})
	var wg, cwg sync.WaitGroup
	start := make(chan struct{})
	for p := 0; p < producers; p++ {
		wg.Add(1)
		go func(p int) {
			defer wg.Done()
			<-start
			for b, sb := range all[p] {
				res := plogExec(h, inst, p, b, plogReq{Kind: "produce", Topic: "t", Partition: 0, Acks: acks, Batch: sb.raw})
				if res.Err == "" && res.Code == 0 {
					sb.base, sb.acked = res.Base, true
				}
			}
		}(p)
	}
	limits := []int32{1 << 20, 150, 61, 400}
	for c := 0; c < 2; c++ {
		cwg.Add(1)
		go func(c int) {
			defer cwg.Done()
			<-start
			pos := int64(0)
			for i := 0; ; i++ {
				select {
				case <-done:
					return
				default:
				}
				mb := limits[(i+c)%len(limits)]
				f := plogExec(h, inst, 100+c, i, plogReq{Kind: "fetch", Topic: "t", Partition: 0, Offset: pos, MaxBytes: mb})
				if f.Err != "" || f.Code != 0 || len(f.Records) == 0 {
					continue
				}
				omu.Lock()
				if len(observed) < 4000 {
					observed = append(observed, obs{pos, mb, f.HW, f.Records, "while_producing"})
				}
				omu.Unlock()
				// advance like a client: past the last complete frame returned
				fr := c06FramesOf(f.Records)
				if len(fr) > 0 && fr[len(fr)-1][1] >= pos {
					pos = fr[len(fr)-1][1] + 1
				}
			}
		}(c)
	}
	close(start)
	wg.Wait()
	close(done)
	cwg.Wait()
	ref := &refLog{}
	nack := 0
	for p := range all {
		for _, sb := range all[p] {
			if sb.acked {
				ref.add(sb.id, sb.base, sb.n, sb.raw)
				nack++
			} else {
				r.Count("stress_produces_not_acknowledged", 1)
			}
		}
	}
	ref.seal()
	refs := map[string]*refLog{"t/0": ref}
	if nack != producers*each {
		// an unacknowledged batch may or may not be in the log: no complete reference, the case decides nothing
		r.Count("stress_cases_without_complete_reference", 1)
		return sig, false
	}
	// the acknowledged offsets themselves: contiguous from 0, no overlap
	next := int64(0)
	for _, f := range ref.frames {
		if f.Base != next {
			if which == "C03" {
				r.Violation("stress_acknowledged_offsets_not_contiguous", fmt.Sprintf("batch %s acknowledged at %d, expected %d", f.ID, f.Base, next), map[string]any{"case": ci, "config": sig})
			}
			return sig, true
		}
		next = f.Last + 1
	}
	judge := func(o int64, mb int32, hw int64, got []byte, how string) {
		r.Count("reads_"+how, 1)
		if vd := judgeFetch(which, ref, refs, "t/0", o, mb, hw, got); vd != nil {
			var layout []string
			for _, f := range ref.frames {
				layout = append(layout, fmt.Sprintf("%s[%d..%d]@%d+%d", f.ID, f.Base, f.Last, f.Pos, len(f.Bytes)))
			}
			var got2 []string
			for _, fr := range c06FramesOf(got) {
				got2 = append(got2, fmt.Sprintf("[%d..%d]", fr[0], fr[1]))
			}
			r.Violation(vd.Class+":concurrent_producers", vd.Why+" via "+how, map[string]any{"case": ci, "config": sig, "offset": o, "max_bytes": mb, "hw": hw, "returned_frames": got2, "log_layout": layout, "s3_keys": v.keys("default/")})
		}
	}
	for _, ob := range observed {
		judge(ob.o, ob.mb, ob.hw, ob.rec, "stress_"+ob.when)
	}
	for o := int64(0); o < ref.end(); o++ {
		for _, mb := range []int32{61, 150, 1 << 20} {
			f := plogExec(h, inst, 200, 0, plogReq{Kind: "fetch", Topic: "t", Partition: 0, Offset: o, MaxBytes: mb})
			if f.Err != "" || f.Code != 0 {
				if o < f.HW || f.Err != "" {
					judge(o, mb, f.HW, nil, fmt.Sprintf("stress_after(code=%d)", f.Code))
				}
				continue
			}
			judge(o, mb, f.HW, f.Records, "stress_after")
		}
	}
	r.Count("stress_cases_judged", 1)
	r.Count("stress_batches_acknowledged", int64(nack))
	return sig, len(observed) > 0
}

// c06FramesOf splits record bytes into [base,last] ranges of complete well-formed frames.
func c06FramesOf(rec []byte) [][2]int64 {
	var out [][2]int64
	p := 0
	for p+61 <= len(rec) {
		n := 12 + int(int32(uint32(rec[p+8])<<24|uint32(rec[p+9])<<16|uint32(rec[p+10])<<8|uint32(rec[p+11])))
		if n < 61 || p+n > len(rec) {
			break
		}
		base := int64(uint64(rec[p])<<56 | uint64(rec[p+1])<<48 | uint64(rec[p+2])<<40 | uint64(rec[p+3])<<32 | uint64(rec[p+4])<<24 | uint64(rec[p+5])<<16 | uint64(rec[p+6])<<8 | uint64(rec[p+7]))
		lod := int64(int32(uint32(rec[p+23])<<24 | uint32(rec[p+24])<<16 | uint32(rec[p+25])<<8 | uint32(rec[p+26])))
		out = append(out, [2]int64{base, base + lod})
		p += n
	}
	return out
}
