//go:build verif

package main

import (
	"fmt"
	"math/rand"
)

// c01Cfg draws one concurrent-produce scenario.
func c01Cfg(rng *rand.Rand, producers, batches int, parts int32) plogCfg {
	cfg := plogCfg{
		Topics:        map[string]int32{"t": parts},
		Gated:         []string{"upload_segment", "upload_index", "update_offsets"},
		FaultKinds:    []outcome{outFailBefore, outFailAfter},
		FaultBudget:   rng.Intn(3),
		FlushOnAck:    true,
		IndexInterval: []int32{1, 3, 100}[rng.Intn(3)],
		CacheBytes:    []int{0, 1 << 20}[rng.Intn(2)],
		MaxSteps:      600,
	}
	if parts > 1 && rng.Intn(2) == 0 {
		// the listing done by a partition log's first-touch restore becomes a scheduling point, so that requests
		// for DIFFERENT partitions can overlap inside the initialisation window
		cfg.Gated = append(cfg.Gated, "list")
	}
	if rng.Intn(3) == 0 {
		cfg.CancelBudget = 1 // one request may lose its client (context cancelled) while its uploads are in flight
	}
	switch rng.Intn(3) {
	case 0: // never auto-flush in AppendBatch
		cfg.BufferMaxBytes = 1 << 30
	case 1: // auto-flush on every append
		cfg.BufferMaxBatch = 1
	case 2:
		cfg.BufferMaxMsgs = 3
	}
	if rng.Intn(5) == 0 {
		cfg.DefaultHealth = true
	}
	if rng.Intn(4) == 0 {
		// first touch: the topic does not exist yet, the producers' first requests auto-create it and race through
		// the partition log's initialisation
		cfg.AutoCreate = true
		cfg.Gated = append(cfg.Gated, "create_topic")
	}
	for p := 0; p < producers; p++ {
		var reqs []plogReq
		for b := 0; b < batches; b++ {
			id := fmt.Sprintf("p%d/%d", p, b)
			n := 1 + rng.Intn(4)
			acks := int16(-1)
			if rng.Intn(6) == 0 {
				acks = 1
			}
			reqs = append(reqs, plogReq{Kind: "produce", Topic: "t", Partition: int32(rng.Intn(int(parts))), Acks: acks, Batch: mkBatch(rng, id, n, rng.Intn(20)), BatchID: id, NRecords: n})
		}
		cfg.Actors = append(cfg.Actors, reqs)
	}
	return cfg
}

func c01CfgSummary(cfg plogCfg) map[string]any {
	var actors [][]string
	for _, a := range cfg.Actors {
		var l []string
		for _, r := range a {
			l = append(l, fmt.Sprintf("%s %s/%d acks=%d %s n=%d", r.Kind, r.Topic, r.Partition, r.Acks, r.BatchID, r.NRecords))
		}
		actors = append(actors, l)
	}
	return map[string]any{"actors": actors, "fault_budget": cfg.FaultBudget, "buffer_max_bytes": cfg.BufferMaxBytes, "buffer_max_batches": cfg.BufferMaxBatch,
		"buffer_max_msgs": cfg.BufferMaxMsgs, "index_interval": cfg.IndexInterval, "cache_bytes": cfg.CacheBytes, "default_health": cfg.DefaultHealth, "cancel_budget": cfg.CancelBudget, "auto_create": cfg.AutoCreate, "gated": cfg.Gated}
}
