//go:build verif

package main

import (
	"bytes"
	"context"
	"encoding/binary"
	"fmt"
	"math/rand"
	"sort"
	"strings"
	"testing"
	"testing/synctest"

	"github.com/KafScale/platform/internal/verifkit"
	"github.com/KafScale/platform/pkg/cache"
	"github.com/KafScale/platform/pkg/storage"
)

// refFrame is one acknowledged batch as it must appear in the partition's log.
type refFrame struct {
	ID    string
	Base  int64
	Last  int64
	Bytes []byte // sent bytes with the acknowledged base offset patched in
	Pos   int    // byte position in the reference log
}

type refLog struct {
	frames []refFrame
	bytes  []byte
}

func (l *refLog) add(id string, base int64, nrec int, sent []byte) {
	b := append([]byte(nil), sent...)
	binary.BigEndian.PutUint64(b[0:8], uint64(base))
	l.frames = append(l.frames, refFrame{ID: id, Base: base, Last: base + int64(nrec) - 1, Bytes: b})
}

func (l *refLog) seal() {
	sort.Slice(l.frames, func(i, j int) bool { return l.frames[i].Base < l.frames[j].Base })
	l.bytes = l.bytes[:0]
	for i := range l.frames {
		l.frames[i].Pos = len(l.bytes)
		l.bytes = append(l.bytes, l.frames[i].Bytes...)
	}
}

// frameFor returns the index of the frame holding offset o, or of the first
// frame after o when o falls in a gap; -1 when o is past the end.
func (l *refLog) frameFor(o int64) int {
	for i, f := range l.frames {
		if o <= f.Last {
			return i
		}
	}
	return -1
}

func (l *refLog) end() int64 {
	if len(l.frames) == 0 {
		return 0
	}
	return l.frames[len(l.frames)-1].Last + 1
}

type fetchVerdict struct {
	Class string
	Why   string
}

// judgeFetch applies the C03 (exact bytes) or C04 (progress) oracle to one read.
// got = returned record bytes, o = requested offset, hw = high watermark the reply carried
// (or the reference end for direct PartitionLog.Read).
func judgeFetch(which string, l *refLog, others map[string]*refLog, self string, o int64, maxBytes int32, hw int64, got []byte) *fetchVerdict {
	fi := l.frameFor(o)
	switch which {
	case "C03":
		if len(got) == 0 {
			return nil
		}
		// locate the run: it must start at a frame boundary at or before the frame holding o
		start := -1
		limit := len(l.frames) - 1
		if fi >= 0 {
			limit = fi
		}
		for i := 0; i <= limit && i < len(l.frames); i++ {
			p := l.frames[i].Pos
			n := len(got)
			if p+n > len(l.bytes) {
				n = len(l.bytes) - p
			}
			if n == len(got) && bytes.Equal(l.bytes[p:p+n], got) {
				start = p
				break
			}
		}
		if start >= 0 {
			return nil
		}
		// diagnose
		for name, ol := range others {
			if name != self && len(ol.bytes) > 0 && len(got) >= 61 && bytes.Contains(ol.bytes, got[8:min(len(got), 61)]) {
				return &fetchVerdict{"returned_other_partitions_data", fmt.Sprintf("fetch %s@%d returned bytes that belong to %s", self, o, name)}
			}
		}
		if idx := bytes.Index(l.bytes, got); idx >= 0 {
			onBoundary := false
			for _, f := range l.frames {
				if f.Pos == idx {
					onBoundary = true
				}
			}
			if !onBoundary {
				return &fetchVerdict{"run_starts_mid_batch", fmt.Sprintf("fetch %s@%d max=%d returned %d bytes that start at byte %d of the log, not a batch boundary", self, o, maxBytes, len(got), idx)}
			}
			return &fetchVerdict{"run_starts_after_requested_batch", fmt.Sprintf("fetch %s@%d max=%d returned a run starting at byte %d, after the batch holding the offset", self, o, maxBytes, idx)}
		}
		return &fetchVerdict{"bytes_not_in_acknowledged_log", fmt.Sprintf("fetch %s@%d max=%d returned %d bytes that are not a contiguous run of the acknowledged log", self, o, maxBytes, len(got))}
	case "C04":
		if o >= hw || maxBytes <= 0 || fi < 0 {
			return nil
		}
		if len(got) == 0 {
			return &fetchVerdict{"empty_reply_below_high_watermark", fmt.Sprintf("fetch %s@%d max=%d (hw %d) returned no bytes and no error", self, o, maxBytes, hw)}
		}
		// where does the run start? (C03 judges exactness; here only progress). A short reply can match
		// at several batch boundaries: the reply is fine if ANY consistent placement reaches the batch.
		start := -1
		for i := fi; i >= 0; i-- {
			p := l.frames[i].Pos
			n := min(len(got), len(l.bytes)-p)
			if n > 0 && bytes.Equal(l.bytes[p:p+n], got[:n]) {
				if p+len(got) > l.frames[fi].Pos {
					return nil
				}
				if start < 0 {
					start = p
				}
			}
		}
		if start < 0 {
			return nil // not a run of this log: C03's business
		}
		return &fetchVerdict{"reply_ends_before_requested_batch", fmt.Sprintf("fetch %s@%d max=%d (hw %d) returned bytes [%d,%d) of the log but the batch holding offset %d starts at byte %d: only records before the fetch offset", self, o, maxBytes, hw, start, start+len(got), o, l.frames[fi].Pos)}
		return nil
	}
	return nil
}

type fetchCaseCfg struct {
	Mode          string // flushonack | buffered | midflush
	IndexInterval int32
	CacheBytes    int
	ReadAhead     int
	BufBatches    int
	Restart       bool
	Gap           bool // flushonack only: a middle segment loses its index, a fresh PartitionLog restored from offset 0 skips it
}

var fetchMaxBytes = []int32{1, 60, 61, 62, 100, 150, 400, 5000, 1 << 20, 0}

// runFetchCase builds a log through the real handler and sweeps reads over it.
func runFetchCase(t *testing.T, r *verifkit.Run, which string, rng *rand.Rand, ci int) (sig string, nontrivial bool) {
	fc := fetchCaseCfg{
		Mode:          []string{"flushonack", "buffered", "buffered", "midflush"}[rng.Intn(4)],
		IndexInterval: []int32{1, 3, 100}[rng.Intn(3)],
		CacheBytes:    []int{0, 0, 1 << 20, 700}[rng.Intn(4)],
		ReadAhead:     []int{0, 2}[rng.Intn(2)],
		BufBatches:    2 + rng.Intn(4),
		Restart:       rng.Intn(3) == 0,
		Gap:           rng.Intn(4) == 0,
	}
	sig = fmt.Sprintf("%+v", fc)
	synctest.Test(t, func(t *testing.T) {
		topics := map[string]int32{"t": 2, "u": 1}
		cfg := plogCfg{Topics: topics, FlushOnAck: fc.Mode != "buffered", IndexInterval: fc.IndexInterval, CacheBytes: fc.CacheBytes, ReadAhead: fc.ReadAhead, MaxSteps: 800}
		if fc.Mode == "buffered" {
			cfg.BufferMaxBatch = fc.BufBatches
		} else {
			cfg.BufferMaxBytes = 1 << 30
		}
		refs := map[string]*refLog{"t/0": {}, "t/1": {}, "u/0": {}}
		parts := []struct {
			T string
			P int32
		}{{"t", 0}, {"t", 1}, {"u", 0}}
		var reads, viol int
		judge := func(s *scenario, key string, o int64, mb int32, hw int64, got []byte, how string) {
			reads++
			r.Count("reads_"+how, 1)
			if v := judgeFetch(which, refs[key], refs, key, o, mb, hw, got); v != nil {
				viol++
				cls := v.Class
				if which == "C04" {
					if fc.IndexInterval > 1 {
						cls += ":sparse_index"
					} else {
						cls += ":dense_index"
					}
				}
				var layout []string
				for _, f := range refs[key].frames {
					layout = append(layout, fmt.Sprintf("%s[%d..%d]@%d+%d", f.ID, f.Base, f.Last, f.Pos, len(f.Bytes)))
				}
				r.Violation(cls, v.Why+" via "+how, map[string]any{"case": ci, "config": fmt.Sprintf("%+v", fc), "partition": key, "offset": o, "max_bytes": mb, "hw": hw, "returned_bytes": len(got), "log_layout": layout, "s3_keys": s.s3.keys("default/")})
			}
		}
		if fc.Mode == "midflush" {
			// producers and fetchers under the scheduler: reads happen while uploads are held at the gate
			cfg.Gated = []string{"upload_segment", "upload_index", "list"}
			var prod [][]plogReq
			np := 2 + rng.Intn(2)
			for p := 0; p < np; p++ {
				var reqs []plogReq
				for b := 0; b < 2+rng.Intn(2); b++ {
					id := fmt.Sprintf("c%d/p%d/%d", ci, p, b)
					n := 1 + rng.Intn(4)
					reqs = append(reqs, plogReq{Kind: "produce", Topic: "t", Partition: int32(rng.Intn(2)), Acks: -1, Batch: mkBatch(rng, id, n, rng.Intn(30)), BatchID: id, NRecords: n})
				}
				prod = append(prod, reqs)
			}
			cfg.Actors = prod
			// one fetcher actor issuing reads at offsets that exist only once acked; requests are generated lazily below
			var fetchReqs []plogReq
			for i := 0; i < 12; i++ {
				fetchReqs = append(fetchReqs, plogReq{Kind: "fetch", Topic: "t", Partition: int32(rng.Intn(2)), Offset: int64(rng.Intn(12)), MaxBytes: fetchMaxBytes[rng.Intn(len(fetchMaxBytes)-1)]})
			}
			cfg.Actors = append(cfg.Actors, fetchReqs)
			s := newScenario(t, cfg)
			var fetched []plogRes
			inWindow := false
			s.onReply = func(s *scenario, res plogRes) {
				if res.Err != "" || res.Code != 0 {
					return
				}
				switch res.Req.Kind {
				case "produce":
					refs[fmt.Sprintf("t/%d", res.Req.Partition)].add(res.Req.BatchID, res.Base, res.Req.NRecords, res.Req.Batch)
				case "fetch":
					fetched = append(fetched, res)
					if len(s.sc.snapshot()) > 0 {
						inWindow = true
						if len(res.Records) > 0 {
							r.Count("nonempty_fetch_replies_while_upload_pending", 1)
						}
					}
				}
			}
			s.run(&rngChooser{rng: rng})
			// judge mid-run fetches against the FINAL reference: a fetch may only ever return acked-or-in-flight
			// appended frames, all of which are in the final log (no faults here, every produce is acked)
			refs["t/0"].seal()
			refs["t/1"].seal()
			for _, f := range fetched {
				judge(s, fmt.Sprintf("t/%d", f.Req.Partition), f.Req.Offset, f.Req.MaxBytes, f.HW, f.Records, "handler_fetch_during_flush")
			}
			if inWindow {
				r.Count("cases_with_read_while_upload_pending", 1)
			}
			s.sc.gated = map[string]bool{}
			sweep(s, r, rng, parts[:2], refs, fc, judge)
			s.teardown()
		} else {
			s := newScenario(t, cfg)
			nb := 4 + rng.Intn(10)
			for b := 0; b < nb; b++ {
				pt := parts[rng.Intn(len(parts))]
				id := fmt.Sprintf("c%d/%s%d/%d", ci, pt.T, pt.P, b)
				n := 1 + rng.Intn(5)
				acks := int16(-1)
				if fc.Mode == "buffered" {
					acks = 1
				}
				raw := mkBatch(rng, id, n, rng.Intn(40))
				res := plogExec(s.hs[s.cur], s.insts[s.cur], 0, b, plogReq{Kind: "produce", Topic: pt.T, Partition: pt.P, Acks: acks, Batch: raw})
				if res.Err != "" || res.Code != 0 {
					t.Fatalf("setup produce failed: %+v", res)
				}
				refs[fmt.Sprintf("%s/%d", pt.T, pt.P)].add(id, res.Base, n, raw)
				if fc.Restart && fc.Mode == "flushonack" && b == nb/2 {
					s.insts[s.cur].kill()
					s.newInstance()
					r.Count("restarts", 1)
				}
			}
			for _, l := range refs {
				l.seal()
			}
			sweep(s, r, rng, parts[:], refs, fc, judge)
			if fc.Gap && fc.Mode == "flushonack" {
				// A hole in the middle of the log: one middle segment loses its .index (sometimes the .kfs too); a
				// PartitionLog opened from offset 0 (metadata store lost / rebuilt) skips it as an orphan. Offsets
				// inside the hole must be answered from the first batch after it.
				for _, pt := range parts {
					key := fmt.Sprintf("%s/%d", pt.T, pt.P)
					l := refs[key]
					if len(l.frames) < 3 {
						continue
					}
					j := 1 + rng.Intn(len(l.frames)-2)
					gone := l.frames[j]
					idxKey := fmt.Sprintf("default/%s/%d/segment-%020d.index", pt.T, pt.P, gone.Base)
					s.s3.mu.Lock()
					delete(s.s3.objects, idxKey)
					if rng.Intn(2) == 0 {
						delete(s.s3.objects, strings.TrimSuffix(idxKey, ".index")+".kfs")
					}
					s.s3.mu.Unlock()
					gl := &refLog{}
					for i, f := range l.frames {
						if i != j {
							gl.frames = append(gl.frames, f)
						}
					}
					gl.seal()
					grefs := map[string]*refLog{key: gl}
					var c *cache.SegmentCache
					if fc.CacheBytes > 0 {
						c = cache.NewSegmentCache(fc.CacheBytes)
					}
					plog := storage.NewPartitionLog("default", pt.T, pt.P, 0, &s3View{v: s.s3, inst: &instance{id: 77}}, c,
						storage.PartitionLogConfig{Buffer: storage.WriteBufferConfig{MaxBytes: 1 << 30}, Segment: storage.SegmentWriterConfig{IndexIntervalMessages: fc.IndexInterval}, ReadAheadSegments: fc.ReadAhead, CacheEnabled: c != nil, Logger: discardLogger()}, nil, nil, nil)
					if _, err := plog.RestoreFromS3(context.Background()); err != nil {
						r.Count("gap_restore_errors", 1)
						continue
					}
					r.Count("gap_logs_restored", 1)
					for o := gl.frames[0].Base; o < gl.end(); o++ {
						for _, mb := range []int32{1, 61, 150, 5000, 1 << 20} {
							got, rerr := plog.Read(context.Background(), o, mb)
							if rerr != nil {
								continue
							}
							inGap := o >= gone.Base && o <= gone.Last
							how := "partitionlog_read_after_restore"
							if inGap {
								how = "partitionlog_read_in_gap"
							}
							reads++
							r.Count("reads_"+how, 1)
							if v := judgeFetch(which, gl, grefs, key, o, mb, gl.end(), got); v != nil {
								var layout []string
								for _, f := range gl.frames {
									layout = append(layout, fmt.Sprintf("%s[%d..%d]@%d+%d", f.ID, f.Base, f.Last, f.Pos, len(f.Bytes)))
								}
								r.Violation(v.Class+":log_with_gap", v.Why+" via "+how, map[string]any{"case": ci, "config": fmt.Sprintf("%+v", fc), "partition": key, "offset": o, "max_bytes": mb, "gap": []int64{gone.Base, gone.Last}, "log_layout": layout})
							}
						}
					}
				}
			}
			s.teardown()
		}
		nontrivial = reads > 20
		if fc.IndexInterval > 1 {
			r.Count("cases_sparse_index", 1)
		}
		if fc.CacheBytes > 0 {
			r.Count("cases_cache_on", 1)
		}
	})
	return
}

// sweep reads every offset of every partition with every byte limit, through
// the handler's Fetch and directly through PartitionLog.Read.
func sweep(s *scenario, r *verifkit.Run, rng *rand.Rand, parts []struct {
	T string
	P int32
}, refs map[string]*refLog, fc fetchCaseCfg, judge func(s *scenario, key string, o int64, mb int32, hw int64, got []byte, how string)) {
	h, inst := s.hs[s.cur], s.insts[s.cur]
	for _, pt := range parts {
		key := fmt.Sprintf("%s/%d", pt.T, pt.P)
		l := refs[key]
		if len(l.frames) == 0 {
			continue
		}
		for o := l.frames[0].Base; o < l.end(); o++ {
			for _, mb := range fetchMaxBytes {
				if rng.Intn(3) != 0 && mb != 61 && mb != 150 { // thin the matrix, keep the limits that matter most
					continue
				}
				f := plogExec(h, inst, 50, 0, plogReq{Kind: "fetch", Topic: pt.T, Partition: pt.P, Offset: o, MaxBytes: mb})
				if f.Err != "" {
					r.Violation("fetch_handler_error", "fetch failed: "+f.Err, map[string]any{"partition": key, "offset": o, "max_bytes": mb})
					continue
				}
				if f.Code != 0 {
					r.Count("fetch_error_codes", 1)
					if o < f.HW {
						judge(s, key, o, mb, f.HW, nil, fmt.Sprintf("handler_fetch(code=%d)", f.Code))
					}
					continue
				}
				judge(s, key, o, mb, f.HW, f.Records, "handler_fetch")
				if plog, err := h.getPartitionLog(context.Background(), pt.T, pt.P); err == nil {
					got, rerr := plog.Read(context.Background(), o, mb)
					if rerr == nil {
						judge(s, key, o, mb, l.end(), got, "partitionlog_read")
					}
				}
			}
		}
	}
}

var _ = strings.Join
