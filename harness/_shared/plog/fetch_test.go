//go:build verif

package main

import (
	"bytes"
	"context"
	"encoding/binary"
	"fmt"
	"math/rand"
	"sort"
	"strings"
	"testing"
	"testing/synctest"

	"github.com/KafScale/platform/internal/verifkit"
	"github.com/KafScale/platform/pkg/cache"
	"github.com/KafScale/platform/pkg/storage"
)

// refFrame is one acknowledged batch as it must appear in the partition's log.
type refFrame struct {
	ID    string
	Base  int64
	Last  int64
	Bytes []byte // sent bytes with the acknowledged base offset patched in
	Pos   int    // byte position in the reference log
}

type refLog struct {
	frames []refFrame
	bytes  []byte
}

func (l *refLog) add(id string, base int64, nrec int, sent []byte) {
	b := append([]byte(nil), sent...)
	binary.BigEndian.PutUint64(b[0:8], uint64(base))
	l.frames = append(l.frames, refFrame{ID: id, Base: base, Last: base + int64(nrec) - 1, Bytes: b})
}

func (l *refLog) seal() {
	sort.Slice(l.frames, func(i, j int) bool { return l.frames[i].Base < l.frames[j].Base })
	l.bytes = l.bytes[:0]
	for i := range l.frames {
		l.frames[i].Pos = len(l.bytes)
		l.bytes = append(l.bytes, l.frames[i].Bytes...)
	}
}

// frameFor returns the index of the frame holding offset o, or of the first
// frame after o when o falls in a gap; -1 when o is past the end.
func (l *refLog) frameFor(o int64) int {
	for i, f := range l.frames {
		if o <= f.Last {
			return i
		}
	}
	return -1
}

func (l *refLog) end() int64 {
	if len(l.frames) == 0 {
		return 0
	}
	return l.frames[len(l.frames)-1].Last + 1
}

type fetchVerdict struct {
	Class string
	Why   string
}

// judgeFetch applies the C03 (exact bytes) or C04 (progress) oracle to one read.
// got = returned record bytes, o = requested offset, hw = high watermark the reply carried
// (or the reference end for direct PartitionLog.Read).
func judgeFetch(which string, l *refLog, others map[string]*refLog, self string, o int64, maxBytes int32, hw int64, got []byte) *fetchVerdict {
	fi := l.frameFor(o)
	switch which {
	case "C03":
		if len(got) == 0 {
			return nil
		}
		// locate the run: it must start at a frame boundary at or before the frame holding o
		start := -1
		limit := len(l.frames) - 1
		if fi >= 0 {
			limit = fi
		}
		for i := 0; i <= limit && i < len(l.frames); i++ {
			p := l.frames[i].Pos
			n := len(got)
			if p+n > len(l.bytes) {
				n = len(l.bytes) - p
			}
			if n == len(got) && bytes.Equal(l.bytes[p:p+n], got) {
				start = p
				break
			}
		}
		if start >= 0 {
			return nil
		}
		// diagnose
		for name, ol := range others {
			if name != self && len(ol.bytes) > 0 && len(got) >= 61 && bytes.Contains(ol.bytes, got[8:min(len(got), 61)]) {
				return &fetchVerdict{"returned_other_partitions_data", fmt.Sprintf("fetch %s@%d returned bytes that belong to %s", self, o, name)}
			}
		}
		if idx := bytes.Index(l.bytes, got); idx >= 0 {
			onBoundary := false
			for _, f := range l.frames {
				if f.Pos == idx {
					onBoundary = true
				}
			}
			if !onBoundary {
				return &fetchVerdict{"run_starts_mid_batch", fmt.Sprintf("fetch %s@%d max=%d returned %d bytes that start at byte %d of the log, not a batch boundary", self, o, maxBytes, len(got), idx)}
			}
			return &fetchVerdict{"run_starts_after_requested_batch", fmt.Sprintf("fetch %s@%d max=%d returned a run starting at byte %d, after the batch holding the offset", self, o, maxBytes, idx)}
		}
		return &fetchVerdict{"bytes_not_in_acknowledged_log", fmt.Sprintf("fetch %s@%d max=%d returned %d bytes that are not a contiguous run of the acknowledged log", self, o, maxBytes, len(got))}
	case "C04":
		if o >= hw || maxBytes <= 0 || fi < 0 {
			return nil
		}
		if len(got) == 0 {
			return &fetchVerdict{"empty_reply_below_high_watermark", fmt.Sprintf("fetch %s@%d max=%d (hw %d) returned no bytes and no error", self, o, maxBytes, hw)}
		}
		// where does the run start? (C03 judges exactness; here only progress). A short reply can match
		// at several batch boundaries: the reply is fine if ANY consistent placement reaches the batch.
		start := -1
		for i := fi; i >= 0; i-- {
			p := l.frames[i].Pos
			n := min(len(got), len(l.bytes)-p)
			if n > 0 && bytes.Equal(l.bytes[p:p+n], got[:n]) {
				if p+len(got) > l.frames[fi].Pos {
					return nil
				}
				if start < 0 {
					start = p
				}
			}
		}
		if start < 0 {
			// a run of this log that begins at a later batch boundary: the start of the batch holding o is not in the reply
			for i := fi + 1; i < len(l.frames); i++ {
				p := l.frames[i].Pos
				n := min(len(got), len(l.bytes)-p)
				if n >= 61 && bytes.Equal(l.bytes[p:p+n], got[:n]) {
					return &fetchVerdict{"reply_starts_after_requested_batch", fmt.Sprintf("fetch %s@%d max=%d (hw %d) returned a run that starts at byte %d of the log (batch %s at offset %d) but the batch holding offset %d starts at byte %d: the consumer skips it", self, o, maxBytes, hw, p, l.frames[i].ID, l.frames[i].Base, o, l.frames[fi].Pos)}
				}
			}
			return nil // not a run of this log: C03's business
		}
		return &fetchVerdict{"reply_ends_before_requested_batch", fmt.Sprintf("fetch %s@%d max=%d (hw %d) returned bytes [%d,%d) of the log but the batch holding offset %d starts at byte %d: only records before the fetch offset", self, o, maxBytes, hw, start, start+len(got), o, l.frames[fi].Pos)}
		return nil
	}
	return nil
}

type fetchCaseCfg struct {
	Mode          string // flushonack | buffered | midflush
	IndexInterval int32
	CacheBytes    int
	ReadAhead     int
	BufBatches    int
	Restart       bool
	Gap           bool // flushonack only: a middle segment loses its index, a fresh PartitionLog restored from offset 0 skips it
	UploadFaults  int  // midflush only: how many segment/index uploads may fail (without effect) during the scheduled run
	FaultProb     float64
	MidBuffered   bool // midflush only: KAFSCALE_PRODUCE_SYNC_FLUSH=false - flushes are append-triggered (buffer of BufBatches batches), acks do not wait for them and the fetch watermark covers buffered and in-flight batches
}

// sentBatch is one batch a producer of the mid-flush mode sent, with what became of it.
type sentBatch struct {
	ID, Key    string
	Raw        []byte
	N          int
	Replied    bool
	Acked      bool
	AckBase    int64
	Stored     int // occurrences in the final stored log
	StoredBase int64
}

// obsChooser lets a monitor see the action the inner chooser picked; prefer (optional) names labels the workload
// wants to reach more often than a uniform draw would (taken with probability 1/2 when present).
type obsChooser struct {
	inner  chooser
	rng    *rand.Rand
	prefer func(label string) bool
	on     func(label string)
}

func (c *obsChooser) pick(labels []string) int {
	var pref []int
	if c.prefer != nil {
		for i, l := range labels {
			if c.prefer(l) {
				pref = append(pref, i)
			}
		}
	}
	i := -1
	if len(pref) > 0 && c.rng.Intn(2) == 0 {
		i = pref[c.rng.Intn(len(pref))]
	} else {
		i = c.inner.pick(labels)
	}
	c.on(labels[i])
	return i
}

// uploadSegID names the flush a pending upload belongs to: "<topic>/<partition>/<segment base>".
func uploadSegID(key string) (id string, part string) {
	k := strings.TrimSuffix(strings.TrimSuffix(key, ".kfs"), ".index")
	f := strings.Split(k, "/")
	if len(f) < 4 {
		return k, ""
	}
	return strings.Join(f[1:], "/"), f[1] + "/" + f[2]
}

var fetchMaxBytes = []int32{1, 60, 61, 62, 100, 150, 400, 5000, 1 << 20, 0}

// runFetchCase builds a log through the real handler and sweeps reads over it.
func runFetchCase(t *testing.T, r *verifkit.Run, which string, rng *rand.Rand, ci int) (sig string, nontrivial bool) {
	fc := fetchCaseCfg{
		Mode:          []string{"flushonack", "buffered", "buffered", "midflush"}[rng.Intn(4)],
		IndexInterval: []int32{1, 3, 100}[rng.Intn(3)],
		CacheBytes:    []int{0, 0, 1 << 20, 700}[rng.Intn(4)],
		ReadAhead:     []int{0, 2}[rng.Intn(2)],
		BufBatches:    2 + rng.Intn(7),
		Restart:       rng.Intn(3) == 0,
		Gap:           rng.Intn(4) == 0,
	}
	if fc.Mode == "midflush" && rng.Intn(3) > 0 {
		fc.UploadFaults = 1
		fc.FaultProb = []float64{0, 0.03, 0.1}[rng.Intn(3)] // on top of this, the failure of a flush that an append overlapped is preferred
	}
	if fc.Mode == "midflush" && fc.UploadFaults == 0 && rng.Intn(2) == 0 {
		fc.MidBuffered = true
		fc.BufBatches = 2 + rng.Intn(2)
	}
	sig = fmt.Sprintf("%+v", fc)
	synctest.Test(t, func(t *testing.T) {
		topics := map[string]int32{"t": 2, "u": 1}
		cfg := plogCfg{Topics: topics, FlushOnAck: fc.Mode != "buffered" && !fc.MidBuffered, IndexInterval: fc.IndexInterval, CacheBytes: fc.CacheBytes, ReadAhead: fc.ReadAhead, MaxSteps: 800}
		if fc.Mode == "buffered" || fc.MidBuffered {
			cfg.BufferMaxBatch = fc.BufBatches
		} else {
			cfg.BufferMaxBytes = 1 << 30
		}
		refs := map[string]*refLog{"t/0": {}, "t/1": {}, "u/0": {}}
		parts := []struct {
			T string
			P int32
		}{{"t", 0}, {"t", 1}, {"u", 0}}
		var reads, viol int
		judge := func(s *scenario, key string, o int64, mb int32, hw int64, got []byte, how string) {
			reads++
			r.Count("reads_"+how, 1)
			if v := judgeFetch(which, refs[key], refs, key, o, mb, hw, got); v != nil {
				viol++
				cls := v.Class
				if which == "C04" {
					if fc.IndexInterval > 1 {
						cls += ":sparse_index"
					} else {
						cls += ":dense_index"
					}
				}
				var layout []string
				for _, f := range refs[key].frames {
					layout = append(layout, fmt.Sprintf("%s[%d..%d]@%d+%d", f.ID, f.Base, f.Last, f.Pos, len(f.Bytes)))
				}
				r.Violation(cls, v.Why+" via "+how, map[string]any{"case": ci, "config": fmt.Sprintf("%+v", fc), "partition": key, "offset": o, "max_bytes": mb, "hw": hw, "returned_bytes": len(got), "log_layout": layout, "s3_keys": s.s3.keys("default/"), "schedule": s.trace})
			}
		}
		if fc.Mode == "midflush" {
			// producers and fetchers under the scheduler: reads happen while uploads are held at the gate
			cfg.Gated = []string{"upload_segment", "upload_index", "list"}
			var prod [][]plogReq
			np := 2 + rng.Intn(2)
			for p := 0; p < np; p++ {
				var reqs []plogReq
				nb := 2 + rng.Intn(2)
				if fc.MidBuffered {
					nb += 2
				}
				for b := 0; b < nb; b++ {
					id := fmt.Sprintf("c%d/p%d/%d", ci, p, b)
					n := 1 + rng.Intn(4)
					reqs = append(reqs, plogReq{Kind: "produce", Topic: "t", Partition: int32(rng.Intn(2)), Acks: -1, Batch: mkBatch(rng, id, n, rng.Intn(30)), BatchID: id, NRecords: n})
				}
				prod = append(prod, reqs)
			}
			cfg.Actors = prod
			// one fetcher actor issuing reads at offsets that exist only once acked; requests are generated lazily below
			var fetchReqs []plogReq
			for i := 0; i < 12; i++ {
				fetchReqs = append(fetchReqs, plogReq{Kind: "fetch", Topic: "t", Partition: int32(rng.Intn(2)), Offset: int64(rng.Intn(12)), MaxBytes: fetchMaxBytes[rng.Intn(len(fetchMaxBytes)-1)]})
			}
			cfg.Actors = append(cfg.Actors, fetchReqs)
			faulty := fc.UploadFaults > 0
			if faulty {
				// uploads may fail without effect: the produce that flushed is answered with an error, the log requeues
				// the drained batches and a later flush stores them (together with whatever was appended meanwhile)
				cfg.FaultKinds = []outcome{outFailBefore}
				cfg.FaultBudget = fc.UploadFaults
			}
			s := newScenario(t, cfg)
			sent := map[string]*sentBatch{}
			var sentOrder []*sentBatch
			for _, reqs := range prod {
				for _, rq := range reqs {
					sb := &sentBatch{ID: rq.BatchID, Key: fmt.Sprintf("t/%d", rq.Partition), Raw: rq.Batch, N: rq.NRecords}
					sent[rq.BatchID] = sb
					sentOrder = append(sentOrder, sb)
				}
			}
			var fetched []plogRes
			inWindow := false
			s.onReply = func(s *scenario, res plogRes) {
				if res.Req.Kind == "produce" {
					if sb := sent[res.Req.BatchID]; sb != nil {
						sb.Replied = true
						if res.Err != "" || res.Code != 0 {
							r.Count("midflush_produces_answered_with_error", 1)
							r.Seen("midflush_produce_errors", fmt.Sprintf("code=%d err=%q", res.Code, res.Err))
						}
					}
				}
				if res.Err != "" || res.Code != 0 {
					return
				}
				switch res.Req.Kind {
				case "produce":
					if faulty {
						sb := sent[res.Req.BatchID]
						sb.Acked, sb.AckBase = true, res.Base
					} else {
						refs[fmt.Sprintf("t/%d", res.Req.Partition)].add(res.Req.BatchID, res.Base, res.Req.NRecords, res.Req.Batch)
					}
				case "fetch":
					fetched = append(fetched, res)
					if len(s.sc.snapshot()) > 0 {
						inWindow = true
						if len(res.Records) > 0 {
							r.Count("nonempty_fetch_replies_while_upload_pending", 1)
						}
					}
				}
			}
			// evidence only: was a produce for the partition started while one of its flushes was at the upload gate,
			// and did that flush's upload then fail?
			pendingFlush := map[string]string{} // flush id -> partition
			overlapped := map[string]bool{}
			watch := func(s *scenario) {
				cur := map[string]string{}
				for _, op := range s.sc.snapshot() {
					if op.Kind == "upload_segment" || op.Kind == "upload_index" {
						id, part := uploadSegID(op.Key)
						cur[id] = part
					}
				}
				for id := range overlapped {
					if _, ok := cur[id]; !ok {
						delete(overlapped, id)
					}
				}
				pendingFlush = cur
			}
			var ch chooser = &rngChooser{rng: rng, faultProb: fc.FaultProb}
			if faulty {
				s.onQuiescent = watch
				flushOfFail := func(label string) string {
					if !strings.HasPrefix(label, "fail:") {
						return ""
					}
					for _, op := range s.sc.snapshot() {
						if "fail:"+op.label() == label {
							id, _ := uploadSegID(op.Key)
							return id
						}
					}
					return ""
				}
				ch = &obsChooser{inner: ch, rng: rng, prefer: func(label string) bool { id := flushOfFail(label); return id != "" && overlapped[id] }, on: func(label string) {
					var a, idx int
					if n, _ := fmt.Sscanf(label, "start:a%d#%d", &a, &idx); n == 2 {
						if a < len(prod) && idx < len(prod[a]) {
							part := fmt.Sprintf("t/%d", prod[a][idx].Partition)
							for id, p := range pendingFlush {
								if p == part {
									overlapped[id] = true
								}
							}
						}
						return
					}
					if strings.HasPrefix(label, "fail:") {
						r.Count("midflush_upload_failures_injected", 1)
						if id := flushOfFail(label); id != "" {
							if overlapped[id] {
								r.Count("midflush_failed_uploads_of_a_flush_overlapped_by_an_append", 1)
							}
							delete(overlapped, id)
						}
					}
				}}
			}
			s.run(ch)
			s.onQuiescent = nil
			if faulty {
				r.Count("midflush_cases_with_upload_fault_budget", 1)
				// let whatever is still held at a gate finish, then store what the log still buffers (a failed flush that
				// nobody retried leaves its batches in the write buffer): the reference is the FINAL STORED log
				for g := 0; g < 50 && len(s.sc.snapshot()) > 0; g++ {
					for _, op := range s.sc.snapshot() {
						s.sc.complete(op, outOK)
					}
					synctest.Wait()
					s.collect()
				}
				s.sc.gated = map[string]bool{}
				flushOK := true
				for p := int32(0); p < 2; p++ {
					plog, err := s.hs[s.cur].getPartitionLog(context.Background(), "t", p)
					if err == nil {
						err = plog.Flush(context.Background())
					}
					if err != nil {
						flushOK = false
						r.Inconclusive(fmt.Sprintf("case %d: final flush of t/%d failed: %v", ci, p, err))
					}
				}
				synctest.Wait()
				s.collect()
				if !flushOK { // no reference without the final stored log: the case decides nothing
					s.teardown()
					return
				}
				// Every batch a producer sent and that is found in the stored log belongs to the reference, whether its
				// produce was acknowledged or answered with an error (the log keeps such batches and stores them later).
				// Stored frames are matched with sent batches ignoring the 8-byte base offset.
				anomaly := func(class, why string, extra map[string]any) {
					if which != "C03" || !flushOK {
						return
					}
					extra["case"], extra["config"], extra["schedule"], extra["s3_keys"] = ci, fmt.Sprintf("%+v", fc), s.trace, s.s3.keys("default/")
					var prods []string
					for _, sb := range sentOrder {
						prods = append(prods, fmt.Sprintf("%s -> %s replied=%v acked=%v base=%d stored=%dx at %d", sb.ID, sb.Key, sb.Replied, sb.Acked, sb.AckBase, sb.Stored, sb.StoredBase))
					}
					extra["sent_batches"] = prods
					r.Violation(class, why, extra)
				}
				for p := int32(0); p < 2; p++ {
					key := fmt.Sprintf("t/%d", p)
					segs := s.committedSegments("t", p, true)
					sort.Slice(segs, func(i, j int) bool { return segs[i].Base < segs[j].Base })
					for _, seg := range segs {
						if seg.Err != "" {
							anomaly("stored_log_is_not_a_sequence_of_batches", fmt.Sprintf("segment %s of %s cannot be split into batches: %s", seg.Key, key, seg.Err), map[string]any{})
							continue
						}
						for _, raw := range seg.RawBatch {
							base := int64(binary.BigEndian.Uint64(raw[0:8]))
							var m *sentBatch
							for _, sb := range sentOrder {
								if sameBatchIgnoringBase(raw, sb.Raw) {
									m = sb
									break
								}
							}
							switch {
							case m == nil:
								anomaly("stored_bytes_that_no_producer_appended", fmt.Sprintf("%s holds a %d-byte frame at offset %d in %s that matches no batch any producer sent", key, len(raw), base, seg.Key), map[string]any{})
							case m.Key != key:
								anomaly("stored_other_partitions_batch", fmt.Sprintf("%s holds batch %s at offset %d, which was produced to %s", key, m.ID, base, m.Key), map[string]any{})
							default:
								m.Stored++
								if m.Stored == 1 {
									m.StoredBase = base
								} else {
									anomaly("appended_batch_stored_more_than_once", fmt.Sprintf("%s holds batch %s at offset %d and again at offset %d (%s): a fetch returns bytes that were appended once, twice", key, m.ID, m.StoredBase, base, seg.Key), map[string]any{})
								}
							}
						}
					}
				}
				for _, sb := range sentOrder {
					switch {
					case sb.Acked:
						if sb.Stored == 0 {
							anomaly("acknowledged_batch_not_in_the_log", fmt.Sprintf("batch %s was acknowledged at offset %d of %s but the final log does not hold it", sb.ID, sb.AckBase, sb.Key), map[string]any{})
						} else if sb.StoredBase != sb.AckBase {
							anomaly("acknowledged_batch_at_another_offset", fmt.Sprintf("batch %s was acknowledged at offset %d of %s but the log holds it at offset %d", sb.ID, sb.AckBase, sb.Key, sb.StoredBase), map[string]any{})
						}
						refs[sb.Key].add(sb.ID, sb.AckBase, sb.N, sb.Raw)
					case sb.Stored > 0:
						r.Count("midflush_unacknowledged_batches_found_stored", 1)
						refs[sb.Key].add(sb.ID, sb.StoredBase, sb.N, sb.Raw)
					case sb.Replied:
						r.Count("midflush_refused_batches_not_in_the_log", 1) // refused before the append (e.g. back-pressure): fine
					}
				}
			}
			// judge mid-run fetches against the FINAL reference: a fetch may only ever return acked-or-in-flight
			// appended frames, all of which are in the final log (without faults every produce is acked; with faults the
			// reference was completed from the stored log above)
			refs["t/0"].seal()
			refs["t/1"].seal()
			for _, f := range fetched {
				judge(s, fmt.Sprintf("t/%d", f.Req.Partition), f.Req.Offset, f.Req.MaxBytes, f.HW, f.Records, "handler_fetch_during_flush")
			}
			if inWindow {
				r.Count("cases_with_read_while_upload_pending", 1)
				if fc.MidBuffered {
					r.Count("cases_with_read_while_upload_pending_and_acks_not_waiting_for_the_flush", 1)
				}
			}
			s.sc.gated = map[string]bool{}
			sweep(s, r, rng, parts[:2], refs, fc, judge)
			s.teardown()
		} else {
			s := newScenario(t, cfg)
			nb := 4 + rng.Intn(10)
			if fc.Mode == "buffered" {
				nb += rng.Intn(24) // segments of up to BufBatches batches: several sparse-index entries per segment
			}
			for b := 0; b < nb; b++ {
				pt := parts[rng.Intn(len(parts))]
				id := fmt.Sprintf("c%d/%s%d/%d", ci, pt.T, pt.P, b)
				n := 1 + rng.Intn(5)
				acks := int16(-1)
				if fc.Mode == "buffered" {
					acks = 1
				}
				raw := mkBatch(rng, id, n, rng.Intn(40))
				res := plogExec(s.hs[s.cur], s.insts[s.cur], 0, b, plogReq{Kind: "produce", Topic: pt.T, Partition: pt.P, Acks: acks, Batch: raw})
				if res.Err != "" || res.Code != 0 {
					t.Fatalf("setup produce failed: %+v", res)
				}
				refs[fmt.Sprintf("%s/%d", pt.T, pt.P)].add(id, res.Base, n, raw)
				if fc.Restart && fc.Mode == "flushonack" && b == nb/2 {
					s.insts[s.cur].kill()
					s.newInstance()
					r.Count("restarts", 1)
				}
			}
			for _, l := range refs {
				l.seal()
			}
			sweep(s, r, rng, parts[:], refs, fc, judge)
			if fc.Gap && fc.Mode == "flushonack" {
				// A hole in the middle of the log: one middle segment loses its .index (sometimes the .kfs too); a
				// PartitionLog opened from offset 0 (metadata store lost / rebuilt) skips it as an orphan. Offsets
				// inside the hole must be answered from the first batch after it.
				for _, pt := range parts {
					key := fmt.Sprintf("%s/%d", pt.T, pt.P)
					l := refs[key]
					if len(l.frames) < 3 {
						continue
					}
					j := 1 + rng.Intn(len(l.frames)-2)
					gone := l.frames[j]
					idxKey := fmt.Sprintf("default/%s/%d/segment-%020d.index", pt.T, pt.P, gone.Base)
					s.s3.mu.Lock()
					delete(s.s3.objects, idxKey)
					if rng.Intn(2) == 0 {
						delete(s.s3.objects, strings.TrimSuffix(idxKey, ".index")+".kfs")
					}
					s.s3.mu.Unlock()
					gl := &refLog{}
					for i, f := range l.frames {
						if i != j {
							gl.frames = append(gl.frames, f)
						}
					}
					gl.seal()
					grefs := map[string]*refLog{key: gl}
					var c *cache.SegmentCache
					if fc.CacheBytes > 0 {
						c = cache.NewSegmentCache(fc.CacheBytes)
					}
					plog := storage.NewPartitionLog("default", pt.T, pt.P, 0, &s3View{v: s.s3, inst: &instance{id: 77}}, c,
						storage.PartitionLogConfig{Buffer: storage.WriteBufferConfig{MaxBytes: 1 << 30}, Segment: storage.SegmentWriterConfig{IndexIntervalMessages: fc.IndexInterval}, ReadAheadSegments: fc.ReadAhead, CacheEnabled: c != nil, Logger: discardLogger()}, nil, nil, nil)
					if _, err := plog.RestoreFromS3(context.Background()); err != nil {
						r.Count("gap_restore_errors", 1)
						continue
					}
					r.Count("gap_logs_restored", 1)
					for o := gl.frames[0].Base; o < gl.end(); o++ {
						for _, mb := range []int32{1, 61, 150, 5000, 1 << 20} {
							got, rerr := plog.Read(context.Background(), o, mb)
							if rerr != nil {
								continue
							}
							inGap := o >= gone.Base && o <= gone.Last
							how := "partitionlog_read_after_restore"
							if inGap {
								how = "partitionlog_read_in_gap"
							}
							reads++
							r.Count("reads_"+how, 1)
							if v := judgeFetch(which, gl, grefs, key, o, mb, gl.end(), got); v != nil {
								var layout []string
								for _, f := range gl.frames {
									layout = append(layout, fmt.Sprintf("%s[%d..%d]@%d+%d", f.ID, f.Base, f.Last, f.Pos, len(f.Bytes)))
								}
								r.Violation(v.Class+":log_with_gap", v.Why+" via "+how, map[string]any{"case": ci, "config": fmt.Sprintf("%+v", fc), "partition": key, "offset": o, "max_bytes": mb, "gap": []int64{gone.Base, gone.Last}, "log_layout": layout})
							}
						}
					}
				}
			}
			s.teardown()
		}
		nontrivial = reads > 20
		if fc.IndexInterval > 1 {
			r.Count("cases_sparse_index", 1)
		}
		if fc.CacheBytes > 0 {
			r.Count("cases_cache_on", 1)
		}
	})
	return
}

// sweep reads every offset of every partition with every byte limit, through
// the handler's Fetch and directly through PartitionLog.Read.
func sweep(s *scenario, r *verifkit.Run, rng *rand.Rand, parts []struct {
	T string
	P int32
}, refs map[string]*refLog, fc fetchCaseCfg, judge func(s *scenario, key string, o int64, mb int32, hw int64, got []byte, how string)) {
	h, inst := s.hs[s.cur], s.insts[s.cur]
	for _, pt := range parts {
		key := fmt.Sprintf("%s/%d", pt.T, pt.P)
		l := refs[key]
		if len(l.frames) == 0 {
			continue
		}
		for o := l.frames[0].Base; o < l.end(); o++ {
			for _, mb := range fetchMaxBytes {
				if rng.Intn(3) != 0 && mb != 61 && mb != 150 { // thin the matrix, keep the limits that matter most
					continue
				}
				f := plogExec(h, inst, 50, 0, plogReq{Kind: "fetch", Topic: pt.T, Partition: pt.P, Offset: o, MaxBytes: mb})
				if f.Err != "" {
					r.Violation("fetch_handler_error", "fetch failed: "+f.Err, map[string]any{"partition": key, "offset": o, "max_bytes": mb})
					continue
				}
				if f.Code != 0 {
					r.Count("fetch_error_codes", 1)
					if o < f.HW {
						judge(s, key, o, mb, f.HW, nil, fmt.Sprintf("handler_fetch(code=%d)", f.Code))
					}
					continue
				}
				judge(s, key, o, mb, f.HW, f.Records, "handler_fetch")
				if plog, err := h.getPartitionLog(context.Background(), pt.T, pt.P); err == nil {
					got, rerr := plog.Read(context.Background(), o, mb)
					if rerr == nil {
						judge(s, key, o, mb, l.end(), got, "partitionlog_read")
					}
				}
			}
		}
	}
	// reads in NO particular order: consumers at different positions of the same partitions taking turns, seeks back
	// and forth, partitions interleaved - a read must not depend on which reads came before it
	var live []int
	for i, pt := range parts {
		if len(refs[fmt.Sprintf("%s/%d", pt.T, pt.P)].frames) > 0 {
			live = append(live, i)
		}
	}
	if len(live) == 0 {
		return
	}
	jumpLimits := []int32{61, 100, 150, 400, 5000}
	for j := 0; j < 120; j++ {
		pt := parts[live[rng.Intn(len(live))]]
		key := fmt.Sprintf("%s/%d", pt.T, pt.P)
		l := refs[key]
		o := l.frames[0].Base + rng.Int63n(l.end()-l.frames[0].Base)
		mb := jumpLimits[rng.Intn(len(jumpLimits))]
		if rng.Intn(2) == 0 {
			f := plogExec(h, inst, 51, j, plogReq{Kind: "fetch", Topic: pt.T, Partition: pt.P, Offset: o, MaxBytes: mb})
			if f.Err != "" {
				r.Violation("fetch_handler_error", "fetch failed: "+f.Err, map[string]any{"partition": key, "offset": o, "max_bytes": mb})
				continue
			}
			if f.Code != 0 {
				if o < f.HW {
					judge(s, key, o, mb, f.HW, nil, fmt.Sprintf("handler_fetch_random_order(code=%d)", f.Code))
				}
				continue
			}
			judge(s, key, o, mb, f.HW, f.Records, "handler_fetch_random_order")
		} else if plog, err := h.getPartitionLog(context.Background(), pt.T, pt.P); err == nil {
			if got, rerr := plog.Read(context.Background(), o, mb); rerr == nil {
				judge(s, key, o, mb, l.end(), got, "partitionlog_read_random_order")
			}
		}
	}
}

var _ = strings.Join
