//go:build verif

package operator

// Shared by the C39 and C42 harnesses: generated KafscaleCluster / KafscaleTopic
// resources, a write-recording fake API server, object snapshots, and a driver
// that runs the operator's own sub-reconcilers in the order Reconcile uses.

import (
	"context"
	"encoding/json"
	"fmt"
	"math/rand"
	"net/url"
	"os"
	"sort"
	"strings"
	"sync"
	"testing"
	"time"

	clientv3 "go.etcd.io/etcd/client/v3"
	"go.uber.org/zap"
	appsv1 "k8s.io/api/apps/v1"
	autoscalingv2 "k8s.io/api/autoscaling/v2"
	batchv1 "k8s.io/api/batch/v1"
	corev1 "k8s.io/api/core/v1"
	policyv1 "k8s.io/api/policy/v1"
	"k8s.io/apimachinery/pkg/api/resource"
	metav1 "k8s.io/apimachinery/pkg/apis/meta/v1"
	"k8s.io/apimachinery/pkg/runtime"
	"k8s.io/apimachinery/pkg/types"
	"sigs.k8s.io/controller-runtime/pkg/client"
	"sigs.k8s.io/controller-runtime/pkg/client/fake"
	"sigs.k8s.io/controller-runtime/pkg/client/interceptor"

	kafscalev1alpha1 "github.com/KafScale/platform/api/v1alpha1"
)

// ---------------------------------------------------------------- scheme

func opScheme(t testing.TB) *runtime.Scheme {
	t.Helper()
	s := runtime.NewScheme()
	for _, add := range []func(*runtime.Scheme) error{
		kafscalev1alpha1.AddToScheme, appsv1.AddToScheme, corev1.AddToScheme,
		policyv1.AddToScheme, batchv1.AddToScheme, autoscalingv2.AddToScheme,
	} {
		if err := add(s); err != nil {
			t.Fatalf("opScheme: %v", err)
		}
	}
	return s
}

// ---------------------------------------------------------------- environment

// every variable the operator reads while rendering (read per call, not at init)
var opEnvKeys = []string{
	operatorEtcdEndpointsEnv, operatorEtcdImageEnv, operatorEtcdReplicasEnv, operatorEtcdStorageEnv,
	operatorEtcdClassEnv, operatorEtcdSnapshotBucketEnv, operatorEtcdSnapshotPrefixEnv,
	operatorEtcdSnapshotScheduleEnv, operatorEtcdSnapshotImageEnv, operatorEtcdSnapshotEtcdctlEnv,
	operatorEtcdSnapshotEndpointEnv, operatorEtcdSnapshotStaleAfterEnv, operatorEtcdSnapshotCreateBucketEnv,
	operatorEtcdSnapshotProtectBucketEnv, operatorEtcdStorageMemoryEnv, operatorEtcdQuotaBackendBytesEnv,
	operatorEtcdAutoCompactionRetentionEnv, operatorEtcdAutoCompactionModeEnv, operatorEtcdMaintenanceScheduleEnv,
	operatorEtcdMaintenanceCheckScheduleEnv, operatorEtcdMaintenanceEnabledEnv,
	operatorEtcdMaintenanceSizeThresholdPctEnv, operatorEtcdDefragScheduleEnv, operatorEtcdDefragEnabledEnv,
	operatorEtcdSnapshotSkipPreflightEnv, operatorEtcdSilenceLogsEnv,
	"KAFSCALE_ACL_ENABLED", "KAFSCALE_ACL_JSON", "KAFSCALE_ACL_FILE", "KAFSCALE_ACL_FAIL_OPEN",
	"KAFSCALE_PRINCIPAL_SOURCE", "KAFSCALE_PROXY_PROTOCOL", "KAFSCALE_LOG_LEVEL", "KAFSCALE_TRACE_KAFKA",
}

// opRegisterEnv makes the test restore every operator variable at its end.
func opRegisterEnv(t *testing.T) {
	for _, k := range opEnvKeys {
		t.Setenv(k, "")
		_ = os.Unsetenv(k)
	}
}

// opScratchTmp points TMPDIR at the per-run scratch directory (removed by the
// driver) so that the embedded etcd's data dir and /tmp/etcd-test-*.log do not pile up in /tmp.
func opScratchTmp(t *testing.T) {
	if d := os.Getenv("VERIF_SCRATCH"); d != "" {
		if st, err := os.Stat(d); err == nil && st.IsDir() {
			t.Setenv("TMPDIR", d)
		}
	}
}

// opSetEnv makes the operator environment exactly env (other operator variables unset).
func opSetEnv(env map[string]string) {
	for _, k := range opEnvKeys {
		if v, ok := env[k]; ok {
			_ = os.Setenv(k, v)
		} else {
			_ = os.Unsetenv(k)
		}
	}
}

// opGenEnv draws an operator environment. Only values the operator documents as valid.
func opGenEnv(rng *rand.Rand) map[string]string {
	env := map[string]string{}
	maybe := func(p int, k string, vals ...string) {
		if rng.Intn(100) < p {
			env[k] = vals[rng.Intn(len(vals))]
		}
	}
	maybe(30, operatorEtcdStorageMemoryEnv, "true", "1", "false")
	maybe(30, operatorEtcdReplicasEnv, "1", "3", "5", "bogus")
	maybe(20, operatorEtcdStorageEnv, "1Gi", "20Gi", "500Mi")
	maybe(20, operatorEtcdClassEnv, "fast-ssd", "standard")
	maybe(20, operatorEtcdImageEnv, "quay.io/coreos/etcd:v3.5.9")
	maybe(15, operatorEtcdSnapshotBucketEnv, "my-snapshots", "team.backups")
	maybe(20, operatorEtcdSnapshotPrefixEnv, "/snaps/", "a/b", "etcd")
	maybe(20, operatorEtcdSnapshotScheduleEnv, "*/5 * * * *", "0 3 * * *")
	maybe(15, operatorEtcdSnapshotImageEnv, "amazon/aws-cli:2.17.0")
	maybe(15, operatorEtcdSnapshotEtcdctlEnv, "ghcr.io/kafscale/kafscale-etcd-tools:v1")
	maybe(20, operatorEtcdSnapshotEndpointEnv, "http://minio.minio.svc:9000")
	maybe(20, operatorEtcdSnapshotCreateBucketEnv, "1", "true", "0")
	maybe(20, operatorEtcdSnapshotProtectBucketEnv, "yes", "off")
	maybe(20, operatorEtcdQuotaBackendBytesEnv, "8589934592", "1073741824", "-5", "junk")
	maybe(20, operatorEtcdAutoCompactionRetentionEnv, "1h", "1000")
	maybe(20, operatorEtcdAutoCompactionModeEnv, "revision", "periodic", "weird")
	maybe(20, operatorEtcdMaintenanceScheduleEnv, "0 */2 * * *")
	maybe(15, operatorEtcdMaintenanceCheckScheduleEnv, "*/5 * * * *")
	maybe(20, operatorEtcdMaintenanceEnabledEnv, "false", "0", "true")
	maybe(10, operatorEtcdDefragEnabledEnv, "off", "on")
	maybe(10, operatorEtcdDefragScheduleEnv, "30 1 * * *")
	maybe(15, operatorEtcdMaintenanceSizeThresholdPctEnv, "50", "90", "0", "150")
	maybe(25, "KAFSCALE_ACL_ENABLED", "true", "false")
	maybe(15, "KAFSCALE_ACL_JSON", `{"default":"deny"}`)
	maybe(10, "KAFSCALE_ACL_FILE", "/etc/kafscale/acl.json")
	maybe(10, "KAFSCALE_ACL_FAIL_OPEN", "true")
	maybe(15, "KAFSCALE_PRINCIPAL_SOURCE", "client_id", "proxy")
	maybe(15, "KAFSCALE_PROXY_PROTOCOL", "true")
	maybe(20, "KAFSCALE_LOG_LEVEL", "debug", "warn")
	maybe(10, "KAFSCALE_TRACE_KAFKA", "true")
	return env
}

// ---------------------------------------------------------------- external etcd endpoint lists

// opFakeEndpoints: external etcd endpoints for legs in which nothing dials etcd.
var opFakeEndpoints = []string{
	"http://etcd-0.etcd.infra.svc:2379", "http://etcd-1.etcd.infra.svc:2379", "http://etcd-2.etcd.infra.svc:2379",
	"https://10.0.0.5:2379", "10.0.0.6:2379", "etcd.example.com:2379", "http://[2001:db8::1]:2379",
}

// opLiveEndpointSpellings returns distinct endpoint strings that all reach the
// etcd server behind endpoint ("http://127.0.0.1:<port>"): with and without
// scheme, by name, over ::1 where the server listens there. Each candidate is
// probed with a real Get; only spellings that answered are returned, the given
// one first.
func opLiveEndpointSpellings(t testing.TB, endpoint string) []string {
	out := []string{endpoint}
	u, err := url.Parse(endpoint)
	if err != nil || u.Port() == "" {
		return out
	}
	port := u.Port()
	cands := []string{u.Hostname() + ":" + port}
	if u.Hostname() == "127.0.0.1" {
		cands = append(cands, "http://localhost:"+port, "localhost:"+port, "http://LOCALHOST:"+port, "http://[::1]:"+port, "[::1]:"+port)
	}
	for _, c := range cands {
		cli, err := clientv3.New(clientv3.Config{Endpoints: []string{c}, DialTimeout: 3 * time.Second, Logger: zap.NewNop()})
		if err != nil {
			continue
		}
		ctx, cancel := context.WithTimeout(context.Background(), 3*time.Second)
		_, err = cli.Get(ctx, "/verif/probe")
		cancel()
		_ = cli.Close()
		if err == nil {
			out = append(out, c)
		} else {
			t.Logf("endpoint spelling %q not usable: %v", c, err)
		}
	}
	return out
}

// opGenEndpointList draws 2..5 distinct endpoints out of pool in a PRNG order
// and, in most draws, makes the list dirty the way a hand-edited spec or
// environment variable is: repeated entries (also padded with blanks) and empty
// entries, which the operator's endpoint cleaning has to drop. It returns the
// list and the number of distinct endpoints in it.
func opGenEndpointList(rng *rand.Rand, pool []string) ([]string, int) {
	k := 2 + rng.Intn(4)
	if k > len(pool) {
		k = len(pool)
	}
	perm := rng.Perm(len(pool))
	var list []string
	for i := 0; i < k; i++ {
		list = append(list, pool[perm[i]])
	}
	if rng.Intn(3) > 0 {
		for i, n := 0, 1+rng.Intn(3); i < n; i++ {
			var e string
			switch rng.Intn(4) {
			case 0:
				e = ""
			case 1:
				e = "  "
			case 2:
				e = list[rng.Intn(len(list))]
			default:
				e = " " + list[rng.Intn(len(list))] + " "
			}
			at := rng.Intn(len(list) + 1)
			list = append(list[:at], append([]string{e}, list[at:]...)...)
		}
	}
	return list, k
}

// ---------------------------------------------------------------- names

const opAlnum = "abcdefghijklmnopqrstuvwxyz0123456789"

// opLabel returns an RFC-1123 label of exactly n (1..63) characters.
func opLabel(rng *rand.Rand, n int) string {
	if n < 1 {
		n = 1
	}
	if n > 63 {
		n = 63
	}
	b := make([]byte, n)
	for i := range b {
		if i == 0 || i == n-1 || rng.Intn(6) != 0 {
			b[i] = opAlnum[rng.Intn(len(opAlnum))]
		} else {
			b[i] = '-'
		}
	}
	return string(b)
}

// opSubdomain returns an RFC-1123 subdomain of exactly total (1..253) characters;
// dotted says whether it may have several labels.
func opSubdomain(rng *rand.Rand, total int, dotted bool) string {
	if total > 253 {
		total = 253
	}
	if total < 1 {
		total = 1
	}
	var parts []string
	left := total
	for left > 0 {
		max := left
		if max > 63 {
			max = 63
		}
		n := max
		if dotted && max > 1 && rng.Intn(3) != 0 {
			n = 1 + rng.Intn(max)
		}
		// a label must leave either nothing or at least ".x" behind
		if left-n == 1 {
			if n > 1 {
				n--
			} else {
				n = left // left==2: take both
				if n > 63 {
					n = 63
				}
			}
		}
		parts = append(parts, opLabel(rng, n))
		left -= n
		if left > 0 {
			left-- // the dot
		}
	}
	return strings.Join(parts, ".")
}

var opFixedNames = []string{"demo", "kafscale", "prod", "a", "k8s-1", "orders-streaming-cluster-eu", "team.kafka.prod", "x--y", "0"}
var opFixedNamespaces = []string{"default", "kafka", "production-kafka-platform", "ns1", "a", "kube-system"}

// opGenNames draws (namespace, name). A good share of the draws puts
// len(namespace)+len(name) right around 48, the point where
// "kafscale-etcd-<ns>-<name>" crosses 63 characters.
func opGenNames(rng *rand.Rand) (string, string) {
	var ns, name string
	switch rng.Intn(6) {
	case 0:
		ns = opFixedNamespaces[rng.Intn(len(opFixedNamespaces))]
	case 1:
		ns = opLabel(rng, 63)
	default:
		ns = opLabel(rng, 1+rng.Intn(40))
	}
	switch rng.Intn(8) {
	case 0:
		name = opFixedNames[rng.Intn(len(opFixedNames))]
	case 1:
		name = opSubdomain(rng, 1+rng.Intn(63), false)
	case 2:
		name = opSubdomain(rng, 3+rng.Intn(120), true)
	case 3:
		name = opSubdomain(rng, 200+rng.Intn(54), rng.Intn(2) == 0)
	case 4, 5:
		// boundary: total bucket length 61..66
		want := 46 + rng.Intn(6) - len(ns)
		if want < 1 {
			ns = opLabel(rng, 10+rng.Intn(20))
			want = 46 + rng.Intn(6) - len(ns)
		}
		name = opSubdomain(rng, want, rng.Intn(3) == 0)
	default:
		name = opSubdomain(rng, 1+rng.Intn(30), rng.Intn(4) == 0)
	}
	return ns, name
}

// ---------------------------------------------------------------- cluster / topic generator

type opCase struct {
	Cluster *kafscalev1alpha1.KafscaleCluster
	Topics  []*kafscalev1alpha1.KafscaleTopic // topics of this cluster
	Decoys  []*kafscalev1alpha1.KafscaleTopic // other cluster / other namespace
}

func opI32(v int32) *int32 { return &v }
func opI64(v int64) *int64 { return &v }
func opBool(v bool) *bool  { return &v }

type opGenOpts struct {
	EtcdEndpoints []string // non-empty: external etcd spec
	ForceLfs      int      // 0 random, 1 on, 2 off
}

func opGenCluster(rng *rand.Rand, o opGenOpts) *opCase {
	ns, name := opGenNames(rng)
	c := &kafscalev1alpha1.KafscaleCluster{
		ObjectMeta: metav1.ObjectMeta{Name: name, Namespace: ns, UID: types.UID(fmt.Sprintf("uid-%08x", rng.Uint32()))},
	}
	sp := &c.Spec
	// replicas: nil / 0 / 1 / 3 / 7 and a few others
	switch rng.Intn(10) {
	case 0, 1:
		sp.Brokers.Replicas = nil
	case 2:
		sp.Brokers.Replicas = opI32(0)
	case 3, 4:
		sp.Brokers.Replicas = opI32(1)
	case 5, 6:
		sp.Brokers.Replicas = opI32(3)
	case 7:
		sp.Brokers.Replicas = opI32(7)
	case 8:
		sp.Brokers.Replicas = opI32(2)
	default:
		sp.Brokers.Replicas = opI32(int32(4 + rng.Intn(9)))
	}
	switch rng.Intn(5) {
	case 0, 1:
	case 2:
		sp.Brokers.AdvertisedHost = "kafka.example.com"
	case 3:
		sp.Brokers.AdvertisedHost = "  203.0.113.7 "
	default:
		sp.Brokers.AdvertisedHost = opSubdomain(rng, 5+rng.Intn(30), true)
	}
	switch rng.Intn(5) {
	case 0, 1:
	case 2:
		sp.Brokers.AdvertisedPort = opI32(0)
	case 3:
		sp.Brokers.AdvertisedPort = opI32(9092)
	default:
		sp.Brokers.AdvertisedPort = opI32(int32(1024 + rng.Intn(60000)))
	}
	if rng.Intn(2) == 0 {
		sp.Brokers.Resources.Requests = corev1.ResourceList{
			corev1.ResourceCPU:    resource.MustParse([]string{"250m", "1", "1500m"}[rng.Intn(3)]),
			corev1.ResourceMemory: resource.MustParse([]string{"512Mi", "1Gi", "2048Mi"}[rng.Intn(3)]),
		}
	}
	if rng.Intn(3) == 0 {
		sp.Brokers.Resources.Limits = corev1.ResourceList{
			corev1.ResourceCPU:              resource.MustParse("2"),
			corev1.ResourceMemory:           resource.MustParse("4Gi"),
			corev1.ResourceEphemeralStorage: resource.MustParse("10G"),
		}
	}
	if rng.Intn(2) == 0 {
		sv := &sp.Brokers.Service
		sv.Type = []string{"", "ClusterIP", "LoadBalancer", "NodePort", "bogus", " LoadBalancer "}[rng.Intn(6)]
		if rng.Intn(2) == 0 {
			sv.Annotations = map[string]string{}
			for i, n := 0, rng.Intn(7); i < n; i++ {
				sv.Annotations[fmt.Sprintf("lb.example.com/%s", opLabel(rng, 3+rng.Intn(6)))] = opLabel(rng, 4)
			}
		}
		if rng.Intn(3) == 0 {
			sv.LoadBalancerIP = " 203.0.113.10 "
		}
		if rng.Intn(3) == 0 {
			sv.LoadBalancerSourceRanges = []string{"203.0.113.0/24", "198.51.100.0/24", "10.0.0.0/8"}[:1+rng.Intn(3)]
		}
		sv.ExternalTrafficPolicy = []string{"", "Local", "Cluster", "nope"}[rng.Intn(4)]
		if rng.Intn(3) == 0 {
			sv.KafkaNodePort = opI32(int32(30000 + rng.Intn(2000)))
		}
		if rng.Intn(4) == 0 {
			sv.MetricsNodePort = opI32(int32([]int{0, 30993, 32000}[rng.Intn(3)]))
		}
	}
	sp.S3 = kafscalev1alpha1.S3Spec{Bucket: "data-" + opLabel(rng, 6), Region: []string{"us-east-1", "eu-central-1"}[rng.Intn(2)]}
	if rng.Intn(2) == 0 {
		sp.S3.Endpoint = "http://minio." + opLabel(rng, 5) + ".svc:9000"
	}
	if rng.Intn(3) == 0 {
		sp.S3.ReadBucket, sp.S3.ReadRegion = "read-"+opLabel(rng, 5), "us-west-2"
	}
	if rng.Intn(4) == 0 {
		sp.S3.ReadEndpoint = "http://replica:9000"
	}
	if rng.Intn(2) == 0 {
		sp.S3.CredentialsSecretRef = "creds-" + opLabel(rng, 4)
	}
	sp.Etcd.Endpoints = append([]string(nil), o.EtcdEndpoints...)
	if rng.Intn(2) == 0 {
		sp.Config = kafscalev1alpha1.ClusterConfigSpec{SegmentBytes: int32(rng.Intn(3)) * 1048576, FlushIntervalMs: int32(rng.Intn(2) * 500), CacheSize: []string{"", "256Mi"}[rng.Intn(2)]}
	}
	lfs := rng.Intn(2) == 0
	if o.ForceLfs == 1 {
		lfs = true
	} else if o.ForceLfs == 2 {
		lfs = false
	}
	if lfs {
		l := &sp.LfsProxy
		l.Enabled = true
		if rng.Intn(2) == 0 {
			l.Replicas = opI32(int32(rng.Intn(4)))
		}
		if rng.Intn(3) == 0 {
			l.Image, l.ImagePullPolicy = " ghcr.io/x/lfs:1 ", []string{"Always", "Never", "IfNotPresent", "zzz"}[rng.Intn(4)]
		}
		if rng.Intn(3) == 0 {
			l.Backends = []string{"b0:9092", "b1:9092", "b2:9092"}[:1+rng.Intn(3)]
		}
		if rng.Intn(3) == 0 {
			l.AdvertisedHost, l.AdvertisedPort = "lfs.example.com", opI32(int32(rng.Intn(2)*19093))
		}
		if rng.Intn(3) == 0 {
			l.BackendCacheTTLSeconds = opI32(int32(rng.Intn(120)))
		}
		if rng.Intn(2) == 0 {
			l.Service.Type = []string{"", "ClusterIP", "LoadBalancer", "junk"}[rng.Intn(4)]
			if rng.Intn(2) == 0 {
				l.Service.Annotations = map[string]string{}
				for i, n := 0, rng.Intn(6); i < n; i++ {
					l.Service.Annotations["lfs.example.com/"+opLabel(rng, 5)] = opLabel(rng, 3)
				}
			}
			if rng.Intn(3) == 0 {
				l.Service.LoadBalancerSourceRanges = []string{"192.0.2.0/24", "10.1.0.0/16"}[:1+rng.Intn(2)]
			}
			if rng.Intn(3) == 0 {
				l.Service.Port = opI32(int32(rng.Intn(2) * 19092))
			}
		}
		if rng.Intn(2) == 0 {
			l.HTTP.Enabled = opBool(rng.Intn(3) != 0)
			if rng.Intn(2) == 0 {
				l.HTTP.Port = opI32(int32(rng.Intn(2) * 18080))
			}
			if rng.Intn(2) == 0 {
				l.HTTP.APIKeySecretRef, l.HTTP.APIKeySecretKey = "lfs-key", []string{"", " K "}[rng.Intn(2)]
			}
		}
		if rng.Intn(2) == 0 {
			l.Metrics.Enabled = opBool(rng.Intn(2) == 0)
			if rng.Intn(2) == 0 {
				l.Metrics.Port = opI32(19095)
			}
		}
		if rng.Intn(2) == 0 {
			l.Health.Enabled = opBool(rng.Intn(2) == 0)
			if rng.Intn(2) == 0 {
				l.Health.Port = opI32(19094)
			}
		}
		if rng.Intn(2) == 0 {
			l.S3 = kafscalev1alpha1.LfsProxyS3Spec{Namespace: []string{"", " lfsns "}[rng.Intn(2)]}
			if rng.Intn(2) == 0 {
				l.S3.MaxBlobSize, l.S3.ChunkSize = opI64(int64(rng.Intn(2))<<30), opI64(int64(rng.Intn(2))<<20)
			}
			if rng.Intn(2) == 0 {
				l.S3.ForcePathStyle = opBool(rng.Intn(2) == 0)
			}
			if rng.Intn(2) == 0 {
				l.S3.EnsureBucket = opBool(rng.Intn(2) == 0)
			}
		}
	}

	oc := &opCase{Cluster: c}
	nt := rng.Intn(6)
	seen := map[string]bool{}
	topicName := func() string {
		for {
			n := []string{"orders", "events.v1", "payments", "logs-raw", "t", "audit.trail", "metrics"}[rng.Intn(7)]
			if rng.Intn(2) == 0 {
				n = opSubdomain(rng, 1+rng.Intn(40), rng.Intn(3) == 0)
			}
			if !seen[n] {
				seen[n] = true
				return n
			}
		}
	}
	mk := func(tn, tns, ref string) *kafscalev1alpha1.KafscaleTopic {
		tp := &kafscalev1alpha1.KafscaleTopic{
			ObjectMeta: metav1.ObjectMeta{Name: tn, Namespace: tns},
			Spec:       kafscalev1alpha1.KafscaleTopicSpec{ClusterRef: ref, Partitions: int32(1 + rng.Intn(12))},
		}
		if rng.Intn(3) == 0 {
			tp.Spec.RetentionMs = opI64(int64(rng.Intn(1000)) * 1000)
		}
		return tp
	}
	for i := 0; i < nt; i++ {
		oc.Topics = append(oc.Topics, mk(topicName(), ns, name))
	}
	for i, n := 0, rng.Intn(3); i < n; i++ {
		if rng.Intn(2) == 0 {
			oc.Decoys = append(oc.Decoys, mk(topicName(), ns, name+"x")) // same namespace, another cluster
		} else {
			oc.Decoys = append(oc.Decoys, mk(topicName(), ns+"x", name)) // another namespace, same cluster name
		}
	}
	return oc
}

// opDirected: small hand-written clusters (the minimal witnesses of the known
// findings and their fixed neighbours) that every run executes before the PRNG cases.
func opDirected() []*opCase {
	mk := func(ns, name string, rep *int32, host string, parts ...int32) *opCase {
		c := &kafscalev1alpha1.KafscaleCluster{ObjectMeta: metav1.ObjectMeta{Namespace: ns, Name: name, UID: types.UID("uid-" + name)}}
		c.Spec.Brokers.Replicas = rep
		c.Spec.Brokers.AdvertisedHost = host
		c.Spec.S3 = kafscalev1alpha1.S3Spec{Bucket: "b", Region: "us-east-1"}
		oc := &opCase{Cluster: c}
		for i, p := range parts {
			oc.Topics = append(oc.Topics, &kafscalev1alpha1.KafscaleTopic{
				ObjectMeta: metav1.ObjectMeta{Namespace: ns, Name: fmt.Sprintf("topic-%d", i)},
				Spec:       kafscalev1alpha1.KafscaleTopicSpec{ClusterRef: name, Partitions: p},
			})
		}
		return oc
	}
	return []*opCase{
		mk("default", "demo", nil, "", 3),
		mk("default", "demo", opI32(0), "", 3),
		mk("default", "demo", opI32(1), "", 3),
		mk("default", "demo", opI32(1), "kafka.example.com", 1, 12),
		mk("default", "demo", opI32(3), "kafka.example.com", 7),
		mk("default", "demo", nil, "kafka.example.com", 2),
		mk("production-kafka-platform", "orders-streaming-cluster", opI32(3), "", 4), // bucket: 64 chars
		mk("production-kafka-platform", "orders-streaming-cluste", opI32(3), "", 4),  // bucket: 63 chars
	}
}

// opFromReplay rebuilds the case of a witness file written by bin/check
// (VERIF_REPLAY=<replays/ID/*.json>): namespace, name, spec, topics and, for
// C42, the operator environment. nil when no (usable) replay is given.
func opFromReplay(m map[string]any) (*opCase, map[string]string) {
	if m == nil {
		return nil, nil
	}
	rep, _ := m["replay"].(map[string]any)
	if rep == nil {
		return nil, nil
	}
	ns, _ := rep["namespace"].(string)
	name, _ := rep["name"].(string)
	if name == "" {
		return nil, nil
	}
	c := &kafscalev1alpha1.KafscaleCluster{ObjectMeta: metav1.ObjectMeta{Namespace: ns, Name: name, UID: types.UID("uid-replay")}}
	if sp, ok := rep["spec"]; ok {
		if b, err := json.Marshal(sp); err == nil {
			_ = json.Unmarshal(b, &c.Spec)
		}
	}
	oc := &opCase{Cluster: c}
	if ts, ok := rep["topics"].([]any); ok {
		for _, t := range ts {
			tm, _ := t.(map[string]any)
			tn, _ := tm["name"].(string)
			parts, _ := tm["partitions"].(float64)
			if tn != "" {
				oc.Topics = append(oc.Topics, &kafscalev1alpha1.KafscaleTopic{
					ObjectMeta: metav1.ObjectMeta{Namespace: ns, Name: tn},
					Spec:       kafscalev1alpha1.KafscaleTopicSpec{ClusterRef: name, Partitions: int32(parts)},
				})
			}
		}
	}
	env := map[string]string{}
	if em, ok := rep["env"].(map[string]any); ok {
		for k, v := range em {
			if sv, ok := v.(string); ok {
				env[k] = sv
			}
		}
	}
	return oc, env
}

// opDescribe is the compact replay form of a case.
func opDescribe(oc *opCase) map[string]any {
	type tp struct {
		Name       string `json:"name"`
		Partitions int32  `json:"partitions"`
	}
	var ts []tp
	for _, t := range oc.Topics {
		ts = append(ts, tp{t.Name, t.Spec.Partitions})
	}
	var rep any
	if oc.Cluster.Spec.Brokers.Replicas != nil {
		rep = *oc.Cluster.Spec.Brokers.Replicas
	}
	return map[string]any{
		"namespace": oc.Cluster.Namespace, "name": oc.Cluster.Name, "replicas": rep,
		"spec": oc.Cluster.Spec, "topics": ts, "decoy_topics": len(oc.Decoys),
	}
}

// ---------------------------------------------------------------- recording fake API server

type opWrite struct {
	Verb string `json:"verb"`
	Kind string `json:"kind"`
	Key  string `json:"key"`
	Err  string `json:"err,omitempty"`
}

type opRecorder struct {
	mu     sync.Mutex
	writes []opWrite

	// fault injection: the FaultAt-th create/update of a generated object (1-based)
	// fails; FaultMode 1 = rejected before it is applied, 2 = applied, then the
	// caller is told it failed (lost response).
	FaultAt   int
	FaultMode int
	seen      int
	Fired     bool
}

var errOpInjected = fmt.Errorf("verif: injected API server failure")

// nextFault is asked before every create/update; it returns the fault mode to apply to this call.
func (w *opRecorder) nextFault(obj any) int {
	w.mu.Lock()
	defer w.mu.Unlock()
	if w.FaultAt <= 0 || w.Fired || !opIsGenerated(fmt.Sprintf("%T", obj)) {
		return 0
	}
	w.seen++
	if w.seen == w.FaultAt {
		w.Fired = true
		return w.FaultMode
	}
	return 0
}

func (w *opRecorder) disarm() { w.mu.Lock(); w.FaultAt = 0; w.mu.Unlock() }

func (w *opRecorder) add(verb string, obj any, key string, err error) {
	e := ""
	if err != nil {
		e = err.Error()
	}
	w.mu.Lock()
	w.writes = append(w.writes, opWrite{Verb: verb, Kind: strings.TrimPrefix(fmt.Sprintf("%T", obj), "*"), Key: key, Err: e})
	w.mu.Unlock()
}

func (w *opRecorder) take() []opWrite {
	w.mu.Lock()
	defer w.mu.Unlock()
	out := w.writes
	w.writes = nil
	return out
}

func opKey(o client.Object) string { return o.GetNamespace() + "/" + o.GetName() }

// opIsGenerated: everything except the user's own resources (cluster, topics) is a generated object.
func opIsGenerated(kind string) bool {
	return !strings.Contains(kind, "KafscaleCluster") && !strings.Contains(kind, "KafscaleTopic")
}

// opNewClient builds a fake API server holding objs; every mutating call through
// the returned client is recorded (with its outcome) before it is passed on.
func opNewClient(scheme *runtime.Scheme, rec *opRecorder, objs ...client.Object) client.WithWatch {
	base := fake.NewClientBuilder().WithScheme(scheme).
		WithStatusSubresource(&kafscalev1alpha1.KafscaleCluster{}, &kafscalev1alpha1.KafscaleTopic{}).
		WithObjects(objs...).Build()
	return interceptor.NewClient(base, interceptor.Funcs{
		Create: func(ctx context.Context, c client.WithWatch, obj client.Object, opts ...client.CreateOption) error {
			mode := rec.nextFault(obj)
			if mode == 1 {
				rec.add("create", obj, opKey(obj), errOpInjected)
				return errOpInjected
			}
			err := c.Create(ctx, obj, opts...)
			if mode == 2 && err == nil {
				err = errOpInjected
			}
			rec.add("create", obj, opKey(obj), err)
			return err
		},
		Update: func(ctx context.Context, c client.WithWatch, obj client.Object, opts ...client.UpdateOption) error {
			mode := rec.nextFault(obj)
			if mode == 1 {
				rec.add("update", obj, opKey(obj), errOpInjected)
				return errOpInjected
			}
			err := c.Update(ctx, obj, opts...)
			if mode == 2 && err == nil {
				err = errOpInjected
			}
			rec.add("update", obj, opKey(obj), err)
			return err
		},
		Patch: func(ctx context.Context, c client.WithWatch, obj client.Object, p client.Patch, opts ...client.PatchOption) error {
			err := c.Patch(ctx, obj, p, opts...)
			rec.add("patch", obj, opKey(obj), err)
			return err
		},
		Delete: func(ctx context.Context, c client.WithWatch, obj client.Object, opts ...client.DeleteOption) error {
			err := c.Delete(ctx, obj, opts...)
			rec.add("delete", obj, opKey(obj), err)
			return err
		},
		DeleteAllOf: func(ctx context.Context, c client.WithWatch, obj client.Object, opts ...client.DeleteAllOfOption) error {
			err := c.DeleteAllOf(ctx, obj, opts...)
			rec.add("deleteallof", obj, opKey(obj), err)
			return err
		},
		Apply: func(ctx context.Context, c client.WithWatch, obj runtime.ApplyConfiguration, opts ...client.ApplyOption) error {
			err := c.Apply(ctx, obj, opts...)
			rec.add("apply", obj, "?", err)
			return err
		},
		SubResourceUpdate: func(ctx context.Context, c client.Client, sub string, obj client.Object, opts ...client.SubResourceUpdateOption) error {
			err := c.SubResource(sub).Update(ctx, obj, opts...)
			rec.add("update/"+sub, obj, opKey(obj), err)
			return err
		},
		SubResourcePatch: func(ctx context.Context, c client.Client, sub string, obj client.Object, p client.Patch, opts ...client.SubResourcePatchOption) error {
			err := c.SubResource(sub).Patch(ctx, obj, p, opts...)
			rec.add("patch/"+sub, obj, opKey(obj), err)
			return err
		},
		SubResourceCreate: func(ctx context.Context, c client.Client, sub string, obj client.Object, s client.Object, opts ...client.SubResourceCreateOption) error {
			err := c.SubResource(sub).Create(ctx, obj, s, opts...)
			rec.add("create/"+sub, obj, opKey(obj), err)
			return err
		},
	})
}

// ---------------------------------------------------------------- snapshots of generated objects

type opObj struct {
	RV   string `json:"resourceVersion"`
	Body string `json:"body"` // JSON of the object with resourceVersion and managedFields blanked
}

// opSnapshot lists every object of every kind the operator generates.
func opSnapshot(ctx context.Context, t testing.TB, c client.Client) map[string]opObj {
	out := map[string]opObj{}
	put := func(kind string, o client.Object) {
		rv := o.GetResourceVersion()
		o.SetResourceVersion("")
		o.SetManagedFields(nil)
		b, err := json.Marshal(o)
		if err != nil {
			t.Fatalf("opSnapshot: marshal %s %s: %v", kind, opKey(o), err)
		}
		out[kind+" "+opKey(o)] = opObj{RV: rv, Body: string(b)}
	}
	must := func(err error) {
		if err != nil {
			t.Fatalf("opSnapshot: list: %v", err)
		}
	}
	var sts appsv1.StatefulSetList
	must(c.List(ctx, &sts))
	for i := range sts.Items {
		put("StatefulSet", &sts.Items[i])
	}
	var dep appsv1.DeploymentList
	must(c.List(ctx, &dep))
	for i := range dep.Items {
		put("Deployment", &dep.Items[i])
	}
	var svc corev1.ServiceList
	must(c.List(ctx, &svc))
	for i := range svc.Items {
		put("Service", &svc.Items[i])
	}
	var hpa autoscalingv2.HorizontalPodAutoscalerList
	must(c.List(ctx, &hpa))
	for i := range hpa.Items {
		put("HorizontalPodAutoscaler", &hpa.Items[i])
	}
	var pdb policyv1.PodDisruptionBudgetList
	must(c.List(ctx, &pdb))
	for i := range pdb.Items {
		put("PodDisruptionBudget", &pdb.Items[i])
	}
	var cj batchv1.CronJobList
	must(c.List(ctx, &cj))
	for i := range cj.Items {
		put("CronJob", &cj.Items[i])
	}
	var cm corev1.ConfigMapList
	must(c.List(ctx, &cm))
	for i := range cm.Items {
		put("ConfigMap", &cm.Items[i])
	}
	var sec corev1.SecretList
	must(c.List(ctx, &sec))
	for i := range sec.Items {
		put("Secret", &sec.Items[i])
	}
	return out
}

// opDiff names the objects that differ between two snapshots (content and, if withRV, resourceVersion).
func opDiff(a, b map[string]opObj, withRV bool) []string {
	var out []string
	for k, va := range a {
		vb, ok := b[k]
		switch {
		case !ok:
			out = append(out, "removed: "+k)
		case va.Body != vb.Body:
			out = append(out, "content: "+k+" :: "+opFirstDiff(va.Body, vb.Body))
		case withRV && va.RV != vb.RV:
			out = append(out, fmt.Sprintf("resourceVersion: %s %s -> %s", k, va.RV, vb.RV))
		}
	}
	for k := range b {
		if _, ok := a[k]; !ok {
			out = append(out, "added: "+k)
		}
	}
	sort.Strings(out)
	return out
}

func opFirstDiff(a, b string) string {
	i := 0
	for i < len(a) && i < len(b) && a[i] == b[i] {
		i++
	}
	lo := i - 60
	if lo < 0 {
		lo = 0
	}
	cut := func(s string) string {
		hi := i + 60
		if hi > len(s) {
			hi = len(s)
		}
		return s[lo:hi]
	}
	return fmt.Sprintf("…%s… vs …%s…", cut(a), cut(b))
}

// ---------------------------------------------------------------- driving the operator's own reconcilers

// opReconcileParts runs, on the cluster as currently stored, the operator's
// sub-reconcilers in the order ClusterReconciler.Reconcile runs them, leaving out
// what needs S3 or a reachable etcd (snapshot pre-flight, health poll, publish)
// and the status writes. Used where the full Reconcile is not drivable offline
// (managed etcd: its endpoints are cluster-internal DNS names).
func opReconcileParts(ctx context.Context, r *ClusterReconciler, key types.NamespacedName) (EtcdResolution, error) {
	var cluster kafscalev1alpha1.KafscaleCluster
	if err := r.Client.Get(ctx, key, &cluster); err != nil {
		return EtcdResolution{}, err
	}
	res, err := EnsureEtcd(ctx, r.Client, r.Scheme, &cluster)
	if err != nil {
		return res, fmt.Errorf("EnsureEtcd: %w", err)
	}
	if err := r.deleteLegacyBrokerDeployment(ctx, &cluster); err != nil {
		return res, fmt.Errorf("deleteLegacyBrokerDeployment: %w", err)
	}
	if err := r.reconcileBrokerDeployment(ctx, &cluster, res.Endpoints); err != nil {
		return res, fmt.Errorf("reconcileBrokerDeployment: %w", err)
	}
	if err := r.reconcileBrokerHeadlessService(ctx, &cluster); err != nil {
		return res, fmt.Errorf("reconcileBrokerHeadlessService: %w", err)
	}
	if err := r.reconcileBrokerService(ctx, &cluster); err != nil {
		return res, fmt.Errorf("reconcileBrokerService: %w", err)
	}
	if err := r.reconcileLfsProxyResources(ctx, &cluster, res.Endpoints); err != nil {
		return res, fmt.Errorf("reconcileLfsProxyResources: %w", err)
	}
	if err := r.reconcileBrokerHPA(ctx, &cluster); err != nil {
		return res, fmt.Errorf("reconcileBrokerHPA: %w", err)
	}
	return res, nil
}

func opObjects(oc *opCase) []client.Object {
	objs := []client.Object{oc.Cluster.DeepCopy()}
	for _, t := range oc.Topics {
		objs = append(objs, t.DeepCopy())
	}
	for _, t := range oc.Decoys {
		objs = append(objs, t.DeepCopy())
	}
	return objs
}
