//go:build verif

// Bounded-exhaustive companion of the GROUP driver: every sequence of a given
// length over a small alphabet of client actions is executed (each in its own
// bubble) and shown to the same observers as the PRNG histories. Every shorter
// sequence is a prefix of an enumerated one and is judged step by step, so the
// bound covers "all sequences of length <= depth over this alphabet".

package broker

import (
	"fmt"
	"strings"
	"testing"
)

type gEnumSpec struct {
	Cfg      gConfig
	Alphabet []gOp
	Names    []string // one short name per alphabet entry (witness readability)
	Depth    int
}

func (s gEnumSpec) total() int {
	n := 1
	for i := 0; i < s.Depth; i++ {
		n *= len(s.Alphabet)
	}
	return n
}

// gEnumerate runs all |alphabet|^depth sequences. mk is called per sequence and
// returns the observers; done is called with the finished world.
func gEnumerate(t *testing.T, spec gEnumSpec, mk func(seq string) []gObserver, done func(seq string, w *gWorld)) {
	idx := make([]int, spec.Depth)
	n := len(spec.Alphabet)
	ops := make([]gOp, spec.Depth)
	names := make([]string, spec.Depth)
	for count := 0; ; count++ {
		for i, k := range idx {
			ops[i] = spec.Alphabet[k]
			names[i] = spec.Names[k]
		}
		seq := strings.Join(names, " ")
		cfg := spec.Cfg
		cfg.Group = fmt.Sprintf("e%d", count)
		w := gRunCase(t, cfg, ops, int64(count%20000)*100000, func(w *gWorld) { w.obs = append(w.obs, mk(seq)...) })
		done(seq, w)
		// next sequence
		i := spec.Depth - 1
		for ; i >= 0; i-- {
			idx[i]++
			if idx[i] < n {
				break
			}
			idx[i] = 0
		}
		if i < 0 {
			return
		}
	}
}
