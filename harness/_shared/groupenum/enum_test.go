//go:build verif

// Bounded-exhaustive companion of the GROUP driver: every sequence of a given
// length over a small alphabet of client actions is executed (each in its own
// bubble) and shown to the same observers as the PRNG histories. Every shorter
// sequence is a prefix of an enumerated one and is judged step by step, so the
// bound covers "all sequences of length <= depth over this alphabet".

package broker

import (
	"fmt"
	"sort"
	"strings"
	"testing"
	"testing/synctest"
)

type gEnumSpec struct {
	Cfg       gConfig
	Preambles map[string][]gOp // named start states: ops run (and observed) before the enumerated part
	Alphabet  []gOp
	Names     []string // one short name per alphabet entry (witness readability)
	Depth     int
	DepthFor  map[string]int // optional per-start-state override of Depth
}

func (s gEnumSpec) depth(start string) int {
	if d, ok := s.DepthFor[start]; ok {
		return d
	}
	return s.Depth
}

func (s gEnumSpec) total() int {
	total := 0
	for _, st := range s.starts() {
		n := 1
		for i := 0; i < s.depth(st); i++ {
			n *= len(s.Alphabet)
		}
		total += n
	}
	return total
}

func (s gEnumSpec) starts() []string {
	var names []string
	for k := range s.Preambles {
		names = append(names, k)
	}
	sort.Strings(names)
	if len(names) == 0 {
		names = []string{""}
	}
	return names
}

// gEnumerate runs all |alphabet|^depth sequences. mk is called per sequence and
// returns the observers; done is called with the finished world.
func gEnumerate(t *testing.T, spec gEnumSpec, mk func(seq string) []gObserver, done func(seq string, w *gWorld)) {
	count := 0
	for _, start := range spec.starts() {
		gEnumerateFrom(t, spec, start, &count, mk, done)
	}
}

func gEnumerateFrom(t *testing.T, spec gEnumSpec, start string, countp *int, mk func(seq string) []gObserver, done func(seq string, w *gWorld)) {
	depth := spec.depth(start)
	idx := make([]int, depth)
	n := len(spec.Alphabet)
	count, finished := *countp, false
	defer func() { *countp = count }()
	pre := spec.Preambles[start]
	for !finished {
		// a few thousand independent sequences share one bubble
		synctest.Test(t, func(t *testing.T) {
			for inBubble := 0; inBubble < 2000 && !finished; inBubble++ {
				ops := append([]gOp(nil), pre...)
				names := make([]string, depth)
				for i, k := range idx {
					ops = append(ops, spec.Alphabet[k])
					names[i] = spec.Names[k]
				}
				seq := start + ": " + strings.Join(names, " ")
				cfg := spec.Cfg
				cfg.Group = fmt.Sprintf("e%d", count)
				w := gRunCaseInBubble(t, cfg, ops, int64(count%20000)*100000, func(w *gWorld) { w.obs = append(w.obs, mk(seq)...) })
				done(seq, w)
				count++
				// next sequence
				i := depth - 1
				for ; i >= 0; i-- {
					idx[i]++
					if idx[i] < n {
						break
					}
					idx[i] = 0
				}
				if i < 0 {
					finished = true
				}
			}
		})
	}
}
