//go:build verif

package main

// proxywire: harness-side Kafka wire helpers shared by the C27 and C28 checks of
// cmd/proxy. Written against the Kafka protocol description and franz-go's kmsg
// message structs; it does not call /repo's pkg/protocol so that the monitors
// decode what is on the wire independently of the code under test.

import (
	"encoding/binary"
	"errors"
	"fmt"
	"io"
	"log/slog"
	"net"
	"syscall"
	"time"

	"github.com/twmb/franz-go/pkg/kmsg"
)

func pwDiscardLogger() *slog.Logger {
	return slog.New(slog.NewTextHandler(io.Discard, &slog.HandlerOptions{Level: slog.LevelError + 8}))
}

// pwReadFrame reads one size-prefixed frame.
func pwReadFrame(c io.Reader) ([]byte, error) {
	var l [4]byte
	if _, err := io.ReadFull(c, l[:]); err != nil {
		return nil, err
	}
	n := int32(binary.BigEndian.Uint32(l[:]))
	if n < 0 || n > 64<<20 {
		return nil, fmt.Errorf("frame length %d", n)
	}
	b := make([]byte, n)
	if _, err := io.ReadFull(c, b); err != nil {
		return nil, err
	}
	return b, nil
}

func pwWriteFrame(c io.Writer, payload []byte) error {
	b := make([]byte, 4+len(payload))
	binary.BigEndian.PutUint32(b, uint32(len(payload)))
	copy(b[4:], payload)
	_, err := c.Write(b)
	return err
}

type pwReqHeader struct {
	Key, Version int16
	Corr         int32
	ClientID     *string
}

func pwUvarint(b []byte) (uint64, int, error) {
	v, n := binary.Uvarint(b)
	if n <= 0 {
		return 0, 0, errors.New("bad uvarint")
	}
	return v, n, nil
}

// pwSkipTags skips a tagged-field section and returns the rest.
func pwSkipTags(b []byte) ([]byte, error) {
	cnt, n, err := pwUvarint(b)
	if err != nil {
		return nil, err
	}
	b = b[n:]
	for i := uint64(0); i < cnt; i++ {
		_, n, err = pwUvarint(b)
		if err != nil {
			return nil, err
		}
		b = b[n:]
		sz, n, err := pwUvarint(b)
		if err != nil {
			return nil, err
		}
		b = b[n:]
		if sz > uint64(len(b)) {
			return nil, errors.New("tag overruns")
		}
		b = b[sz:]
	}
	return b, nil
}

// pwParseRequest decodes a request frame payload (header v1/v2 + body).
func pwParseRequest(payload []byte) (*pwReqHeader, kmsg.Request, error) {
	if len(payload) < 10 {
		return nil, nil, errors.New("short request")
	}
	h := &pwReqHeader{
		Key:     int16(binary.BigEndian.Uint16(payload[0:])),
		Version: int16(binary.BigEndian.Uint16(payload[2:])),
		Corr:    int32(binary.BigEndian.Uint32(payload[4:])),
	}
	rest := payload[8:]
	l := int16(binary.BigEndian.Uint16(rest))
	rest = rest[2:]
	if l >= 0 {
		if int(l) > len(rest) {
			return nil, nil, errors.New("client id overruns")
		}
		s := string(rest[:l])
		h.ClientID = &s
		rest = rest[l:]
	}
	req := kmsg.RequestForKey(h.Key)
	if req == nil {
		return h, nil, fmt.Errorf("unknown api key %d", h.Key)
	}
	req.SetVersion(h.Version)
	if req.IsFlexible() {
		var err error
		if rest, err = pwSkipTags(rest); err != nil {
			return h, nil, err
		}
	}
	if err := req.ReadFrom(rest); err != nil {
		return h, nil, err
	}
	return h, req, nil
}

// pwEncodeRequest renders a full frame (size prefix included).
func pwEncodeRequest(req kmsg.Request, corr int32, clientID string) []byte {
	f := kmsg.NewRequestFormatter(kmsg.FormatterClientID(clientID))
	return f.AppendRequest(nil, req, corr)
}

// pwEncodeResponse renders a response frame payload (no size prefix).
func pwEncodeResponse(resp kmsg.Response, corr int32) []byte {
	b := make([]byte, 4, 64)
	binary.BigEndian.PutUint32(b, uint32(corr))
	if resp.IsFlexible() && resp.Key() != 18 {
		b = append(b, 0)
	}
	return resp.AppendTo(b)
}

// pwDecodeResponse decodes a response frame payload into resp (whose version
// must be set). Returns the correlation id.
func pwDecodeResponse(payload []byte, resp kmsg.Response) (int32, error) {
	if len(payload) < 4 {
		return 0, errors.New("short response")
	}
	corr := int32(binary.BigEndian.Uint32(payload))
	rest := payload[4:]
	if resp.IsFlexible() && resp.Key() != 18 {
		var err error
		if rest, err = pwSkipTags(rest); err != nil {
			return corr, err
		}
	}
	if err := resp.ReadFrom(rest); err != nil {
		return corr, err
	}
	return corr, nil
}

// pwDeadAddr returns a loopback TCP address that refuses connections for as
// long as release is not called: the port is bound (so no other process can
// take it) but never listened on.
func pwDeadAddr() (addr string, release func(), err error) {
	fd, err := syscall.Socket(syscall.AF_INET, syscall.SOCK_STREAM, 0)
	if err != nil {
		return "", nil, err
	}
	if err := syscall.Bind(fd, &syscall.SockaddrInet4{Port: 0, Addr: [4]byte{127, 0, 0, 1}}); err != nil {
		syscall.Close(fd)
		return "", nil, err
	}
	sa, err := syscall.Getsockname(fd)
	if err != nil {
		syscall.Close(fd)
		return "", nil, err
	}
	port := sa.(*syscall.SockaddrInet4).Port
	addr = fmt.Sprintf("127.0.0.1:%d", port)
	c, derr := net.DialTimeout("tcp", addr, 2*time.Second)
	if derr == nil {
		c.Close()
		syscall.Close(fd)
		return "", nil, errors.New("bound-not-listening socket accepted a connection")
	}
	return addr, func() { syscall.Close(fd) }, nil
}
