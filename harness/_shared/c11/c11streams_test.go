//go:build verif

package main

// C11, request streams with requests that have NO reply by protocol.
//
// The matrix and the sweep judge one request (or several requests of one template) per exchange. A Produce request
// with acks=0 is the one request of the protocol that is never answered: a standard client does not read a frame for
// it, the next frame on the connection belongs to the next request. So whatever a server writes for such a request
// is read by the client as the reply to a LATER request: that later request then gets a reply with a foreign
// correlation id and a foreign body, and so does every request after it. This pass therefore drives whole streams on
// one connection: acks=0 produces (accepted ones and ones whose partitions the server rejects) interleaved with
// advertised requests of every kind, followed by the sentinel, and reads the connection the way a client does: one
// frame per reply-expecting request, in order. The oracle per frame is the one of the matrix (c11Judge); in addition
// the frame must carry the correlation id of the request whose reply is due at that point of the stream.

import (
	"encoding/binary"
	"encoding/hex"
	"encoding/json"
	"fmt"
	"io"
	"math/rand"
	"net"
	"strings"
	"time"

	"github.com/twmb/franz-go/pkg/kmsg"

	"github.com/KafScale/platform/internal/verifkit"
	"github.com/KafScale/platform/internal/verifkit/kbatch"
	"github.com/KafScale/platform/internal/verifkreq"
	"github.com/KafScale/platform/pkg/metadata"
)

// c11ReadDue reads the next frame, which must be the reply with correlation id corr. Like c11ReadFrameExpect it looks
// at the first 8 bytes before it trusts the announced length, and it hands back what they said (n = announced length,
// got = correlation id) when they are not the start of the due reply (mis=true).
func c11ReadDue(conn net.Conn, corr int32) (frame []byte, n, got int32, mis bool, err error) {
	var h [8]byte
	if k, err := io.ReadFull(conn, h[:]); err != nil {
		if k > 0 {
			return nil, 0, 0, false, fmt.Errorf("reply frame cut short: %d of the first 8 bytes received (%x): %w", k, h[:k], err)
		}
		return nil, 0, 0, false, err
	}
	n = int32(binary.BigEndian.Uint32(h[:4]))
	got = int32(binary.BigEndian.Uint32(h[4:]))
	if got != corr || n < 4 || n > 64<<20 {
		return nil, n, got, true, nil
	}
	b := make([]byte, n)
	copy(b, h[4:])
	if k, err := io.ReadFull(conn, b[4:]); err != nil {
		return nil, n, got, false, fmt.Errorf("reply frame cut short: announces %d bytes, %d received: %w", n, 4+k, err)
	}
	return b, n, got, false, nil
}

type c11StreamItem struct {
	cs      c11Case
	wire    []byte
	req     kmsg.Request
	noReply bool     // acks=0 produce: the protocol defines no reply
	kinds   []string // acks=0 produce built here: what its partitions carry
	twinOf  int      // index of the acks=0 produce this acked produce repeats (same topics, partitions, records), else -1
}

// c11StreamReq / c11StreamWitness: the replay object of a stream violation (also accepted through VERIF_REPLAY).
type c11StreamReq struct {
	API        string   `json:"api"`
	Key        int16    `json:"key"`
	Version    int16    `json:"version"`
	Corr       int32    `json:"correlation_id"`
	NoReply    bool     `json:"no_reply_by_protocol,omitempty"`
	Kinds      []string `json:"acks0_partitions,omitempty"`
	RequestHex string   `json:"request_hex"`
	ReplyHex   string   `json:"reply_hex,omitempty"`
}

type c11StreamWitness struct {
	Target   string         `json:"target"`
	Mode     string         `json:"mode"`
	Stream   []c11StreamReq `json:"stream"`
	BrokenAt int            `json:"reply_due_for_request"`
	Seen     string         `json:"seen,omitempty"`
	FrameHex string         `json:"misplaced_frame_hex,omitempty"`
}

// c11ReplayStream returns the recorded stream of a witness written by the given leg (VERIF_REPLAY), if it is one.
func c11ReplayStream(leg string) *c11StreamWitness {
	rp := verifkit.Replay()
	if rp == nil || rp["leg"] != leg {
		return nil
	}
	b, err := json.Marshal(rp["replay"])
	if err != nil {
		return nil
	}
	var w c11StreamWitness
	if json.Unmarshal(b, &w) != nil || len(w.Stream) == 0 || w.Target == "" {
		return nil
	}
	return &w
}

// c11StreamOutcome is what one stream looked like from the client side.
type c11StreamOutcome struct {
	replies  [][]byte // replies[i]: the frame read for items[i] (nil: none read, or no reply by protocol)
	brokenAt int      // -1: every due reply and the sentinel's reply arrived in order; else the index of the item whose reply was due (len(items): the sentinel's)
	mis      bool     // at brokenAt a frame began that is not the due reply: n/got are what it announced
	n, got   int32
	extra    []byte // that frame's payload as far as it arrived (witness detail only)
	err      string // at brokenAt the connection ended or the watchdog fired
	timedOut bool
}

// doStream sends the items and a trailing sentinel on the client's connection and reads one frame per reply-expecting
// item, in order. pipelined: everything is written up front (from a goroutine, so that replies cannot dead-lock
// against requests); otherwise each request is written only after the reply to the previous reply-expecting request
// was read, and an acks=0 produce is immediately followed by the next request - what a client with one request in
// flight does. No timing enters either way: the server handles a connection's requests in order.
func (c *c11Client) doStream(items []c11StreamItem, pipelined bool) (out c11StreamOutcome) {
	out.brokenAt = -1
	out.replies = make([][]byte, len(items))
	if err := c.dial(); err != nil {
		out.brokenAt, out.err, out.timedOut = 0, "dial: "+err.Error(), true
		return out
	}
	conn := c.conn
	wd := c.watchdog
	if wd <= 0 {
		wd = c11Watchdog
	}
	_ = conn.SetDeadline(time.Now().Add(wd))
	sf, sentCorr := c.sentinelFrame()
	wdone := make(chan struct{})
	if pipelined {
		var all []byte
		for _, it := range items {
			all = append(all, it.wire...)
		}
		all = append(all, sf...)
		go func() { _, _ = conn.Write(all); close(wdone) }()
	} else {
		close(wdone)
	}
	defer func() {
		if out.brokenAt >= 0 {
			c.close() // also unblocks the writer
		}
		<-wdone
	}()
	due := func(i int, corr int32) bool {
		f, n, got, mis, err := c11ReadDue(conn, corr)
		switch {
		case mis:
			out.brokenAt, out.mis, out.n, out.got = i, true, n, got
			if n >= 4 && n <= 1<<20 {
				// collect the misplaced frame for the witness; the verdict does not depend on it
				_ = conn.SetReadDeadline(time.Now().Add(2 * time.Second))
				b := make([]byte, n)
				binary.BigEndian.PutUint32(b, uint32(got))
				k, _ := io.ReadFull(conn, b[4:])
				out.extra = b[:4+k]
			}
			return false
		case err != nil:
			out.brokenAt, out.err, out.timedOut = i, err.Error(), c11IsTimeout(err)
			return false
		}
		if i < len(items) {
			out.replies[i] = f
		}
		return true
	}
	for i, it := range items {
		if !pipelined {
			_ = conn.SetDeadline(time.Now().Add(wd))
			if _, err := conn.Write(it.wire); err != nil {
				out.brokenAt, out.err = i, "write: "+err.Error()
				return out
			}
		}
		if it.noReply {
			continue
		}
		if !due(i, it.cs.Corr) {
			return out
		}
	}
	if !pipelined {
		if _, err := conn.Write(sf); err != nil {
			out.brokenAt, out.err = len(items), "write: "+err.Error()
			return out
		}
	}
	due(len(items), sentCorr)
	return out
}

// ---------------------------------------------------------------------------
// stream generation
// ---------------------------------------------------------------------------

// acks0Produce builds a Produce request with acks=0 at ver. Each partition is drawn independently: topic (existing /
// new legal name / illegal name), partition index (0, or one the topic does not have unless onlyPartitionZero) and
// record set (a valid batch, fewer bytes than a batch header, random bytes, a truncated batch, null, a valid batch
// with one header field overwritten). kinds names what was drawn. What the server does with each (append, reject,
// auto-create) is its business; by protocol none of it is answered.
func (w *c11World) acks0Produce(rng *rand.Rand, ver int16) (*kmsg.ProduceRequest, []string) {
	q := kmsg.NewPtrProduceRequest()
	q.SetVersion(ver)
	q.Acks = 0
	q.TimeoutMillis = int32(rng.Intn(200))
	var kinds []string
	nT := 1 + rng.Intn(2)
	if rng.Intn(8) == 0 {
		nT = 3
	}
	used := map[string]bool{}
	for ti := 0; ti < nT; ti++ {
		t := kmsg.NewProduceRequestTopic()
		tk := "topic_existing"
		switch rng.Intn(10) {
		case 0, 1:
			w.seq++
			t.Topic, tk = fmt.Sprintf("c11s-%d", w.seq), "topic_new"
		case 2:
			t.Topic, tk = []string{"!bad name", "", "..", "a/b", strings.Repeat("x", 300)}[rng.Intn(5)], "topic_illegal_name"
		default:
			t.Topic = w.topics[rng.Intn(len(w.topics))]
		}
		if used[t.Topic] {
			continue
		}
		used[t.Topic] = true
		if ver >= 13 {
			t.TopicID = metadata.TopicIDForName(t.Topic)
		}
		nP := 1 + rng.Intn(2)
		for pi := 0; pi < nP; pi++ {
			p := kmsg.NewProduceRequestTopicPartition()
			pk := "partition_0"
			if !w.onlyPartitionZero && rng.Intn(4) == 0 {
				p.Partition = []int32{1, 2, 3, 7, -1}[rng.Intn(5)]
				pk = "partition_other"
			}
			if pi > 0 && p.Partition == 0 {
				if w.onlyPartitionZero {
					break
				}
				p.Partition, pk = 1, "partition_other"
			}
			w.seq++
			valid := kbatch.Encode(kbatch.Gen(rng, kbatch.GenOpts{MaxRecords: 3, MaxValue: 30, BaseTS: 1700000000000, ProducerTag: "c11s"}, w.seq))
			rk := "records_valid"
			switch rng.Intn(10) {
			case 0, 1:
				b := make([]byte, rng.Intn(61))
				rng.Read(b)
				p.Records, rk = b, "records_shorter_than_batch_header"
			case 2:
				b := make([]byte, 61+rng.Intn(140))
				rng.Read(b)
				p.Records, rk = b, "records_random_bytes"
			case 3:
				p.Records, rk = valid[:rng.Intn(len(valid))], "records_truncated_batch"
			case 4:
				p.Records, rk = nil, "records_null"
			case 5:
				// one of: batchLength (8), magic (16), lastOffsetDelta (23), record count (57) overwritten
				off := []int{8, 16, 23, 57}[rng.Intn(4)]
				b := append([]byte(nil), valid...)
				if off == 16 {
					b[off] = byte(rng.Intn(4))
				} else if off+4 <= len(b) {
					binary.BigEndian.PutUint32(b[off:], []uint32{0xffffffff, 0x80000000, 0x7fffffff, 0}[rng.Intn(4)])
				}
				p.Records, rk = b, "records_header_field_overwritten"
			default:
				p.Records = valid
			}
			t.Partitions = append(t.Partitions, p)
			kinds = append(kinds, tk+"/"+pk+"/"+rk)
		}
		if len(t.Partitions) > 0 {
			q.Topics = append(q.Topics, t)
		}
	}
	if len(q.Topics) == 0 { // cannot happen (the first topic always gets a partition); an acks=0 produce without topics is never sent
		t := kmsg.NewProduceRequestTopic()
		t.Topic = w.topics[0]
		p := kmsg.NewProduceRequestTopicPartition()
		t.Partitions = append(t.Partitions, p)
		q.Topics = append(q.Topics, t)
		kinds = append(kinds, "topic_existing/partition_0/records_null")
	}
	return q, kinds
}

type c11Pair struct{ key, ver int16 }

// genStream draws one stream: 2..7 slots, each an acks=0 produce (optionally followed by its acked twin: the same
// topics, partitions and record sets with acks=1, whose reply shows what the server thinks of them) or an advertised
// request of any API; at least one acks=0 produce, and at least one reply-expecting request after the last of them.
// Correlation ids are unique within the stream, so a frame names the request it was written for.
func (w *c11World) genStream(rng *rand.Rand, target string, pairs []c11Pair, produce c11Range) []c11StreamItem {
	var items []c11StreamItem
	corrs := map[int32]bool{}
	add := func(req kmsg.Request, noReply bool, kinds []string, twinOf int) {
		var corr int32
		for {
			corr = c11Corr(rng)
			if !corrs[corr] {
				break
			}
		}
		corrs[corr] = true
		cid := verifkreq.ClientID(rng)
		wire := verifkreq.Encode(req, corr, cid)
		cs := c11Case{Target: target, API: kmsg.NameForKey(req.Key()), Key: req.Key(), Version: req.GetVersion(), Advertised: true, Corr: corr, Acks0: noReply, RequestHex: c11Hex(wire)}
		if cid != nil {
			cs.ClientID = *cid
		} else {
			cs.ClientID = "<null>"
		}
		items = append(items, c11StreamItem{cs: cs, wire: wire, req: req, noReply: noReply, kinds: kinds, twinOf: twinOf})
	}
	produceVer := func() int16 { return produce.min + int16(rng.Intn(int(produce.max-produce.min)+1)) }
	normal := func() {
		var key, ver int16
		switch rng.Intn(10) {
		case 0, 1, 2:
			key, ver = 0, produceVer()
		default:
			p := pairs[rng.Intn(len(pairs))]
			key, ver = p.key, p.ver
		}
		req := w.gen(rng, key, ver)
		if q, ok := req.(*kmsg.ProduceRequest); ok && q.Acks == 0 {
			if rng.Intn(2) == 0 {
				q.Acks = []int16{1, -1}[rng.Intn(2)]
			} else {
				add(req, true, []string{"generic_fill"}, -1)
				return
			}
		}
		add(req, false, nil, -1)
	}
	acks0 := func() {
		q, kinds := w.acks0Produce(rng, produceVer())
		add(q, true, kinds, -1)
		if rng.Intn(2) == 0 {
			twin := *q
			twin.Acks = []int16{1, -1}[rng.Intn(2)]
			add(&twin, false, nil, len(items)-1)
		}
	}
	slots := 2 + rng.Intn(6)
	have := false
	for s := 0; s < slots; s++ {
		if rng.Intn(2) == 0 {
			acks0()
			have = true
		} else {
			normal()
		}
	}
	if !have {
		acks0()
	}
	for items[len(items)-1].noReply {
		normal()
	}
	return items
}

// ---------------------------------------------------------------------------
// the pass
// ---------------------------------------------------------------------------

func c11StreamWitnessOf(target string, pipelined bool, items []c11StreamItem, out c11StreamOutcome, seen string) c11StreamWitness {
	w := c11StreamWitness{Target: target, Mode: "lockstep", BrokenAt: out.brokenAt, Seen: seen, FrameHex: c11Hex(out.extra)}
	if pipelined {
		w.Mode = "pipelined"
	}
	for i, it := range items {
		sr := c11StreamReq{API: it.cs.API, Key: it.cs.Key, Version: it.cs.Version, Corr: it.cs.Corr, NoReply: it.noReply, Kinds: it.kinds, RequestHex: it.cs.RequestHex}
		if i < len(out.replies) && out.replies[i] != nil {
			sr.ReplyHex = c11Hex(out.replies[i])
		}
		w.Stream = append(w.Stream, sr)
	}
	return w
}

// c11RunStreams drives n generated streams (or the recorded one) against the server of m and judges them.
// Only configurations in which every advertised request must be answered (m.requireReply) are driven: the degraded
// proxy configurations answer one request and close the connection, there is no later reply to look at.
func c11RunStreams(r *verifkit.Run, m c11Matrix, n int, rp *c11StreamWitness) {
	target, addr := m.target, m.addr
	cl := &c11Client{addr: addr, watchdog: c11Watchdog}
	defer cl.close()
	table, keys := c11Advertised(r, target, cl)
	if table == nil {
		return
	}
	produce, ok := table[0]
	if !ok || produce.min < 0 || produce.max < produce.min {
		r.Note(target+"_streams", "Produce is not advertised: no request without a reply exists for this server")
		return
	}
	var pairs []c11Pair
	for _, k := range keys {
		rg := table[k]
		if rg.min < 0 || rg.max < rg.min || k == 11 || k == 14 {
			continue // JoinGroup / SyncGroup wait on rebalance timers; the matrix drives them
		}
		for v := rg.min; v <= rg.max; v++ {
			pairs = append(pairs, c11Pair{k, v})
		}
	}
	world := c11NewWorld()
	world.onlyPartitionZero = m.partitionZeroOnly
	t0 := time.Now()
	defer func() { r.Note(target+"_streams_wall_s", time.Since(t0).Seconds()) }() // evidence about the budget only

	// alone: one reply-expecting request + sentinel on a fresh connection, judged like a matrix case
	alone := func(it c11StreamItem) {
		r.Count("stream_asked_alone", 1)
		cl.close()
		if m.hooks != nil && m.hooks.before != nil {
			m.hooks.before()
		}
		ex := cl.do(it.wire, true)
		if m.hooks != nil && m.hooks.after != nil {
			m.hooks.after(it.cs)
		}
		if ex.reply == nil && ex.closed {
			r.Count("retries_without_pipelining", 1)
			cl.close()
			ex = cl.do(it.wire, false)
			cl.close()
		}
		if ex.watchdog {
			cl.close()
			ex = c11Reask(r, addr, it.wire, ex)
		}
		resp := c11Judge(r, it.cs, ex)
		if resp != nil && ex.afterReply != "" {
			c11JudgeFollowing(r, addr, it.cs, ex)
		}
	}

	run := func(items []c11StreamItem, pipelined bool, sampleIt bool) {
		r.Count("streams", 1)
		if pipelined {
			r.Count("streams_pipelined", 1)
		} else {
			r.Count("streams_lockstep", 1)
		}
		r.Count("stream_requests", int64(len(items)))
		if m.hooks != nil && m.hooks.before != nil {
			m.hooks.before()
		}
		out := cl.doStream(items, pipelined)
		if m.hooks != nil && m.hooks.after != nil {
			m.hooks.after(items[0].cs)
		}
		before := c11Violations
		acks0Seen, afterAcks0 := 0, 0
		for i, it := range items {
			if it.noReply {
				if out.brokenAt < 0 || i < out.brokenAt {
					acks0Seen++
					r.Count("stream_acks0_produces", 1)
					for _, k := range it.kinds {
						r.Seen("stream_acks0_partition_kinds", k)
					}
				}
				continue
			}
			f := out.replies[i]
			if f == nil {
				continue
			}
			resp := c11Judge(r, it.cs, c11Exchange{reply: f})
			if resp == nil {
				continue
			}
			world.learn(it.req, resp)
			for _, c := range c11Content(resp) {
				r.Count("stream_content_"+c, 1)
			}
			if acks0Seen > 0 {
				afterAcks0++
				r.Count("stream_replies_after_acks0", 1)
				r.Seen("stream_reply_pairs_after_acks0", fmt.Sprintf("%s/%d/%d", target, it.cs.Key, it.cs.Version))
			}
			if pr, ok := resp.(*kmsg.ProduceResponse); ok && it.twinOf >= 0 {
				for _, t := range pr.Topics {
					for _, p := range t.Partitions {
						if p.ErrorCode != 0 {
							r.Count("stream_acks0_twin_partitions_rejected", 1)
							r.Seen("stream_acks0_twin_error_codes", fmt.Sprint(p.ErrorCode))
						} else {
							r.Count("stream_acks0_twin_partitions_accepted", 1)
						}
					}
				}
			}
		}
		var sig []any
		sig = append(sig, target, "stream", pipelined)
		for _, it := range items {
			sig = append(sig, verifkit.Hash(it.wire))
		}
		r.Case(verifkit.Hash(sig...), out.brokenAt < 0 && afterAcks0 > 0)
		if sampleIt && out.brokenAt < 0 {
			var desc []string
			for i, it := range items {
				d := fmt.Sprintf("%s v%d corr=%d", it.cs.API, it.cs.Version, it.cs.Corr)
				if it.noReply {
					d += " acks=0 " + strings.Join(it.kinds, ",") + " -> no frame"
				} else {
					d += fmt.Sprintf(" -> %d-byte reply", len(out.replies[i]))
				}
				desc = append(desc, d)
			}
			r.Sample(map[string]any{"target": target, "stream": desc, "pipelined": pipelined})
		}
		if out.brokenAt < 0 {
			r.Count("streams_completed", 1)
			return
		}
		dueAPI, dueVer, dueCorr := "ApiVersions", int16(0), int32(0)
		if out.brokenAt < len(items) {
			d := items[out.brokenAt].cs
			dueAPI, dueVer, dueCorr = d.API, d.Version, d.Corr
		}
		switch {
		case out.mis:
			seen := fmt.Sprintf("where the reply to request %d of the stream (%s v%d, correlation id %d) was due, a frame announcing %d bytes with correlation id %d begins", out.brokenAt, dueAPI, dueVer, dueCorr, out.n, out.got)
			if out.brokenAt == len(items) {
				seen = fmt.Sprintf("where the reply to the trailing ApiVersions v0 request was due, a frame announcing %d bytes with correlation id %d begins", out.n, out.got)
			}
			// a frame written for an acks=0 produce sent earlier on this connection?
			src := -1
			for j := 0; j < out.brokenAt && j < len(items); j++ {
				if items[j].noReply && items[j].cs.Corr == out.got && out.n >= 4 && out.n <= 64<<20 {
					src = j
				}
			}
			if src >= 0 && c11Violations == before {
				r.Count("stream_frames_for_acks0_produce", 1)
				p := items[src]
				c11Viol(r, "reply_stream_shifted_by_frame_for_acks0_produce:Produce",
					fmt.Sprintf("%s: Produce v%d with acks=0 (request %d of a stream on one connection; by protocol it has no reply; partitions: %s) was answered with a %d-byte frame carrying its correlation id %d; a client reads that frame as the reply to the next request, so %s v%d (correlation id %d) receives a reply with a foreign correlation id and body, and every later reply on the connection is shifted by one",
						target, p.cs.Version, src, strings.Join(p.kinds, ","), out.n, out.got, dueAPI, dueVer, dueCorr),
					c11StreamWitnessOf(target, pipelined, items, out, seen))
				return
			}
			// some other frame: ask every request whose reply was not read again alone, where a verdict is attributable
			r.Count("streams_misframed", 1)
			for i := out.brokenAt; i < len(items); i++ {
				if !items[i].noReply {
					alone(items[i])
				}
			}
			if c11Violations == before {
				c11Viol(r, "stream_replies_misframed:"+dueAPI, fmt.Sprintf("%s: %d requests on one connection (acks=0 produces among them): %s; each reply-expecting request alone is answered correctly", target, len(items), seen),
					c11StreamWitnessOf(target, pipelined, items, out, seen))
			}
		case out.timedOut:
			r.Count("streams_watchdog", 1)
			for i := out.brokenAt; i < len(items); i++ {
				if !items[i].noReply {
					alone(items[i])
				}
			}
			if c11Violations == before {
				r.Inconclusive(fmt.Sprintf("%s stream: watchdog while the reply to request %d (%s v%d) was due (%s); every reply-expecting request alone was answered", target, out.brokenAt, dueAPI, dueVer, out.err))
			}
		default:
			// The connection ended. A server may close a connection (Apache Kafka does so when an acks=0 produce fails);
			// the requests behind it are then lost by design. Not judged as such; the unanswered requests are judged alone.
			r.Count("streams_connection_ended", 1)
			for i := out.brokenAt; i < len(items); i++ {
				if !items[i].noReply {
					alone(items[i])
				}
			}
		}
	}

	if rp != nil {
		var items []c11StreamItem
		for _, sr := range rp.Stream {
			wire, err := hex.DecodeString(sr.RequestHex)
			if err != nil || len(wire) < 12 {
				r.Inconclusive("replay: a request_hex of the stream witness is not usable (truncated in the witness file?)")
				return
			}
			items = append(items, c11StreamItem{cs: c11Case{Target: target, API: sr.API, Key: sr.Key, Version: sr.Version, Advertised: true, Corr: sr.Corr, Acks0: sr.NoReply, RequestHex: sr.RequestHex}, wire: wire, noReply: sr.NoReply, kinds: sr.Kinds, twinOf: -1})
		}
		run(items, rp.Mode == "pipelined", true)
		return
	}
	for s := 0; s < n; s++ {
		caseNo := m.salt + 800000 + s
		rng := r.Rand(caseNo)
		items := world.genStream(rng, target, pairs, produce)
		pipelined := rng.Intn(2) == 0
		if rng.Intn(3) == 0 {
			cl.close() // otherwise the next stream continues on the same connection
		}
		run(items, pipelined, s%97 == 3)
	}
	r.Count(target+"_stream_connections", int64(cl.dials))
}
