//go:build verif

package main

// C11 client-side monitor shared by the broker leg (cmd/broker) and the proxy
// leg (cmd/proxy); both are `package main`. Everything here speaks the Kafka
// wire protocol over a real loopback TCP connection and judges reply frames
// with the franz-go codec (kmsg), i.e. exactly what a standard client sees.

import (
	"bytes"
	"encoding/binary"
	"encoding/hex"
	"encoding/json"
	"errors"
	"fmt"
	"io"
	"math"
	"math/rand"
	"net"
	"os"
	"sort"
	"strings"
	"time"

	"github.com/twmb/franz-go/pkg/kmsg"

	"github.com/KafScale/platform/internal/verifkit"
	"github.com/KafScale/platform/internal/verifkit/kbatch"
	"github.com/KafScale/platform/internal/verifkreq"
	"github.com/KafScale/platform/pkg/metadata"
)

const c11Watchdog = 60 * time.Second // generous; firing => inconclusive, never a verdict
// in the degraded proxy configurations a missing reply is not judged at all, so waiting long for one buys nothing
const c11DegradedWatchdog = 10 * time.Second

// ---------------------------------------------------------------------------
// wire helpers
// ---------------------------------------------------------------------------

func c11ReadFrame(conn net.Conn) ([]byte, error) {
	var l [4]byte
	if k, err := io.ReadFull(conn, l[:]); err != nil {
		if k > 0 {
			return nil, fmt.Errorf("reply frame cut short: %d of 4 length-prefix bytes received: %w", k, err)
		}
		return nil, err
	}
	n := int32(binary.BigEndian.Uint32(l[:]))
	if n < 0 || n > 64<<20 {
		return nil, fmt.Errorf("reply frame announces %d bytes", n)
	}
	b := make([]byte, n)
	if k, err := io.ReadFull(conn, b); err != nil {
		return nil, fmt.Errorf("reply frame cut short: announces %d bytes, %d received: %w", n, k, err)
	}
	return b, nil
}

// c11ReadFrameExpect reads the next frame, which must be the reply carrying correlation id corr. It looks at the
// first 8 bytes (length prefix + correlation id) before it trusts the announced length: when they are not the start
// of that reply, the stream is misframed (bytes of another frame, a shifted frame) and waiting for "the rest" would
// only wait for the watchdog. misframed != "" describes what was seen; it is an observation about bytes that did
// arrive, no timing involved.
func c11ReadFrameExpect(conn net.Conn, corr int32) (frame []byte, misframed string, err error) {
	var h [8]byte
	if k, err := io.ReadFull(conn, h[:]); err != nil {
		if k > 0 {
			return nil, "", fmt.Errorf("reply frame cut short: %d of the first 8 bytes received (%x): %w", k, h[:k], err)
		}
		return nil, "", err
	}
	n := int32(binary.BigEndian.Uint32(h[:4]))
	got := int32(binary.BigEndian.Uint32(h[4:]))
	if got != corr || n < 4 || n > 64<<20 {
		return nil, fmt.Sprintf("the next bytes on the connection are %x (a frame announcing %d bytes with correlation id %d) where the reply with correlation id %d was due", h[:], n, got, corr), nil
	}
	b := make([]byte, n)
	copy(b, h[4:])
	if k, err := io.ReadFull(conn, b[4:]); err != nil {
		return nil, "", fmt.Errorf("reply frame cut short: announces %d bytes, %d received: %w", n, 4+k, err)
	}
	return b, "", nil
}

func c11IsTimeout(err error) bool {
	var ne net.Error
	return errors.As(err, &ne) && ne.Timeout()
}

// c11Exchange is the outcome of one request on one connection.
type c11Exchange struct {
	reply      []byte // frame that answered the request (nil = none)
	noReply    bool   // the server went on to answer the sentinel: it sent nothing for the request
	closed     bool   // the connection ended before any frame
	watchdog   bool   // read deadline fired: decides nothing
	err        string
	connBroken bool // do not reuse the connection
	// afterReply: the reply arrived complete, but the bytes that followed it on the connection were not the reply to
	// the pipelined sentinel (description of what was seen). Empty when the sentinel's reply followed intact, or when
	// nothing followed (closed / watchdog: decides nothing).
	afterReply string
	// watchdogTwice: no complete reply within the watchdog on the first connection (still open) and again when the same
	// request was sent alone on a fresh connection (still open); firstErr is what the first attempt saw.
	watchdogTwice bool
	firstErr      string
}

type c11Client struct {
	addr     string
	conn     net.Conn
	sentinel int32
	dials    int
	watchdog time.Duration
}

func (c *c11Client) close() {
	if c.conn != nil {
		c.conn.Close()
		c.conn = nil
	}
}

func (c *c11Client) dial() error {
	if c.conn != nil {
		return nil
	}
	var err error
	for i := 0; i < 200; i++ { // setup only: the listener may not be up yet
		var cn net.Conn
		cn, err = net.DialTimeout("tcp", c.addr, 5*time.Second)
		if err == nil {
			c.conn = cn
			c.dials++
			return nil
		}
		time.Sleep(25 * time.Millisecond)
	}
	return err
}

// sentinelFrame is an ApiVersions v0 request (understood by every Kafka server,
// always answered) with a correlation id the harness reserves.
func (c *c11Client) sentinelFrame() ([]byte, int32) {
	c.sentinel++
	corr := int32(0x5e000000) + c.sentinel&0xffffff
	req := kmsg.NewPtrApiVersionsRequest()
	req.SetVersion(0)
	cid := "verif-sentinel"
	return verifkreq.Encode(req, corr, &cid), corr
}

// do sends the request immediately followed by the sentinel on the same
// connection. The server handles a connection's requests in order, so: the
// first frame back is either the request's reply or — if it carries the
// sentinel's correlation id — proof that the request got no reply. No timing.
func (c *c11Client) do(wire []byte, pipelineSentinel bool) c11Exchange {
	var ex c11Exchange
	if err := c.dial(); err != nil {
		ex.err, ex.watchdog, ex.connBroken = "dial: "+err.Error(), true, true
		return ex
	}
	conn := c.conn
	defer func() {
		if ex.connBroken {
			c.close()
		}
	}()
	wd := c.watchdog
	if wd <= 0 {
		wd = c11Watchdog
	}
	_ = conn.SetDeadline(time.Now().Add(wd))
	if _, err := conn.Write(wire); err != nil {
		ex.closed, ex.connBroken, ex.err = true, true, "write: "+err.Error()
		return ex
	}
	var sentCorr int32
	if pipelineSentinel {
		var sf []byte
		sf, sentCorr = c.sentinelFrame()
		_, _ = conn.Write(sf) // a failure here shows up on the read side
	}
	first, err := c11ReadFrame(conn)
	if err != nil {
		ex.connBroken = true
		ex.err = err.Error()
		if c11IsTimeout(err) {
			ex.watchdog = true
		} else {
			ex.closed = true
		}
		return ex
	}
	if pipelineSentinel && len(first) >= 4 && int32(binary.BigEndian.Uint32(first)) == sentCorr {
		ex.noReply = true
		return ex
	}
	ex.reply = first
	if !pipelineSentinel {
		return ex
	}
	// the sentinel's reply must follow; only then can the connection be reused
	_, mis, err := c11ReadFrameExpect(conn, sentCorr)
	if mis != "" {
		ex.connBroken, ex.afterReply = true, mis
	} else if err != nil {
		ex.connBroken = true
	}
	return ex
}

// ---------------------------------------------------------------------------
// reply oracle
// ---------------------------------------------------------------------------

func c11RespFlexible(key, ver int16) (bool, bool) {
	resp := kmsg.ResponseForKey(key)
	if resp == nil {
		return false, false
	}
	resp.SetVersion(ver)
	return resp.IsFlexible(), true
}

// c11StripHeader removes the response header: correlation id, and for a flexible header its tagged-field section.
func c11StripHeader(frame []byte, flexible bool) ([]byte, bool) {
	if len(frame) < 4 {
		return nil, false
	}
	b := frame[4:]
	if !flexible {
		return b, true
	}
	n, w := binary.Uvarint(b)
	if w <= 0 {
		return nil, false
	}
	b = b[w:]
	for i := uint64(0); i < n; i++ {
		_, w := binary.Uvarint(b)
		if w <= 0 {
			return nil, false
		}
		b = b[w:]
		sz, w := binary.Uvarint(b)
		if w <= 0 || sz > uint64(len(b)-w) {
			return nil, false
		}
		b = b[w+int(sz):]
	}
	return b, true
}

// c11Decode: the standard codec decodes body at (key, ver); canonical = its re-encoding is byte-identical.
//
// The codec is run on its own goroutine under a watchdog: its tagged-field reader loops `count` times even after
// the bytes are exhausted, so bytes that are NOT a well-formed message of that version (which is what this monitor is
// looking for) can keep it busy for minutes. stuck=true decides nothing (=> inconclusive), the goroutine is abandoned.
func c11Decode(key, ver int16, body []byte) (resp kmsg.Response, decodeErr error, canonical bool, stuck bool) {
	if kmsg.ResponseForKey(key) == nil {
		return nil, fmt.Errorf("codec has no response type for key %d", key), false, false
	}
	type out struct {
		resp      kmsg.Response
		err       error
		canonical bool
	}
	ch := make(chan out, 1)
	go func() {
		rp := kmsg.ResponseForKey(key)
		rp.SetVersion(ver)
		if err := rp.ReadFrom(body); err != nil {
			ch <- out{rp, err, false}
			return
		}
		ch <- out{rp, nil, bytes.Equal(rp.AppendTo(nil), body)}
	}()
	select {
	case o := <-ch:
		return o.resp, o.err, o.canonical, false
	case <-time.After(c11DecodeWatchdog):
		return nil, errors.New("codec did not finish decoding"), false, true
	}
}

const c11DecodeWatchdog = 20 * time.Second

type c11Case struct {
	Target     string `json:"target"`
	API        string `json:"api"`
	Key        int16  `json:"key"`
	Version    int16  `json:"version"`
	Advertised bool   `json:"advertised"`
	Corr       int32  `json:"correlation_id"`
	ClientID   string `json:"client_id"`
	Acks0      bool   `json:"acks0,omitempty"`
	NoReplyOK  bool   `json:"-"` // configuration in which the statement does not demand a reply (backend down / proxy not ready)
	RequestHex string `json:"request_hex"`
	ReplyHex   string `json:"reply_hex,omitempty"`
	Detail     string `json:"detail,omitempty"`
}

func c11Hex(b []byte) string {
	if len(b) > 16384 {
		return fmt.Sprintf("%x...(%d bytes)", b[:16384], len(b))
	}
	return fmt.Sprintf("%x", b)
}

// c11Judge applies the property to one exchange. Returns the decoded response when the reply was well-formed.
// c11Violations counts the violations reported through c11Viol (the legs drive one connection at a time), so that a
// caller can tell whether judging an exchange found something.
var c11Violations int

func c11Viol(r *verifkit.Run, class, summary string, replay any) {
	c11Violations++
	r.Violation(class, summary, replay)
}

// c11Reask is the second half of the lost-reply rule. ex ended in the watchdog: the connection was still open and
// neither the reply nor the sentinel's reply arrived completely. A slow box could do that, so the same request is
// sent once more, alone, on a fresh connection with the same generous watchdog. A complete reply there is judged
// like any other (the first attempt then decided nothing); a second watchdog on an open connection makes the loss
// attributable to this request ("a request at that version gets a reply" is violated).
func c11Reask(r *verifkit.Run, addr string, wire []byte, ex c11Exchange) c11Exchange {
	r.Count("watchdog_reasked_alone", 1)
	cl := &c11Client{addr: addr, watchdog: c11Watchdog}
	defer cl.close()
	ex2 := cl.do(wire, false)
	switch {
	case ex2.reply != nil:
		r.Count("watchdog_reask_got_reply", 1)
	case ex2.watchdog && !strings.HasPrefix(ex2.err, "dial:"):
		ex2.watchdogTwice, ex2.firstErr = true, ex.err
	}
	return ex2
}

// c11JudgeFollowing handles "the reply is fine but what follows it on the connection is not the next reply": the
// request was followed by an ApiVersions v0 request (the sentinel), whose reply must come next. Bytes that are not
// that reply mean the server wrote fewer/more bytes for the first reply than its frame announced, or garbled the
// second; either way the ApiVersions v0 request did not get its reply. A control (the same sentinel alone on a
// fresh connection is answered intact) pins it on the preceding reply.
func c11JudgeFollowing(r *verifkit.Run, addr string, cs c11Case, ex c11Exchange) {
	ctl := &c11Client{addr: addr, watchdog: c11Watchdog}
	defer ctl.close()
	sf, corr := ctl.sentinelFrame()
	cx := ctl.do(sf, false)
	if cx.reply == nil || len(cx.reply) < 4 || int32(binary.BigEndian.Uint32(cx.reply)) != corr {
		r.Inconclusive(fmt.Sprintf("%s %s v%d: %s - but the ApiVersions v0 sentinel alone on a fresh connection is not answered either (%s), so this is not attributed", cs.Target, cs.API, cs.Version, ex.afterReply, cx.err))
		return
	}
	cs.ReplyHex = c11Hex(ex.reply)
	cs.Detail = fmt.Sprintf("the %d-byte reply is complete and decodes, but %s; the same ApiVersions v0 request alone on a fresh connection is answered intact", len(ex.reply), ex.afterReply)
	c11Viol(r, "reply_breaks_framing_of_next_reply:"+cs.API, fmt.Sprintf("%s: after the %d-byte reply to %s v%d the reply to the next request on the connection (ApiVersions v0) does not arrive as a frame: %s", cs.Target, len(ex.reply), cs.API, cs.Version, ex.afterReply), cs)
}

func c11Judge(r *verifkit.Run, cs c11Case, ex c11Exchange) kmsg.Response {
	api := cs.API
	adv := "advertised"
	if !cs.Advertised {
		adv = "unadvertised"
	}
	if ex.watchdog {
		if cs.NoReplyOK {
			r.Count("no_reply_within_watchdog_in_degraded_config", 1)
			return nil
		}
		if ex.watchdogTwice && cs.Advertised && !cs.Acks0 {
			cs.Detail = fmt.Sprintf("no complete reply within the %s watchdog although the connection stayed open, neither with the sentinel pipelined behind the request (%s) nor when the same request was sent alone on a fresh connection (%s)", c11Watchdog, ex.firstErr, ex.err)
			c11Viol(r, "advertised_version_not_served:"+api, fmt.Sprintf("%s: %s v%d is advertised but no complete reply arrives (twice: pipelined and alone on a fresh connection; connection open, %s)", cs.Target, api, cs.Version, ex.err), cs)
			return nil
		}
		r.Inconclusive(fmt.Sprintf("%s %s v%d: watchdog (%s)", cs.Target, api, cs.Version, ex.err))
		return nil
	}
	if ex.reply == nil {
		switch {
		case cs.Acks0:
			r.Count("acks0_no_reply", 1)
		case cs.NoReplyOK:
			r.Count("no_reply_in_degraded_config", 1)
		case !cs.Advertised:
			if ex.closed {
				r.Count("unadvertised_connection_closed", 1)
			} else {
				r.Count("unadvertised_no_reply", 1)
			}
		case ex.closed:
			cs.Detail = "connection closed without a reply: " + ex.err
			c11Viol(r, "advertised_version_not_served:"+api, fmt.Sprintf("%s: %s v%d is advertised but the connection was closed without a reply", cs.Target, api, cs.Version), cs)
		default:
			cs.Detail = "server skipped the request and answered the next one"
			c11Viol(r, "advertised_version_not_served:"+api, fmt.Sprintf("%s: %s v%d is advertised but got no reply (the next request on the connection was answered instead)", cs.Target, api, cs.Version), cs)
		}
		return nil
	}
	cs.ReplyHex = c11Hex(ex.reply)
	r.Count("replies", 1)
	if cs.Acks0 {
		r.Count("acks0_got_reply", 1)
		if cs.Advertised && !cs.NoReplyOK {
			// A produce with acks=0 has no reply by protocol: a client does not read a frame for it. The frame that came
			// back before the reply to the pipelined ApiVersions v0 request is therefore what the client receives as the
			// reply to that next request - a reply with a foreign correlation id and body - and every later reply on the
			// connection is shifted by one. (Not judged in the degraded proxy configurations, which answer and close.)
			got := "none (frame shorter than 4 bytes)"
			if len(ex.reply) >= 4 {
				got = fmt.Sprint(int32(binary.BigEndian.Uint32(ex.reply)))
			}
			cs.Detail = fmt.Sprintf("a %d-byte frame (correlation id %s) arrived between the acks=0 produce and the reply to the ApiVersions v0 request sent right behind it", len(ex.reply), got)
			c11Viol(r, "reply_frame_for_acks0_produce:"+api, fmt.Sprintf("%s: %s v%d with acks=0 (no reply by protocol) was answered with a %d-byte frame (correlation id %s); the next request on the connection receives it as its reply", cs.Target, api, cs.Version, len(ex.reply), got), cs)
			return nil
		}
	}
	if len(ex.reply) < 4 {
		c11Viol(r, "reply_shorter_than_header:"+api, fmt.Sprintf("%s: %s v%d reply frame has %d bytes", cs.Target, api, cs.Version, len(ex.reply)), cs)
		return nil
	}
	if got := int32(binary.BigEndian.Uint32(ex.reply)); got != cs.Corr {
		if cs.Advertised {
			cs.Detail = fmt.Sprintf("reply carries correlation id %d", got)
			c11Viol(r, "correlation_id_mismatch:"+api, fmt.Sprintf("%s: %s v%d reply has correlation id %d, request had %d", cs.Target, api, cs.Version, got, cs.Corr), cs)
		} else {
			r.Count("unadvertised_correlation_id_mismatch", 1)
		}
	}
	flex, known := c11RespFlexible(cs.Key, cs.Version)
	if !known {
		r.Count("reply_for_key_unknown_to_codec", 1)
		return nil
	}
	hdrFlex := flex && cs.Key != 18 // KIP-511: the ApiVersions response header never has the tag section
	// KIP-511: an ApiVersions request at a version the server does not support is answered in v0 encoding with
	// UNSUPPORTED_VERSION (checked first: v0 has no tagged fields, so this decode is always cheap)
	if cs.Key == 18 && !cs.Advertised {
		if b0, ok := c11StripHeader(ex.reply, false); ok {
			if r0, e0, c0, _ := c11Decode(18, 0, b0); e0 == nil && c0 && r0.(*kmsg.ApiVersionsResponse).ErrorCode == 35 {
				r.Count("kip511_v0_fallback_replies", 1)
				return nil
			}
		}
	}
	stuckNote := func(which string) {
		r.Count("codec_decode_stuck", 1)
		r.Inconclusive(fmt.Sprintf("%s %s v%d: the codec did not finish decoding the reply (%s) within %s; reply %s", cs.Target, api, cs.Version, which, c11DecodeWatchdog, c11Hex(ex.reply[:min(len(ex.reply), 64)])))
	}
	var resp kmsg.Response
	var derr error
	canonical := false
	body, okHdr := c11StripHeader(ex.reply, hdrFlex)
	if okHdr {
		var stuck bool
		resp, derr, canonical, stuck = c11Decode(cs.Key, cs.Version, body)
		if stuck {
			stuckNote("expected header shape")
			return nil
		}
	} else {
		derr = errors.New("response header tag section malformed")
	}
	if derr == nil && canonical {
		r.Count("replies_decoded", 1)
		if hdrFlex {
			r.Count("replies_flexible_header", 1)
		}
		return resp
	}
	// would it have been fine with the other header shape?
	if alt, ok := c11StripHeader(ex.reply, !hdrFlex); ok {
		_, e, c, stuck := c11Decode(cs.Key, cs.Version, alt)
		if stuck {
			stuckNote("other header shape")
		} else if e == nil && c {
			want, got := "without", "with"
			if hdrFlex {
				want, got = "with", "without"
			}
			cs.Detail = fmt.Sprintf("body decodes only when the header is read %s a tagged-field section; the version requires it %s", got, want)
			c11Viol(r, "response_header_shape:"+api, fmt.Sprintf("%s: %s v%d reply has the wrong response-header shape (%s)", cs.Target, api, cs.Version, adv), cs)
			return nil
		}
	}
	if derr != nil {
		cs.Detail = "codec error: " + derr.Error()
		c11Viol(r, "reply_undecodable:"+api, fmt.Sprintf("%s: %s v%d (%s) reply cannot be decoded at v%d: %v", cs.Target, api, cs.Version, adv, cs.Version, derr), cs)
		return nil
	}
	cs.Detail = "codec decodes the body but its re-encoding at the same version differs (bytes left over or fields of another version)"
	c11Viol(r, "reply_not_in_requested_version:"+api, fmt.Sprintf("%s: %s v%d (%s) reply decodes but is not a v%d encoding (re-encoding differs)", cs.Target, api, cs.Version, adv, cs.Version), cs)
	return nil
}

// ---------------------------------------------------------------------------
// request generation against a live server
// ---------------------------------------------------------------------------

type c11World struct {
	topics  []string
	groups  []string
	members []string
	joined  []c11Joined // (group, member id, generation) triples handed out by JoinGroup replies
	seq     int
	// onlyPartitionZero: the backend cannot be instrumented (proxy leg: broker is a child process), so requests that
	// are known to make the broker handler spin forever (a partition index the topic does not have) are not sent
	onlyPartitionZero bool
}

type c11Joined struct {
	group, member string
	generation    int32
}

// c11Hooks lets a leg observe the server side around each exchange (the broker leg watches the metadata store).
type c11Hooks struct {
	before func()
	after  func(cs c11Case)
}

func c11NewWorld() *c11World {
	return &c11World{
		topics: []string{"orders", "orders", "t-alpha", "t-beta", "İstanbul.topic", "a.b_c-1"},
		groups: []string{"g1", "g2", "grp-İ"},
	}
}

func (w *c11World) records(rng *rand.Rand) []byte {
	w.seq++
	switch rng.Intn(10) {
	case 0:
		return nil
	case 1:
		b := make([]byte, rng.Intn(80))
		rng.Read(b)
		return b
	case 2:
		b := kbatch.Encode(kbatch.Gen(rng, kbatch.GenOpts{MaxRecords: 3, MaxValue: 20, ProducerTag: "c11"}, w.seq))
		return b[:rng.Intn(len(b))]
	}
	return kbatch.Encode(kbatch.Gen(rng, kbatch.GenOpts{MaxRecords: 4, MaxValue: 40, NullsEmpty: true, MaxHeaders: 2, BaseTS: 1700000000000, ProducerTag: "c11"}, w.seq))
}

func (w *c11World) opts() verifkreq.Opts {
	return verifkreq.Opts{Tame: true, Tags: true, MaxArray: 3, Names: w.topics, Groups: w.groups, Members: w.members, Records: w.records, OnlyPartitionZero: w.onlyPartitionZero}
}

// gen builds one request body for (key, ver). Beyond the generic fill it biases a few requests towards the
// paths that carry real content (existing topic ids, a joined member), so that replies are more than error stubs.
func (w *c11World) gen(rng *rand.Rand, key, ver int16) kmsg.Request {
	req := kmsg.RequestForKey(key)
	req.SetVersion(ver)
	verifkreq.Fill(rng, req, w.opts())
	pickTopic := func() string { return w.topics[rng.Intn(len(w.topics))] }
	switch q := req.(type) {
	case *kmsg.ProduceRequest:
		if len(q.Topics) == 0 && rng.Intn(4) != 0 {
			t := kmsg.NewProduceRequestTopic()
			t.Topic = pickTopic()
			p := kmsg.NewProduceRequestTopicPartition()
			if !w.onlyPartitionZero {
				p.Partition = int32(rng.Intn(2))
			}
			p.Records = w.records(rng)
			t.Partitions = append(t.Partitions, p)
			q.Topics = append(q.Topics, t)
		}
		for i := range q.Topics {
			if ver >= 13 {
				q.Topics[i].TopicID = metadata.TopicIDForName(q.Topics[i].Topic)
			}
		}
		if q.Acks == 0 && len(q.Topics) == 0 {
			// never sent: the proxy forwards a topic-less produce raw and then waits for a backend reply that an
			// acks=0 produce does not get, which blocks the client connection (observation, outside C11's statement)
			q.Acks = 1
		}
	case *kmsg.FetchRequest:
		if len(q.Topics) == 0 && rng.Intn(4) != 0 {
			t := kmsg.NewFetchRequestTopic()
			t.Topic = pickTopic()
			p := kmsg.NewFetchRequestTopicPartition()
			p.Partition = 0
			p.FetchOffset = int64(rng.Intn(3))
			p.PartitionMaxBytes = 1 << 20
			t.Partitions = append(t.Partitions, p)
			q.Topics = append(q.Topics, t)
		}
		for i := range q.Topics {
			if ver >= 13 && rng.Intn(3) != 0 {
				q.Topics[i].TopicID = metadata.TopicIDForName(q.Topics[i].Topic)
			}
		}
	case *kmsg.MetadataRequest:
		for i := range q.Topics {
			if q.Topics[i].Topic == nil || rng.Intn(2) == 0 {
				q.Topics[i].Topic = kmsg.StringPtr(pickTopic())
			}
			if ver >= 10 && rng.Intn(3) == 0 {
				q.Topics[i].TopicID = metadata.TopicIDForName(*q.Topics[i].Topic)
			} else if rng.Intn(4) != 0 {
				q.Topics[i].TopicID = [16]byte{}
			}
		}
	case *kmsg.SyncGroupRequest:
		if len(w.joined) > 0 && rng.Intn(2) == 0 {
			j := w.joined[rng.Intn(len(w.joined))]
			q.Group, q.MemberID, q.Generation = j.group, j.member, j.generation
		}
	case *kmsg.HeartbeatRequest:
		if len(w.joined) > 0 && rng.Intn(2) == 0 {
			j := w.joined[rng.Intn(len(w.joined))]
			q.Group, q.MemberID, q.Generation = j.group, j.member, j.generation
		}
	case *kmsg.OffsetCommitRequest:
		if len(w.joined) > 0 && rng.Intn(2) == 0 {
			j := w.joined[rng.Intn(len(w.joined))]
			q.Group, q.MemberID, q.Generation = j.group, j.member, j.generation
		}
		if len(q.Topics) == 0 {
			t := kmsg.NewOffsetCommitRequestTopic()
			t.Topic = pickTopic()
			p := kmsg.NewOffsetCommitRequestTopicPartition()
			p.Offset = int64(rng.Intn(5))
			t.Partitions = append(t.Partitions, p)
			q.Topics = append(q.Topics, t)
		}
	case *kmsg.JoinGroupRequest:
		if rng.Intn(2) == 0 {
			q.ProtocolType = "consumer"
			p := kmsg.NewJoinGroupRequestProtocol()
			p.Name = "range"
			meta := kmsg.NewConsumerMemberMetadata()
			meta.Topics = []string{pickTopic()}
			p.Metadata = meta.AppendTo(nil)
			q.Protocols = []kmsg.JoinGroupRequestProtocol{p}
		}
	}
	return req
}

// c11Content names what a decoded reply actually carried, so that the evidence shows the workload reached the
// data-bearing paths and not only error stubs.
func c11Content(resp kmsg.Response) []string {
	var out []string
	switch v := resp.(type) {
	case *kmsg.ProduceResponse:
		for _, t := range v.Topics {
			for _, p := range t.Partitions {
				if p.ErrorCode == 0 {
					out = append(out, "produce_partition_ok")
				} else {
					out = append(out, "produce_partition_error")
				}
			}
		}
	case *kmsg.FetchResponse:
		for _, t := range v.Topics {
			for _, p := range t.Partitions {
				if len(p.RecordBatches) > 0 {
					out = append(out, "fetch_partition_with_records")
				} else if p.ErrorCode != 0 {
					out = append(out, "fetch_partition_error")
				}
			}
		}
	case *kmsg.MetadataResponse:
		if len(v.Topics) > 0 {
			out = append(out, "metadata_with_topics")
		}
	case *kmsg.JoinGroupResponse:
		if v.ErrorCode == 0 && v.MemberID != "" {
			out = append(out, "join_group_ok")
		}
	case *kmsg.SyncGroupResponse:
		if v.ErrorCode == 0 {
			out = append(out, "sync_group_ok")
		}
	case *kmsg.HeartbeatResponse:
		if v.ErrorCode == 0 {
			out = append(out, "heartbeat_ok")
		}
	case *kmsg.OffsetCommitResponse:
		for _, t := range v.Topics {
			for _, p := range t.Partitions {
				if p.ErrorCode == 0 {
					out = append(out, "offset_commit_ok")
				}
			}
		}
	case *kmsg.OffsetFetchResponse:
		if len(v.Topics) > 0 || len(v.Groups) > 0 {
			out = append(out, "offset_fetch_with_topics")
		}
	case *kmsg.ListOffsetsResponse:
		for _, t := range v.Topics {
			for _, p := range t.Partitions {
				if p.ErrorCode == 0 {
					out = append(out, "list_offsets_ok")
				}
			}
		}
	case *kmsg.CreateTopicsResponse:
		for _, t := range v.Topics {
			if t.ErrorCode == 0 {
				out = append(out, "create_topic_ok")
			}
		}
	case *kmsg.DescribeConfigsResponse:
		for _, rr := range v.Resources {
			if len(rr.Configs) > 0 {
				out = append(out, "describe_configs_with_entries")
			}
		}
	case *kmsg.DescribeGroupsResponse:
		for _, g := range v.Groups {
			if len(g.Members) > 0 {
				out = append(out, "describe_groups_with_members")
			}
		}
	case *kmsg.ListGroupsResponse:
		if len(v.Groups) > 0 {
			out = append(out, "list_groups_nonempty")
		}
	case *kmsg.ApiVersionsResponse:
		if len(v.ApiKeys) > 0 {
			out = append(out, "api_versions_table")
		}
	}
	return out
}

// learn feeds reply content back into the pool (member ids handed out by JoinGroup).
func (w *c11World) learn(req kmsg.Request, resp kmsg.Response) {
	if j, ok := resp.(*kmsg.JoinGroupResponse); ok && j.MemberID != "" {
		if len(w.members) < 12 {
			w.members = append(w.members, j.MemberID)
		}
		if q, ok := req.(*kmsg.JoinGroupRequest); ok && j.ErrorCode == 0 {
			w.joined = append(w.joined, c11Joined{q.Group, j.MemberID, j.Generation})
			if len(w.joined) > 16 {
				w.joined = w.joined[len(w.joined)-16:]
			}
		}
	}
}

// ---------------------------------------------------------------------------
// the matrix
// ---------------------------------------------------------------------------

type c11Range struct{ min, max int16 }

// c11Advertised asks the live server. It uses ApiVersions v0 (the version every client may fall back to).
func c11Advertised(r *verifkit.Run, target string, cl *c11Client) (map[int16]c11Range, []int16) {
	req := kmsg.NewPtrApiVersionsRequest()
	req.SetVersion(0)
	cid := "verif-c11"
	ex := cl.do(verifkreq.Encode(req, 7, &cid), false)
	if ex.reply == nil || len(ex.reply) < 4 {
		r.Inconclusive(fmt.Sprintf("%s: no ApiVersions v0 reply (%s)", target, ex.err))
		return nil, nil
	}
	resp := kmsg.NewPtrApiVersionsResponse()
	resp.SetVersion(0)
	if err := resp.ReadFrom(ex.reply[4:]); err != nil || resp.ErrorCode != 0 {
		r.Violation("reply_undecodable:ApiVersions", fmt.Sprintf("%s: ApiVersions v0 reply cannot be decoded (%v, error code %d)", target, err, resp.ErrorCode), map[string]any{"reply_hex": c11Hex(ex.reply)})
		return nil, nil
	}
	table := map[int16]c11Range{}
	var keys []int16
	for _, k := range resp.ApiKeys {
		if _, dup := table[k.ApiKey]; dup {
			r.Violation("api_key_advertised_twice", fmt.Sprintf("%s: api key %d listed twice in ApiVersions", target, k.ApiKey), map[string]any{"key": k.ApiKey})
		}
		table[k.ApiKey] = c11Range{k.MinVersion, k.MaxVersion}
		keys = append(keys, k.ApiKey)
	}
	sort.Slice(keys, func(i, j int) bool { return keys[i] < keys[j] })
	return table, keys
}

func c11Corr(rng *rand.Rand) int32 {
	switch rng.Intn(8) {
	case 0:
		return 0
	case 1:
		return -1
	case 2:
		return math.MaxInt32
	case 3:
		return math.MinInt32
	}
	c := int32(rng.Uint32())
	if uint32(c)>>24 == 0x5e { // reserved for the sentinel
		c ^= 0x01000000
	}
	return c
}

// c11RunMatrix drives every advertised (key, version) and every other version in [0, codec max + 2] of every key
// the codec knows against the server at addr and judges each reply.
// c11ReplayCase returns the recorded case of a witness written by the given leg (VERIF_REPLAY), if any.
func c11ReplayCase(leg string) *c11Case {
	rp := verifkit.Replay()
	if rp == nil || rp["leg"] != leg {
		return nil
	}
	b, err := json.Marshal(rp["replay"])
	if err != nil {
		return nil
	}
	var cs c11Case
	if json.Unmarshal(b, &cs) != nil || cs.RequestHex == "" || cs.Target == "" {
		return nil
	}
	return &cs
}

// c11Matrix configures one pass over one server.
type c11Matrix struct {
	target            string
	addr              string
	salt              int     // offsets the PRNG case numbers so that passes do not share cases
	requireReply      bool    // false: degraded configuration, a missing reply is counted, not judged
	scale             float64 // multiplies the per-pair body counts
	partitionZeroOnly bool
	onlyListedKeys    bool           // skip the keys the server does not list at all
	onlyKeys          map[int16]bool // non-nil: drive only these keys
	hooks             *c11Hooks
	replay            *c11Case // non-nil: send only this recorded request (bin/check C11 --replay <witness>)
}

func c11RunMatrix(r *verifkit.Run, m c11Matrix) {
	target, addr, legSalt, requireReply, scale, partitionZeroOnly, hooks := m.target, m.addr, m.salt, m.requireReply, m.scale, m.partitionZeroOnly, m.hooks
	cl := &c11Client{addr: addr, watchdog: c11Watchdog}
	if !requireReply {
		cl.watchdog = c11DegradedWatchdog
	}
	defer cl.close()
	table, keys := c11Advertised(r, target, cl)
	if table == nil {
		return
	}
	world := c11NewWorld()
	world.onlyPartitionZero = partitionZeroOnly
	var advText []string
	for _, k := range keys {
		advText = append(advText, fmt.Sprintf("%s(%d):%d-%d", kmsg.NameForKey(k), k, table[k].min, table[k].max))
	}
	r.Note(target+"_advertised", strings.Join(advText, " "))
	caseNo := legSalt
	debug := os.Getenv("VERIF_DEBUG") != ""
	t0 := time.Now()
	one := func(key, ver int16, advertised bool) {
		caseNo++
		if debug {
			fmt.Fprintf(os.Stderr, "c11 %s case %d key=%d v=%d adv=%v t=%s\n", target, caseNo, key, ver, advertised, time.Since(t0).Round(time.Millisecond))
		}
		rng := r.Rand(caseNo)
		req := world.gen(rng, key, ver)
		cid := verifkreq.ClientID(rng)
		corr := c11Corr(rng)
		wire := verifkreq.Encode(req, corr, cid)
		cs := c11Case{Target: target, API: kmsg.NameForKey(key), Key: key, Version: ver, Advertised: advertised, Corr: corr, RequestHex: c11Hex(wire), NoReplyOK: !requireReply}
		if cid != nil {
			cs.ClientID = *cid
		} else {
			cs.ClientID = "<null>"
		}
		if p, ok := req.(*kmsg.ProduceRequest); ok && p.Acks == 0 {
			cs.Acks0 = true
		}
		if hooks != nil && hooks.before != nil {
			hooks.before()
		}
		ex := cl.do(wire, true)
		if hooks != nil && hooks.after != nil {
			hooks.after(cs)
		}
		if ex.reply == nil && ex.closed && advertised && !cs.Acks0 && requireReply {
			// the connection died with the sentinel still unread on the server side; a reply written just before the close
			// could have been discarded by the reset. Ask again without pipelining before judging.
			r.Count("retries_without_pipelining", 1)
			cl.close()
			ex = cl.do(wire, false)
			cl.close()
		}
		if ex.watchdog && advertised && !cs.Acks0 && requireReply {
			cl.close()
			ex = c11Reask(r, addr, wire, ex)
		}
		resp := c11Judge(r, cs, ex)
		if resp != nil && ex.afterReply != "" && advertised && !cs.Acks0 && requireReply {
			c11JudgeFollowing(r, addr, cs, ex)
		}
		if resp != nil {
			world.learn(req, resp)
			for _, c := range c11Content(resp) {
				r.Count("content_"+c, 1)
			}
		}
		nontrivial := resp != nil && len(ex.reply) > 8
		r.Case(verifkit.Hash(target, wire), nontrivial)
		if advertised {
			r.Count("advertised_cases", 1)
			r.Seen("advertised_pairs", fmt.Sprintf("%s/%d/%d", target, key, ver))
		} else {
			r.Count("unadvertised_cases", 1)
			r.Seen("unadvertised_pairs", fmt.Sprintf("%s/%d/%d", target, key, ver))
		}
		if caseNo%211 == 0 && resp != nil {
			r.Sample(map[string]any{"target": target, "api": cs.API, "version": ver, "advertised": advertised, "request_hex": c11Hex(wire[:min(len(wire), 120)]), "reply_hex": c11Hex(ex.reply[:min(len(ex.reply), 120)])})
		}
	}
	sc := func(n int) int {
		if m := int(float64(n) * scale); m >= 1 {
			return m
		}
		return 1
	}
	if m.replay != nil {
		rc := *m.replay
		wire, err := hex.DecodeString(rc.RequestHex)
		if err != nil || len(wire) < 12 {
			r.Inconclusive("replay: request_hex of the witness is not usable (truncated in the witness file?)")
			return
		}
		rc.NoReplyOK = !requireReply
		rc.ReplyHex, rc.Detail = "", ""
		if hooks != nil && hooks.before != nil {
			hooks.before()
		}
		ex := cl.do(wire, true)
		if hooks != nil && hooks.after != nil {
			hooks.after(rc)
		}
		resp := c11Judge(r, rc, ex)
		r.Case(verifkit.Hash(target, wire), resp != nil)
		r.Sample(map[string]any{"replayed": rc.API, "version": rc.Version, "reply_hex": c11Hex(ex.reply[:min(len(ex.reply), 120)])})
		return
	}
	nAdv, nOther, nUnknown := sc(r.N(10, 150)), sc(r.N(2, 20)), sc(r.N(1, 6))
	// 1. advertised pairs
	for _, k := range keys {
		rg := table[k]
		if rg.min < 0 || rg.max < rg.min {
			continue // listed as unsupported (-1..-1)
		}
		if m.onlyKeys != nil && !m.onlyKeys[k] {
			continue
		}
		for v := rg.min; v <= rg.max; v++ {
			for i := 0; i < nAdv; i++ {
				one(k, v, true)
			}
		}
	}
	// 2. every other version of every key the codec knows, up to codec max + 2
	for key := int16(0); key <= kmsg.MaxKey; key++ {
		probe := kmsg.RequestForKey(key)
		if probe == nil {
			continue
		}
		rg, listed := table[key]
		if !listed && m.onlyListedKeys {
			continue
		}
		if m.onlyKeys != nil && !m.onlyKeys[key] {
			continue
		}
		n := nUnknown
		if listed {
			n = nOther
		}
		for v := int16(0); v <= probe.MaxVersion()+2; v++ {
			if listed && rg.min >= 0 && v >= rg.min && v <= rg.max {
				continue
			}
			if key == 7 && v == 0 { // ControlledShutdown v0: header without client id, cannot be framed like the others
				continue
			}
			for i := 0; i < n; i++ {
				one(key, v, false)
			}
		}
	}
	r.Count(target+"_connections", int64(cl.dials))
}

// ---------------------------------------------------------------------------
// reply-size sweep
// ---------------------------------------------------------------------------
//
// The matrix above reaches whatever reply sizes the generated bodies happen to produce (mostly < 300 bytes). A
// server's reply path may depend on the size (coalescing buffers, pooled buffers, chunked writes), so this pass makes
// the reply SIZE the swept variable: advertised requests whose reply echoes a client-chosen string are sent with
// every string length in a contiguous range and in windows around the powers of two, several requests pipelined per
// connection. The oracle is unchanged (c11Judge per reply, plus: the next reply must follow as a frame).

type c11Echo struct {
	name     string
	key, ver int16
	flexible bool // compact strings: the echoed string may exceed 32767 bytes
	build    func(s string) kmsg.Request
}

func c11EchoTemplates() []c11Echo {
	describeGroups := func(s string) kmsg.Request {
		q := kmsg.NewPtrDescribeGroupsRequest()
		q.Groups = []string{s}
		return q
	}
	deleteGroups := func(s string) kmsg.Request {
		q := kmsg.NewPtrDeleteGroupsRequest()
		q.Groups = []string{s}
		return q
	}
	metadataReq := func(s string) kmsg.Request {
		q := kmsg.NewPtrMetadataRequest()
		t := kmsg.NewMetadataRequestTopic()
		t.Topic = kmsg.StringPtr(s)
		q.Topics = []kmsg.MetadataRequestTopic{t}
		return q
	}
	createTopics := func(s string) kmsg.Request {
		q := kmsg.NewPtrCreateTopicsRequest()
		t := kmsg.NewCreateTopicsRequestTopic()
		t.Topic, t.NumPartitions, t.ReplicationFactor = s, 1, 1
		q.Topics = []kmsg.CreateTopicsRequestTopic{t}
		q.TimeoutMillis = 1000
		return q
	}
	offsetFetch := func(s string) kmsg.Request {
		q := kmsg.NewPtrOffsetFetchRequest()
		q.Group = "g1"
		t := kmsg.NewOffsetFetchRequestTopic()
		t.Topic, t.Partitions = s, []int32{0}
		q.Topics = []kmsg.OffsetFetchRequestTopic{t}
		return q
	}
	// order matters in the quick tier: only the first few get the contiguous sweep (a flexible one, then a
	// non-flexible one whose reply size is exactly base + string length, then different reply builders)
	return []c11Echo{
		{"DescribeGroups.group", 15, 5, true, describeGroups},
		{"DeleteGroups.group", 42, 0, false, deleteGroups},
		{"Metadata.unknown_topic", 3, 9, true, metadataReq},
		{"CreateTopics.invalid_name", 19, 2, false, createTopics},
		{"OffsetFetch.topic", 9, 5, false, offsetFetch},
		{"DeleteGroups.group", 42, 2, true, deleteGroups},
		{"Metadata.unknown_topic", 3, 1, false, metadataReq},
		{"Metadata.unknown_topic", 3, 5, false, metadataReq},
		{"Metadata.unknown_topic", 3, 12, true, metadataReq},
		{"CreateTopics.invalid_name", 19, 0, false, createTopics},
	}
}

// c11EchoString is n bytes long, never a legal topic name (first byte '!': CreateTopics / Metadata auto-create refuse
// it, so the sweep leaves no topics behind) and different for every (id, n).
func c11EchoString(id, n int) string {
	if n <= 0 {
		return ""
	}
	b := make([]byte, 0, n+24)
	b = append(b, fmt.Sprintf("!%d.%d.", id, n)...)
	for i := 0; len(b) < n; i++ {
		b = append(b, "abcdefghijklmnopqrstuvwxyz0123456789"[(i+id)%36])
	}
	return string(b[:n])
}

const c11SweepMaxLost = 2

type c11SweepItem struct {
	cs   c11Case
	wire []byte
	tmpl string
	n    int
}

// doBatch writes all requests and a sentinel (from a separate goroutine, so that large replies cannot dead-lock
// against large requests) and reads the replies in order. Each reply is read with c11ReadFrameExpect: the first
// frame that does not start like the reply that is due ends the batch (broken=index, why=description); so does a
// watchdog/close (decides nothing here; the items from that index on are asked again alone).
func (c *c11Client) doBatch(items []c11SweepItem) (replies [][]byte, broken int, why string, timedOut bool) {
	broken = -1
	if err := c.dial(); err != nil {
		return nil, 0, "dial: " + err.Error(), true
	}
	conn := c.conn
	wd := c.watchdog
	if wd <= 0 {
		wd = c11Watchdog
	}
	_ = conn.SetDeadline(time.Now().Add(wd))
	var all []byte
	for _, it := range items {
		all = append(all, it.wire...)
	}
	sf, sentCorr := c.sentinelFrame()
	all = append(all, sf...)
	wdone := make(chan struct{})
	go func() { _, _ = conn.Write(all); close(wdone) }()
	defer func() {
		if broken >= 0 {
			c.close() // also unblocks the writer
		}
		<-wdone
	}()
	for i, it := range items {
		f, mis, err := c11ReadFrameExpect(conn, it.cs.Corr)
		if mis != "" {
			return replies, i, mis, false
		}
		if err != nil {
			return replies, i, err.Error(), c11IsTimeout(err)
		}
		replies = append(replies, f)
	}
	if _, mis, err := c11ReadFrameExpect(conn, sentCorr); mis != "" {
		return replies, len(items), mis, false
	} else if err != nil {
		return replies, len(items), err.Error(), c11IsTimeout(err)
	}
	return replies, -1, "", false
}

// c11RunSweep drives the reply-size sweep against one server. The first `contiguous` advertised templates are sent
// with every string length 0..1100; full: every advertised template gets the windows around 2^5..2^16, otherwise
// only the first two templates and windows up to 2^12.
func c11RunSweep(r *verifkit.Run, m c11Matrix, contiguous int, full bool) {
	target, addr := m.target, m.addr
	cl := &c11Client{addr: addr, watchdog: c11Watchdog}
	defer cl.close()
	table, _ := c11Advertised(r, target, cl)
	if table == nil {
		return
	}
	sizes := map[int]bool{} // reply payload sizes (frame length) observed on complete replies
	// every lost reply costs two watchdogs; after c11SweepMaxLost attributable ones (each reported) the sweep of this
	// server ends: more witnesses of the same kind would only cost time
	lost := 0
	caseNo := m.salt + 900000
	rng := r.Rand(caseNo)
	alone := func(it c11SweepItem) (c11Exchange, kmsg.Response) {
		r.Count("sweep_asked_alone", 1)
		cl.close()
		if m.hooks != nil && m.hooks.before != nil {
			m.hooks.before()
		}
		ex := cl.do(it.wire, true)
		if m.hooks != nil && m.hooks.after != nil {
			m.hooks.after(it.cs)
		}
		if ex.reply == nil && ex.closed {
			cl.close()
			ex = cl.do(it.wire, false)
			cl.close()
		}
		if ex.watchdog {
			cl.close()
			ex = c11Reask(r, addr, it.wire, ex)
			if ex.watchdogTwice {
				lost++
			}
		}
		resp := c11Judge(r, it.cs, ex)
		if ex.reply != nil {
			sizes[len(ex.reply)] = true
		}
		if resp != nil && ex.afterReply != "" {
			c11JudgeFollowing(r, addr, it.cs, ex)
		}
		r.Case(verifkit.Hash(target, "sweep", it.tmpl, it.cs.Version, it.n), resp != nil)
		return ex, resp
	}
	batch := func(items []c11SweepItem) {
		if len(items) == 0 || lost >= c11SweepMaxLost {
			return
		}
		r.Count("sweep_batches", 1)
		r.Count("sweep_requests", int64(len(items)))
		if m.hooks != nil && m.hooks.before != nil {
			m.hooks.before()
		}
		replies, broken, why, _ := cl.doBatch(items)
		if m.hooks != nil && m.hooks.after != nil {
			m.hooks.after(items[0].cs)
		}
		before := c11Violations
		firstBad := -1
		for i, f := range replies {
			resp := c11Judge(r, items[i].cs, c11Exchange{reply: f})
			sizes[len(f)] = true
			r.Case(verifkit.Hash(target, "sweep", items[i].tmpl, items[i].cs.Version, items[i].n), resp != nil)
			if resp == nil && firstBad < 0 {
				firstBad = i
			}
		}
		if broken < 0 {
			return
		}
		// the stream stopped being a sequence of the due replies at item `broken` (== len(items): at the sentinel).
		// Every request whose reply was not read, and - when nothing read so far was found wrong - every request of
		// the batch, is asked again alone (request + sentinel on a fresh connection), where a verdict is attributable.
		r.Count("sweep_batches_broken", 1)
		from := broken
		if firstBad < 0 {
			from = 0
		}
		for i := from; i < len(items) && lost < c11SweepMaxLost; i++ {
			alone(items[i])
		}
		if c11Violations == before && !strings.Contains(why, "i/o timeout") {
			// nothing attributable alone, yet bytes that are not the due reply arrived on the pipelined connection
			var reqs []string
			for _, it := range items {
				reqs = append(reqs, it.cs.RequestHex)
			}
			c11Viol(r, "pipelined_replies_misframed:"+items[0].cs.API, fmt.Sprintf("%s: %d %s v%d requests pipelined on one connection: at reply %d %s; each request alone is answered correctly", target, len(items), items[0].cs.API, items[0].cs.Version, broken, why),
				map[string]any{"target": target, "api": items[0].cs.API, "version": items[0].cs.Version, "requests_hex": reqs, "broken_at_reply": broken, "seen": why})
		} else if c11Violations == before {
			r.Inconclusive(fmt.Sprintf("%s sweep %s v%d: pipelined batch ended in the watchdog at reply %d (%s); every request alone was answered", target, items[0].cs.API, items[0].cs.Version, broken, why))
		}
	}
	mk := func(t c11Echo, n int) c11SweepItem {
		caseNo++
		req := t.build(c11EchoString(caseNo, n))
		req.SetVersion(t.ver)
		corr := int32(0x10000000 + caseNo&0x0fffffff)
		cid := "verif-c11-sweep"
		wire := verifkreq.Encode(req, corr, &cid)
		return c11SweepItem{cs: c11Case{Target: target, API: kmsg.NameForKey(t.key), Key: t.key, Version: t.ver, Advertised: true, Corr: corr, ClientID: cid, RequestHex: c11Hex(wire)}, wire: wire, tmpl: t.name, n: n}
	}
	run := func(t c11Echo, lens []int) {
		for len(lens) > 0 {
			k := 2 + rng.Intn(7)
			if k > len(lens) {
				k = len(lens)
			}
			var items []c11SweepItem
			for _, n := range lens[:k] {
				items = append(items, mk(t, n))
			}
			lens = lens[k:]
			batch(items)
		}
	}
	const contiguousMax = 1100
	used := 0
	anyFlexible, exactContiguous := false, false
	for _, t := range c11EchoTemplates() {
		rg, ok := table[t.key]
		if !ok || rg.min < 0 || t.ver < rg.min || t.ver > rg.max {
			r.Count("sweep_templates_not_advertised", 1)
			continue
		}
		if !full && used >= 2 {
			break
		}
		used++
		sweepAll := used <= contiguous
		r.Seen("sweep_templates", fmt.Sprintf("%s/%s/v%d", target, t.name, t.ver))
		if lost >= c11SweepMaxLost {
			break
		}
		// calibrate: where does the reply size stand for a string of contiguousMax bytes
		ex, resp := alone(mk(t, contiguousMax))
		if resp == nil || ex.reply == nil {
			continue // judged (or inconclusive) in alone(); without a calibration point the windows cannot be placed
		}
		base := len(ex.reply) - contiguousMax
		if sweepAll {
			exactContiguous = exactContiguous || !t.flexible
			var lens []int
			for n := 0; n <= contiguousMax; n++ {
				lens = append(lens, n)
			}
			run(t, lens)
		}
		// windows around 2^k: string lengths placed so that the reply lands on 2^k-8 .. 2^k+8 (compact-string length
		// prefixes grow by up to 2 bytes on the way, hence the margin)
		maxK := 16
		if !full {
			maxK = 12
		}
		minK := 5
		if !sweepAll {
			minK = r.N(9, 5) // quick: the small sizes are left to the templates that get every length
		}
		for k := minK; k <= maxK; k++ {
			var lens []int
			for d := -10; d <= 8; d++ {
				n := 1<<k + d - base
				if n < 0 || (!t.flexible && n > 32767) || (n <= contiguousMax && sweepAll) {
					continue
				}
				lens = append(lens, n)
			}
			if len(lens) > 0 && t.flexible && k == 16 {
				anyFlexible = true
			}
			run(t, lens)
		}
	}
	// what the sweep reached
	lo, hi := 1<<30, 0
	for sz := range sizes {
		r.Seen("sweep_reply_sizes", fmt.Sprintf("%s/%d", target, sz))
		if sz < lo {
			lo = sz
		}
		if sz > hi {
			hi = sz
		}
	}
	var gaps []string
	need := func(a, b int) {
		for sz := a; sz <= b; sz++ {
			if !sizes[sz] && len(gaps) < 12 {
				gaps = append(gaps, fmt.Sprint(sz))
			}
		}
	}
	if exactContiguous {
		need(32, contiguousMax)
	}
	topK := 12
	if full {
		topK = 15
		if anyFlexible {
			topK = 16
		}
	}
	for k := 11; k <= topK; k++ {
		need(1<<k-4, 1<<k+4)
	}
	r.Note(target+"_sweep_reply_size_range", fmt.Sprintf("%d..%d bytes, %d distinct sizes, every size 32..%d demanded: %v, windows 2^k±4 up to 2^%d", lo, hi, len(sizes), contiguousMax, exactContiguous, topK))
	if lost >= c11SweepMaxLost {
		r.Note(target+"_sweep_cut_short", fmt.Sprintf("ended after %d replies were lost twice (each reported)", lost))
	}
	if len(gaps) > 0 && !r.Violated() {
		r.Inconclusive(fmt.Sprintf("%s: the reply-size sweep did not reach reply sizes %s (the echoing templates behave differently than assumed)", target, strings.Join(gaps, ",")))
	}
}
