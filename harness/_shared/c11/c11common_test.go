//go:build verif

package main

// C11 client-side monitor shared by the broker leg (cmd/broker) and the proxy
// leg (cmd/proxy); both are `package main`. Everything here speaks the Kafka
// wire protocol over a real loopback TCP connection and judges reply frames
// with the franz-go codec (kmsg), i.e. exactly what a standard client sees.

import (
	"bytes"
	"encoding/binary"
	"encoding/hex"
	"encoding/json"
	"errors"
	"fmt"
	"io"
	"math"
	"math/rand"
	"net"
	"os"
	"sort"
	"strings"
	"time"

	"github.com/twmb/franz-go/pkg/kmsg"

	"github.com/KafScale/platform/internal/verifkit"
	"github.com/KafScale/platform/internal/verifkit/kbatch"
	"github.com/KafScale/platform/internal/verifkreq"
	"github.com/KafScale/platform/pkg/metadata"
)

const c11Watchdog = 60 * time.Second // generous; firing => inconclusive, never a verdict
// in the degraded proxy configurations a missing reply is not judged at all, so waiting long for one buys nothing
const c11DegradedWatchdog = 10 * time.Second

// ---------------------------------------------------------------------------
// wire helpers
// ---------------------------------------------------------------------------

func c11ReadFrame(conn net.Conn) ([]byte, error) {
	var l [4]byte
	if _, err := io.ReadFull(conn, l[:]); err != nil {
		return nil, err
	}
	n := int32(binary.BigEndian.Uint32(l[:]))
	if n < 0 || n > 64<<20 {
		return nil, fmt.Errorf("reply frame announces %d bytes", n)
	}
	b := make([]byte, n)
	if _, err := io.ReadFull(conn, b); err != nil {
		return nil, fmt.Errorf("reply frame cut short: %w", err)
	}
	return b, nil
}

func c11IsTimeout(err error) bool {
	var ne net.Error
	return errors.As(err, &ne) && ne.Timeout()
}

// c11Exchange is the outcome of one request on one connection.
type c11Exchange struct {
	reply      []byte // frame that answered the request (nil = none)
	noReply    bool   // the server went on to answer the sentinel: it sent nothing for the request
	closed     bool   // the connection ended before any frame
	watchdog   bool   // read deadline fired: decides nothing
	err        string
	connBroken bool // do not reuse the connection
}

type c11Client struct {
	addr     string
	conn     net.Conn
	sentinel int32
	dials    int
	watchdog time.Duration
}

func (c *c11Client) close() {
	if c.conn != nil {
		c.conn.Close()
		c.conn = nil
	}
}

func (c *c11Client) dial() error {
	if c.conn != nil {
		return nil
	}
	var err error
	for i := 0; i < 200; i++ { // setup only: the listener may not be up yet
		var cn net.Conn
		cn, err = net.DialTimeout("tcp", c.addr, 5*time.Second)
		if err == nil {
			c.conn = cn
			c.dials++
			return nil
		}
		time.Sleep(25 * time.Millisecond)
	}
	return err
}

// sentinelFrame is an ApiVersions v0 request (understood by every Kafka server,
// always answered) with a correlation id the harness reserves.
func (c *c11Client) sentinelFrame() ([]byte, int32) {
	c.sentinel++
	corr := int32(0x5e000000) + c.sentinel&0xffffff
	req := kmsg.NewPtrApiVersionsRequest()
	req.SetVersion(0)
	cid := "verif-sentinel"
	return verifkreq.Encode(req, corr, &cid), corr
}

// do sends the request immediately followed by the sentinel on the same
// connection. The server handles a connection's requests in order, so: the
// first frame back is either the request's reply or — if it carries the
// sentinel's correlation id — proof that the request got no reply. No timing.
func (c *c11Client) do(wire []byte, pipelineSentinel bool) c11Exchange {
	var ex c11Exchange
	if err := c.dial(); err != nil {
		ex.err, ex.watchdog, ex.connBroken = "dial: "+err.Error(), true, true
		return ex
	}
	conn := c.conn
	defer func() {
		if ex.connBroken {
			c.close()
		}
	}()
	wd := c.watchdog
	if wd <= 0 {
		wd = c11Watchdog
	}
	_ = conn.SetDeadline(time.Now().Add(wd))
	if _, err := conn.Write(wire); err != nil {
		ex.closed, ex.connBroken, ex.err = true, true, "write: "+err.Error()
		return ex
	}
	var sentCorr int32
	if pipelineSentinel {
		var sf []byte
		sf, sentCorr = c.sentinelFrame()
		_, _ = conn.Write(sf) // a failure here shows up on the read side
	}
	first, err := c11ReadFrame(conn)
	if err != nil {
		ex.connBroken = true
		ex.err = err.Error()
		if c11IsTimeout(err) {
			ex.watchdog = true
		} else {
			ex.closed = true
		}
		return ex
	}
	if pipelineSentinel && len(first) >= 4 && int32(binary.BigEndian.Uint32(first)) == sentCorr {
		ex.noReply = true
		return ex
	}
	ex.reply = first
	if !pipelineSentinel {
		return ex
	}
	// drain the sentinel's reply so that the connection can be reused
	second, err := c11ReadFrame(conn)
	if err != nil || len(second) < 4 || int32(binary.BigEndian.Uint32(second)) != sentCorr {
		ex.connBroken = true
	}
	return ex
}

// ---------------------------------------------------------------------------
// reply oracle
// ---------------------------------------------------------------------------

func c11RespFlexible(key, ver int16) (bool, bool) {
	resp := kmsg.ResponseForKey(key)
	if resp == nil {
		return false, false
	}
	resp.SetVersion(ver)
	return resp.IsFlexible(), true
}

// c11StripHeader removes the response header: correlation id, and for a flexible header its tagged-field section.
func c11StripHeader(frame []byte, flexible bool) ([]byte, bool) {
	if len(frame) < 4 {
		return nil, false
	}
	b := frame[4:]
	if !flexible {
		return b, true
	}
	n, w := binary.Uvarint(b)
	if w <= 0 {
		return nil, false
	}
	b = b[w:]
	for i := uint64(0); i < n; i++ {
		_, w := binary.Uvarint(b)
		if w <= 0 {
			return nil, false
		}
		b = b[w:]
		sz, w := binary.Uvarint(b)
		if w <= 0 || sz > uint64(len(b)-w) {
			return nil, false
		}
		b = b[w+int(sz):]
	}
	return b, true
}

// c11Decode: the standard codec decodes body at (key, ver); canonical = its re-encoding is byte-identical.
//
// The codec is run on its own goroutine under a watchdog: its tagged-field reader loops `count` times even after
// the bytes are exhausted, so bytes that are NOT a well-formed message of that version (which is what this monitor is
// looking for) can keep it busy for minutes. stuck=true decides nothing (=> inconclusive), the goroutine is abandoned.
func c11Decode(key, ver int16, body []byte) (resp kmsg.Response, decodeErr error, canonical bool, stuck bool) {
	if kmsg.ResponseForKey(key) == nil {
		return nil, fmt.Errorf("codec has no response type for key %d", key), false, false
	}
	type out struct {
		resp      kmsg.Response
		err       error
		canonical bool
	}
	ch := make(chan out, 1)
	go func() {
		rp := kmsg.ResponseForKey(key)
		rp.SetVersion(ver)
		if err := rp.ReadFrom(body); err != nil {
			ch <- out{rp, err, false}
			return
		}
		ch <- out{rp, nil, bytes.Equal(rp.AppendTo(nil), body)}
	}()
	select {
	case o := <-ch:
		return o.resp, o.err, o.canonical, false
	case <-time.After(c11DecodeWatchdog):
		return nil, errors.New("codec did not finish decoding"), false, true
	}
}

const c11DecodeWatchdog = 20 * time.Second

type c11Case struct {
	Target     string `json:"target"`
	API        string `json:"api"`
	Key        int16  `json:"key"`
	Version    int16  `json:"version"`
	Advertised bool   `json:"advertised"`
	Corr       int32  `json:"correlation_id"`
	ClientID   string `json:"client_id"`
	Acks0      bool   `json:"acks0,omitempty"`
	NoReplyOK  bool   `json:"-"` // configuration in which the statement does not demand a reply (backend down / proxy not ready)
	RequestHex string `json:"request_hex"`
	ReplyHex   string `json:"reply_hex,omitempty"`
	Detail     string `json:"detail,omitempty"`
}

func c11Hex(b []byte) string {
	if len(b) > 16384 {
		return fmt.Sprintf("%x...(%d bytes)", b[:16384], len(b))
	}
	return fmt.Sprintf("%x", b)
}

// c11Judge applies the property to one exchange. Returns the decoded response when the reply was well-formed.
func c11Judge(r *verifkit.Run, cs c11Case, ex c11Exchange) kmsg.Response {
	api := cs.API
	adv := "advertised"
	if !cs.Advertised {
		adv = "unadvertised"
	}
	if ex.watchdog {
		if cs.NoReplyOK {
			r.Count("no_reply_within_watchdog_in_degraded_config", 1)
			return nil
		}
		r.Inconclusive(fmt.Sprintf("%s %s v%d: watchdog (%s)", cs.Target, api, cs.Version, ex.err))
		return nil
	}
	if ex.reply == nil {
		switch {
		case cs.Acks0:
			r.Count("acks0_no_reply", 1)
		case cs.NoReplyOK:
			r.Count("no_reply_in_degraded_config", 1)
		case !cs.Advertised:
			if ex.closed {
				r.Count("unadvertised_connection_closed", 1)
			} else {
				r.Count("unadvertised_no_reply", 1)
			}
		case ex.closed:
			cs.Detail = "connection closed without a reply: " + ex.err
			r.Violation("advertised_version_not_served:"+api, fmt.Sprintf("%s: %s v%d is advertised but the connection was closed without a reply", cs.Target, api, cs.Version), cs)
		default:
			cs.Detail = "server skipped the request and answered the next one"
			r.Violation("advertised_version_not_served:"+api, fmt.Sprintf("%s: %s v%d is advertised but got no reply (the next request on the connection was answered instead)", cs.Target, api, cs.Version), cs)
		}
		return nil
	}
	cs.ReplyHex = c11Hex(ex.reply)
	r.Count("replies", 1)
	if cs.Acks0 {
		r.Count("acks0_got_reply", 1)
	}
	if len(ex.reply) < 4 {
		r.Violation("reply_shorter_than_header:"+api, fmt.Sprintf("%s: %s v%d reply frame has %d bytes", cs.Target, api, cs.Version, len(ex.reply)), cs)
		return nil
	}
	if got := int32(binary.BigEndian.Uint32(ex.reply)); got != cs.Corr {
		if cs.Advertised {
			cs.Detail = fmt.Sprintf("reply carries correlation id %d", got)
			r.Violation("correlation_id_mismatch:"+api, fmt.Sprintf("%s: %s v%d reply has correlation id %d, request had %d", cs.Target, api, cs.Version, got, cs.Corr), cs)
		} else {
			r.Count("unadvertised_correlation_id_mismatch", 1)
		}
	}
	flex, known := c11RespFlexible(cs.Key, cs.Version)
	if !known {
		r.Count("reply_for_key_unknown_to_codec", 1)
		return nil
	}
	hdrFlex := flex && cs.Key != 18 // KIP-511: the ApiVersions response header never has the tag section
	// KIP-511: an ApiVersions request at a version the server does not support is answered in v0 encoding with
	// UNSUPPORTED_VERSION (checked first: v0 has no tagged fields, so this decode is always cheap)
	if cs.Key == 18 && !cs.Advertised {
		if b0, ok := c11StripHeader(ex.reply, false); ok {
			if r0, e0, c0, _ := c11Decode(18, 0, b0); e0 == nil && c0 && r0.(*kmsg.ApiVersionsResponse).ErrorCode == 35 {
				r.Count("kip511_v0_fallback_replies", 1)
				return nil
			}
		}
	}
	stuckNote := func(which string) {
		r.Count("codec_decode_stuck", 1)
		r.Inconclusive(fmt.Sprintf("%s %s v%d: the codec did not finish decoding the reply (%s) within %s; reply %s", cs.Target, api, cs.Version, which, c11DecodeWatchdog, c11Hex(ex.reply[:min(len(ex.reply), 64)])))
	}
	var resp kmsg.Response
	var derr error
	canonical := false
	body, okHdr := c11StripHeader(ex.reply, hdrFlex)
	if okHdr {
		var stuck bool
		resp, derr, canonical, stuck = c11Decode(cs.Key, cs.Version, body)
		if stuck {
			stuckNote("expected header shape")
			return nil
		}
	} else {
		derr = errors.New("response header tag section malformed")
	}
	if derr == nil && canonical {
		r.Count("replies_decoded", 1)
		if hdrFlex {
			r.Count("replies_flexible_header", 1)
		}
		return resp
	}
	// would it have been fine with the other header shape?
	if alt, ok := c11StripHeader(ex.reply, !hdrFlex); ok {
		_, e, c, stuck := c11Decode(cs.Key, cs.Version, alt)
		if stuck {
			stuckNote("other header shape")
		} else if e == nil && c {
			want, got := "without", "with"
			if hdrFlex {
				want, got = "with", "without"
			}
			cs.Detail = fmt.Sprintf("body decodes only when the header is read %s a tagged-field section; the version requires it %s", got, want)
			r.Violation("response_header_shape:"+api, fmt.Sprintf("%s: %s v%d reply has the wrong response-header shape (%s)", cs.Target, api, cs.Version, adv), cs)
			return nil
		}
	}
	if derr != nil {
		cs.Detail = "codec error: " + derr.Error()
		r.Violation("reply_undecodable:"+api, fmt.Sprintf("%s: %s v%d (%s) reply cannot be decoded at v%d: %v", cs.Target, api, cs.Version, adv, cs.Version, derr), cs)
		return nil
	}
	cs.Detail = "codec decodes the body but its re-encoding at the same version differs (bytes left over or fields of another version)"
	r.Violation("reply_not_in_requested_version:"+api, fmt.Sprintf("%s: %s v%d (%s) reply decodes but is not a v%d encoding (re-encoding differs)", cs.Target, api, cs.Version, adv, cs.Version), cs)
	return nil
}

// ---------------------------------------------------------------------------
// request generation against a live server
// ---------------------------------------------------------------------------

type c11World struct {
	topics  []string
	groups  []string
	members []string
	joined  []c11Joined // (group, member id, generation) triples handed out by JoinGroup replies
	seq     int
	// onlyPartitionZero: the backend cannot be instrumented (proxy leg: broker is a child process), so requests that
	// are known to make the broker handler spin forever (a partition index the topic does not have) are not sent
	onlyPartitionZero bool
}

type c11Joined struct {
	group, member string
	generation    int32
}

// c11Hooks lets a leg observe the server side around each exchange (the broker leg watches the metadata store).
type c11Hooks struct {
	before func()
	after  func(cs c11Case)
}

func c11NewWorld() *c11World {
	return &c11World{
		topics: []string{"orders", "orders", "t-alpha", "t-beta", "İstanbul.topic", "a.b_c-1"},
		groups: []string{"g1", "g2", "grp-İ"},
	}
}

func (w *c11World) records(rng *rand.Rand) []byte {
	w.seq++
	switch rng.Intn(10) {
	case 0:
		return nil
	case 1:
		b := make([]byte, rng.Intn(80))
		rng.Read(b)
		return b
	case 2:
		b := kbatch.Encode(kbatch.Gen(rng, kbatch.GenOpts{MaxRecords: 3, MaxValue: 20, ProducerTag: "c11"}, w.seq))
		return b[:rng.Intn(len(b))]
	}
	return kbatch.Encode(kbatch.Gen(rng, kbatch.GenOpts{MaxRecords: 4, MaxValue: 40, NullsEmpty: true, MaxHeaders: 2, BaseTS: 1700000000000, ProducerTag: "c11"}, w.seq))
}

func (w *c11World) opts() verifkreq.Opts {
	return verifkreq.Opts{Tame: true, Tags: true, MaxArray: 3, Names: w.topics, Groups: w.groups, Members: w.members, Records: w.records, OnlyPartitionZero: w.onlyPartitionZero}
}

// gen builds one request body for (key, ver). Beyond the generic fill it biases a few requests towards the
// paths that carry real content (existing topic ids, a joined member), so that replies are more than error stubs.
func (w *c11World) gen(rng *rand.Rand, key, ver int16) kmsg.Request {
	req := kmsg.RequestForKey(key)
	req.SetVersion(ver)
	verifkreq.Fill(rng, req, w.opts())
	pickTopic := func() string { return w.topics[rng.Intn(len(w.topics))] }
	switch q := req.(type) {
	case *kmsg.ProduceRequest:
		if len(q.Topics) == 0 && rng.Intn(4) != 0 {
			t := kmsg.NewProduceRequestTopic()
			t.Topic = pickTopic()
			p := kmsg.NewProduceRequestTopicPartition()
			if !w.onlyPartitionZero {
				p.Partition = int32(rng.Intn(2))
			}
			p.Records = w.records(rng)
			t.Partitions = append(t.Partitions, p)
			q.Topics = append(q.Topics, t)
		}
		for i := range q.Topics {
			if ver >= 13 {
				q.Topics[i].TopicID = metadata.TopicIDForName(q.Topics[i].Topic)
			}
		}
		if q.Acks == 0 && len(q.Topics) == 0 {
			// never sent: the proxy forwards a topic-less produce raw and then waits for a backend reply that an
			// acks=0 produce does not get, which blocks the client connection (observation, outside C11's statement)
			q.Acks = 1
		}
	case *kmsg.FetchRequest:
		if len(q.Topics) == 0 && rng.Intn(4) != 0 {
			t := kmsg.NewFetchRequestTopic()
			t.Topic = pickTopic()
			p := kmsg.NewFetchRequestTopicPartition()
			p.Partition = 0
			p.FetchOffset = int64(rng.Intn(3))
			p.PartitionMaxBytes = 1 << 20
			t.Partitions = append(t.Partitions, p)
			q.Topics = append(q.Topics, t)
		}
		for i := range q.Topics {
			if ver >= 13 && rng.Intn(3) != 0 {
				q.Topics[i].TopicID = metadata.TopicIDForName(q.Topics[i].Topic)
			}
		}
	case *kmsg.MetadataRequest:
		for i := range q.Topics {
			if q.Topics[i].Topic == nil || rng.Intn(2) == 0 {
				q.Topics[i].Topic = kmsg.StringPtr(pickTopic())
			}
			if ver >= 10 && rng.Intn(3) == 0 {
				q.Topics[i].TopicID = metadata.TopicIDForName(*q.Topics[i].Topic)
			} else if rng.Intn(4) != 0 {
				q.Topics[i].TopicID = [16]byte{}
			}
		}
	case *kmsg.SyncGroupRequest:
		if len(w.joined) > 0 && rng.Intn(2) == 0 {
			j := w.joined[rng.Intn(len(w.joined))]
			q.Group, q.MemberID, q.Generation = j.group, j.member, j.generation
		}
	case *kmsg.HeartbeatRequest:
		if len(w.joined) > 0 && rng.Intn(2) == 0 {
			j := w.joined[rng.Intn(len(w.joined))]
			q.Group, q.MemberID, q.Generation = j.group, j.member, j.generation
		}
	case *kmsg.OffsetCommitRequest:
		if len(w.joined) > 0 && rng.Intn(2) == 0 {
			j := w.joined[rng.Intn(len(w.joined))]
			q.Group, q.MemberID, q.Generation = j.group, j.member, j.generation
		}
		if len(q.Topics) == 0 {
			t := kmsg.NewOffsetCommitRequestTopic()
			t.Topic = pickTopic()
			p := kmsg.NewOffsetCommitRequestTopicPartition()
			p.Offset = int64(rng.Intn(5))
			t.Partitions = append(t.Partitions, p)
			q.Topics = append(q.Topics, t)
		}
	case *kmsg.JoinGroupRequest:
		if rng.Intn(2) == 0 {
			q.ProtocolType = "consumer"
			p := kmsg.NewJoinGroupRequestProtocol()
			p.Name = "range"
			meta := kmsg.NewConsumerMemberMetadata()
			meta.Topics = []string{pickTopic()}
			p.Metadata = meta.AppendTo(nil)
			q.Protocols = []kmsg.JoinGroupRequestProtocol{p}
		}
	}
	return req
}

// c11Content names what a decoded reply actually carried, so that the evidence shows the workload reached the
// data-bearing paths and not only error stubs.
func c11Content(resp kmsg.Response) []string {
	var out []string
	switch v := resp.(type) {
	case *kmsg.ProduceResponse:
		for _, t := range v.Topics {
			for _, p := range t.Partitions {
				if p.ErrorCode == 0 {
					out = append(out, "produce_partition_ok")
				} else {
					out = append(out, "produce_partition_error")
				}
			}
		}
	case *kmsg.FetchResponse:
		for _, t := range v.Topics {
			for _, p := range t.Partitions {
				if len(p.RecordBatches) > 0 {
					out = append(out, "fetch_partition_with_records")
				} else if p.ErrorCode != 0 {
					out = append(out, "fetch_partition_error")
				}
			}
		}
	case *kmsg.MetadataResponse:
		if len(v.Topics) > 0 {
			out = append(out, "metadata_with_topics")
		}
	case *kmsg.JoinGroupResponse:
		if v.ErrorCode == 0 && v.MemberID != "" {
			out = append(out, "join_group_ok")
		}
	case *kmsg.SyncGroupResponse:
		if v.ErrorCode == 0 {
			out = append(out, "sync_group_ok")
		}
	case *kmsg.HeartbeatResponse:
		if v.ErrorCode == 0 {
			out = append(out, "heartbeat_ok")
		}
	case *kmsg.OffsetCommitResponse:
		for _, t := range v.Topics {
			for _, p := range t.Partitions {
				if p.ErrorCode == 0 {
					out = append(out, "offset_commit_ok")
				}
			}
		}
	case *kmsg.OffsetFetchResponse:
		if len(v.Topics) > 0 || len(v.Groups) > 0 {
			out = append(out, "offset_fetch_with_topics")
		}
	case *kmsg.ListOffsetsResponse:
		for _, t := range v.Topics {
			for _, p := range t.Partitions {
				if p.ErrorCode == 0 {
					out = append(out, "list_offsets_ok")
				}
			}
		}
	case *kmsg.CreateTopicsResponse:
		for _, t := range v.Topics {
			if t.ErrorCode == 0 {
				out = append(out, "create_topic_ok")
			}
		}
	case *kmsg.DescribeConfigsResponse:
		for _, rr := range v.Resources {
			if len(rr.Configs) > 0 {
				out = append(out, "describe_configs_with_entries")
			}
		}
	case *kmsg.DescribeGroupsResponse:
		for _, g := range v.Groups {
			if len(g.Members) > 0 {
				out = append(out, "describe_groups_with_members")
			}
		}
	case *kmsg.ListGroupsResponse:
		if len(v.Groups) > 0 {
			out = append(out, "list_groups_nonempty")
		}
	case *kmsg.ApiVersionsResponse:
		if len(v.ApiKeys) > 0 {
			out = append(out, "api_versions_table")
		}
	}
	return out
}

// learn feeds reply content back into the pool (member ids handed out by JoinGroup).
func (w *c11World) learn(req kmsg.Request, resp kmsg.Response) {
	if j, ok := resp.(*kmsg.JoinGroupResponse); ok && j.MemberID != "" {
		if len(w.members) < 12 {
			w.members = append(w.members, j.MemberID)
		}
		if q, ok := req.(*kmsg.JoinGroupRequest); ok && j.ErrorCode == 0 {
			w.joined = append(w.joined, c11Joined{q.Group, j.MemberID, j.Generation})
			if len(w.joined) > 16 {
				w.joined = w.joined[len(w.joined)-16:]
			}
		}
	}
}

// ---------------------------------------------------------------------------
// the matrix
// ---------------------------------------------------------------------------

type c11Range struct{ min, max int16 }

// c11Advertised asks the live server. It uses ApiVersions v0 (the version every client may fall back to).
func c11Advertised(r *verifkit.Run, target string, cl *c11Client) (map[int16]c11Range, []int16) {
	req := kmsg.NewPtrApiVersionsRequest()
	req.SetVersion(0)
	cid := "verif-c11"
	ex := cl.do(verifkreq.Encode(req, 7, &cid), false)
	if ex.reply == nil || len(ex.reply) < 4 {
		r.Inconclusive(fmt.Sprintf("%s: no ApiVersions v0 reply (%s)", target, ex.err))
		return nil, nil
	}
	resp := kmsg.NewPtrApiVersionsResponse()
	resp.SetVersion(0)
	if err := resp.ReadFrom(ex.reply[4:]); err != nil || resp.ErrorCode != 0 {
		r.Violation("reply_undecodable:ApiVersions", fmt.Sprintf("%s: ApiVersions v0 reply cannot be decoded (%v, error code %d)", target, err, resp.ErrorCode), map[string]any{"reply_hex": c11Hex(ex.reply)})
		return nil, nil
	}
	table := map[int16]c11Range{}
	var keys []int16
	for _, k := range resp.ApiKeys {
		if _, dup := table[k.ApiKey]; dup {
			r.Violation("api_key_advertised_twice", fmt.Sprintf("%s: api key %d listed twice in ApiVersions", target, k.ApiKey), map[string]any{"key": k.ApiKey})
		}
		table[k.ApiKey] = c11Range{k.MinVersion, k.MaxVersion}
		keys = append(keys, k.ApiKey)
	}
	sort.Slice(keys, func(i, j int) bool { return keys[i] < keys[j] })
	return table, keys
}

func c11Corr(rng *rand.Rand) int32 {
	switch rng.Intn(8) {
	case 0:
		return 0
	case 1:
		return -1
	case 2:
		return math.MaxInt32
	case 3:
		return math.MinInt32
	}
	c := int32(rng.Uint32())
	if uint32(c)>>24 == 0x5e { // reserved for the sentinel
		c ^= 0x01000000
	}
	return c
}

// c11RunMatrix drives every advertised (key, version) and every other version in [0, codec max + 2] of every key
// the codec knows against the server at addr and judges each reply.
// c11ReplayCase returns the recorded case of a witness written by the given leg (VERIF_REPLAY), if any.
func c11ReplayCase(leg string) *c11Case {
	rp := verifkit.Replay()
	if rp == nil || rp["leg"] != leg {
		return nil
	}
	b, err := json.Marshal(rp["replay"])
	if err != nil {
		return nil
	}
	var cs c11Case
	if json.Unmarshal(b, &cs) != nil || cs.RequestHex == "" || cs.Target == "" {
		return nil
	}
	return &cs
}

// c11Matrix configures one pass over one server.
type c11Matrix struct {
	target            string
	addr              string
	salt              int     // offsets the PRNG case numbers so that passes do not share cases
	requireReply      bool    // false: degraded configuration, a missing reply is counted, not judged
	scale             float64 // multiplies the per-pair body counts
	partitionZeroOnly bool
	onlyListedKeys    bool           // skip the keys the server does not list at all
	onlyKeys          map[int16]bool // non-nil: drive only these keys
	hooks             *c11Hooks
	replay            *c11Case // non-nil: send only this recorded request (bin/check C11 --replay <witness>)
}

func c11RunMatrix(r *verifkit.Run, m c11Matrix) {
	target, addr, legSalt, requireReply, scale, partitionZeroOnly, hooks := m.target, m.addr, m.salt, m.requireReply, m.scale, m.partitionZeroOnly, m.hooks
	cl := &c11Client{addr: addr, watchdog: c11Watchdog}
	if !requireReply {
		cl.watchdog = c11DegradedWatchdog
	}
	defer cl.close()
	table, keys := c11Advertised(r, target, cl)
	if table == nil {
		return
	}
	world := c11NewWorld()
	world.onlyPartitionZero = partitionZeroOnly
	var advText []string
	for _, k := range keys {
		advText = append(advText, fmt.Sprintf("%s(%d):%d-%d", kmsg.NameForKey(k), k, table[k].min, table[k].max))
	}
	r.Note(target+"_advertised", strings.Join(advText, " "))
	caseNo := legSalt
	debug := os.Getenv("VERIF_DEBUG") != ""
	t0 := time.Now()
	one := func(key, ver int16, advertised bool) {
		caseNo++
		if debug {
			fmt.Fprintf(os.Stderr, "c11 %s case %d key=%d v=%d adv=%v t=%s\n", target, caseNo, key, ver, advertised, time.Since(t0).Round(time.Millisecond))
		}
		rng := r.Rand(caseNo)
		req := world.gen(rng, key, ver)
		cid := verifkreq.ClientID(rng)
		corr := c11Corr(rng)
		wire := verifkreq.Encode(req, corr, cid)
		cs := c11Case{Target: target, API: kmsg.NameForKey(key), Key: key, Version: ver, Advertised: advertised, Corr: corr, RequestHex: c11Hex(wire), NoReplyOK: !requireReply}
		if cid != nil {
			cs.ClientID = *cid
		} else {
			cs.ClientID = "<null>"
		}
		if p, ok := req.(*kmsg.ProduceRequest); ok && p.Acks == 0 {
			cs.Acks0 = true
		}
		if hooks != nil && hooks.before != nil {
			hooks.before()
		}
		ex := cl.do(wire, true)
		if hooks != nil && hooks.after != nil {
			hooks.after(cs)
		}
		if ex.reply == nil && ex.closed && advertised && !cs.Acks0 && requireReply {
			// the connection died with the sentinel still unread on the server side; a reply written just before the close
			// could have been discarded by the reset. Ask again without pipelining before judging.
			r.Count("retries_without_pipelining", 1)
			cl.close()
			ex = cl.do(wire, false)
			cl.close()
		}
		resp := c11Judge(r, cs, ex)
		if resp != nil {
			world.learn(req, resp)
			for _, c := range c11Content(resp) {
				r.Count("content_"+c, 1)
			}
		}
		nontrivial := resp != nil && len(ex.reply) > 8
		r.Case(verifkit.Hash(target, wire), nontrivial)
		if advertised {
			r.Count("advertised_cases", 1)
			r.Seen("advertised_pairs", fmt.Sprintf("%s/%d/%d", target, key, ver))
		} else {
			r.Count("unadvertised_cases", 1)
			r.Seen("unadvertised_pairs", fmt.Sprintf("%s/%d/%d", target, key, ver))
		}
		if caseNo%211 == 0 && resp != nil {
			r.Sample(map[string]any{"target": target, "api": cs.API, "version": ver, "advertised": advertised, "request_hex": c11Hex(wire[:min(len(wire), 120)]), "reply_hex": c11Hex(ex.reply[:min(len(ex.reply), 120)])})
		}
	}
	sc := func(n int) int {
		if m := int(float64(n) * scale); m >= 1 {
			return m
		}
		return 1
	}
	if m.replay != nil {
		rc := *m.replay
		wire, err := hex.DecodeString(rc.RequestHex)
		if err != nil || len(wire) < 12 {
			r.Inconclusive("replay: request_hex of the witness is not usable (truncated in the witness file?)")
			return
		}
		rc.NoReplyOK = !requireReply
		rc.ReplyHex, rc.Detail = "", ""
		if hooks != nil && hooks.before != nil {
			hooks.before()
		}
		ex := cl.do(wire, true)
		if hooks != nil && hooks.after != nil {
			hooks.after(rc)
		}
		resp := c11Judge(r, rc, ex)
		r.Case(verifkit.Hash(target, wire), resp != nil)
		r.Sample(map[string]any{"replayed": rc.API, "version": rc.Version, "reply_hex": c11Hex(ex.reply[:min(len(ex.reply), 120)])})
		return
	}
	nAdv, nOther, nUnknown := sc(r.N(10, 150)), sc(r.N(2, 20)), sc(r.N(1, 6))
	// 1. advertised pairs
	for _, k := range keys {
		rg := table[k]
		if rg.min < 0 || rg.max < rg.min {
			continue // listed as unsupported (-1..-1)
		}
		if m.onlyKeys != nil && !m.onlyKeys[k] {
			continue
		}
		for v := rg.min; v <= rg.max; v++ {
			for i := 0; i < nAdv; i++ {
				one(k, v, true)
			}
		}
	}
	// 2. every other version of every key the codec knows, up to codec max + 2
	for key := int16(0); key <= kmsg.MaxKey; key++ {
		probe := kmsg.RequestForKey(key)
		if probe == nil {
			continue
		}
		rg, listed := table[key]
		if !listed && m.onlyListedKeys {
			continue
		}
		if m.onlyKeys != nil && !m.onlyKeys[key] {
			continue
		}
		n := nUnknown
		if listed {
			n = nOther
		}
		for v := int16(0); v <= probe.MaxVersion()+2; v++ {
			if listed && rg.min >= 0 && v >= rg.min && v <= rg.max {
				continue
			}
			if key == 7 && v == 0 { // ControlledShutdown v0: header without client id, cannot be framed like the others
				continue
			}
			for i := 0; i < n; i++ {
				one(key, v, false)
			}
		}
	}
	r.Count(target+"_connections", int64(cl.dials))
}
