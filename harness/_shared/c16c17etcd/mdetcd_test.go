//go:build verif

package metadata

// Shared by C16 (store leg) and C17: one embedded etcd per test process, and an
// EtcdStore whose snapshot watcher can be *quiesced*.
//
// Why quiescing: EtcdStore refreshes its in-process snapshot from its own watch
// events, asynchronously.  A refresh that is still pending when the next
// CreatePartitions runs may overwrite the in-process state with the older etcd
// snapshot (that hazard belongs to C21, not to these properties).  A sequential
// differential test must therefore let the store finish reacting to its own
// writes before the next call.  The store is built exactly like NewEtcdStore
// builds it, except that client.KV and client.Watcher are wrapped (they are
// interface fields meant to be replaceable) so that the harness can *see*
// (never change) snapshot puts, watch deliveries and refresh reads.

import (
	"context"
	"errors"
	"fmt"
	"net"
	"net/url"
	"path/filepath"
	"reflect"
	"sync"
	"testing"
	"time"
	"unsafe"

	clientv3 "go.etcd.io/etcd/client/v3"
	"go.etcd.io/etcd/client/v3/namespace"

	"go.etcd.io/etcd/server/v3/embed"
)

var (
	vEtcdOnce      sync.Once
	vEtcdEndpoints []string
)

// vEtcd starts the process-wide embedded etcd (bound to the first test's cleanup).
func vEtcd(t *testing.T) []string {
	vEtcdOnce.Do(func() { vEtcdEndpoints = vStartEtcd(t) })
	if len(vEtcdEndpoints) == 0 {
		t.Fatalf("embedded etcd did not start")
	}
	return vEtcdEndpoints
}

// vWipe removes every key of one namespace so that the next store of that
// namespace starts from an empty keyspace.
func vWipe(admin *clientv3.Client, ns string) error {
	ctx, cancel := context.WithTimeout(context.Background(), 20*time.Second)
	defer cancel()
	_, err := admin.Delete(ctx, ns, clientv3.WithPrefix())
	return err
}

type vQuiesce struct {
	mu        sync.Mutex
	cond      *sync.Cond
	snapPuts  int64 // successful Puts of the snapshot key by this store
	processed int64 // watch events whose refresh has completed (or that the store skips)
	snapGets  int64 // completed Gets of the snapshot key (only refreshSnapshot does these)
	closed    bool
	watching  bool // the server has confirmed the snapshot watch (events of later puts will be delivered)
}

type vKV struct {
	clientv3.KV
	q *vQuiesce
}

func (k *vKV) Put(ctx context.Context, key, val string, opts ...clientv3.OpOption) (*clientv3.PutResponse, error) {
	resp, err := k.KV.Put(ctx, key, val, opts...)
	if err == nil && key == snapshotKey() {
		k.q.mu.Lock()
		k.q.snapPuts++
		k.q.cond.Broadcast()
		k.q.mu.Unlock()
	}
	return resp, err
}

func (k *vKV) Get(ctx context.Context, key string, opts ...clientv3.OpOption) (*clientv3.GetResponse, error) {
	resp, err := k.KV.Get(ctx, key, opts...)
	if key == snapshotKey() && len(opts) == 0 {
		k.q.mu.Lock()
		k.q.snapGets++
		k.q.cond.Broadcast()
		k.q.mu.Unlock()
	}
	return resp, err
}

type vWatcher struct {
	clientv3.Watcher
	q     *vQuiesce
	store func() *EtcdStore
}

func (w *vWatcher) Close() error { return w.Watcher.Close() }

func (w *vWatcher) Watch(ctx context.Context, key string, opts ...clientv3.OpOption) clientv3.WatchChan {
	// WithCreatedNotify only adds one leading "created" response, which is consumed here and never
	// reaches the store: it tells the harness from when on the store's own puts produce events.
	in := w.Watcher.Watch(ctx, key, append(append([]clientv3.OpOption{}, opts...), clientv3.WithCreatedNotify())...)
	out := make(chan clientv3.WatchResponse)
	go func() {
		defer close(out)
		for resp := range in {
			if resp.Created && len(resp.Events) == 0 && resp.Err() == nil {
				w.q.mu.Lock()
				w.q.watching = true
				w.q.cond.Broadcast()
				w.q.mu.Unlock()
				continue
			}
			n := int64(len(resp.Events))
			skipped := resp.Err() != nil // the store ignores such responses
			w.q.mu.Lock()
			g0 := w.q.snapGets
			w.q.mu.Unlock()
			select {
			case out <- resp:
			case <-ctx.Done():
				return
			}
			if !skipped {
				// the store now runs refreshSnapshot: persistMu.Lock, Get(snapshot), Update, Unlock
				w.q.mu.Lock()
				for w.q.snapGets <= g0 && !w.q.closed {
					w.q.cond.Wait()
				}
				w.q.mu.Unlock()
				s := w.store()
				s.persistMu.Lock()
				s.persistMu.Unlock() //nolint:staticcheck // barrier: refreshSnapshot holds persistMu until Update is done
			}
			w.q.mu.Lock()
			w.q.processed += n
			w.q.cond.Broadcast()
			w.q.mu.Unlock()
		}
	}()
	return out
}

// vStore is an EtcdStore plus its quiescer.
type vStore struct {
	*EtcdStore
	q *vQuiesce
}

// vShape: what NewEtcdStore puts into the fields of EtcdStore that the mirror below does not
// set itself. NewEtcdStore offers no way to hand it a client, so the store under observation is
// assembled here; to keep that assembly equal to the constructor's even when the constructor
// starts to initialise further fields (a cache map, a channel, a tunable), the real NewEtcdStore
// is run once per process and every field outside the mirror's own six is reproduced generically:
// non-nil map / chan / slice -> a fresh empty one of the same type and capacity, scalar -> the same
// value, sync and sync/atomic structs -> zero value. A non-nil pointer, func or interface cannot be
// reproduced: the harness then refuses to run (broken check) instead of judging a half-built store.
var (
	vShapeOnce sync.Once
	vShapeErr  error
	vShapeInit []func(dst reflect.Value)
)

var vMirrored = map[string]bool{"client": true, "metadata": true, "cancel": true, "available": true, "lastError": true, "persistMu": true}

func vSettable(f reflect.Value) reflect.Value {
	return reflect.NewAt(f.Type(), unsafe.Pointer(f.UnsafeAddr())).Elem()
}

func vLearnShape(endpoints []string) error {
	vShapeOnce.Do(func() {
		ctx, cancel := context.WithTimeout(context.Background(), 60*time.Second)
		defer cancel()
		// un-namespaced: its keyspace ("/kafscale/...") is never written by the harness workers
		tmpl, err := NewEtcdStore(ctx, ClusterMetadata{}, EtcdStoreConfig{Endpoints: endpoints})
		if err != nil {
			vShapeErr = fmt.Errorf("template NewEtcdStore: %w", err)
			return
		}
		defer tmpl.Close()
		v := reflect.ValueOf(tmpl).Elem()
		for i := 0; i < v.NumField(); i++ {
			i, sf, fv := i, v.Type().Field(i), v.Field(i)
			if vMirrored[sf.Name] {
				continue
			}
			switch fv.Kind() {
			case reflect.Map:
				if !fv.IsNil() {
					vShapeInit = append(vShapeInit, func(dst reflect.Value) { vSettable(dst.Field(i)).Set(reflect.MakeMap(sf.Type)) })
				}
			case reflect.Chan:
				if !fv.IsNil() {
					c := fv.Cap()
					vShapeInit = append(vShapeInit, func(dst reflect.Value) { vSettable(dst.Field(i)).Set(reflect.MakeChan(sf.Type, c)) })
				}
			case reflect.Slice:
				if !fv.IsNil() {
					c := fv.Cap()
					vShapeInit = append(vShapeInit, func(dst reflect.Value) { vSettable(dst.Field(i)).Set(reflect.MakeSlice(sf.Type, 0, c)) })
				}
			case reflect.Pointer, reflect.Func, reflect.Interface, reflect.UnsafePointer:
				if !fv.IsNil() {
					vShapeErr = fmt.Errorf("NewEtcdStore initialises EtcdStore.%s (%s) to a non-nil value that the harness's observable copy of the constructor cannot reproduce; update vNewEtcdStore", sf.Name, sf.Type)
					return
				}
			case reflect.Struct, reflect.Array:
				// mutexes, atomics, embedded helpers: their zero value is what the constructor leaves
			default: // bool, ints, floats, string: plain configuration copied by value
				if !fv.IsZero() {
					val := reflect.New(sf.Type).Elem()
					val.Set(vSettable(fv))
					vShapeInit = append(vShapeInit, func(dst reflect.Value) { vSettable(dst.Field(i)).Set(val) })
				}
			}
		}
	})
	return vShapeErr
}

// vNewEtcdStore mirrors NewEtcdStore (same fields, same refresh-then-watch order; fields the
// mirror does not know are initialised the way the real constructor initialises them, see vShape).
// ns is an etcd client namespace (go.etcd.io/etcd/client/v3/namespace: a
// transparent key prefix) so that several harness workers can share the one
// embedded etcd, each seeing its own empty "/kafscale/..." keyspace.
func vNewEtcdStore(ctx context.Context, endpoints []string, ns string, snapshot ClusterMetadata) (*vStore, error) {
	cli, err := clientv3.New(clientv3.Config{Endpoints: endpoints, DialTimeout: 5 * time.Second})
	if err != nil {
		return nil, err
	}
	q := &vQuiesce{}
	q.cond = sync.NewCond(&q.mu)
	var store *EtcdStore
	kv, wa := cli.KV, cli.Watcher
	if ns != "" {
		kv, wa = namespace.NewKV(kv, ns), namespace.NewWatcher(wa, ns)
	}
	cli.KV = &vKV{KV: kv, q: q}
	cli.Watcher = &vWatcher{Watcher: wa, q: q, store: func() *EtcdStore { return store }}
	if err := vLearnShape(endpoints); err != nil {
		_ = cli.Close()
		return nil, err
	}
	store = &EtcdStore{client: cli, metadata: NewInMemoryStore(snapshot), available: 1}
	for _, init := range vShapeInit {
		init(reflect.ValueOf(store).Elem())
	}
	_ = store.refreshSnapshot(ctx)
	store.startWatchers()
	vs := &vStore{EtcdStore: store, q: q}
	// NewEtcdStore returns while the watch is still being set up; a snapshot written before the
	// server has registered the watch produces no event. Wait for the registration so that every
	// later snapshot put is followed by exactly one event.
	if !vs.wait(func() bool { return q.watching }) {
		vs.Shutdown()
		return nil, errors.New("snapshot watch was not confirmed within the watchdog")
	}
	return vs, nil
}

// wait blocks until cond() holds (evaluated under q.mu); false = watchdog.
func (s *vStore) wait(cond func() bool) bool {
	s.q.mu.Lock()
	defer s.q.mu.Unlock()
	if cond() {
		return true
	}
	timer := time.AfterFunc(60*time.Second, func() {
		s.q.mu.Lock()
		s.q.closed = true
		s.q.cond.Broadcast()
		s.q.mu.Unlock()
	})
	defer timer.Stop()
	for !cond() && !s.q.closed {
		s.q.cond.Wait()
	}
	return cond()
}

// Quiesce waits until the store has finished reacting to every snapshot it
// wrote. false = watchdog (the caller reports the case as inconclusive).
func (s *vStore) Quiesce() bool {
	return s.wait(func() bool { return s.q.processed >= s.q.snapPuts })
}

func (s *vStore) Shutdown() {
	s.q.mu.Lock()
	s.q.closed = true
	s.q.cond.Broadcast()
	s.q.mu.Unlock()
	_ = s.EtcdStore.Close()
}

// vStartEtcd starts the process-wide embedded etcd. It mirrors
// internal/testutil.StartEmbeddedEtcd (random loopback ports, zap at error
// level, ready wait) with two differences that concern only the harness: the
// server skips fsync (the durability of etcd itself is not under test and the
// machine is shared), and its log goes to the test's temp dir instead of
// /tmp/etcd-test-*.log.
func vStartEtcd(t *testing.T) []string {
	t.Helper()
	var lastErr error
	for attempt := 0; attempt < 6; attempt++ {
		cfg := embed.NewConfig()
		cfg.Dir = t.TempDir()
		cfg.Logger = "zap"
		cfg.LogLevel = "error"
		cfg.LogOutputs = []string{filepath.Join(t.TempDir(), "etcd.log")}
		cfg.UnsafeNoFsync = true
		port := func() int {
			ln, err := net.Listen("tcp", "127.0.0.1:0")
			if err != nil {
				t.Fatalf("allocate port: %v", err)
			}
			defer ln.Close()
			return ln.Addr().(*net.TCPAddr).Port
		}
		cu, _ := url.Parse(fmt.Sprintf("http://127.0.0.1:%d", port()))
		pu, _ := url.Parse(fmt.Sprintf("http://127.0.0.1:%d", port()))
		cfg.ListenClientUrls, cfg.AdvertiseClientUrls = []url.URL{*cu}, []url.URL{*cu}
		cfg.ListenPeerUrls, cfg.AdvertisePeerUrls = []url.URL{*pu}, []url.URL{*pu}
		cfg.InitialCluster = cfg.InitialClusterFromName(cfg.Name)
		e, err := embed.StartEtcd(cfg)
		if err != nil {
			lastErr = err
			time.Sleep(time.Duration(attempt+1) * 100 * time.Millisecond)
			continue
		}
		select {
		case <-e.Server.ReadyNotify():
		case <-time.After(120 * time.Second):
			e.Server.Stop()
			t.Fatalf("embedded etcd not ready after 120s")
		}
		t.Cleanup(e.Close)
		return []string{"http://" + e.Clients[0].Addr().String()}
	}
	t.Fatalf("start embedded etcd: %v", lastErr)
	return nil
}
