//go:build verif

package main

// vfS3 is the harness-side S3 stand-in shared by C31 and C32. Unlike the
// repo's test fake it has REAL multipart semantics, written from the S3 API
// description:
//
//   - an upload id names one (key, set of parts); UploadPart stores the bytes
//     under its part number (a re-upload replaces them) and answers with an
//     ETag that is the quoted MD5 of the part bytes;
//   - CompleteMultipartUpload builds the object as the concatenation of
//     EXACTLY the parts listed in the request, in the listed order, and
//     rejects: unknown upload (NoSuchUpload), an empty list (MalformedXML),
//     part numbers that are not strictly ascending (InvalidPartOrder), a
//     listed part that was never uploaded or whose ETag differs (InvalidPart),
//     a non-final listed part smaller than MinPart (EntityTooSmall);
//   - parts not listed are discarded; the upload id is gone afterwards;
//   - PutObject with a ContentLength that differs from the body is rejected.
//
// It also keeps an operation log and can fail the n-th call of an operation.

import (
	"bytes"
	"context"
	"crypto/md5"
	"encoding/hex"
	"fmt"
	"io"
	"sync"

	"github.com/aws/aws-sdk-go-v2/aws"
	"github.com/aws/aws-sdk-go-v2/service/s3"
	"github.com/aws/smithy-go"
)

type vfS3Part struct {
	etag string
	data []byte
}

type vfS3Upload struct {
	key   string
	parts map[int32]vfS3Part
}

type vfS3 struct {
	mu      sync.Mutex
	MinPart int64 // minimum size of a non-final part at completion (real S3: 5 MiB); 0 disables
	objects map[string][]byte
	uploads map[string]*vfS3Upload
	nextID  int
	ops     []string
	calls   map[string]int
	failAt  map[string]int // op -> fail the n-th call (1-based) of that op, once
	// counters for the evidence
	Completed      int
	CompleteErrors map[string]int
}

func newVfS3(minPart int64) *vfS3 {
	return &vfS3{MinPart: minPart, objects: map[string][]byte{}, uploads: map[string]*vfS3Upload{},
		calls: map[string]int{}, failAt: map[string]int{}, CompleteErrors: map[string]int{}}
}

func vfS3Err(code, msg string) error {
	return &smithy.GenericAPIError{Code: code, Message: msg}
}

// enter logs the call and applies scripted failures. Caller holds f.mu.
func (f *vfS3) enter(op, detail string) error {
	f.calls[op]++
	f.ops = append(f.ops, op+" "+detail)
	if n, ok := f.failAt[op]; ok && n == f.calls[op] {
		delete(f.failAt, op)
		f.ops = append(f.ops, op+" -> injected InternalError")
		return vfS3Err("InternalError", "injected failure of "+op)
	}
	return nil
}

// FailNext makes the next call of op fail once.
func (f *vfS3) FailNext(op string) {
	f.mu.Lock()
	f.failAt[op] = f.calls[op] + 1
	f.mu.Unlock()
}

func (f *vfS3) Object(key string) ([]byte, bool) {
	f.mu.Lock()
	defer f.mu.Unlock()
	b, ok := f.objects[key]
	return b, ok
}

func (f *vfS3) Keys() []string {
	f.mu.Lock()
	defer f.mu.Unlock()
	out := make([]string, 0, len(f.objects))
	for k := range f.objects {
		out = append(out, k)
	}
	return out
}

func (f *vfS3) Ops() []string {
	f.mu.Lock()
	defer f.mu.Unlock()
	return append([]string(nil), f.ops...)
}

func (f *vfS3) Calls(op string) int {
	f.mu.Lock()
	defer f.mu.Unlock()
	return f.calls[op]
}

// Reset drops objects, uploads and the log (between cases).
func (f *vfS3) Reset() {
	f.mu.Lock()
	f.objects = map[string][]byte{}
	f.uploads = map[string]*vfS3Upload{}
	f.ops = nil
	f.calls = map[string]int{}
	f.failAt = map[string]int{}
	f.mu.Unlock()
}

func (f *vfS3) CreateMultipartUpload(ctx context.Context, p *s3.CreateMultipartUploadInput, _ ...func(*s3.Options)) (*s3.CreateMultipartUploadOutput, error) {
	f.mu.Lock()
	defer f.mu.Unlock()
	if err := f.enter("CreateMultipartUpload", aws.ToString(p.Key)); err != nil {
		return nil, err
	}
	f.nextID++
	id := fmt.Sprintf("vf-upload-%d", f.nextID)
	f.uploads[id] = &vfS3Upload{key: aws.ToString(p.Key), parts: map[int32]vfS3Part{}}
	return &s3.CreateMultipartUploadOutput{UploadId: aws.String(id), Key: p.Key, Bucket: p.Bucket}, nil
}

func (f *vfS3) UploadPart(ctx context.Context, p *s3.UploadPartInput, _ ...func(*s3.Options)) (*s3.UploadPartOutput, error) {
	var data []byte
	if p.Body != nil {
		var err error
		if data, err = io.ReadAll(p.Body); err != nil {
			return nil, err
		}
	}
	f.mu.Lock()
	defer f.mu.Unlock()
	pn := aws.ToInt32(p.PartNumber)
	if err := f.enter("UploadPart", fmt.Sprintf("%s #%d %dB", aws.ToString(p.UploadId), pn, len(data))); err != nil {
		return nil, err
	}
	up, ok := f.uploads[aws.ToString(p.UploadId)]
	if !ok || up.key != aws.ToString(p.Key) {
		return nil, vfS3Err("NoSuchUpload", "the specified upload does not exist")
	}
	if pn < 1 || pn > 10000 {
		return nil, vfS3Err("InvalidArgument", "part number must be between 1 and 10000")
	}
	sum := md5.Sum(data)
	etag := `"` + hex.EncodeToString(sum[:]) + `"`
	up.parts[pn] = vfS3Part{etag: etag, data: data}
	return &s3.UploadPartOutput{ETag: aws.String(etag)}, nil
}

func (f *vfS3) CompleteMultipartUpload(ctx context.Context, p *s3.CompleteMultipartUploadInput, _ ...func(*s3.Options)) (*s3.CompleteMultipartUploadOutput, error) {
	f.mu.Lock()
	defer f.mu.Unlock()
	id := aws.ToString(p.UploadId)
	var listed []int32
	if p.MultipartUpload != nil {
		for _, cp := range p.MultipartUpload.Parts {
			listed = append(listed, aws.ToInt32(cp.PartNumber))
		}
	}
	if err := f.enter("CompleteMultipartUpload", fmt.Sprintf("%s parts=%v", id, listed)); err != nil {
		return nil, err
	}
	fail := func(code, msg string) (*s3.CompleteMultipartUploadOutput, error) {
		f.CompleteErrors[code]++
		f.ops = append(f.ops, "CompleteMultipartUpload -> "+code)
		return nil, vfS3Err(code, msg)
	}
	up, ok := f.uploads[id]
	if !ok || up.key != aws.ToString(p.Key) {
		return fail("NoSuchUpload", "the specified upload does not exist")
	}
	if len(listed) == 0 {
		return fail("MalformedXML", "the completion request lists no parts")
	}
	var obj []byte
	prev := int32(0)
	for i, cp := range p.MultipartUpload.Parts {
		pn := aws.ToInt32(cp.PartNumber)
		if pn <= prev {
			return fail("InvalidPartOrder", "the list of parts was not in ascending order")
		}
		prev = pn
		part, ok := up.parts[pn]
		if !ok || part.etag != aws.ToString(cp.ETag) {
			return fail("InvalidPart", fmt.Sprintf("part %d not found or its entity tag does not match", pn))
		}
		if f.MinPart > 0 && i < len(listed)-1 && int64(len(part.data)) < f.MinPart {
			return fail("EntityTooSmall", fmt.Sprintf("part %d is smaller than the minimum allowed size", pn))
		}
		obj = append(obj, part.data...)
	}
	if obj == nil {
		obj = []byte{}
	}
	f.objects[up.key] = obj
	delete(f.uploads, id)
	f.Completed++
	return &s3.CompleteMultipartUploadOutput{Key: p.Key, Bucket: p.Bucket}, nil
}

func (f *vfS3) AbortMultipartUpload(ctx context.Context, p *s3.AbortMultipartUploadInput, _ ...func(*s3.Options)) (*s3.AbortMultipartUploadOutput, error) {
	f.mu.Lock()
	defer f.mu.Unlock()
	id := aws.ToString(p.UploadId)
	if err := f.enter("AbortMultipartUpload", id); err != nil {
		return nil, err
	}
	if _, ok := f.uploads[id]; !ok {
		return nil, vfS3Err("NoSuchUpload", "the specified upload does not exist")
	}
	delete(f.uploads, id)
	return &s3.AbortMultipartUploadOutput{}, nil
}

func (f *vfS3) PutObject(ctx context.Context, p *s3.PutObjectInput, _ ...func(*s3.Options)) (*s3.PutObjectOutput, error) {
	var data []byte
	if p.Body != nil {
		var err error
		if data, err = io.ReadAll(p.Body); err != nil {
			return nil, err
		}
	}
	if data == nil {
		data = []byte{}
	}
	f.mu.Lock()
	defer f.mu.Unlock()
	if err := f.enter("PutObject", fmt.Sprintf("%s %dB", aws.ToString(p.Key), len(data))); err != nil {
		return nil, err
	}
	if p.ContentLength != nil && *p.ContentLength != int64(len(data)) {
		return nil, vfS3Err("IncompleteBody", fmt.Sprintf("Content-Length %d but body has %d bytes", *p.ContentLength, len(data)))
	}
	f.objects[aws.ToString(p.Key)] = data
	sum := md5.Sum(data)
	return &s3.PutObjectOutput{ETag: aws.String(`"` + hex.EncodeToString(sum[:]) + `"`)}, nil
}

func (f *vfS3) GetObject(ctx context.Context, p *s3.GetObjectInput, _ ...func(*s3.Options)) (*s3.GetObjectOutput, error) {
	f.mu.Lock()
	defer f.mu.Unlock()
	if err := f.enter("GetObject", aws.ToString(p.Key)); err != nil {
		return nil, err
	}
	data, ok := f.objects[aws.ToString(p.Key)]
	if !ok {
		return nil, vfS3Err("NoSuchKey", "the specified key does not exist")
	}
	n := int64(len(data))
	return &s3.GetObjectOutput{Body: io.NopCloser(bytes.NewReader(data)), ContentLength: &n}, nil
}

func (f *vfS3) DeleteObject(ctx context.Context, p *s3.DeleteObjectInput, _ ...func(*s3.Options)) (*s3.DeleteObjectOutput, error) {
	f.mu.Lock()
	defer f.mu.Unlock()
	if err := f.enter("DeleteObject", aws.ToString(p.Key)); err != nil {
		return nil, err
	}
	delete(f.objects, aws.ToString(p.Key))
	return &s3.DeleteObjectOutput{}, nil
}

func (f *vfS3) HeadBucket(ctx context.Context, p *s3.HeadBucketInput, _ ...func(*s3.Options)) (*s3.HeadBucketOutput, error) {
	return &s3.HeadBucketOutput{}, nil
}

func (f *vfS3) CreateBucket(ctx context.Context, p *s3.CreateBucketInput, _ ...func(*s3.Options)) (*s3.CreateBucketOutput, error) {
	return &s3.CreateBucketOutput{}, nil
}

var _ s3API = (*vfS3)(nil)
