//go:build verif

package main

// vfBroker is the scripted Kafka backend shared by C31 and C32: a TCP listener
// that reads request frames, decodes every produce with the reference codec
// (kit kbatch), logs it together with the answer it is about to give, and then
// answers according to the current mode.

import (
	"encoding/binary"
	"fmt"
	"io"
	"math/rand"
	"net"
	"strconv"
	"strings"
	"sync"
	"testing"

	"github.com/KafScale/platform/internal/verifkit/kbatch"
	"github.com/twmb/franz-go/pkg/kmsg"
)

// ---------------------------------------------------------------------------
// scripted broker
// ---------------------------------------------------------------------------

type vfProduce struct {
	Topic      string
	Partition  int32
	Values     [][]byte // record values of that partition, decoded with the reference codec
	DecodeErr  string   // non-empty: the request was not a well-formed produce
	ReplyKind  string   // what the broker answered: ok | code | no_partition | other_partition | garbage | close | half
	ReplyCode  int16    // error code given for (Topic, Partition) when ReplyKind is ok/code
	ReplySent  bool
	APIVersion int16
}

type vfBroker struct {
	ln   net.Listener
	mu   sync.Mutex
	mode string // ok | code:<n> | no_partition | other_partition | garbage | garbage_hdr | close | half
	log  []vfProduce
	raws [][]byte // every request payload as received (header + body)
	wg   sync.WaitGroup
	rng  *rand.Rand
}

func newVfBroker(t *testing.T) *vfBroker {
	ln, err := net.Listen("tcp", "127.0.0.1:0")
	if err != nil {
		t.Fatalf("broker listen: %v", err)
	}
	b := &vfBroker{ln: ln, mode: "ok", rng: rand.New(rand.NewSource(7))}
	b.wg.Add(1)
	go func() {
		defer b.wg.Done()
		for {
			c, err := ln.Accept()
			if err != nil {
				return
			}
			b.wg.Add(1)
			go func() {
				defer b.wg.Done()
				defer c.Close()
				b.serve(c)
			}()
		}
	}()
	return b
}

func (b *vfBroker) Addr() string { return b.ln.Addr().String() }
func (b *vfBroker) Close()       { b.ln.Close() }

func (b *vfBroker) Set(mode string) {
	b.mu.Lock()
	b.mode = mode
	b.log = nil
	b.raws = nil
	b.mu.Unlock()
}

func (b *vfBroker) Log() []vfProduce {
	b.mu.Lock()
	defer b.mu.Unlock()
	return append([]vfProduce(nil), b.log...)
}

// Raws returns the request payloads received since the last Set.
func (b *vfBroker) Raws() [][]byte {
	b.mu.Lock()
	defer b.mu.Unlock()
	return append([][]byte(nil), b.raws...)
}

func (b *vfBroker) serve(c net.Conn) {
	for {
		var lb [4]byte
		if _, err := io.ReadFull(c, lb[:]); err != nil {
			return
		}
		n := int(int32(binary.BigEndian.Uint32(lb[:])))
		if n < 0 || n > 64<<20 {
			return
		}
		payload := make([]byte, n)
		if _, err := io.ReadFull(c, payload); err != nil {
			return
		}
		entries, corr, version := vfDecodeProduce(payload)
		b.mu.Lock()
		mode := b.mode
		var reply []byte
		kind := mode
		code := int16(0)
		switch {
		case mode == "ok":
		case strings.HasPrefix(mode, "code:"):
			v, _ := strconv.Atoi(mode[5:])
			code = int16(v)
			kind = "code"
		}
		for i := range entries {
			entries[i].ReplyKind = kind
			entries[i].ReplyCode = code
			entries[i].APIVersion = version
			entries[i].ReplySent = kind != "close"
		}
		// the log entry is complete BEFORE the answer leaves, so the HTTP handler cannot answer its client first
		b.log = append(b.log, entries...)
		b.raws = append(b.raws, payload)
		switch kind {
		case "ok", "code":
			reply = vfProduceResponse(corr, version, entries, code, false, false)
		case "no_partition":
			reply = vfProduceResponse(corr, version, entries, 0, true, false)
		case "other_partition":
			reply = vfProduceResponse(corr, version, entries, 0, false, true)
		case "garbage":
			reply = make([]byte, 1+b.rng.Intn(40))
			b.rng.Read(reply)
		case "garbage_hdr":
			reply = binary.BigEndian.AppendUint32(nil, uint32(corr))
			junk := make([]byte, 1+b.rng.Intn(40))
			b.rng.Read(junk)
			reply = append(reply, junk...)
		}
		b.mu.Unlock()
		switch kind {
		case "close":
			return
		case "half":
			full := vfProduceResponse(corr, version, entries, 0, false, false)
			var hb [4]byte
			binary.BigEndian.PutUint32(hb[:], uint32(len(full)))
			c.Write(hb[:])
			c.Write(full[:len(full)/2])
			return
		}
		var hb [4]byte
		binary.BigEndian.PutUint32(hb[:], uint32(len(reply)))
		if _, err := c.Write(append(hb[:], reply...)); err != nil {
			return
		}
	}
}

// vfDecodeProduce reads a produce request (header v1/v2 + body) and returns one
// entry per topic-partition; a request that is not a well-formed produce gives
// one entry with DecodeErr set.
func vfDecodeProduce(p []byte) (entries []vfProduce, corr int32, version int16) {
	bad := func(msg string) ([]vfProduce, int32, int16) {
		return []vfProduce{{DecodeErr: msg}}, corr, version
	}
	if len(p) < 10 {
		return bad("short request")
	}
	apiKey := int16(binary.BigEndian.Uint16(p[0:]))
	version = int16(binary.BigEndian.Uint16(p[2:]))
	corr = int32(binary.BigEndian.Uint32(p[4:]))
	if apiKey != 0 {
		return bad(fmt.Sprintf("api key %d is not Produce", apiKey))
	}
	pos := 8
	cl := int(int16(binary.BigEndian.Uint16(p[pos:])))
	pos += 2
	if cl > 0 {
		pos += cl
	}
	if version >= 9 {
		if pos >= len(p) || p[pos] != 0 {
			return bad("request header v2 tagged fields")
		}
		pos++
	}
	if pos > len(p) {
		return bad("request header overruns")
	}
	req := kmsg.NewPtrProduceRequest()
	req.Version = version
	if err := req.ReadFrom(p[pos:]); err != nil {
		return bad("produce body: " + err.Error())
	}
	for _, t := range req.Topics {
		for _, part := range t.Partitions {
			e := vfProduce{Topic: t.Topic, Partition: part.Partition}
			batches, err := kbatch.DecodeAll(part.Records)
			if err != nil {
				e.DecodeErr = "record batch: " + err.Error()
			} else if len(batches) == 0 {
				e.DecodeErr = "no record batch"
			}
			for _, b := range batches {
				for _, r := range b.Records {
					e.Values = append(e.Values, r.Value)
				}
			}
			entries = append(entries, e)
		}
	}
	if len(entries) == 0 {
		return bad("produce without partitions")
	}
	return entries, corr, version
}

func vfProduceResponse(corr int32, version int16, entries []vfProduce, code int16, dropPartitions, otherPartition bool) []byte {
	resp := kmsg.NewPtrProduceResponse()
	resp.Version = version
	if !dropPartitions {
		byTopic := map[string]int{}
		for _, e := range entries {
			if e.DecodeErr != "" && e.Topic == "" {
				continue
			}
			idx, ok := byTopic[e.Topic]
			if !ok {
				rt := kmsg.NewProduceResponseTopic()
				rt.Topic = e.Topic
				resp.Topics = append(resp.Topics, rt)
				idx = len(resp.Topics) - 1
				byTopic[e.Topic] = idx
			}
			rp := kmsg.NewProduceResponseTopicPartition()
			rp.Partition = e.Partition
			if otherPartition {
				rp.Partition = e.Partition + 1
			}
			rp.ErrorCode = code
			rp.BaseOffset = 42
			if code != 0 {
				rp.BaseOffset = -1
			}
			resp.Topics[idx].Partitions = append(resp.Topics[idx].Partitions, rp)
		}
	}
	out := binary.BigEndian.AppendUint32(nil, uint32(corr))
	if version >= 9 {
		out = append(out, 0) // response header v1: empty tagged fields
	}
	return resp.AppendTo(out)
}

