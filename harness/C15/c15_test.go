//go:build verif

package broker

import (
	"context"
	"encoding/json"
	"fmt"
	"math/rand"
	"os"
	"sort"
	"strings"
	"sync"
	"testing"
	"testing/synctest"
	"time"

	"google.golang.org/protobuf/proto"

	"github.com/KafScale/platform/internal/testutil"
	"github.com/KafScale/platform/internal/verifkit"
	metadatapb "github.com/KafScale/platform/pkg/gen/metadata"
	"github.com/KafScale/platform/pkg/metadata"
)

// c15FaithfulStore is the reference "store that gives back what was written":
// FetchConsumerGroup returns a copy of the last record put. A coordinator
// restored from it is twin C; a divergence of the real failover (twin B) that C
// does not show is thereby attributed to the real store's read-back, not to the
// coordinator's restore logic.
type c15FaithfulStore struct {
	metadata.Store
	mu   sync.Mutex
	last map[string]*metadatapb.ConsumerGroup
}

func (s *c15FaithfulStore) PutConsumerGroup(ctx context.Context, g *metadatapb.ConsumerGroup) error {
	s.mu.Lock()
	s.last[g.GetGroupId()] = proto.Clone(g).(*metadatapb.ConsumerGroup)
	s.mu.Unlock()
	return s.Store.PutConsumerGroup(ctx, g)
}

func (s *c15FaithfulStore) DeleteConsumerGroup(ctx context.Context, id string) error {
	s.mu.Lock()
	delete(s.last, id)
	s.mu.Unlock()
	return s.Store.DeleteConsumerGroup(ctx, id)
}

func (s *c15FaithfulStore) FetchConsumerGroup(ctx context.Context, id string) (*metadatapb.ConsumerGroup, error) {
	s.mu.Lock()
	defer s.mu.Unlock()
	if g := s.last[id]; g != nil {
		return proto.Clone(g).(*metadatapb.ConsumerGroup), nil
	}
	return nil, nil
}

// c15LostFields names what a read-back lost or changed relative to the record written.
func c15LostFields(written, read *metadatapb.ConsumerGroup) []string {
	if written == nil && read == nil {
		return nil
	}
	if written == nil || read == nil {
		return []string{"whole_record"}
	}
	lost := map[string]bool{}
	chk := func(name string, same bool) {
		if !same {
			lost[name] = true
		}
	}
	chk("group_id", written.GroupId == read.GroupId)
	chk("state", written.State == read.State)
	chk("protocol_type", written.ProtocolType == read.ProtocolType)
	chk("protocol", written.Protocol == read.Protocol)
	chk("leader", written.Leader == read.Leader)
	chk("generation_id", written.GenerationId == read.GenerationId)
	chk("rebalance_timeout_ms", written.RebalanceTimeoutMs == read.RebalanceTimeoutMs)
	chk("members", len(written.Members) == len(read.Members))
	for id, wm := range written.Members {
		rm := read.Members[id]
		if rm == nil {
			lost["members"] = true
			continue
		}
		chk("member.client_id", wm.ClientId == rm.ClientId)
		chk("member.client_host", wm.ClientHost == rm.ClientHost)
		chk("member.heartbeat_at", wm.HeartbeatAt == rm.HeartbeatAt)
		chk("member.subscriptions", fmt.Sprint(wm.Subscriptions) == fmt.Sprint(rm.Subscriptions))
		chk("member.session_timeout_ms", wm.SessionTimeoutMs == rm.SessionTimeoutMs)
		wa, _ := json.Marshal(wm.Assignments)
		ra, _ := json.Marshal(rm.Assignments)
		chk("member.assignments", string(wa) == string(ra))
	}
	if len(lost) == 0 && !proto.Equal(written, read) {
		lost["other"] = true
	}
	out := make([]string, 0, len(lost))
	for k := range lost {
		out = append(out, k)
	}
	sort.Strings(out)
	return out
}

func c15LossClass(lost []string) string {
	if len(lost) == 0 {
		return ""
	}
	onlyTimeouts := true
	for _, f := range lost {
		if f != "rebalance_timeout_ms" && f != "member.session_timeout_ms" {
			onlyTimeouts = false
		}
	}
	if onlyTimeouts {
		return "store_readback_drops_group_timeouts"
	}
	return "store_readback_loses:" + strings.Join(lost, ",")
}

// c15Reply is the part of a reply that the statement speaks about.
func c15Reply(ev *gEvent) string {
	if ev == nil {
		return "<blocked>"
	}
	switch ev.K {
	case "hb", "commit", "leave":
		return fmt.Sprintf("code=%d", ev.Code)
	case "sync":
		return fmt.Sprintf("code=%d assign=%s proto=%s/%s", ev.Code, gAssignString(ev.Assign), ev.ProtoType, ev.Protocol)
	case "fetch":
		return fmt.Sprintf("code=%d offset=%d", ev.Code, ev.Offset)
	case "join":
		b, _ := json.Marshal(ev.Members)
		return fmt.Sprintf("code=%d gen=%d member=%s leader=%s list=%s", ev.Code, ev.Gen, ev.MemberID, ev.Leader, b)
	}
	return ""
}

func c15TruthString(t gTruth) string {
	b, _ := json.Marshal(t)
	return string(b)
}

type c15Case struct {
	r      *verifkit.Run
	leg    string
	worlds []*gWorld // A (reference, never failed over), B (real failover), optionally C (faithful store)
	lossCl string
	lost   []string
	flags  map[string]bool

	pfx     string // counter prefix ("etcd_" in the etcd part)
	pending []func()

	compared, attributed int
	stableAtFailover     bool
	membersAtFailover    int

	prefix *gWorld // coordinator A's world (also when the case was cut before the failover)
}

func (c *c15Case) violate(class, summary string, extra map[string]any) {
	if c.flags[class] {
		return
	}
	c.flags[class] = true
	w := map[string]any{"lost_on_readback": c.lost}
	for _, x := range c.worlds {
		w["twin_"+x.name] = gWitness(x, -1, nil)
	}
	for k, v := range extra {
		w[k] = v
	}
	c.pending = append(c.pending, func() { c.r.Violation(class, summary, w) })
}

// flush reports the case's violations (dropped instead when the case turned out inconclusive).
func (c *c15Case) flush() {
	for _, f := range c.pending {
		f()
	}
	c.pending = nil
}

// judge compares what the twins answered to the same request / show at the boundary.
// what: short label; vals: per twin rendering (A first, B second, C third if present).
func (c *c15Case) judge(what string, vals []string, step string) bool {
	c.compared++
	c.r.Count(c.pfx+"twin_comparisons", 1)
	if vals[0] == vals[1] {
		return true
	}
	class := "diverges_after_failover:" + what
	if c.prefix != nil && c.prefix.ovl.Inside > 0 {
		// before the failover a request ran to completion while another one was held inside a store call
		class = "diverges_after_failover_following_overlapped_requests:" + what
	}
	attributed := false
	if len(vals) > 2 && vals[2] == vals[0] && c.lossCl != "" {
		attributed = true
		// a coordinator restored from a store that returns what was written behaves like the old one:
		// the divergence is the store's read-back loss showing through
		class = c.lossCl
		c.attributed++
		c.r.Count(c.pfx+"behavioural_divergences_attributed_to_store_readback", 1)
		c.r.Seen("kinds_of_behavioural_divergence_attributed_to_store_readback", what)
		if !c.flags["note:"+what] {
			c.flags["note:"+what] = true
			if what != "group_as_reported" {
				c.r.Note("example_behavioural_divergence_"+what, fmt.Sprintf("%s (case group %s, sessions %v ms): never-failed-over: %s | after failover: %s | after failover over a faithful store: %s", step, c.worlds[0].cfg.Group, c.worlds[0].cfg.SessionMs, vals[0], vals[1], vals[2]))
			}
		}
	}
	c.violate(class, fmt.Sprintf("%s at %s: coordinator that never failed over: %s | new coordinator over the same store: %s", what, step, vals[0], vals[1]), map[string]any{"step": step, "values": vals})
	return attributed // an explained divergence does not end the comparison: a different one may follow
}

func (c *c15Case) stepAll(op gOp, label string, render func(ev *gEvent) string) bool {
	vals := make([]string, len(c.worlds))
	if op.K == "advance" {
		gAdvance(time.Duration(op.DtMs)*time.Millisecond, c.worlds...)
	} else {
		for i, w := range c.worlds {
			n := len(w.log)
			w.step(op)
			if len(w.log) > n {
				vals[i] = render(w.log[len(w.log)-1])
			}
		}
		if !c.judge(op.K+"_reply", vals, label) {
			return false
		}
	}
	for i, w := range c.worlds {
		vals[i] = c15TruthString(w.prev)
	}
	return c.judge("group_as_reported", vals, "after "+label)
}

// c15Suffix draws what the members do after the failover (Stable case): no
// joins/leaves; each member is either active (heartbeats every period) or silent.
func c15Suffix(rng *rand.Rand, cfg gConfig, virtual bool) []gOp {
	var ops []gOp
	// immediate probe block: every member syncs, commits, fetches and (half of them) heartbeats, in a drawn
	// order. A member that does not heartbeat here lives on the heartbeat time the old coordinator persisted.
	for i := 0; i < cfg.M; i++ {
		blk := []gOp{{K: "sync", Slot: i},
			{K: "commit", Slot: i, Topic: cfg.Universe[rng.Intn(len(cfg.Universe))], Part: int32(rng.Intn(5))},
			{K: "fetch", Slot: i, Topic: cfg.Universe[rng.Intn(len(cfg.Universe))], Part: int32(rng.Intn(5))}}
		if rng.Intn(2) == 0 {
			blk = append(blk, gOp{K: "hb", Slot: i})
		}
		rng.Shuffle(len(blk), func(a, b int) { blk[a], blk[b] = blk[b], blk[a] })
		ops = append(ops, blk...)
	}
	rounds := rng.Intn(9)
	active := make([]bool, cfg.M)
	for i := range active {
		active[i] = rng.Intn(4) != 0
	}
	for k := 0; k < rounds; k++ {
		if virtual {
			s := cfg.SessionMs[rng.Intn(cfg.M)]
			ops = append(ops, gOp{K: "advance", DtMs: s/4 + rng.Int63n(s*3/4)})
		}
		for i := 0; i < cfg.M; i++ {
			if !active[i] {
				continue
			}
			ops = append(ops, gOp{K: "hb", Slot: i})
			switch rng.Intn(4) {
			case 0:
				ops = append(ops, gOp{K: "sync", Slot: i})
			case 1:
				ops = append(ops, gOp{K: "commit", Slot: i, Topic: cfg.Universe[rng.Intn(len(cfg.Universe))], Part: int32(rng.Intn(5))})
			}
		}
	}
	return ops
}

// c15AfterFailover runs the comparison phase. A is c.worlds[0].
func (c *c15Case) afterFailover(rng *rand.Rand, cfg gConfig, virtual bool) {
	a := c.worlds[0]
	pre := a.prev
	c.stableAtFailover = pre.Exists && pre.State == groupStateStableStr
	c.membersAtFailover = len(pre.Members)
	// what the coordinators report before any request
	vals := make([]string, len(c.worlds))
	for i, w := range c.worlds {
		vals[i] = c15TruthString(w.prev)
	}
	if !c.judge("group_as_reported", vals, "immediately after failover") {
		return
	}
	if c.stableAtFailover {
		// members of the current generation keep working without re-joining; every reply and the
		// reported group stay what they would have been without the failover
		for i, op := range c15Suffix(rng, cfg, virtual) {
			if !c.stepAll(op, fmt.Sprintf("suffix op %d (%s m%d)", i, op.K, op.Slot), c15Reply) {
				return
			}
		}
		// finally every member re-joins: generation, leader, member list and subscriptions as reported by JoinGroup
		for i := 0; i < cfg.M; i++ {
			if a.slots[i].ID == "" || !a.prev.has(a.slots[i].ID) {
				continue // an id that is no longer a member would be answered with a fresh random member id
			}
			same := true
			for _, w := range c.worlds[1:] {
				if c15TruthString(w.prev) != c15TruthString(a.prev) {
					same = false
				}
			}
			if !same || !a.prev.Exists || a.prev.State != groupStateStableStr {
				break
			}
			if !c.stepAll(gOp{K: "join", Slot: i}, fmt.Sprintf("final join m%d", i), c15Reply) {
				return
			}
		}
		return
	}
	// not Stable (or no group) at failover: heartbeat/sync/commit answers, then generation and leader as
	// reported by the first JoinGroup. Progress of an in-flight rebalance (who has already re-joined) is
	// not among the things the statement lists, so reply codes of joins are not compared here.
	for i := 0; i < cfg.M; i++ {
		for _, k := range []string{"hb", "sync", "commit"} {
			op := gOp{K: k, Slot: i, Topic: cfg.Universe[0], Part: 0}
			if !c.stepAll(op, fmt.Sprintf("probe %s m%d", k, i), c15Reply) {
				return
			}
		}
	}
	for i := 0; i < cfg.M; i++ {
		if a.slots[i].ID == "" || !pre.has(a.slots[i].ID) {
			continue
		}
		codes := make([]int16, len(c.worlds))
		for j, w := range c.worlds {
			n := len(w.log)
			w.step(gOp{K: "join", Slot: i})
			if len(w.log) > n {
				ev := w.log[len(w.log)-1]
				vals[j] = fmt.Sprintf("gen=%d member=%s leader=%s", ev.Gen, ev.MemberID, ev.Leader)
				codes[j] = ev.Code
			}
		}
		if codes[0] != codes[1] {
			c.r.Count(c.pfx+"obs_join_code_differs_after_failover_in_flight_rebalance", 1)
		}
		c.judge("join_generation_leader", vals, fmt.Sprintf("first join after failover m%d", i))
		return // after a join in an unfinished rebalance the twins may legitimately differ in progress
	}
}

func c15Profile() gProfile {
	p := gDefaultProfile
	p.WSettle = 16
	p.WFailover = 1
	p.WLeave = 4
	p.PStale = 0.05
	p.Sessions = []int64{5000, 10000, 20000, 30000, 45000, 60000}
	p.Rebals = []int64{3000, 10000, 30000, 40000}
	p.Cleanups = []int64{500, 1000, 2000}
	p.MixRebal = true
	p.MinOps, p.MaxOps = 0, 30
	return p
}

const c15Rule = "one prefix of PRNG group operations (join/sync/heartbeat/leave/commit/time/settle rounds, occasional earlier failovers) is run on coordinator A whose store decorator tees every write into identical shadow stores; at the failover point (any point between requests, aligned to a cleanup tick) twin B = a NEW coordinator over the very store A wrote to, twin A keeps running on a shadow (= no failover happened), twin C = a new coordinator over a shadow that returns exactly the last record written. Checked: (0) the group record read back from the store equals the record the coordinator last wrote, field by field; (1) immediately after failover B reports the same group (DescribeGroups + stored generation/state/leader/members/subscriptions/assignments) as A; (2) if the group was Stable: every member heartbeats, syncs, commits, fetches, then a PRNG suffix of heartbeats/syncs/commits/time advances by active and silent members (no re-join), then a final re-join of each member: every reply (codes, assignment bytes decoded, generation, leader, member list with subscriptions, fetched offsets) and the reported group after every step are equal between A and B; (3) otherwise: heartbeat/sync/commit replies equal and the first JoinGroup reports the same generation/member id/leader. A divergence B!=A that twin C does not show is classified as the store's read-back loss found in (0); one that C shows too is a coordinator restore defect."

const c15RuleConcurrent = "Part 1b (InMemoryStore, virtual time; counters prefixed conc_): the prefix ends in 1-2 pairs of requests by two clients that are in flight AT ONCE on coordinator A: the store decorator holds one chosen store call of request A (mostly its group record write: PutConsumerGroup/DeleteConsumerGroup of a heartbeat, join, leader sync or leave, or CommitConsumerOffset of a commit; held before the real store executes it, sometimes after) while request B of another client (a new member's join, a leave, a join with a changed subscription, a session expiry by passage of virtual time, a heartbeat/commit/sync) is sent; if the coordinator holds its lock across the store call (found by TryLock on its mutex fields, no timing) B simply runs after A, otherwise B runs to completion inside A's store call and A's write reaches the store (and the identical shadows) afterwards; both requests have been answered before anything else is done. The failover follows directly or after a few further requests, and the twins are compared exactly as in part 1 (classes then carry the prefix diverges_after_failover_following_overlapped_requests:). Only acknowledged requests precede the failover: nothing is demanded about a write still in flight. The written-vs-read-back comparison (0) is skipped in a case where a request ran inside another one's store call (the record written last by call order need not be the one that reached the store last); a case whose two overlapped requests finished in an order the harness does not know is not judged. non-trivial here additionally requires that a second client's request was ready while the first one was inside its store call."

func TestVerifC15(t *testing.T) {
	r := verifkit.Start(t, "C15", "twins")
	gSeedSalt = r.Seed
	defer r.Finish(c15Rule+" Part 1 (InMemoryStore, synctest virtual time, full volume) as described. "+c15RuleConcurrent+" Part 2 (EtcdStore over an embedded single-node etcd, real time, lower volume; counters prefixed etcd_): twin B is a new coordinator over a SECOND EtcdStore client to the same etcd, twin A continues on an in-memory shadow, no twin C, no time advance (timeouts >= 60 s, cleanup interval 1 h); additionally the new coordinator's restored session/rebalance timeouts are compared with the old coordinator's in-package (they have no observable effect without the passage of time); a case in which the etcd client returned any error is inconclusive, never a violation. non-trivial = failover of a group with >=2 members whose comparison phase ran",
		"no request is in flight at the failover point (failover between requests; in part 1b requests overlap each other before the failover, but every one of them has been answered when the coordinator is replaced)",
		"part 1b: the only wall-clock element is the bound under which the second request of a pair is awaited when the coordinator holds no lock (scheduling aid: on expiry the case is cut and not judged)", "the new coordinator is touched by a request at the failover instant (it loads groups lazily)", "join reply codes during an unfinished rebalance are not compared (rebalance progress is not in the statement's list)",
		"embedded etcd is single-node; no etcd faults are injected", "a wall-clock watchdog turns a stuck etcd part into inconclusive")
	t0 := time.Now()
	c15Mem(t, r)
	r.Note("wall_s_in_memory_part", time.Since(t0).Seconds())
	t0 = time.Now()
	c15Concurrent(t, r)
	r.Note("wall_s_in_memory_concurrent_part", time.Since(t0).Seconds())
	t0 = time.Now()
	c15Etcd(t, r)
	r.Note("wall_s_etcd_part", time.Since(t0).Seconds())
}

// ---------------------------------------------------------------------------
// Part 1b: requests in flight at once before the failover.
//
// The metadata store is slow for ONE chosen store call of a request A (the recording decorator holds it,
// before or after the real store executed it) while another client's request B (a leave, a new or changed
// join, a session expiry, a heartbeat, a commit, a sync) is sent. Whether B runs inside A's store call or
// waits for A is the coordinator's business (the overlap driver finds out without relying on time, see
// _shared/group/overlap_test.go); either way BOTH requests have been answered before anything else happens.
// The failover follows the last such pair directly or after a few requests, so that a group record that
// reached the store in another order than the coordinator's own state changes is what the new coordinator
// loads. Judged by the same twin comparison as part 1.

var c15AKinds = []string{"hb", "join", "joinresub", "syncleader", "sync", "leave", "commit"}
var c15AWeights = map[string]int{"hb": 8, "join": 3, "joinresub": 2, "syncleader": 3, "sync": 1, "leave": 2, "commit": 2}
var c15BKinds = []string{"joinfresh", "leave", "joinresub", "expire", "join", "hb", "commit", "sync"}
var c15BWeights = map[string]int{"joinfresh": 6, "leave": 6, "joinresub": 4, "expire": 4, "join": 1, "hb": 2, "commit": 1, "sync": 1}

// store call of A that is held, by kind of A (the group record write unless A makes none)
var c15Parks = map[string][]string{
	"hb":     {"put", "put", "put", ""},
	"join":   {"put", "put", "put", "fetchgroup", ""},
	"sync":   {"put", "put", "put", "metadata", ""},
	"leave":  {"put", "delete", "", ""},
	"commit": {"commit", ""},
}

func c15GenConcurrent(rng *rand.Rand, p gProfile, group string) (gConfig, []gOp) {
	cfg := gGenConfig(rng, p, group)
	cfg.M = 2 + rng.Intn(3)
	for len(cfg.SessionMs) < cfg.M {
		cfg.SessionMs = append(cfg.SessionMs, p.Sessions[rng.Intn(len(p.Sessions))])
		cfg.RebalMs = append(cfg.RebalMs, cfg.RebalMs[0])
	}
	cfg.SessionMs, cfg.RebalMs = cfg.SessionMs[:cfg.M], cfg.RebalMs[:cfg.M]
	var ops []gOp
	// the group forms: slots 0..joined-1 hold a member id from now on (the generator's approximation: a
	// slot that left or was expired still sends requests, which are then refused - ordinary traffic)
	joined := 1 + rng.Intn(cfg.M)
	for i := 0; i < joined; i++ {
		ops = append(ops, gOp{K: "join", Slot: i, Sub: gRandSub(rng, cfg.Universe)})
	}
	member := func() int { return rng.Intn(joined) }
	other := func(not int) int { // another client: one that is a member if there is one, else a newcomer
		if joined > 1 {
			return (not + 1 + rng.Intn(joined-1)) % joined
		}
		return joined // (joined < cfg.M here: cfg.M >= 2)
	}
	request := func(kind string, slot int) gOp {
		op := gOp{Slot: slot}
		switch kind {
		case "hb":
			op.K = "hb"
		case "join":
			op.K = "join"
		case "joinresub":
			op.K, op.Sub = "join", gRandSub(rng, cfg.Universe)
		case "joinfresh":
			op.K, op.Fresh, op.Sub = "join", true, gRandSub(rng, cfg.Universe)
			if joined < cfg.M && rng.Intn(4) != 0 { // mostly a client that was not a member so far
				op.Slot = joined
			}
		case "syncleader":
			op.K, op.Who = "sync", "leader"
		case "sync":
			op.K = "sync"
		case "leave":
			op.K = "leave"
		case "commit":
			op.K, op.Topic, op.Part = "commit", cfg.Universe[rng.Intn(len(cfg.Universe))], int32(rng.Intn(5))
		case "expire": // long enough for the session of one of the members (plus a cleanup tick)
			op.K, op.DtMs = "advance", cfg.SessionMs[member()]+cfg.CleanupMs+rng.Int63n(1000)
		}
		return op
	}
	phase := func() {
		switch rng.Intn(8) {
		case 0: // as it is (a rebalance nobody has completed)
		case 1: // everybody polls: the rebalance completes, the leader has not synced yet
			ops = append(ops, gOp{K: "joinall"})
		default: // Stable
			ops = append(ops, gOp{K: "settle"})
			if rng.Intn(3) == 0 { // heartbeats some time after the last join/sync
				ops = append(ops, gOp{K: "advance", DtMs: 20 + rng.Int63n(1500)})
				for i := 0; i < joined; i++ {
					if rng.Intn(2) == 0 {
						ops = append(ops, gOp{K: "hb", Slot: i})
					}
				}
			}
		}
	}
	rounds := 1 + rng.Intn(2)
	for k := 0; k < rounds; k++ {
		phase()
		sa := member()
		a := request(gPickWeighted(rng, c15AKinds, c15AWeights), sa)
		bk := gPickWeighted(rng, c15BKinds, c15BWeights)
		if joined == 1 && bk != "expire" {
			bk = "joinfresh" // the only other clients are newcomers
		}
		b := request(bk, other(sa))
		parks := c15Parks[a.K]
		park := gParkSpec{Kind: parks[rng.Intn(len(parks))], After: rng.Intn(4) == 0}
		if park.Kind == "metadata" || park.Kind == "fetchgroup" {
			park.After = false
		}
		ops = append(ops, gOp{K: "ovl", A: &a, B: &b, Park: &park})
		if b.K == "join" && b.Slot == joined {
			joined++
		}
	}
	// what follows the last pair before the failover
	switch rng.Intn(4) {
	case 0, 1: // nothing: the new coordinator starts from what the pair left in the store
	case 2: // requests that are answered without a group record write in most states
		for k := 1 + rng.Intn(3); k > 0; k-- {
			switch rng.Intn(3) {
			case 0:
				ops = append(ops, gOp{K: "fetch", Slot: member(), Topic: cfg.Universe[rng.Intn(len(cfg.Universe))], Part: int32(rng.Intn(5))})
			case 1:
				ops = append(ops, gOp{K: "commit", Slot: member(), Topic: cfg.Universe[rng.Intn(len(cfg.Universe))], Part: int32(rng.Intn(5))})
			case 2:
				ops = append(ops, gOp{K: "hb", Slot: member(), Ident: "stale", Pick: rng.Intn(64)})
			}
		}
	case 3: // arbitrary traffic
		sp := p
		sp.MinOps, sp.MaxOps, sp.WFailover = 1, 4, 0
		ops = append(ops, gGenOps(rng, sp, cfg)...)
	}
	return cfg, ops
}

func c15Concurrent(t *testing.T, r *verifkit.Run) {
	gRealTimerStart()
	p := c15Profile()
	n := r.N(300, 3600)
	for ci := 0; ci < n; ci++ {
		rng := r.Rand(1000000 + ci)
		cfg, ops := c15GenConcurrent(rng, p, fmt.Sprintf("v%d", ci))
		c := c15MemCase(t, r, rng, cfg, ops, int64(1000000+ci)*100000, "conc_")
		a := c.prefix
		gOvlAccount(a, func(name string, k int64) { r.Count("conc_"+name, k) }, func(set, m string) { r.Seen("conc_"+set, m) })
		for _, e := range a.log {
			if e.Ovl == "A" && !gTruthEqual(e.Cands[0], e.Cands[len(e.Cands)-1]) {
				r.Count("conc_group_record_changed_while_a_request_was_held_in_a_store_call", 1)
			}
		}
		if c.worlds == nil {
			continue // order of two requests unknown: not judged (counted as conc_overlap_order_unknown_case_cut)
		}
		// a second client's request was ready while the first one was inside its store call
		raced := a.ovl.LockHeld+a.ovl.Inside > 0
		r.Case(gOpsSig(a)+gOpsSig(c.worlds[1]), raced && c.compared > 3 && c.membersAtFailover >= 2)
		r.Count("conc_failovers", 1)
		if raced {
			r.Count("conc_failovers_after_a_request_was_held_in_a_store_call", 1)
		}
		if c.membersAtFailover >= 2 {
			r.Count("conc_failovers_with_two_or_more_members", 1)
		}
		if c.stableAtFailover {
			r.Count("conc_failovers_of_stable_group", 1)
		} else {
			r.Count("conc_failovers_of_other_states", 1)
		}
		if ci < 1 {
			r.Sample(map[string]any{"part": "concurrent", "twin_A": gWitness(a, -1, nil)})
		}
	}
	r.Floor("conc_failovers_after_a_request_was_held_in_a_store_call", int64(r.N(120, 1500)))
	r.Floor("conc_failovers_with_two_or_more_members", int64(r.N(80, 1000)))
	r.Floor("conc_twin_comparisons", int64(r.N(3000, 36000)))
}

func c15Mem(t *testing.T, r *verifkit.Run) {
	p := c15Profile()
	n := r.N(500, 6000)
	for ci := 0; ci < n; ci++ {
		rng := r.Rand(ci)
		cfg := gGenConfig(rng, p, fmt.Sprintf("g%d", ci))
		ops := gGenOps(rng, p, cfg)
		if rng.Intn(3) != 0 { // most cases fail over a settled group
			ops = append(ops, gOp{K: "settle"})
		}
		if ci%4 == 3 {
			// the last thing before the failover is a round of heartbeats well after the last join/sync:
			// what the new coordinator knows about liveness is then exactly what those heartbeats persisted
			minS := cfg.SessionMs[0]
			for _, s := range cfg.SessionMs {
				if s < minS {
					minS = s
				}
			}
			ops = append(ops, gOp{K: "settle"}, gOp{K: "advance", DtMs: minS/4 + rng.Int63n(minS/2)})
			for i := 0; i < cfg.M; i++ {
				ops = append(ops, gOp{K: "hb", Slot: i})
			}
			ops = append(ops, gOp{K: "advance", DtMs: 1 + rng.Int63n(minS/8)})
		}
		c := c15MemCase(t, r, rng, cfg, ops, int64(ci)*100000, "")
		a := c.worlds[0]
		r.Case(gOpsSig(a)+gOpsSig(c.worlds[1]), c.compared > 3 && c.membersAtFailover >= 2)
		if c.membersAtFailover >= 2 {
			r.Count("failovers_with_two_or_more_members", 1)
		}
		if c.stableAtFailover {
			r.Count("failovers_of_stable_group", 1)
		} else {
			r.Count("failovers_of_other_states", 1)
		}
		if ci < 2 {
			r.Sample(map[string]any{"twin_A": gWitness(a, -1, nil), "lost_on_readback": c.lost})
		}
	}
	r.Floor("failovers_with_two_or_more_members", 80)
	r.Floor("failovers_of_stable_group", 100)
	r.Floor("failovers_of_other_states", 30)
	r.Floor("twin_comparisons", 5000)
	r.Floor("failover_states", 8)
}

// c15MemCase runs one in-memory twin case: the prefix on coordinator A, the failover, the comparison phase.
// Violations are flushed; the caller does the accounting. worlds is nil iff the prefix could not be
// completed in a known order (overlapped requests, see c15Concurrent) and nothing was judged.
func c15MemCase(t *testing.T, r *verifkit.Run, rng *rand.Rand, cfg gConfig, ops []gOp, offBase int64, pfx string) *c15Case {
	c := &c15Case{r: r, leg: "mem", pfx: pfx, flags: map[string]bool{}}
	synctest.Test(t, func(t *testing.T) {
		s1 := metadata.NewInMemoryStore(cfg.metadata())
		s2 := metadata.NewInMemoryStore(cfg.metadata())
		s3 := &c15FaithfulStore{Store: metadata.NewInMemoryStore(cfg.metadata()), last: map[string]*metadatapb.ConsumerGroup{}}
		a := newGWorld(t, cfg, s1, true, offBase, s2, s3)
		a.obs = append(a.obs, func(w *gWorld, ev *gEvent) { r.Seen(pfx+"group_states", w.stateSig(ev.After)) })
		c.prefix = a
		for _, op := range ops {
			a.step(op)
		}
		if a.cut {
			// two overlapped requests finished in an order the harness does not know: nothing is judged
			a.stopAll()
			return
		}
		a.alignToTick()
		// (0) what the store gives back vs what the coordinator wrote
		written := a.rec.lastWritten(cfg.Group)
		read, _ := s1.FetchConsumerGroup(context.Background(), cfg.Group)
		if a.ovl.Inside == 0 {
			// (after requests that overlapped inside a store call the record written LAST by call order need not be
			// the one that reached the store last; what the store holds is then judged through the twins only)
			c.lost = c15LostFields(written, read)
			c.lossCl = c15LossClass(c.lost)
		}
		r.Seen(pfx+"failover_states", a.stateSig(a.prev))
		// failover: B over the real store; A moves to the shadow; C over the faithful shadow
		b := a.fork("B", s1)
		cc := a.fork("C", s3)
		a.rec.retarget(s2)
		c.worlds = []*gWorld{a, b, cc}
		if c.lossCl != "" {
			c.violate(c.lossCl, fmt.Sprintf("group record read back from the store differs from the record the coordinator wrote in %v", c.lost),
				map[string]any{"written": written, "read_back": read})
		}
		c.afterFailover(rng, cfg, true)
		for _, w := range c.worlds {
			w.stopAll()
		}
	})
	if c.worlds == nil {
		return c
	}
	c.flush()
	blocked := false
	for _, w := range c.worlds {
		blocked = blocked || w.blocked
	}
	if blocked {
		r.Inconclusive(fmt.Sprintf("case %s: a coordinator call never returned", cfg.Group))
	}
	return c
}

// ---------------------------------------------------------------------------
// EtcdStore leg: real embedded etcd, real time (no expiry is exercised: session
// and rebalance timeouts are a minute or more, the cleanup interval an hour).

func c15Etcd(t *testing.T, r *verifkit.Run) {
	// embedded etcd writes its data dir and etcd-test-*.log under TMPDIR: prefer a private tmpfs directory
	// (fsync is free there), else the driver's scratch dir; both are removed afterwards
	if d, err := os.MkdirTemp("/dev/shm", "verif-c15-"); err == nil {
		t.Cleanup(func() { os.RemoveAll(d) })
		t.Setenv("TMPDIR", d)
	} else if d := os.Getenv("VERIF_SCRATCH"); d != "" {
		t.Setenv("TMPDIR", d)
	}
	tStart := time.Now()
	endpoints := testutilStartEtcd(t)
	r.Note("wall_s_etcd_start", time.Since(tStart).Seconds())
	p := c15Profile()
	p.Sessions = []int64{60000, 90000, 120000}
	p.Rebals = []int64{60000, 75000}
	p.Cleanups = []int64{3600000}
	p.WAdvance = 0
	p.WFailover = 0
	n := r.N(30, 300)
	deadline := time.Now().Add(5 * time.Minute)
	if r.Thorough() {
		deadline = time.Now().Add(25 * time.Minute)
	}
	ctx := context.Background()
	e1, err := metadata.NewEtcdStore(ctx, metadata.ClusterMetadata{}, metadata.EtcdStoreConfig{Endpoints: endpoints})
	if err != nil {
		t.Fatalf("etcd store: %v", err)
	}
	defer e1.Close()
	e2, err := metadata.NewEtcdStore(ctx, metadata.ClusterMetadata{}, metadata.EtcdStoreConfig{Endpoints: endpoints})
	if err != nil {
		t.Fatalf("etcd store 2: %v", err)
	}
	defer e2.Close()
	for ci := 0; ci < n; ci++ {
		if time.Now().After(deadline) {
			r.Inconclusive(fmt.Sprintf("watchdog: only %d of %d etcd cases ran", ci, n))
			break
		}
		rng := r.Rand(ci)
		cfg := gGenConfig(rng, p, fmt.Sprintf("c15e-%d-%d", r.Seed, ci))
		ops := gGenOps(rng, p, cfg)
		if rng.Intn(3) != 0 {
			ops = append(ops, gOp{K: "settle"})
		}
		// topic metadata is not what this property is about: both coordinators see the same static topic list
		shadow := metadata.NewInMemoryStore(cfg.metadata())
		a := newGWorld(t, cfg, &c15TopicView{Store: e1, topics: metadata.NewInMemoryStore(cfg.metadata())}, false, int64(ci)*100000, shadow)
		a.obs = append(a.obs, func(w *gWorld, ev *gEvent) { r.Seen("etcd_group_states", w.stateSig(ev.After)) })
		for _, op := range ops {
			a.step(op)
		}
		c := &c15Case{r: r, leg: "etcd", pfx: "etcd_", flags: map[string]bool{}}
		written := a.rec.lastWritten(cfg.Group)
		read, rerr := e1.FetchConsumerGroup(ctx, cfg.Group)
		r.Seen("etcd_failover_states", a.stateSig(a.prev))
		b := a.fork("B", &c15TopicView{Store: e2, topics: metadata.NewInMemoryStore(cfg.metadata())})
		oldCoord := a.coord
		a.rec.retarget(shadow)
		c.worlds = []*gWorld{a, b}
		if rerr == nil {
			c.lost = c15LostFields(written, read)
			c.lossCl = c15LossClass(c.lost)
			if c.lossCl != "" {
				c.violate(c.lossCl, fmt.Sprintf("group record read back from etcd differs from the record the coordinator wrote in %v", c.lost), map[string]any{"written": written, "read_back": read})
			}
		}
		// restored timeouts (in-package peek; only meaningful once the group is loaded, which the first probe does)
		c.afterFailover(rng, cfg, false)
		hiccup := a.rec.errors()+b.rec.errors() > 0 || rerr != nil
		if !hiccup {
			oldCoord.mu.Lock()
			b.coord.mu.Lock()
			og, ng := oldCoord.groups[cfg.Group], b.coord.groups[cfg.Group]
			if og != nil && ng != nil && c.stableAtFailover {
				r.Count("etcd_restored_timeouts_compared", 1)
				if og.rebalanceTimeout != ng.rebalanceTimeout {
					c.violate("restored_rebalance_timeout_differs", fmt.Sprintf("old coordinator %s, restored %s", og.rebalanceTimeout, ng.rebalanceTimeout), nil)
				}
				for id, om := range og.members {
					if nm := ng.members[id]; nm != nil && nm.sessionTimeout != om.sessionTimeout {
						c.violate("restored_session_timeout_differs", fmt.Sprintf("member %s: old coordinator %s, restored %s", id, om.sessionTimeout, nm.sessionTimeout), nil)
					}
				}
			}
			b.coord.mu.Unlock()
			oldCoord.mu.Unlock()
		}
		a.stopAll()
		b.stopAll()
		if hiccup {
			r.Inconclusive(fmt.Sprintf("etcd case %d: the etcd client returned an error to the coordinator; case not judged", ci))
			continue
		}
		c.flush()
		r.Case(gOpsSig(a)+gOpsSig(b), c.compared > 3 && c.membersAtFailover >= 2)
		r.Count("etcd_cases", 1)
		if c.membersAtFailover >= 2 {
			r.Count("etcd_failovers_with_two_or_more_members", 1)
		}
		if c.stableAtFailover {
			r.Count("etcd_failovers_of_stable_group", 1)
		} else {
			r.Count("etcd_failovers_of_other_states", 1)
		}
		if ci < 1 {
			r.Sample(map[string]any{"store": "etcd", "twin_A": gWitness(a, -1, nil), "twin_B": gWitness(b, -1, nil)})
		}
	}
	r.Floor("etcd_failovers_with_two_or_more_members", 8)
	r.Floor("etcd_failovers_of_stable_group", 10)
	r.Floor("etcd_twin_comparisons", 300)
}

// c15TopicView serves topic metadata from a fixed list (EtcdStore keeps topic
// metadata in an operator-maintained snapshot that this property is not about).
type c15TopicView struct {
	metadata.Store
	topics *metadata.InMemoryStore
}

func (v *c15TopicView) Metadata(ctx context.Context, topics []string) (*metadata.ClusterMetadata, error) {
	return v.topics.Metadata(ctx, topics)
}

func testutilStartEtcd(t *testing.T) []string { return testutil.StartEmbeddedEtcd(t) }
