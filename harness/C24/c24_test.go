//go:build verif

package main

// C24 — with ACL enforcement enabled, a request from a principal lacking the
// required permission creates no topic, writes no record, commits no offset,
// changes no group or configuration, returns no record data, and the client
// gets an authorization error; for every request type the broker accepts.
//
// The REAL handler (newHandler, real coordinator, real InMemoryStore, real
// PartitionLogs) runs over the recording fake S3 of _shared/plog and a
// recording decorator around the metadata store. Every request of a generated
// sequence is wire-encoded with kmsg, parsed by the broker's own request parser
// and given to handler.Handle. Around every request three monitors look at the
// boundary:
//   - a full snapshot (topics+partition counts, topic configs, next offsets,
//     in-memory log ends, committed consumer offsets, consumer groups, S3
//     object set) before and after, through the store's read API;
//   - the log of successful mutating store calls made during the request;
//   - the decoded reply.
// The oracle knows, per API and per entry, which (action, resource, name) the
// entry needs, asks an independently constructed acl.Authorizer (C23 checks
// that one) whether the principal has it, and demands: every observed change
// lies in the region of an entry the principal IS entitled to; every entry it
// is NOT entitled to carries an authorization error code and no data.

import (
	"bytes"
	"context"
	"crypto/sha256"
	"encoding/hex"
	"encoding/json"
	"fmt"
	"math/rand"
	"os"
	"sort"
	"strings"
	"sync"
	"testing"
	"testing/synctest"
	"time"

	"github.com/KafScale/platform/internal/verifkit"
	"github.com/KafScale/platform/pkg/acl"
	"github.com/KafScale/platform/pkg/broker"
	metadatapb "github.com/KafScale/platform/pkg/gen/metadata"
	"github.com/KafScale/platform/pkg/metadata"
	"github.com/KafScale/platform/pkg/protocol"
	"github.com/KafScale/platform/pkg/storage"
	"github.com/twmb/franz-go/pkg/kmsg"
	"google.golang.org/protobuf/proto"
)

// ---------------------------------------------------------------- recording store

type c24Call struct {
	Op     string `json:"op"`
	Region string `json:"region"`
	Detail string `json:"detail"`
}

// c24Store logs every mutating Store call that took effect (returned nil).
type c24Store struct {
	metadata.Store
	mu    sync.Mutex
	calls []c24Call
}

func (s *c24Store) note(op, region, detail string, err error) {
	if err != nil {
		return
	}
	s.mu.Lock()
	s.calls = append(s.calls, c24Call{op, region, detail})
	s.mu.Unlock()
}
func (s *c24Store) mark() int { s.mu.Lock(); defer s.mu.Unlock(); return len(s.calls) }
func (s *c24Store) since(i int) []c24Call {
	s.mu.Lock()
	defer s.mu.Unlock()
	return append([]c24Call(nil), s.calls[i:]...)
}

func (s *c24Store) UpdateOffsets(ctx context.Context, topic string, partition int32, last int64) error {
	err := s.Store.UpdateOffsets(ctx, topic, partition, last)
	s.note("UpdateOffsets", "topic:"+topic, fmt.Sprintf("%s/%d last=%d", topic, partition, last), err)
	return err
}
func (s *c24Store) CommitConsumerOffset(ctx context.Context, group, topic string, partition int32, offset int64, meta string) error {
	err := s.Store.CommitConsumerOffset(ctx, group, topic, partition, offset, meta)
	s.note("CommitConsumerOffset", "group:"+group, fmt.Sprintf("%s %s/%d=%d %q", group, topic, partition, offset, meta), err)
	return err
}
func (s *c24Store) PutConsumerGroup(ctx context.Context, g *metadatapb.ConsumerGroup) error {
	err := s.Store.PutConsumerGroup(ctx, g)
	s.note("PutConsumerGroup", "group:"+g.GetGroupId(), g.GetGroupId(), err)
	return err
}
func (s *c24Store) DeleteConsumerGroup(ctx context.Context, id string) error {
	err := s.Store.DeleteConsumerGroup(ctx, id)
	s.note("DeleteConsumerGroup", "group:"+id, id, err)
	return err
}
func (s *c24Store) UpdateTopicConfig(ctx context.Context, cfg *metadatapb.TopicConfig) error {
	err := s.Store.UpdateTopicConfig(ctx, cfg)
	s.note("UpdateTopicConfig", "topic:"+cfg.GetName(), cfg.GetName(), err)
	return err
}
func (s *c24Store) CreatePartitions(ctx context.Context, topic string, n int32) error {
	err := s.Store.CreatePartitions(ctx, topic, n)
	s.note("CreatePartitions", "topic:"+topic, fmt.Sprintf("%s -> %d", topic, n), err)
	return err
}
func (s *c24Store) CreateTopic(ctx context.Context, spec metadata.TopicSpec) (*protocol.MetadataTopic, error) {
	t, err := s.Store.CreateTopic(ctx, spec)
	s.note("CreateTopic", "topic:"+spec.Name, fmt.Sprintf("%s x%d", spec.Name, spec.NumPartitions), err)
	return t, err
}
func (s *c24Store) DeleteTopic(ctx context.Context, name string) error {
	err := s.Store.DeleteTopic(ctx, name)
	s.note("DeleteTopic", "topic:"+name, name, err)
	return err
}

// ---------------------------------------------------------------- request descriptors (JSON-able: they are the witness)

type c24Part struct {
	P    int32  `json:"p"`
	Off  int64  `json:"off,omitempty"`  // fetch offset | list-offsets timestamp | offset to commit | leader epoch
	ID   string `json:"id,omitempty"`   // produce: unique id embedded in every record value
	NRec int    `json:"nrec,omitempty"` // produce
	Meta string `json:"meta,omitempty"` // offset commit metadata
}

type c24Topic struct {
	Name  string    `json:"name"`
	ByID  bool      `json:"by_id,omitempty"` // fetch v13 / metadata v10+: address by topic id
	Parts []c24Part `json:"parts,omitempty"`
	Count int32     `json:"count,omitempty"` // create topics: partitions; create partitions: new total
}

type c24Res struct {
	Type  int8        `json:"type"` // 2 topic, 4 broker, else unknown
	Name  string      `json:"name"`
	Names []string    `json:"config_names,omitempty"`
	Set   [][2]string `json:"set,omitempty"`
}

type c24Req struct {
	API           string     `json:"api"`
	Version       int16      `json:"version"`
	ConnPrincipal string     `json:"conn_principal,omitempty"` // principal attached to the connection (wins over client id)
	ClientID      *string    `json:"client_id"`
	Acks          int16      `json:"acks,omitempty"`
	Group         string     `json:"group,omitempty"`
	MemberRef     string     `json:"member,omitempty"` // "valid" = a current member of the group, "" = none, else literal
	GenRef        string     `json:"generation,omitempty"` // "valid" = current generation, else "bogus"
	Topics        []c24Topic `json:"topics,omitempty"`
	NullTopics    bool       `json:"null_topics,omitempty"`
	Groups        []string   `json:"groups,omitempty"`
	Res           []c24Res   `json:"resources,omitempty"`
	ValidateOnly  bool       `json:"validate_only,omitempty"`
	MaxWaitMs     int32      `json:"max_wait_ms,omitempty"`
}

func c24ReqPrincipal(rq *c24Req) string {
	if p := strings.TrimSpace(rq.ConnPrincipal); p != "" {
		return p
	}
	if rq.ClientID == nil || strings.TrimSpace(*rq.ClientID) == "" {
		return "anonymous"
	}
	return *rq.ClientID
}

func c24TP(topic string, p int32) string { return fmt.Sprintf("%s/%d", topic, p) }

// ---------------------------------------------------------------- snapshot

type c24Snap struct {
	Topics  map[string]string `json:"topics"`  // topic -> partition count
	Configs map[string]string `json:"configs"` // topic -> config (without created_at)
	Next    map[string]string `json:"next"`    // topic/part -> store next offset
	Heads   map[string]string `json:"heads"`   // topic/part -> in-memory log end of the handler's PartitionLog
	Commits map[string]string `json:"commits"` // group|topic|part -> offset|meta
	Groups  map[string]string `json:"groups"`  // group -> digest of the stored record
	S3      map[string]string `json:"s3"`      // key -> len:digest
	groupPB map[string]*metadatapb.ConsumerGroup
}

func c24Digest(b []byte) string { h := sha256.Sum256(b); return hex.EncodeToString(h[:6]) }

func (w *c24World) snap() *c24Snap {
	ctx := context.Background()
	in := w.s.hub.inner
	sn := &c24Snap{Topics: map[string]string{}, Configs: map[string]string{}, Next: map[string]string{}, Heads: map[string]string{},
		Commits: map[string]string{}, Groups: map[string]string{}, S3: map[string]string{}, groupPB: map[string]*metadatapb.ConsumerGroup{}}
	meta, err := in.Metadata(ctx, nil)
	if err != nil {
		w.t.Fatalf("snapshot metadata: %v", err)
	}
	for _, t := range meta.Topics {
		name := *t.Topic
		sn.Topics[name] = fmt.Sprint(len(t.Partitions))
		for _, p := range t.Partitions {
			n, err := in.NextOffset(ctx, name, p.Partition)
			if err != nil {
				w.t.Fatalf("snapshot next offset: %v", err)
			}
			sn.Next[c24TP(name, p.Partition)] = fmt.Sprint(n)
		}
		if cfg, err := in.FetchTopicConfig(ctx, name); err == nil {
			keys := make([]string, 0, len(cfg.Config))
			for k := range cfg.Config {
				keys = append(keys, k)
			}
			sort.Strings(keys)
			kv := ""
			for _, k := range keys {
				kv += k + "=" + cfg.Config[k] + ";"
			}
			sn.Configs[name] = fmt.Sprintf("partitions=%d rf=%d retention.ms=%d retention.bytes=%d segment.bytes=%d {%s}", cfg.Partitions, cfg.ReplicationFactor, cfg.RetentionMs, cfg.RetentionBytes, cfg.SegmentBytes, kv)
		}
	}
	offs, err := in.ListConsumerOffsets(ctx)
	if err != nil {
		w.t.Fatalf("snapshot consumer offsets: %v", err)
	}
	for _, o := range offs {
		off, m, _ := in.FetchConsumerOffset(ctx, o.Group, o.Topic, o.Partition)
		sn.Commits[fmt.Sprintf("%s|%s|%d", o.Group, o.Topic, o.Partition)] = fmt.Sprintf("%d|%s", off, m)
	}
	groups, err := in.ListConsumerGroups(ctx)
	if err != nil {
		w.t.Fatalf("snapshot groups: %v", err)
	}
	for _, g := range groups {
		b, _ := proto.MarshalOptions{Deterministic: true}.Marshal(g)
		sn.Groups[g.GetGroupId()] = fmt.Sprintf("state=%s gen=%d members=%d #%s", g.GetState(), g.GetGenerationId(), len(g.GetMembers()), c24Digest(b))
		sn.groupPB[g.GetGroupId()] = g
	}
	w.h.logMu.RLock()
	for t, parts := range w.h.logs {
		for p, l := range parts {
			sn.Heads[c24TP(t, p)] = fmt.Sprint(l.BufferedHighWatermark())
		}
	}
	w.h.logMu.RUnlock()
	w.s.s3.mu.Lock()
	for k, b := range w.s.s3.objects {
		sn.S3[k] = fmt.Sprintf("%d:%s", len(b), c24Digest(b))
	}
	w.s.s3.mu.Unlock()
	return sn
}

// head is the log end a fetch would see for topic/part ("" if the partition does not exist).
func (sn *c24Snap) head(key string) (int64, bool) {
	v, ok := sn.Heads[key]
	if !ok {
		v, ok = sn.Next[key]
	}
	if !ok {
		return 0, false
	}
	var n int64
	fmt.Sscan(v, &n)
	return n, true
}

type c24Change struct {
	Kind   string `json:"kind"`
	Key    string `json:"key"`
	Region string `json:"region"`
	Before string `json:"before"`
	After  string `json:"after"`
}

const c24Absent = "<absent>"

func c24DiffMap(out *[]c24Change, kind string, a, b map[string]string, region func(k string) string, fallback map[string]string) {
	keys := map[string]bool{}
	for k := range a {
		keys[k] = true
	}
	for k := range b {
		keys[k] = true
	}
	ks := make([]string, 0, len(keys))
	for k := range keys {
		ks = append(ks, k)
	}
	sort.Strings(ks)
	for _, k := range ks {
		av, aok := a[k]
		bv, bok := b[k]
		if !aok && fallback != nil {
			// a PartitionLog object that came into being during the request: compare with the stored next offset
			av, aok = fallback[k]
			if !aok {
				continue
			}
		}
		if !aok {
			av = c24Absent
		}
		if !bok {
			if fallback != nil {
				continue
			}
			bv = c24Absent
		}
		if av != bv {
			*out = append(*out, c24Change{kind, k, region(k), av, bv})
		}
	}
}

func c24Diff(a, b *c24Snap) []c24Change {
	var out []c24Change
	topicOf := func(k string) string { return "topic:" + k }
	tpOf := func(k string) string { return "topic:" + k[:strings.LastIndex(k, "/")] }
	c24DiffMap(&out, "topic", a.Topics, b.Topics, topicOf, nil)
	c24DiffMap(&out, "config", a.Configs, b.Configs, topicOf, nil)
	c24DiffMap(&out, "next_offset", a.Next, b.Next, tpOf, nil)
	c24DiffMap(&out, "log_end", a.Heads, b.Heads, tpOf, a.Next)
	c24DiffMap(&out, "s3_object", a.S3, b.S3, func(k string) string {
		parts := strings.Split(k, "/")
		if len(parts) >= 3 {
			return "topic:" + parts[1]
		}
		return "s3:" + k
	}, nil)
	c24DiffMap(&out, "committed_offset", a.Commits, b.Commits, func(k string) string { return "group:" + strings.SplitN(k, "|", 2)[0] }, nil)
	c24DiffMap(&out, "group", a.Groups, b.Groups, func(k string) string { return "group:" + k }, nil)
	return out
}

func c24ChangeClass(c c24Change) string {
	switch c.Kind {
	case "topic":
		if c.Before == c24Absent {
			return "topic_created"
		}
		if c.After == c24Absent {
			return "topic_deleted"
		}
		return "partitions_changed"
	case "config":
		return "config_changed"
	case "next_offset", "log_end":
		return "record_written"
	case "s3_object":
		return "s3_object_written"
	case "committed_offset":
		return "offset_committed"
	}
	return "group_changed"
}

// ---------------------------------------------------------------- world

type c24World struct {
	t          *testing.T
	s          *scenario
	h          *handler
	st         *c24Store
	az         *acl.Authorizer // the oracle's own authorizer, built from the same config
	autoCreate bool
	corr       int32
}

type c24Setup struct {
	ACL        acl.Config `json:"acl"`
	Via        string     `json:"acl_via"` // direct | env_json | env_file | env_broken_json | env_no_config
	AutoCreate bool       `json:"auto_create_topics"`
	AutoParts  int32      `json:"auto_create_partitions"`
	FlushOnAck bool       `json:"flush_on_ack"`
	AdminAPIs  bool       `json:"allow_admin_apis"`
}

func c24NewWorld(t *testing.T, su c24Setup) *c24World {
	cfg := plogCfg{Topics: map[string]int32{"t-a": 3, "t-b": 2, "s-c": 1}, FlushOnAck: su.FlushOnAck, IndexInterval: 1, BufferMaxBytes: 1 << 30}
	s := newScenario(t, cfg)
	w := &c24World{t: t, s: s, autoCreate: su.AutoCreate}
	inst := s.insts[0]
	view := &s3View{v: s.s3, inst: inst, sc: s.sc}
	w.st = &c24Store{Store: s.hub.inner}
	// the real construction path of the authorizer (environment) for most cases
	envs := map[string]string{}
	want := su.ACL
	want.Enabled = true
	switch su.Via {
	case "env_json":
		b, _ := json.Marshal(su.ACL)
		envs["KAFSCALE_ACL_ENABLED"] = "true"
		envs["KAFSCALE_ACL_JSON"] = string(b)
	case "env_file":
		b, _ := json.Marshal(su.ACL)
		path := fmt.Sprintf("%s/c24-acl-%d.json", os.TempDir(), os.Getpid())
		if dir := os.Getenv("VERIF_SCRATCH"); dir != "" {
			path = dir + "/c24-acl.json"
		}
		if err := os.WriteFile(path, b, 0o600); err != nil {
			t.Fatalf("write acl file: %v", err)
		}
		defer os.Remove(path)
		envs["KAFSCALE_ACL_ENABLED"] = "true"
		envs["KAFSCALE_ACL_FILE"] = path
	case "env_broken_json":
		envs["KAFSCALE_ACL_ENABLED"] = "true"
		envs["KAFSCALE_ACL_JSON"] = `{"default_policy":"allow","principals":[`
		want = acl.Config{Enabled: true, DefaultPolicy: "deny"}
	case "env_no_config":
		envs["KAFSCALE_ACL_ENABLED"] = "true"
		want = acl.Config{Enabled: true, DefaultPolicy: "deny"}
	}
	for _, k := range []string{"KAFSCALE_ACL_ENABLED", "KAFSCALE_ACL_JSON", "KAFSCALE_ACL_FILE", "KAFSCALE_ACL_FAIL_OPEN"} {
		os.Unsetenv(k)
	}
	for k, v := range envs {
		os.Setenv(k, v)
	}
	h := newHandler(w.st, view, protocol.MetadataBroker{NodeID: 1, Host: "127.0.0.1", Port: 9092}, discardLogger())
	for k := range envs {
		os.Unsetenv(k)
	}
	if su.Via == "direct" {
		h.authorizer = acl.NewAuthorizer(want)
	}
	h.flushOnAck = su.FlushOnAck
	h.autoCreateTopics = su.AutoCreate
	h.autoCreatePartitions = su.AutoParts
	h.allowAdminAPIs = su.AdminAPIs
	h.logConfig.Buffer = storage.WriteBufferConfig{MaxBytes: 1 << 30}
	h.logConfig.Segment.IndexIntervalMessages = 1
	h.logConfig.CacheEnabled = false
	h.s3Health = broker.NewS3HealthMonitor(broker.S3HealthConfig{ErrorWarn: 2, ErrorCrit: 3, LatencyWarn: time.Hour, LatencyCrit: 2 * time.Hour})
	s.hs = append(s.hs, h) // teardown stops its coordinator
	w.h = h
	w.az = acl.NewAuthorizer(want)
	return w
}

// ---------------------------------------------------------------- building kmsg requests

func c24Batch(id string, nrec int) []byte {
	h := sha256.Sum256([]byte(id))
	var seed int64
	for i := 0; i < 8; i++ {
		seed = seed<<8 | int64(h[i])
	}
	return mkBatch(rand.New(rand.NewSource(seed)), id, nrec, 8)
}

func c24Subscription(topics []string) []byte {
	m := kmsg.NewConsumerMemberMetadata()
	m.Version = 0
	m.Topics = topics
	return m.AppendTo(nil)
}

func (sn *c24Snap) member(group, ref string) string {
	switch ref {
	case "valid":
		g := sn.groupPB[group]
		if g == nil || len(g.Members) == 0 {
			return "no-such-member"
		}
		if g.Leader != "" {
			if _, ok := g.Members[g.Leader]; ok {
				return g.Leader
			}
		}
		ids := make([]string, 0, len(g.Members))
		for id := range g.Members {
			ids = append(ids, id)
		}
		sort.Strings(ids)
		return ids[0]
	}
	return ref
}

func (sn *c24Snap) memberValid(group, ref string) bool {
	g := sn.groupPB[group]
	return ref == "valid" && g != nil && len(g.Members) > 0
}

func (sn *c24Snap) generation(group, ref string) int32 {
	if ref == "valid" {
		if g := sn.groupPB[group]; g != nil {
			return g.GenerationId
		}
		return 0
	}
	return 9999
}

func c24Build(rq *c24Req, sn *c24Snap) kmsg.Request {
	switch rq.API {
	case "produce":
		r := kmsg.NewPtrProduceRequest()
		r.Acks = rq.Acks
		r.TimeoutMillis = 1000
		for _, t := range rq.Topics {
			rt := kmsg.NewProduceRequestTopic()
			rt.Topic = t.Name
			for _, p := range t.Parts {
				rp := kmsg.NewProduceRequestTopicPartition()
				rp.Partition = p.P
				rp.Records = c24Batch(p.ID, p.NRec)
				rt.Partitions = append(rt.Partitions, rp)
			}
			r.Topics = append(r.Topics, rt)
		}
		return r
	case "fetch":
		r := kmsg.NewPtrFetchRequest()
		r.ReplicaID = -1
		r.MaxWaitMillis = rq.MaxWaitMs
		r.MaxBytes = 1 << 24
		for _, t := range rq.Topics {
			rt := kmsg.NewFetchRequestTopic()
			rt.Topic = t.Name
			rt.TopicID = metadata.TopicIDForName(t.Name)
			for _, p := range t.Parts {
				rp := kmsg.NewFetchRequestTopicPartition()
				rp.Partition = p.P
				rp.FetchOffset = p.Off
				rp.PartitionMaxBytes = 1 << 20
				rt.Partitions = append(rt.Partitions, rp)
			}
			r.Topics = append(r.Topics, rt)
		}
		return r
	case "listoffsets":
		r := kmsg.NewPtrListOffsetsRequest()
		r.ReplicaID = -1
		for _, t := range rq.Topics {
			rt := kmsg.NewListOffsetsRequestTopic()
			rt.Topic = t.Name
			for _, p := range t.Parts {
				rp := kmsg.NewListOffsetsRequestTopicPartition()
				rp.Partition = p.P
				rp.Timestamp = p.Off
				rp.MaxNumOffsets = 1
				rt.Partitions = append(rt.Partitions, rp)
			}
			r.Topics = append(r.Topics, rt)
		}
		return r
	case "metadata":
		r := kmsg.NewPtrMetadataRequest()
		r.AllowAutoTopicCreation = true
		if rq.NullTopics {
			r.Topics = nil
		} else {
			r.Topics = []kmsg.MetadataRequestTopic{}
			for _, t := range rq.Topics {
				rt := kmsg.NewMetadataRequestTopic()
				if t.ByID {
					rt.TopicID = metadata.TopicIDForName(t.Name)
				} else {
					rt.Topic = kmsg.StringPtr(t.Name)
				}
				r.Topics = append(r.Topics, rt)
			}
		}
		return r
	case "offsetcommit":
		r := kmsg.NewPtrOffsetCommitRequest()
		r.Group = rq.Group
		r.MemberID = sn.member(rq.Group, rq.MemberRef)
		r.Generation = sn.generation(rq.Group, rq.GenRef)
		for _, t := range rq.Topics {
			rt := kmsg.NewOffsetCommitRequestTopic()
			rt.Topic = t.Name
			for _, p := range t.Parts {
				rp := kmsg.NewOffsetCommitRequestTopicPartition()
				rp.Partition = p.P
				rp.Offset = p.Off
				rp.Metadata = kmsg.StringPtr(p.Meta)
				rt.Partitions = append(rt.Partitions, rp)
			}
			r.Topics = append(r.Topics, rt)
		}
		return r
	case "offsetfetch":
		r := kmsg.NewPtrOffsetFetchRequest()
		r.Group = rq.Group
		if !rq.NullTopics {
			r.Topics = []kmsg.OffsetFetchRequestTopic{}
			for _, t := range rq.Topics {
				rt := kmsg.NewOffsetFetchRequestTopic()
				rt.Topic = t.Name
				for _, p := range t.Parts {
					rt.Partitions = append(rt.Partitions, p.P)
				}
				r.Topics = append(r.Topics, rt)
			}
		}
		return r
	case "findcoordinator":
		r := kmsg.NewPtrFindCoordinatorRequest()
		r.CoordinatorKey = rq.Group
		r.CoordinatorType = 0
		return r
	case "joingroup":
		r := kmsg.NewPtrJoinGroupRequest()
		r.Group = rq.Group
		r.SessionTimeoutMillis = 30000
		r.RebalanceTimeoutMillis = 30000
		r.MemberID = sn.member(rq.Group, rq.MemberRef)
		r.ProtocolType = "consumer"
		pr := kmsg.NewJoinGroupRequestProtocol()
		pr.Name = "range"
		var topics []string
		for _, t := range rq.Topics {
			topics = append(topics, t.Name)
		}
		pr.Metadata = c24Subscription(topics)
		r.Protocols = append(r.Protocols, pr)
		return r
	case "syncgroup":
		r := kmsg.NewPtrSyncGroupRequest()
		r.Group = rq.Group
		r.MemberID = sn.member(rq.Group, rq.MemberRef)
		r.Generation = sn.generation(rq.Group, rq.GenRef)
		return r
	case "heartbeat":
		r := kmsg.NewPtrHeartbeatRequest()
		r.Group = rq.Group
		r.MemberID = sn.member(rq.Group, rq.MemberRef)
		r.Generation = sn.generation(rq.Group, rq.GenRef)
		return r
	case "leavegroup":
		r := kmsg.NewPtrLeaveGroupRequest()
		r.Group = rq.Group
		r.MemberID = sn.member(rq.Group, rq.MemberRef)
		m := kmsg.NewLeaveGroupRequestMember()
		m.MemberID = r.MemberID
		r.Members = append(r.Members, m)
		return r
	case "describegroups":
		r := kmsg.NewPtrDescribeGroupsRequest()
		r.Groups = append([]string{}, rq.Groups...)
		return r
	case "listgroups":
		return kmsg.NewPtrListGroupsRequest()
	case "apiversions":
		r := kmsg.NewPtrApiVersionsRequest()
		r.ClientSoftwareName = "c24"
		r.ClientSoftwareVersion = "1"
		return r
	case "createtopics":
		r := kmsg.NewPtrCreateTopicsRequest()
		r.TimeoutMillis = 1000
		r.ValidateOnly = rq.ValidateOnly
		for _, t := range rq.Topics {
			rt := kmsg.NewCreateTopicsRequestTopic()
			rt.Topic = t.Name
			rt.NumPartitions = t.Count
			rt.ReplicationFactor = 1
			r.Topics = append(r.Topics, rt)
		}
		return r
	case "deletetopics":
		r := kmsg.NewPtrDeleteTopicsRequest()
		r.TimeoutMillis = 1000
		for _, t := range rq.Topics {
			r.TopicNames = append(r.TopicNames, t.Name)
		}
		return r
	case "offsetforleaderepoch":
		r := kmsg.NewPtrOffsetForLeaderEpochRequest()
		r.ReplicaID = -1
		for _, t := range rq.Topics {
			rt := kmsg.NewOffsetForLeaderEpochRequestTopic()
			rt.Topic = t.Name
			for _, p := range t.Parts {
				rp := kmsg.NewOffsetForLeaderEpochRequestTopicPartition()
				rp.Partition = p.P
				rp.LeaderEpoch = int32(p.Off)
				rt.Partitions = append(rt.Partitions, rp)
			}
			r.Topics = append(r.Topics, rt)
		}
		return r
	case "describeconfigs":
		r := kmsg.NewPtrDescribeConfigsRequest()
		for _, x := range rq.Res {
			rr := kmsg.NewDescribeConfigsRequestResource()
			rr.ResourceType = kmsg.ConfigResourceType(x.Type)
			rr.ResourceName = x.Name
			rr.ConfigNames = x.Names
			r.Resources = append(r.Resources, rr)
		}
		return r
	case "alterconfigs":
		r := kmsg.NewPtrAlterConfigsRequest()
		r.ValidateOnly = rq.ValidateOnly
		for _, x := range rq.Res {
			rr := kmsg.NewAlterConfigsRequestResource()
			rr.ResourceType = kmsg.ConfigResourceType(x.Type)
			rr.ResourceName = x.Name
			for _, kv := range x.Set {
				c := kmsg.NewAlterConfigsRequestResourceConfig()
				c.Name = kv[0]
				c.Value = kmsg.StringPtr(kv[1])
				rr.Configs = append(rr.Configs, c)
			}
			r.Resources = append(r.Resources, rr)
		}
		return r
	case "createpartitions":
		r := kmsg.NewPtrCreatePartitionsRequest()
		r.TimeoutMillis = 1000
		r.ValidateOnly = rq.ValidateOnly
		for _, t := range rq.Topics {
			rt := kmsg.NewCreatePartitionsRequestTopic()
			rt.Topic = t.Name
			rt.Count = t.Count
			r.Topics = append(r.Topics, rt)
		}
		return r
	case "deletegroups":
		r := kmsg.NewPtrDeleteGroupsRequest()
		r.Groups = append([]string{}, rq.Groups...)
		return r
	}
	return nil
}

// ---------------------------------------------------------------- the permission table (from the statement's intent + Kafka conventions)

type c24Ent struct {
	Key      string `json:"key"`  // identifies the entry in the reply
	Need     string `json:"need"` // what the entry needs
	Allowed  bool   `json:"allowed"`
	Region   string `json:"region"`  // state the entry may touch if allowed: topic:T | group:G | *
	NoPerm   bool   `json:"no_perm"` // API without a permission concept: only "no effects" is demanded
	WouldAct bool   `json:"would_act"`
	ID       string `json:"id,omitempty"`
}

func (w *c24World) entries(rq *c24Req, sn *c24Snap) []c24Ent {
	principal := c24ReqPrincipal(rq)
	has := func(a acl.Action, r acl.Resource, name string) bool { return w.az.Allows(principal, a, r, name) }
	admin := has(acl.ActionAdmin, acl.ResourceCluster, "cluster")
	exists := func(topic string) bool { _, ok := sn.Topics[topic]; return ok }
	partExists := func(topic string, p int32) bool { _, ok := sn.Next[c24TP(topic, p)]; return ok }
	groupExists := func(g string) bool { return sn.groupPB[g] != nil }
	var out []c24Ent
	switch rq.API {
	case "produce":
		for _, t := range rq.Topics {
			ok := has(acl.ActionProduce, acl.ResourceTopic, t.Name)
			for _, p := range t.Parts {
				out = append(out, c24Ent{Key: c24TP(t.Name, p.P), Need: "produce on topic " + t.Name, Allowed: ok, Region: "topic:" + t.Name,
					WouldAct: partExists(t.Name, p.P) || (!exists(t.Name) && w.autoCreate), ID: p.ID})
			}
		}
	case "fetch":
		for _, t := range rq.Topics {
			ok := has(acl.ActionFetch, acl.ResourceTopic, t.Name)
			for _, p := range t.Parts {
				hd, pe := sn.head(c24TP(t.Name, p.P))
				out = append(out, c24Ent{Key: c24TP(t.Name, p.P), Need: "fetch on topic " + t.Name, Allowed: ok, Region: "topic:" + t.Name,
					WouldAct: (pe && p.Off >= 0 && p.Off < hd) || (!exists(t.Name) && w.autoCreate)})
			}
		}
	case "listoffsets", "offsetforleaderepoch":
		for _, t := range rq.Topics {
			ok := has(acl.ActionFetch, acl.ResourceTopic, t.Name)
			for _, p := range t.Parts {
				out = append(out, c24Ent{Key: c24TP(t.Name, p.P), Need: "fetch on topic " + t.Name, Allowed: ok, Region: "topic:" + t.Name,
					WouldAct: partExists(t.Name, p.P) || (rq.API == "listoffsets" && p.Off == -2 && !exists(t.Name) && w.autoCreate)})
			}
		}
	case "metadata":
		for _, t := range rq.Topics {
			// no permission concept in the API; creating the topic as a side effect needs SOME right on it
			ok := admin || has(acl.ActionProduce, acl.ResourceTopic, t.Name) || has(acl.ActionFetch, acl.ResourceTopic, t.Name)
			out = append(out, c24Ent{Key: "topic:" + t.Name, Need: "produce or fetch on topic " + t.Name + ", or cluster admin, to have it auto-created", Allowed: ok,
				Region: "topic:" + t.Name, NoPerm: true, WouldAct: w.autoCreate && !t.ByID && !exists(t.Name) && strings.TrimSpace(t.Name) != ""})
		}
		if len(rq.Topics) == 0 {
			out = append(out, c24Ent{Key: "request", Need: "nothing (read-only)", Allowed: admin, Region: "*", NoPerm: true})
		}
	case "findcoordinator", "apiversions":
		out = append(out, c24Ent{Key: "request", Need: "nothing (read-only)", Allowed: admin, Region: "*", NoPerm: true})
	case "offsetcommit":
		ok := has(acl.ActionGroupWrite, acl.ResourceGroup, rq.Group)
		act := groupExists(rq.Group) && sn.memberValid(rq.Group, rq.MemberRef) && rq.GenRef == "valid"
		for _, t := range rq.Topics {
			for _, p := range t.Parts {
				out = append(out, c24Ent{Key: c24TP(t.Name, p.P), Need: "group_write on group " + rq.Group, Allowed: ok, Region: "group:" + rq.Group, WouldAct: act})
			}
		}
	case "offsetfetch":
		ok := has(acl.ActionGroupRead, acl.ResourceGroup, rq.Group)
		out = append(out, c24Ent{Key: "request", Need: "group_read on group " + rq.Group, Allowed: ok, Region: "group:" + rq.Group})
		for _, t := range rq.Topics {
			for _, p := range t.Parts {
				_, committed := sn.Commits[fmt.Sprintf("%s|%s|%d", rq.Group, t.Name, p.P)]
				out = append(out, c24Ent{Key: c24TP(t.Name, p.P), Need: "group_read on group " + rq.Group, Allowed: ok, Region: "group:" + rq.Group, WouldAct: committed})
			}
		}
	case "joingroup", "syncgroup", "heartbeat", "leavegroup":
		ok := has(acl.ActionGroupWrite, acl.ResourceGroup, rq.Group)
		act := true
		switch rq.API {
		case "syncgroup", "heartbeat":
			act = groupExists(rq.Group) && sn.memberValid(rq.Group, rq.MemberRef) && rq.GenRef == "valid"
		case "leavegroup":
			act = groupExists(rq.Group) && sn.memberValid(rq.Group, rq.MemberRef) && rq.Version <= 2
		}
		out = append(out, c24Ent{Key: "request", Need: "group_write on group " + rq.Group, Allowed: ok, Region: "group:" + rq.Group, WouldAct: act})
	case "describegroups":
		for _, g := range rq.Groups {
			out = append(out, c24Ent{Key: "group:" + g, Need: "group_read on group " + g, Allowed: has(acl.ActionGroupRead, acl.ResourceGroup, g), Region: "group:" + g, WouldAct: groupExists(g)})
		}
	case "listgroups":
		out = append(out, c24Ent{Key: "request", Need: "group_read on all groups (*)", Allowed: has(acl.ActionGroupRead, acl.ResourceGroup, "*"), Region: "*", WouldAct: len(sn.Groups) > 0})
	case "deletegroups":
		for _, g := range rq.Groups {
			out = append(out, c24Ent{Key: "group:" + g, Need: "group_admin on group " + g, Allowed: has(acl.ActionGroupAdmin, acl.ResourceGroup, g), Region: "group:" + g, WouldAct: groupExists(g)})
		}
	case "createtopics":
		for _, t := range rq.Topics {
			out = append(out, c24Ent{Key: "topic:" + t.Name, Need: "admin on the cluster", Allowed: admin, Region: "*", WouldAct: !exists(t.Name) && t.Count > 0 && !rq.ValidateOnly && w.h.allowAdminAPIs})
		}
	case "deletetopics":
		for _, t := range rq.Topics {
			out = append(out, c24Ent{Key: "topic:" + t.Name, Need: "admin on the cluster", Allowed: admin, Region: "*", WouldAct: exists(t.Name) && w.h.allowAdminAPIs})
		}
	case "createpartitions":
		for _, t := range rq.Topics {
			cur := 0
			fmt.Sscan(sn.Topics[t.Name], &cur)
			out = append(out, c24Ent{Key: "topic:" + t.Name, Need: "admin on the cluster", Allowed: admin, Region: "*", WouldAct: exists(t.Name) && int(t.Count) > cur && !rq.ValidateOnly})
		}
	case "alterconfigs":
		for _, x := range rq.Res {
			out = append(out, c24Ent{Key: fmt.Sprintf("res:%d:%s", x.Type, x.Name), Need: "admin on the cluster", Allowed: admin, Region: "*",
				WouldAct: x.Type == 2 && exists(x.Name) && !rq.ValidateOnly && len(x.Set) > 0})
		}
	case "describeconfigs":
		for _, x := range rq.Res {
			if x.Type == 2 {
				out = append(out, c24Ent{Key: fmt.Sprintf("res:%d:%s", x.Type, x.Name), Need: "fetch on topic " + x.Name, Allowed: has(acl.ActionFetch, acl.ResourceTopic, x.Name), Region: "topic:" + x.Name, WouldAct: exists(x.Name)})
			} else {
				out = append(out, c24Ent{Key: fmt.Sprintf("res:%d:%s", x.Type, x.Name), Need: "admin on the cluster", Allowed: admin, Region: "*", WouldAct: x.Type == 4})
			}
		}
	}
	return out
}

// ---------------------------------------------------------------- decoding replies

type c24Out struct {
	Key  string `json:"key"`
	Code int16  `json:"code"`
	Leak string `json:"leak,omitempty"` // what protected content the entry carries
}

func c24Decode(rq *c24Req, resp kmsg.Response, sn *c24Snap) []c24Out {
	var out []c24Out
	switch r := resp.(type) {
	case *kmsg.ProduceResponse:
		for _, t := range r.Topics {
			for _, p := range t.Partitions {
				out = append(out, c24Out{Key: c24TP(t.Topic, p.Partition), Code: p.ErrorCode})
			}
		}
	case *kmsg.FetchResponse:
		byID := map[[16]byte]string{}
		for _, t := range rq.Topics {
			byID[metadata.TopicIDForName(t.Name)] = t.Name
		}
		for _, t := range r.Topics {
			name := t.Topic
			if rq.Version >= 13 {
				name = byID[t.TopicID]
			}
			for _, p := range t.Partitions {
				o := c24Out{Key: c24TP(name, p.Partition), Code: p.ErrorCode}
				if len(p.RecordBatches) > 0 {
					o.Leak = fmt.Sprintf("record_data(%d bytes)", len(p.RecordBatches))
				}
				out = append(out, o)
			}
		}
	case *kmsg.ListOffsetsResponse:
		for _, t := range r.Topics {
			for _, p := range t.Partitions {
				out = append(out, c24Out{Key: c24TP(t.Topic, p.Partition), Code: p.ErrorCode})
			}
		}
	case *kmsg.OffsetForLeaderEpochResponse:
		for _, t := range r.Topics {
			for _, p := range t.Partitions {
				out = append(out, c24Out{Key: c24TP(t.Topic, p.Partition), Code: p.ErrorCode})
			}
		}
	case *kmsg.MetadataResponse:
		for _, t := range r.Topics {
			if t.Topic != nil {
				out = append(out, c24Out{Key: "topic:" + *t.Topic, Code: t.ErrorCode})
			}
		}
	case *kmsg.FindCoordinatorResponse:
		out = append(out, c24Out{Key: "request", Code: r.ErrorCode})
	case *kmsg.ApiVersionsResponse:
		out = append(out, c24Out{Key: "request", Code: r.ErrorCode})
	case *kmsg.OffsetCommitResponse:
		for _, t := range r.Topics {
			for _, p := range t.Partitions {
				out = append(out, c24Out{Key: c24TP(t.Topic, p.Partition), Code: p.ErrorCode})
			}
		}
	case *kmsg.OffsetFetchResponse:
		out = append(out, c24Out{Key: "request", Code: r.ErrorCode})
		for _, t := range r.Topics {
			for _, p := range t.Partitions {
				o := c24Out{Key: c24TP(t.Topic, p.Partition), Code: p.ErrorCode}
				if c, ok := sn.Commits[fmt.Sprintf("%s|%s|%d", rq.Group, t.Topic, p.Partition)]; ok {
					parts := strings.SplitN(c, "|", 2)
					if fmt.Sprint(p.Offset) == parts[0] {
						o.Leak = "committed_offset(" + parts[0] + ")"
					} else if p.Metadata != nil && parts[1] != "" && *p.Metadata == parts[1] {
						o.Leak = "commit_metadata(" + parts[1] + ")"
					}
				}
				out = append(out, o)
			}
		}
	case *kmsg.JoinGroupResponse:
		o := c24Out{Key: "request", Code: r.ErrorCode}
		if len(r.Members) > 0 {
			o.Leak = fmt.Sprintf("group_members(%d)", len(r.Members))
		} else if r.MemberID != "" {
			o.Leak = "member_id_issued(" + r.MemberID + ")"
		}
		out = append(out, o)
	case *kmsg.SyncGroupResponse:
		o := c24Out{Key: "request", Code: r.ErrorCode}
		if len(r.MemberAssignment) > 0 {
			o.Leak = fmt.Sprintf("member_assignment(%d bytes)", len(r.MemberAssignment))
		}
		out = append(out, o)
	case *kmsg.HeartbeatResponse:
		out = append(out, c24Out{Key: "request", Code: r.ErrorCode})
	case *kmsg.LeaveGroupResponse:
		out = append(out, c24Out{Key: "request", Code: r.ErrorCode})
	case *kmsg.DescribeGroupsResponse:
		for _, g := range r.Groups {
			o := c24Out{Key: "group:" + g.Group, Code: g.ErrorCode}
			if len(g.Members) > 0 {
				o.Leak = fmt.Sprintf("group_members(%d)", len(g.Members))
			} else if g.State != "" || g.Protocol != "" {
				o.Leak = "group_state(" + g.State + "," + g.Protocol + ")"
			}
			out = append(out, o)
		}
	case *kmsg.ListGroupsResponse:
		o := c24Out{Key: "request", Code: r.ErrorCode}
		if len(r.Groups) > 0 {
			o.Leak = fmt.Sprintf("group_list(%d)", len(r.Groups))
		}
		out = append(out, o)
	case *kmsg.DeleteGroupsResponse:
		for _, g := range r.Groups {
			out = append(out, c24Out{Key: "group:" + g.Group, Code: g.ErrorCode})
		}
	case *kmsg.CreateTopicsResponse:
		for _, t := range r.Topics {
			out = append(out, c24Out{Key: "topic:" + t.Topic, Code: t.ErrorCode})
		}
	case *kmsg.DeleteTopicsResponse:
		for _, t := range r.Topics {
			if t.Topic != nil {
				out = append(out, c24Out{Key: "topic:" + *t.Topic, Code: t.ErrorCode})
			}
		}
	case *kmsg.CreatePartitionsResponse:
		for _, t := range r.Topics {
			out = append(out, c24Out{Key: "topic:" + t.Topic, Code: t.ErrorCode})
		}
	case *kmsg.AlterConfigsResponse:
		for _, x := range r.Resources {
			out = append(out, c24Out{Key: fmt.Sprintf("res:%d:%s", int8(x.ResourceType), x.ResourceName), Code: x.ErrorCode})
		}
	case *kmsg.DescribeConfigsResponse:
		for _, x := range r.Resources {
			o := c24Out{Key: fmt.Sprintf("res:%d:%s", int8(x.ResourceType), x.ResourceName), Code: x.ErrorCode}
			if len(x.Configs) > 0 {
				o.Leak = fmt.Sprintf("config_values(%d)", len(x.Configs))
			}
			out = append(out, o)
		}
	}
	return out
}

// ---------------------------------------------------------------- executing one request

type c24Result struct {
	Outs    []c24Out `json:"reply_entries"`
	NoReply bool     `json:"no_reply,omitempty"`
	Err     string   `json:"handler_error,omitempty"`
	Panic   string   `json:"panic,omitempty"`
}

func (w *c24World) exec(rq *c24Req, sn *c24Snap) (res c24Result) {
	req := c24Build(rq, sn)
	if req == nil {
		w.t.Fatalf("c24: unknown api %q", rq.API)
	}
	req.SetVersion(rq.Version)
	w.corr++
	hdr := &protocol.RequestHeader{APIKey: req.Key(), APIVersion: rq.Version, CorrelationID: w.corr, ClientID: rq.ClientID}
	// what a client puts on the wire, parsed by the broker's own parser
	_, parsed, err := protocol.ParseRequestBody(hdr, req.AppendTo(nil))
	if err != nil {
		w.t.Fatalf("c24: %s v%d does not survive the wire: %v", rq.API, rq.Version, err)
	}
	ctx := context.Background()
	if rq.ConnPrincipal != "" {
		ctx = broker.ContextWithConnInfo(ctx, &broker.ConnContext{Principal: rq.ConnPrincipal, RemoteAddr: "10.0.0.9:5555"})
	}
	var payload []byte
	func() {
		defer func() {
			if p := recover(); p != nil {
				res.Panic = fmt.Sprint(p)
			}
		}()
		payload, err = w.h.Handle(ctx, hdr, parsed)
	}()
	if res.Panic != "" {
		return res
	}
	if err != nil {
		res.Err = err.Error()
		return res
	}
	if payload == nil {
		res.NoReply = true
		return res
	}
	resp := req.ResponseKind()
	resp.SetVersion(rq.Version)
	if len(payload) < 4 {
		res.Err = "reply shorter than a response header"
		return res
	}
	body := payload[4:]
	if resp.IsFlexible() && resp.Key() != protocol.APIKeyApiVersion {
		if len(body) == 0 {
			res.Err = "reply without tagged-field section"
			return res
		}
		body = body[1:]
	}
	if err := resp.ReadFrom(body); err != nil {
		res.Err = "undecodable reply: " + err.Error()
		return res
	}
	res.Outs = c24Decode(rq, resp, sn)
	return res
}

var c24AuthCodes = map[int16]bool{protocol.TOPIC_AUTHORIZATION_FAILED: true, protocol.GROUP_AUTHORIZATION_FAILED: true, protocol.CLUSTER_AUTHORIZATION_FAILED: true}

// ---------------------------------------------------------------- generation

var (
	c24TopicNames = []string{"t-a", "t-a", "t-b", "s-c", "t-new", "s-new", "x-new", "t-new2"}
	c24GroupNames = []string{"g-a", "g-a", "g-b", "h-c", "g-new"}
	c24APIs       = []string{"produce", "fetch", "listoffsets", "metadata", "offsetcommit", "offsetfetch", "findcoordinator", "joingroup", "heartbeat", "leavegroup", "syncgroup",
		"describegroups", "listgroups", "apiversions", "createtopics", "deletetopics", "offsetforleaderepoch", "describeconfigs", "alterconfigs", "createpartitions", "deletegroups"}
	c24Versions = map[string][]int16{"produce": {3, 7, 9}, "fetch": {11, 12, 13}, "listoffsets": {1, 4}, "metadata": {1, 4, 9, 12}, "offsetcommit": {3}, "offsetfetch": {5},
		"findcoordinator": {3}, "joingroup": {4}, "heartbeat": {4}, "leavegroup": {4, 2}, "syncgroup": {4}, "describegroups": {5}, "listgroups": {0, 3, 4}, "apiversions": {0, 3},
		"createtopics": {0, 2}, "deletetopics": {0, 2}, "offsetforleaderepoch": {3}, "describeconfigs": {4}, "alterconfigs": {1}, "createpartitions": {0, 3}, "deletegroups": {0, 2}}
)

func c24Rule(rng *rand.Rand) acl.Rule {
	actions := []acl.Action{"*", "produce", "fetch", "group_read", "group_write", "group_admin", "admin", "", "PRODUCE", "Fetch"}
	resources := []acl.Resource{"*", "topic", "group", "cluster", "", "Topic"}
	names := []string{"*", "", "t-*", "t-a", "t-b", "s-c", "t-new", "s-*", "g-*", "g-a", "h-c", "cluster", "t-", "x*", "g-new"}
	return acl.Rule{Action: actions[rng.Intn(len(actions))], Resource: resources[rng.Intn(len(resources))], Name: names[rng.Intn(len(names))]}
}

func c24Rules(rng *rand.Rand, profile int) (allow, deny []acl.Rule) {
	switch profile {
	case 0: // listed, no rules at all
	case 1: // producer
		allow = []acl.Rule{{Action: "produce", Resource: "topic", Name: "t-*"}}
	case 2: // consumer
		allow = []acl.Rule{{Action: "fetch", Resource: "topic", Name: "t-*"}, {Action: "group_read", Resource: "group", Name: "g-*"}, {Action: "group_write", Resource: "group", Name: "g-*"}}
	case 3: // cluster admin only
		allow = []acl.Rule{{Action: "admin", Resource: "cluster", Name: "*"}}
	case 4: // superuser
		allow = []acl.Rule{{Action: "*", Resource: "*", Name: "*"}}
	case 5: // superuser with holes
		allow = []acl.Rule{{Action: "*", Resource: "*", Name: "*"}}
		holes := []acl.Rule{{Action: "produce", Resource: "topic", Name: "t-a"}, {Action: "fetch", Resource: "topic", Name: "t-*"}, {Action: "group_write", Resource: "group", Name: "g-a"},
			{Action: "admin", Resource: "cluster", Name: ""}, {Action: "group_admin", Resource: "group", Name: "*"}, {Action: "group_read", Resource: "group", Name: "*"}, {Action: "*", Resource: "topic", Name: "*new*"},
			{Action: "produce", Resource: "topic", Name: "*"}}
		for i := 0; i < 1+rng.Intn(3); i++ {
			deny = append(deny, holes[rng.Intn(len(holes))])
		}
	case 6: // exact names
		allow = []acl.Rule{{Action: "produce", Resource: "topic", Name: "t-a"}, {Action: "fetch", Resource: "topic", Name: "t-a"}, {Action: "group_read", Resource: "group", Name: "g-a"},
			{Action: "group_write", Resource: "group", Name: "g-a"}, {Action: "group_admin", Resource: "group", Name: "g-a"}}
	default: // random
		for i := 0; i < rng.Intn(5); i++ {
			allow = append(allow, c24Rule(rng))
		}
		for i := 0; i < rng.Intn(3); i++ {
			deny = append(deny, c24Rule(rng))
		}
	}
	return
}

func c24GenSetup(rng *rand.Rand) c24Setup {
	su := c24Setup{AutoCreate: rng.Intn(2) == 0, AutoParts: []int32{1, 1, 3}[rng.Intn(3)], FlushOnAck: rng.Intn(4) != 0, AdminAPIs: rng.Intn(8) != 0}
	su.ACL.Enabled = true
	su.ACL.DefaultPolicy = []string{"deny", "deny", "allow", "", "Allow "}[rng.Intn(5)]
	for _, name := range []string{"alice", "bob", "carol", "dave"} {
		allow, deny := c24Rules(rng, rng.Intn(9))
		su.ACL.Principals = append(su.ACL.Principals, acl.PrincipalRules{Name: name, Allow: allow, Deny: deny})
	}
	if rng.Intn(2) == 0 {
		allow, deny := c24Rules(rng, []int{0, 1, 2, 7, 8}[rng.Intn(5)])
		su.ACL.Principals = append(su.ACL.Principals, acl.PrincipalRules{Name: "anonymous", Allow: allow, Deny: deny})
	}
	switch v := rng.Intn(20); {
	case v < 8:
		su.Via = "env_json"
	case v < 10:
		su.Via = "env_file"
	case v == 10:
		su.Via = "env_broken_json"
	case v == 11:
		su.Via = "env_no_config"
	default:
		su.Via = "direct"
	}
	return su
}

func c24GenParts(rng *rand.Rand, n int) []c24Part {
	var ps []c24Part
	for i := 0; i < n; i++ {
		ps = append(ps, c24Part{P: int32(rng.Intn(4))})
	}
	return ps
}

func c24GenTopics(rng *rand.Rand) []c24Topic {
	var ts []c24Topic
	n := 1 + rng.Intn(4)
	if rng.Intn(2) == 0 && n >= 2 {
		// names from families that the usual rule sets separate (t-* vs the rest; t-a vs t-b)
		fam := [][]string{{"t-a", "t-b", "t-new"}, {"s-c", "s-new", "x-new"}, {"t-b", "t-new2"}, {"t-a"}}
		for i := 0; i < n; i++ {
			f := fam[i%len(fam)]
			ts = append(ts, c24Topic{Name: f[rng.Intn(len(f))], Parts: c24GenParts(rng, 1+rng.Intn(2))})
		}
		rng.Shuffle(len(ts), func(i, j int) { ts[i], ts[j] = ts[j], ts[i] })
		return ts
	}
	for i := 0; i < n; i++ {
		ts = append(ts, c24Topic{Name: c24TopicNames[rng.Intn(len(c24TopicNames))], Parts: c24GenParts(rng, 1+rng.Intn(2))})
	}
	return ts
}

// c24Clamp keeps generated partition numbers away from a livelock of the broker that is not this property's
// business: with auto-creation on, getPartitionLog spins forever on a partition that does not exist in a topic
// that does (ensureTopic reports "exists", NextOffset keeps saying "unknown").
func c24Clamp(rq *c24Req, sn *c24Snap, autoCreate bool) {
	if !autoCreate {
		return
	}
	for ti := range rq.Topics {
		n := 1
		if v, ok := sn.Topics[rq.Topics[ti].Name]; ok {
			fmt.Sscan(v, &n)
		}
		for pi := range rq.Topics[ti].Parts {
			if int(rq.Topics[ti].Parts[pi].P) >= n {
				rq.Topics[ti].Parts[pi].P = int32(int(rq.Topics[ti].Parts[pi].P) % n)
			}
		}
	}
}

func c24GenReq(rng *rand.Rand, tag string, sn *c24Snap, autoCreate bool) *c24Req {
	rq := c24GenReq0(rng, tag, sn)
	switch rq.API {
	case "produce", "fetch", "listoffsets":
		c24Clamp(rq, sn, autoCreate)
	}
	return rq
}

func c24GenReq0(rng *rand.Rand, tag string, sn *c24Snap) *c24Req {
	api := c24APIs[rng.Intn(len(c24APIs))]
	// extra weight: the API whose side effect needs no permission in the code, and the APIs judged per entry
	if rng.Intn(4) == 0 {
		api = []string{"metadata", "produce", "fetch", "produce", "fetch", "describegroups", "deletegroups", "describeconfigs", "offsetcommit"}[rng.Intn(9)]
	}
	vs := c24Versions[api]
	rq := &c24Req{API: api, Version: vs[rng.Intn(len(vs))]}
	who := []string{"alice", "bob", "carol", "dave", "ghost", ""}[rng.Intn(6)]
	switch rng.Intn(8) {
	case 0: // identity comes from the connection; the client id names somebody else
		if who != "" {
			rq.ConnPrincipal = who
			rq.ClientID = kmsg.StringPtr([]string{"alice", "bob", "carol", "dave"}[rng.Intn(4)])
			break
		}
		fallthrough
	default:
		if who == "" {
			if rng.Intn(2) == 0 {
				rq.ClientID = kmsg.StringPtr("  ")
			}
		} else {
			rq.ClientID = kmsg.StringPtr(who)
		}
	}
	rq.Group = c24GroupNames[rng.Intn(len(c24GroupNames))]
	rq.MemberRef = []string{"valid", "valid", "valid", "", "bogus-member"}[rng.Intn(5)]
	rq.GenRef = []string{"valid", "valid", "valid", "bogus"}[rng.Intn(4)]
	n := 0
	switch api {
	case "produce":
		rq.Acks = []int16{-1, -1, 1, 0}[rng.Intn(4)]
		rq.Topics = c24GenTopics(rng)
		for ti := range rq.Topics {
			for pi := range rq.Topics[ti].Parts {
				n++
				rq.Topics[ti].Parts[pi].ID = fmt.Sprintf("<%s.%d>", tag, n)
				rq.Topics[ti].Parts[pi].NRec = 1 + rng.Intn(3)
			}
		}
	case "fetch":
		rq.Topics = c24GenTopics(rng)
		rq.MaxWaitMs = []int32{0, 0, 5}[rng.Intn(3)]
		for ti := range rq.Topics {
			for pi := range rq.Topics[ti].Parts {
				rq.Topics[ti].Parts[pi].Off = []int64{0, 0, 1, 2, 50}[rng.Intn(5)]
			}
		}
		if rq.Version >= 13 {
			// topic ids only resolve for topics that exist; an unknown id is answered before any name is known
			var keep []c24Topic
			for _, t := range rq.Topics {
				if _, ok := sn.Topics[t.Name]; ok {
					keep = append(keep, t)
				}
			}
			if len(keep) == 0 {
				rq.Version = 12
			} else {
				rq.Topics = keep
			}
		}
	case "listoffsets":
		rq.Topics = c24GenTopics(rng)
		for ti := range rq.Topics {
			for pi := range rq.Topics[ti].Parts {
				rq.Topics[ti].Parts[pi].Off = []int64{-1, -2, -2, 1000}[rng.Intn(4)]
			}
		}
	case "offsetforleaderepoch":
		rq.Topics = c24GenTopics(rng)
	case "metadata":
		if rng.Intn(6) == 0 {
			rq.NullTopics = true
		} else {
			for i := 0; i < 1+rng.Intn(3); i++ {
				t := c24Topic{Name: c24TopicNames[rng.Intn(len(c24TopicNames))]}
				if rq.Version >= 10 && rng.Intn(5) == 0 {
					t.ByID = true
				}
				rq.Topics = append(rq.Topics, t)
			}
		}
	case "offsetcommit":
		rq.Topics = c24GenTopics(rng)
		for ti := range rq.Topics {
			for pi := range rq.Topics[ti].Parts {
				n++
				rq.Topics[ti].Parts[pi].Off = int64(100000 + rng.Intn(800000))
				rq.Topics[ti].Parts[pi].Meta = fmt.Sprintf("meta<%s.%d>", tag, n)
			}
		}
	case "offsetfetch":
		if rng.Intn(8) == 0 {
			rq.NullTopics = true
		} else {
			rq.Topics = c24GenTopics(rng)
			if rng.Intn(2) == 0 {
				rq.Topics[0] = c24Topic{Name: "t-a", Parts: []c24Part{{P: 0}}}
				rq.Group = []string{"g-a", "h-c"}[rng.Intn(2)]
				if rq.Group == "h-c" {
					rq.Topics[0].Name = "s-c"
				}
			}
		}
	case "joingroup":
		rq.Topics = []c24Topic{{Name: c24TopicNames[rng.Intn(len(c24TopicNames))]}}
		if rng.Intn(2) == 0 {
			rq.MemberRef = ""
		}
	case "describegroups", "deletegroups":
		for i := 0; i < 1+rng.Intn(3); i++ {
			rq.Groups = append(rq.Groups, c24GroupNames[rng.Intn(len(c24GroupNames))])
		}
		if rng.Intn(2) == 0 {
			rq.Groups = []string{"g-a", "h-c", "g-b"}[:2+rng.Intn(2)]
			rng.Shuffle(len(rq.Groups), func(i, j int) { rq.Groups[i], rq.Groups[j] = rq.Groups[j], rq.Groups[i] })
		}
	case "createtopics":
		rq.ValidateOnly = rq.Version >= 1 && rng.Intn(5) == 0
		for i := 0; i < 1+rng.Intn(2); i++ {
			rq.Topics = append(rq.Topics, c24Topic{Name: c24TopicNames[rng.Intn(len(c24TopicNames))], Count: int32(1 + rng.Intn(3))})
		}
	case "deletetopics":
		for i := 0; i < 1+rng.Intn(2); i++ {
			rq.Topics = append(rq.Topics, c24Topic{Name: c24TopicNames[rng.Intn(len(c24TopicNames))]})
		}
	case "createpartitions":
		rq.ValidateOnly = rng.Intn(5) == 0
		seen := map[string]bool{}
		for i := 0; i < 1+rng.Intn(2); i++ {
			name := c24TopicNames[rng.Intn(len(c24TopicNames))]
			if seen[name] {
				continue
			}
			seen[name] = true
			rq.Topics = append(rq.Topics, c24Topic{Name: name, Count: int32(2 + rng.Intn(5))})
		}
	case "alterconfigs":
		rq.ValidateOnly = rng.Intn(5) == 0
		for i := 0; i < 1+rng.Intn(2); i++ {
			x := c24Res{Type: []int8{2, 2, 2, 4, 8}[rng.Intn(5)], Name: c24TopicNames[rng.Intn(len(c24TopicNames))]}
			n++
			x.Set = [][2]string{{[]string{"retention.ms", "retention.bytes", "segment.bytes"}[rng.Intn(3)], fmt.Sprint(7000000 + rng.Intn(1000000))}}
			if x.Type != 2 {
				x.Name = "1"
			}
			rq.Res = append(rq.Res, x)
		}
	case "describeconfigs":
		for i := 0; i < 1+rng.Intn(4); i++ {
			x := c24Res{Type: []int8{2, 2, 2, 4, 8}[rng.Intn(5)], Name: []string{"t-a", "t-b", "s-c", "t-a", "t-new", "x-new"}[rng.Intn(6)]}
			if x.Type != 2 {
				x.Name = "1"
			}
			if rng.Intn(3) == 0 {
				x.Names = []string{"retention.ms"}
			}
			rq.Res = append(rq.Res, x)
		}
	}
	return rq
}

// ---------------------------------------------------------------- one case = one broker + one request sequence

type c24Case struct {
	Setup c24Setup  `json:"setup"`
	Reqs  []*c24Req `json:"requests"`
}

func c24Root() *string { return kmsg.StringPtr("setup-root") }

// seed puts protected state in place with enforcement off: records, a stable group, committed offsets, a topic config.
func (w *c24World) seed() {
	real := w.h.authorizer
	w.h.authorizer = acl.NewAuthorizer(acl.Config{Enabled: false})
	defer func() { w.h.authorizer = real }()
	must := func(rq *c24Req, what string) c24Result {
		res := w.exec(rq, w.snap())
		if res.Err != "" || res.Panic != "" {
			w.t.Fatalf("c24 seed %s: %+v", what, res)
		}
		for _, o := range res.Outs {
			if o.Code != 0 {
				w.t.Fatalf("c24 seed %s: entry %s code %d", what, o.Key, o.Code)
			}
		}
		return res
	}
	must(&c24Req{API: "produce", Version: 9, ClientID: c24Root(), Acks: -1, Topics: []c24Topic{
		{Name: "t-a", Parts: []c24Part{{P: 0, ID: "<seed.1>", NRec: 2}, {P: 1, ID: "<seed.2>", NRec: 1}}},
		{Name: "t-b", Parts: []c24Part{{P: 0, ID: "<seed.3>", NRec: 2}}},
		{Name: "s-c", Parts: []c24Part{{P: 0, ID: "<seed.4>", NRec: 3}}}}}, "produce")
	must(&c24Req{API: "produce", Version: 9, ClientID: c24Root(), Acks: -1, Topics: []c24Topic{{Name: "t-a", Parts: []c24Part{{P: 0, ID: "<seed.5>", NRec: 2}}}}}, "produce 2")
	for _, g := range [][2]string{{"g-a", "t-a"}, {"h-c", "s-c"}} {
		must(&c24Req{API: "joingroup", Version: 4, ClientID: c24Root(), Group: g[0], Topics: []c24Topic{{Name: g[1]}}}, "join "+g[0])
		must(&c24Req{API: "syncgroup", Version: 4, ClientID: c24Root(), Group: g[0], MemberRef: "valid", GenRef: "valid"}, "sync "+g[0])
		must(&c24Req{API: "offsetcommit", Version: 3, ClientID: c24Root(), Group: g[0], MemberRef: "valid", GenRef: "valid",
			Topics: []c24Topic{{Name: g[1], Parts: []c24Part{{P: 0, Off: 4242, Meta: "seed-meta-" + g[0]}}}}}, "commit "+g[0])
	}
	must(&c24Req{API: "alterconfigs", Version: 1, ClientID: c24Root(), Res: []c24Res{{Type: 2, Name: "t-a", Set: [][2]string{{"retention.ms", "86400123"}}}}}, "alter config")
}

func c24Shape(ents []c24Ent) (allowed, denied, unperm, deniedAct int) {
	for _, e := range ents {
		switch {
		case e.NoPerm:
			unperm++
			if !e.Allowed && e.WouldAct {
				deniedAct++
			}
		case e.Allowed:
			allowed++
		default:
			denied++
			if e.WouldAct {
				deniedAct++
			}
		}
	}
	return
}

// runCase executes one case inside a synctest bubble and judges every request.
func c24RunCase(t *testing.T, r *verifkit.Run, cs *c24Case, label string, gen func(i int, sn *c24Snap, w *c24World) *c24Req) {
	w := c24NewWorld(t, cs.Setup)
	defer w.s.teardown()
	w.seed()
	deniedIDs := map[string]int{} // produce batch id -> request index
	witness := func(i int, extra map[string]any) map[string]any {
		m := map[string]any{"case": label, "setup": cs.Setup, "requests": cs.Reqs[:i+1], "offending_request": i, "principal": c24ReqPrincipal(cs.Reqs[i])}
		for k, v := range extra {
			m[k] = v
		}
		return m
	}
	for i := 0; ; i++ {
		before := w.snap()
		if gen != nil {
			// requests are drawn against the state left by the previous ones, so that "valid member",
			// "existing topic" ... stay meaningful; the witness lists them, a replay takes them as given
			rq := gen(i, before, w)
			if rq == nil {
				break
			}
			cs.Reqs = append(cs.Reqs, rq)
		}
		if i >= len(cs.Reqs) {
			break
		}
		rq := cs.Reqs[i]
		ents := w.entries(rq, before)
		mark := w.st.mark()
		s3mark := w.s.s3.eventCount()
		res := w.exec(rq, before)
		after := w.snap()
		calls := w.st.since(mark)
		changes := c24Diff(before, after)
		nAllowed, nDenied, nUnperm, nDeniedAct := c24Shape(ents)
		mixed := nAllowed > 0 && nDenied > 0
		r.Case(fmt.Sprintf("%s v%d policy=%q auto=%v a=%d d=%d u=%d act=%d %s", rq.API, rq.Version, strings.ToLower(strings.TrimSpace(cs.Setup.ACL.DefaultPolicy)), cs.Setup.AutoCreate, nAllowed, nDenied, nUnperm, nDeniedAct, verifkit.Hash(rq.Topics, rq.Groups, rq.Res, rq.Group, rq.MemberRef, rq.GenRef, rq.Acks)),
			nDeniedAct > 0 || mixed)
		r.Count("requests", 1)
		r.Count("requests_"+rq.API, 1)
		r.Count("entries_allowed", int64(nAllowed))
		r.Count("entries_denied", int64(nDenied))
		r.Count("entries_denied_that_would_have_acted", int64(nDeniedAct))
		r.Count("entries_unpermissioned_api", int64(nUnperm))
		if mixed {
			r.Count("mixed_requests", 1)
		}
		if nDenied > 0 {
			r.Seen("apis_with_denied_entries", rq.API)
		}
		if nDeniedAct > 0 {
			r.Seen("apis_with_denied_entries_that_would_have_acted", rq.API)
		}
		r.Count("store_write_calls_observed", int64(len(calls)))
		r.Count("state_changes_observed", int64(len(changes)))
		if res.Panic != "" {
			r.Inconclusive(fmt.Sprintf("handler panicked on %s: %s", rq.API, res.Panic))
			return
		}

		regions := map[string]bool{}
		for _, e := range ents {
			if e.Allowed {
				regions[e.Region] = true
			}
		}
		inRegion := func(reg string) bool { return regions["*"] || regions[reg] }

		// (1) effects: everything that changed must lie in the region of an entry the principal is entitled to
		flagged := false
		for _, c := range changes {
			if inRegion(c.Region) {
				continue
			}
			cls := fmt.Sprintf("unauthorized_%s_via_%s", c24ChangeClass(c), rq.API)
			r.Violation(cls, fmt.Sprintf("%s by principal %q: %s %s changed %s -> %s although the principal lacks every permission that covers %s", rq.API, c24ReqPrincipal(rq), c.Kind, c.Key, c.Before, c.After, c.Region),
				witness(i, map[string]any{"entries": ents, "changes": changes, "store_calls": calls, "reply": res}))
			flagged = true
			break
		}
		if !flagged {
			for _, c := range calls {
				if inRegion(c.Region) {
					continue
				}
				r.Violation(fmt.Sprintf("unauthorized_store_write_%s_via_%s", c.Op, rq.API), fmt.Sprintf("%s by principal %q made the store call %s(%s) although the principal lacks every permission that covers %s", rq.API, c24ReqPrincipal(rq), c.Op, c.Detail, c.Region),
					witness(i, map[string]any{"entries": ents, "store_calls": calls, "reply": res}))
				flagged = true
				break
			}
		}
		if !flagged && len(regions) == 0 {
			if n := w.s.s3.countWrites(s3mark); n > 0 {
				r.Violation("unauthorized_s3_write_via_"+rq.API, fmt.Sprintf("%s by principal %q without any permission caused %d S3 uploads", rq.API, c24ReqPrincipal(rq), n), witness(i, map[string]any{"entries": ents, "reply": res}))
			}
		}

		// (2) the reply: every denied entry carries an authorization error and nothing else
		byKey := map[string][]c24Out{}
		for _, o := range res.Outs {
			byKey[o.Key] = append(byKey[o.Key], o)
		}
		wantCount := map[string]int{}
		for _, e := range ents {
			if e.Allowed {
				if !e.NoPerm {
					for _, o := range byKey[e.Key] {
						if c24AuthCodes[o.Code] {
							r.Count("allowed_entries_refused_anyway", 1)
						} else if o.Code == 0 {
							r.Count("allowed_entries_served", 1)
							if mixed {
								r.Count("allowed_entries_served_in_mixed_requests", 1)
							}
						}
					}
				}
				continue
			}
			if e.ID != "" {
				deniedIDs[e.ID] = i
			}
			if e.NoPerm {
				continue
			}
			r.Count("denied_entries_judged", 1)
			if rq.API == "produce" && rq.Acks == 0 {
				if !res.NoReply && res.Err == "" {
					// a reply to acks=0 is unusual but harmless; judged like any other below
				} else {
					r.Count("denied_produce_acks0_no_reply_by_protocol", 1)
					continue
				}
			}
			if res.Err != "" || res.NoReply {
				r.Violation("denied_"+rq.API+"_no_authorization_error_reply", fmt.Sprintf("%s by principal %q lacking %s: the client got no authorization error (handler error %q, no reply %v)", rq.API, c24ReqPrincipal(rq), e.Need, res.Err, res.NoReply),
					witness(i, map[string]any{"entries": ents, "reply": res}))
				break
			}
			wantCount[e.Key]++
			outs := byKey[e.Key]
			if len(outs) < wantCount[e.Key] {
				r.Violation("denied_"+rq.API+"_entry_missing_in_reply", fmt.Sprintf("%s by principal %q lacking %s: the reply has no entry for %s, so the client never sees an authorization error for it", rq.API, c24ReqPrincipal(rq), e.Need, e.Key),
					witness(i, map[string]any{"entries": ents, "reply": res}))
				continue
			}
			for _, o := range outs {
				if o.Leak != "" {
					what := o.Leak
					if k := strings.Index(what, "("); k > 0 {
						what = what[:k]
					}
					r.Violation("denied_"+rq.API+"_reply_carries_"+what, fmt.Sprintf("%s by principal %q lacking %s: entry %s (code %d) carries %s", rq.API, c24ReqPrincipal(rq), e.Need, e.Key, o.Code, o.Leak),
						witness(i, map[string]any{"entries": ents, "reply": res}))
					break
				}
				if !c24AuthCodes[o.Code] {
					r.Violation("denied_"+rq.API+"_entry_without_authorization_error", fmt.Sprintf("%s by principal %q lacking %s: entry %s answered with code %d, not an authorization error", rq.API, c24ReqPrincipal(rq), e.Need, e.Key, o.Code),
						witness(i, map[string]any{"entries": ents, "reply": res}))
					break
				}
				r.Count("denied_entries_with_authorization_error_and_no_data", 1)
			}
		}
		if (i == 0 || rq.API == "produce") && strings.HasSuffix(label, "/0") {
			r.Sample(map[string]any{"setup": cs.Setup, "first_request": rq, "principal": c24ReqPrincipal(rq), "entries": ents, "reply": res, "changes": changes})
		}
	}

	// (3) end of the sequence: nothing a denied produce entry carried may exist anywhere, also not in a write buffer
	if len(deniedIDs) > 0 {
		w.h.authorizer = acl.NewAuthorizer(acl.Config{Enabled: false})
		w.h.logMu.RLock()
		var logs []*storage.PartitionLog
		for _, parts := range w.h.logs {
			for _, l := range parts {
				logs = append(logs, l)
			}
		}
		w.h.logMu.RUnlock()
		for _, l := range logs {
			if err := l.Flush(context.Background()); err != nil {
				r.Inconclusive("final flush failed: " + err.Error())
				return
			}
		}
		w.s.s3.mu.Lock()
		objs := map[string][]byte{}
		for k, b := range w.s.s3.objects {
			objs[k] = b
		}
		w.s.s3.mu.Unlock()
		ids := make([]string, 0, len(deniedIDs))
		for id := range deniedIDs {
			ids = append(ids, id)
		}
		sort.Strings(ids)
		for _, id := range ids {
			r.Count("denied_record_ids_searched", 1)
			for k, b := range objs {
				if bytes.Contains(b, []byte(id+"#")) {
					i := deniedIDs[id]
					r.Violation("denied_produce_records_stored", fmt.Sprintf("records %s of a produce entry that principal %q was not allowed to write are stored in S3 object %s", id, c24ReqPrincipal(cs.Reqs[i]), k),
						witness(i, map[string]any{"object": k}))
					break
				}
			}
		}
	}
}

func TestVerifC24Seq(t *testing.T) {
	r := verifkit.Start(t, "C24", "seq")
	defer r.Finish("real broker handler (real coordinator, InMemoryStore, PartitionLogs, recording fake S3) with an ACL authorizer built from a generated config (default deny/allow, principals with empty/producer/consumer/admin/superuser/superuser-with-deny-holes/exact-name/random rule sets, an unknown principal, anonymous; installed through KAFSCALE_ACL_JSON / _FILE / broken JSON / no config / directly), topic auto-creation on or off; sequences of wire-encoded requests over all 21 API keys whose bodies mix topics/groups the principal may and may not touch, after protected state (records, stable groups, committed offsets, a topic config) was seeded. "+
		"Per entry the needed permission is: produce->produce on the topic; fetch/list-offsets/offset-for-leader-epoch/describe-configs(topic)->fetch on the topic; offset-commit/join/sync/heartbeat/leave->group_write on the group; offset-fetch/describe-groups->group_read; list-groups->group_read on *; delete-groups->group_admin; create/delete-topics, create-partitions, alter-configs, describe-configs(broker)->admin on the cluster; metadata/find-coordinator/api-versions have no permission, but a topic may only come into being through metadata for a principal holding produce or fetch on it or cluster admin. Whether the principal holds a permission is asked of a separately built acl.Authorizer. "+
		"Demanded: (1) every difference between the full snapshots before/after the request (topics, partition counts, configs, next offsets, in-memory log ends, committed offsets, group records, S3 objects) and every successful mutating store call lies in the topic/group of an entry the principal is entitled to; (2) every entry it is not entitled to is present in the reply with TOPIC/GROUP/CLUSTER_AUTHORIZATION_FAILED and carries no record bytes, committed offset, member/assignment data, group list or config values; (3) after the sequence and a forced flush no S3 object contains a record of a denied produce entry. distinct = API x version x policy x auto-create x allowed/denied shape x body; non-trivial = the request had a denied entry that would have acted if served (existing partition with data, valid member+generation, existing group/topic, auto-create on ...) or mixed allowed+denied entries",
		"authorization error = code 29, 30 or 31 on the entry (or the request-level code for single-result APIs)",
		"a principal entitled to produce/fetch on a topic may cause its auto-creation (the broker's documented auto-create feature); only principals with no right on the topic at all are held to 'creates no topic'",
		"offset commit/fetch are judged by the group permission only (the code's and the ACL model's mapping: offsets are group state), not additionally by a topic permission as in Apache Kafka",
		"produce with acks=0 has no reply by protocol, so only inertness is demanded there",
		"'leak nothing' (title) is read as: no record bytes (statement) and, for denied entries, none of the values the entry asks for (committed offset, members, assignment, config values)")
	n := r.N(500, 16000)
	replay := verifkit.Replay()
	for ci := 0; ci < n; ci++ {
		rng := r.Rand(ci)
		cs := &c24Case{Setup: c24GenSetup(rng)}
		nreq := 6 + rng.Intn(r.N(9, 14))
		label := fmt.Sprintf("seed%d/%d", r.Seed, ci)
		if replay != nil {
			b, _ := json.Marshal(replay)
			var rc c24Case
			if json.Unmarshal(b, &rc) != nil || len(rc.Reqs) == 0 {
				t.Fatalf("c24: VERIF_REPLAY is not a C24 witness")
			}
			cs, nreq, label = &rc, 0, "replay"
		}
		synctest.Test(t, func(t *testing.T) {
			if replay != nil {
				c24RunCase(t, r, cs, label, nil)
				return
			}
			c24RunCase(t, r, cs, label, func(i int, sn *c24Snap, w *c24World) *c24Req {
				if i >= nreq {
					return nil
				}
				rq := c24GenReq(rng, fmt.Sprintf("%d.%d", ci, i), sn, cs.Setup.AutoCreate)
				if rng.Intn(2) == 0 && rq.ConnPrincipal == "" {
					// workload shaping only: prefer a sender for whom the body mixes entitled and not entitled entries
					names := []string{"alice", "bob", "carol", "dave", ""}
					rng.Shuffle(len(names), func(a, b int) { names[a], names[b] = names[b], names[a] })
					keep := rq.ClientID
					for _, nm := range names {
						rq.ClientID = nil
						if nm != "" {
							rq.ClientID = kmsg.StringPtr(nm)
						}
						if a, d, _, _ := c24Shape(w.entries(rq, sn)); a > 0 && d > 0 {
							keep = rq.ClientID
							break
						}
					}
					rq.ClientID = keep
				}
				return rq
			})
		})
		if replay != nil {
			break
		}
	}
	r.Floor("entries_denied_that_would_have_acted", int64(r.N(600, 18000)))
	r.Floor("mixed_requests", int64(r.N(100, 3000)))
	r.Floor("allowed_entries_served_in_mixed_requests", int64(r.N(50, 1500)))
	r.Floor("apis_with_denied_entries_that_would_have_acted", 17)
	r.Floor("denied_entries_with_authorization_error_and_no_data", int64(r.N(1000, 30000)))
}

// ---------------------------------------------------------------- directed leg: every API aimed at seeded state, by principals without any right

func c24DirectedReqs(cid *string, conn string) []*c24Req {
	mk := func(api string, v int16, f func(rq *c24Req)) *c24Req {
		rq := &c24Req{API: api, Version: v, ClientID: cid, ConnPrincipal: conn, Group: "g-a", MemberRef: "valid", GenRef: "valid"}
		if f != nil {
			f(rq)
		}
		return rq
	}
	tp := func(name string, parts ...c24Part) []c24Topic { return []c24Topic{{Name: name, Parts: parts}} }
	return []*c24Req{
		mk("apiversions", 3, nil),
		mk("findcoordinator", 3, nil),
		mk("metadata", 9, func(rq *c24Req) { rq.Topics = []c24Topic{{Name: "t-a"}} }),
		mk("metadata", 12, func(rq *c24Req) { rq.NullTopics = true }),
		mk("metadata", 1, func(rq *c24Req) { rq.Topics = []c24Topic{{Name: "m-new"}} }),
		mk("metadata", 12, func(rq *c24Req) { rq.Topics = []c24Topic{{Name: "t-a"}, {Name: "m-new2"}, {Name: "t-b", ByID: true}} }),
		mk("produce", 9, func(rq *c24Req) { rq.Acks = -1; rq.Topics = tp("t-a", c24Part{P: 0, ID: "<d.1>", NRec: 2}, c24Part{P: 2, ID: "<d.2>", NRec: 1}) }),
		mk("produce", 3, func(rq *c24Req) { rq.Acks = 1; rq.Topics = tp("t-b", c24Part{P: 1, ID: "<d.3>", NRec: 1}) }),
		mk("produce", 7, func(rq *c24Req) { rq.Acks = 0; rq.Topics = tp("s-c", c24Part{P: 0, ID: "<d.4>", NRec: 1}) }),
		mk("produce", 9, func(rq *c24Req) { rq.Acks = -1; rq.Topics = tp("p-new", c24Part{P: 0, ID: "<d.5>", NRec: 1}) }),
		mk("produce", 9, func(rq *c24Req) { rq.Acks = 0; rq.Topics = tp("p-new0", c24Part{P: 0, ID: "<d.6>", NRec: 1}) }),
		mk("fetch", 11, func(rq *c24Req) { rq.Topics = tp("t-a", c24Part{P: 0, Off: 0}, c24Part{P: 1, Off: 0}) }),
		mk("fetch", 12, func(rq *c24Req) { rq.MaxWaitMs = 5; rq.Topics = tp("s-c", c24Part{P: 0, Off: 1}) }),
		mk("fetch", 13, func(rq *c24Req) { rq.Topics = tp("t-b", c24Part{P: 0, Off: 0}) }),
		mk("fetch", 12, func(rq *c24Req) { rq.Topics = tp("f-new", c24Part{P: 0, Off: 0}) }),
		mk("listoffsets", 4, func(rq *c24Req) { rq.Topics = tp("t-a", c24Part{P: 0, Off: -1}, c24Part{P: 1, Off: -2}) }),
		mk("listoffsets", 1, func(rq *c24Req) { rq.Topics = tp("l-new", c24Part{P: 0, Off: -2}) }),
		mk("offsetforleaderepoch", 3, func(rq *c24Req) { rq.Topics = tp("t-a", c24Part{P: 0, Off: 0}) }),
		mk("offsetcommit", 3, func(rq *c24Req) { rq.Topics = tp("t-a", c24Part{P: 0, Off: 777001, Meta: "meta<d.1>"}, c24Part{P: 1, Off: 777002, Meta: "meta<d.2>"}) }),
		mk("offsetcommit", 3, func(rq *c24Req) { rq.Group = "h-c"; rq.Topics = tp("s-c", c24Part{P: 0, Off: 777003, Meta: "meta<d.3>"}) }),
		mk("offsetfetch", 5, func(rq *c24Req) { rq.Topics = tp("t-a", c24Part{P: 0}) }),
		mk("offsetfetch", 5, func(rq *c24Req) { rq.Group = "h-c"; rq.Topics = tp("s-c", c24Part{P: 0}) }),
		mk("offsetfetch", 5, func(rq *c24Req) { rq.NullTopics = true }),
		mk("joingroup", 4, func(rq *c24Req) { rq.Topics = []c24Topic{{Name: "t-a"}} }),
		mk("joingroup", 4, func(rq *c24Req) { rq.MemberRef = ""; rq.Topics = []c24Topic{{Name: "t-a"}} }),
		mk("joingroup", 4, func(rq *c24Req) { rq.Group = "j-new"; rq.MemberRef = ""; rq.Topics = []c24Topic{{Name: "t-b"}} }),
		mk("syncgroup", 4, nil),
		mk("heartbeat", 4, nil),
		mk("leavegroup", 2, nil),
		mk("leavegroup", 4, nil),
		mk("describegroups", 5, func(rq *c24Req) { rq.Groups = []string{"g-a", "h-c", "nope"} }),
		mk("listgroups", 4, nil),
		mk("listgroups", 0, nil),
		mk("deletegroups", 2, func(rq *c24Req) { rq.Groups = []string{"h-c", "g-a"} }),
		mk("createtopics", 2, func(rq *c24Req) { rq.Topics = []c24Topic{{Name: "c-new", Count: 2}} }),
		mk("createtopics", 0, func(rq *c24Req) { rq.Topics = []c24Topic{{Name: "c-new0", Count: 1}, {Name: "t-a", Count: 1}} }),
		mk("deletetopics", 2, func(rq *c24Req) { rq.Topics = []c24Topic{{Name: "t-b"}} }),
		mk("deletetopics", 0, func(rq *c24Req) { rq.Topics = []c24Topic{{Name: "s-c"}, {Name: "nope"}} }),
		mk("createpartitions", 3, func(rq *c24Req) { rq.Topics = []c24Topic{{Name: "t-a", Count: 6}} }),
		mk("createpartitions", 0, func(rq *c24Req) { rq.Topics = []c24Topic{{Name: "s-c", Count: 2}} }),
		mk("alterconfigs", 1, func(rq *c24Req) { rq.Res = []c24Res{{Type: 2, Name: "t-a", Set: [][2]string{{"retention.ms", "7777777"}}}, {Type: 2, Name: "t-b", Set: [][2]string{{"segment.bytes", "7777"}}}} }),
		mk("alterconfigs", 1, func(rq *c24Req) { rq.Res = []c24Res{{Type: 4, Name: "1", Set: [][2]string{{"retention.ms", "1"}}}} }),
		mk("describeconfigs", 4, func(rq *c24Req) { rq.Res = []c24Res{{Type: 2, Name: "t-a"}, {Type: 4, Name: "1"}, {Type: 8, Name: "1"}, {Type: 2, Name: "t-b", Names: []string{"retention.ms"}}} }),
	}
}

func TestVerifC24Directed(t *testing.T) {
	r := verifkit.Start(t, "C24", "directed")
	defer r.Finish("same world, monitors and oracle as leg seq, but a fixed enumeration: every API key (43 directed requests: each aimed at the seeded records / stable groups / committed offsets / topic config, or at a topic or group that does not exist yet) x principal without any right (listed with empty rules, unknown, anonymous without client id, blank client id, connection principal overriding a privileged client id, listed under default-allow with a deny-everything rule, broken ACL JSON, ACL enabled without config) x auto-create on/off x flush-on-ack on/off; plus a principal entitled to t-a/g-a only, sending the mixed variants. Every request is issued against the state left by the previous ones (which must be the seeded state, since nothing may change)",
		"see leg seq")
	type who struct {
		name   string
		cid    *string
		conn   string
		policy string
		rules  []acl.PrincipalRules
		via    string
	}
	root := acl.PrincipalRules{Name: "root", Allow: []acl.Rule{{Action: "*", Resource: "*", Name: "*"}}}
	whos := []who{
		{"listed_empty", kmsg.StringPtr("bob"), "", "deny", []acl.PrincipalRules{root, {Name: "bob"}}, "env_json"},
		{"unknown", kmsg.StringPtr("ghost"), "", "deny", []acl.PrincipalRules{root, {Name: "bob"}}, "direct"},
		{"anonymous_nil_client_id", nil, "", "", []acl.PrincipalRules{root}, "env_file"},
		{"anonymous_blank_client_id", kmsg.StringPtr(" "), "", "deny", []acl.PrincipalRules{root}, "direct"},
		{"conn_principal_over_root_client_id", kmsg.StringPtr("root"), "mallory", "deny", []acl.PrincipalRules{root}, "env_json"},
		{"default_allow_deny_all_rule", kmsg.StringPtr("bob"), "", "allow", []acl.PrincipalRules{root, {Name: "bob", Deny: []acl.Rule{{Action: "*", Resource: "*", Name: "*"}}}}, "env_json"},
		{"default_allow_deny_all_beats_allow", kmsg.StringPtr("bob"), "", "allow", []acl.PrincipalRules{{Name: "bob", Allow: []acl.Rule{{Action: "*", Resource: "*", Name: "*"}}, Deny: []acl.Rule{{}}}}, "direct"},
		{"broken_acl_json", kmsg.StringPtr("root"), "", "allow", []acl.PrincipalRules{root}, "env_broken_json"},
		{"acl_enabled_without_config", kmsg.StringPtr("root"), "", "allow", []acl.PrincipalRules{root}, "env_no_config"},
	}
	n := 0
	for _, wh := range whos {
		for _, auto := range []bool{true, false} {
			for _, foa := range []bool{true, false} {
				cs := &c24Case{Setup: c24Setup{ACL: acl.Config{Enabled: true, DefaultPolicy: wh.policy, Principals: wh.rules}, Via: wh.via, AutoCreate: auto, AutoParts: 1, FlushOnAck: foa, AdminAPIs: true},
					Reqs: c24DirectedReqs(wh.cid, wh.conn)}
				label := fmt.Sprintf("directed/%s/auto=%v/flush=%v/%d", wh.name, auto, foa, n)
				n++
				synctest.Test(t, func(t *testing.T) { c24RunCase(t, r, cs, label, nil) })
			}
		}
	}
	// a principal entitled to exactly t-a and g-a sends requests that mix entitled and not entitled entries
	mia := acl.PrincipalRules{Name: "mia", Allow: []acl.Rule{{Action: "produce", Resource: "topic", Name: "t-a"}, {Action: "fetch", Resource: "topic", Name: "t-a"},
		{Action: "group_read", Resource: "group", Name: "g-a"}, {Action: "group_write", Resource: "group", Name: "g-a"}, {Action: "group_admin", Resource: "group", Name: "g-a"}}}
	cid := kmsg.StringPtr("mia")
	mixed := func() []*c24Req {
		return []*c24Req{
			{API: "produce", Version: 9, ClientID: cid, Acks: -1, Topics: []c24Topic{{Name: "t-b", Parts: []c24Part{{P: 0, ID: "<m.1>", NRec: 1}}}, {Name: "t-a", Parts: []c24Part{{P: 0, ID: "<m.2>", NRec: 2}}}, {Name: "s-c", Parts: []c24Part{{P: 0, ID: "<m.3>", NRec: 1}}}}},
			{API: "produce", Version: 9, ClientID: cid, Acks: 1, Topics: []c24Topic{{Name: "t-a", Parts: []c24Part{{P: 1, ID: "<m.4>", NRec: 1}}}, {Name: "mx-new", Parts: []c24Part{{P: 0, ID: "<m.5>", NRec: 1}}}}},
			{API: "fetch", Version: 12, ClientID: cid, Topics: []c24Topic{{Name: "t-a", Parts: []c24Part{{P: 0, Off: 0}}}, {Name: "t-b", Parts: []c24Part{{P: 0, Off: 0}}}, {Name: "s-c", Parts: []c24Part{{P: 0, Off: 0}}}}},
			{API: "fetch", Version: 13, ClientID: cid, Topics: []c24Topic{{Name: "t-b", Parts: []c24Part{{P: 0, Off: 0}}}, {Name: "t-a", Parts: []c24Part{{P: 1, Off: 0}}}}},
			{API: "listoffsets", Version: 4, ClientID: cid, Topics: []c24Topic{{Name: "t-a", Parts: []c24Part{{P: 0, Off: -1}}}, {Name: "t-b", Parts: []c24Part{{P: 0, Off: -1}}}}},
			{API: "offsetforleaderepoch", Version: 3, ClientID: cid, Topics: []c24Topic{{Name: "t-b", Parts: []c24Part{{P: 0}}}, {Name: "t-a", Parts: []c24Part{{P: 0}}}}},
			{API: "describeconfigs", Version: 4, ClientID: cid, Res: []c24Res{{Type: 2, Name: "t-b"}, {Type: 2, Name: "t-a"}, {Type: 4, Name: "1"}}},
			{API: "describegroups", Version: 5, ClientID: cid, Groups: []string{"h-c", "g-a"}},
			{API: "metadata", Version: 9, ClientID: cid, Topics: []c24Topic{{Name: "t-a"}, {Name: "mx-new2"}}},
			{API: "offsetcommit", Version: 3, ClientID: cid, Group: "h-c", MemberRef: "valid", GenRef: "valid", Topics: []c24Topic{{Name: "t-a", Parts: []c24Part{{P: 0, Off: 888001, Meta: "meta<m.1>"}}}}},
			{API: "offsetcommit", Version: 3, ClientID: cid, Group: "g-a", MemberRef: "valid", GenRef: "valid", Topics: []c24Topic{{Name: "t-a", Parts: []c24Part{{P: 0, Off: 888002, Meta: "meta<m.2>"}}}}},
			{API: "deletegroups", Version: 2, ClientID: cid, Groups: []string{"h-c", "g-a"}},
		}
	}
	for _, auto := range []bool{true, false} {
		for _, policy := range []string{"deny", "allow"} {
			rules := []acl.PrincipalRules{mia}
			if policy == "allow" {
				// under default-allow the same entitlement needs explicit denies for everything else
				m := mia
				m.Deny = []acl.Rule{{Action: "*", Resource: "topic", Name: "t-b"}, {Action: "*", Resource: "topic", Name: "s-*"}, {Action: "*", Resource: "topic", Name: "mx-*"}, {Action: "*", Resource: "group", Name: "h-*"}, {Action: "admin", Resource: "cluster", Name: "*"}}
				rules = []acl.PrincipalRules{m}
			}
			cs := &c24Case{Setup: c24Setup{ACL: acl.Config{Enabled: true, DefaultPolicy: policy, Principals: rules}, Via: "env_json", AutoCreate: auto, AutoParts: 1, FlushOnAck: true, AdminAPIs: true}, Reqs: mixed()}
			label := fmt.Sprintf("directed/mixed/%s/auto=%v/%d", policy, auto, n)
			n++
			synctest.Test(t, func(t *testing.T) { c24RunCase(t, r, cs, label, nil) })
		}
	}
	r.Floor("apis_with_denied_entries_that_would_have_acted", 19)
	r.Floor("entries_denied_that_would_have_acted", 1200)
	r.Floor("allowed_entries_served_in_mixed_requests", 12)
}

