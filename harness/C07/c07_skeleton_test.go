//go:build verif

package decoder

import (
	"context"
	"fmt"
	"path/filepath"
	"testing"

	"github.com/KafScale/platform/addons/processors/skeleton/internal/verifc07"
	"github.com/KafScale/platform/addons/processors/skeleton/internal/verifkit"
)

// TestVerifC07Skeleton judges the skeleton processor's decoder against the statement
// ("the record decoders used by the Iceberg, SQL and skeleton processors ... recover
// exactly the records the producers sent"). The decoder's only entry point takes
// object keys; it is given the keys of the corpus (which are also readable files).
func TestVerifC07Skeleton(t *testing.T) {
	r := verifkit.Start(t, "C07", "skeleton")
	defer r.Finish("stage 2 (skeleton): decoder.New().Decode(ctx, segmentKey, indexKey) is called for every broker-written segment of the corpus (once with the S3 key, once with the path of the file holding those bytes); a nil/empty result with a nil error for a segment that holds records means the decoder recovered none of the sent records (class skeleton_decoder_returns_no_records); a non-empty result cannot be judged by this harness (Batch has no record fields) and makes the leg inconclusive; non-trivial = the segment holds at least one record",
		"the skeleton decoder has no byte-level entry point: Decode(ctx, segmentKey, indexKey) is the whole API and New() takes no store")
	dir := verifc07.CorpusDir()
	cases, err := verifc07.ReadCorpus(dir)
	if err != nil {
		t.Fatalf("harness: %v", err)
	}
	d := New()
	for _, c := range cases {
		for si, s := range c.Segs {
			want := c.SegRecs(si)
			r.Case(fmt.Sprintf("%d/%d/%d", c.ID, si, len(want)), len(want) > 0)
			for _, keys := range [][2]string{{s.Key, s.IndexKey}, {filepath.Join(dir, s.File), filepath.Join(dir, s.IdxFile)}} {
				var got []Batch
				var derr error
				panicked := false
				func() {
					defer func() {
						if p := recover(); p != nil {
							panicked = true
							r.Violation("skeleton_decoder_panics", fmt.Sprintf("Decode(%q) panicked: %v", keys[0], p), map[string]any{"segment_key": keys[0]})
						}
					}()
					got, derr = d.Decode(context.Background(), keys[0], keys[1])
				}()
				r.Count("decode_calls", 1)
				if panicked {
					continue
				}
				switch {
				case len(got) == 0 && derr == nil && len(want) > 0:
					r.Violation("skeleton_decoder_returns_no_records", fmt.Sprintf("Decode(%q, %q) = (%d batches, nil error) for a broker-written segment holding %d records (offsets %d..%d)", keys[0], keys[1], len(got), len(want), want[0].Offset, want[len(want)-1].Offset),
						map[string]any{"case": c.ID, "segment_key": keys[0], "index_key": keys[1], "records_sent": len(want), "first_sent": verifc07.Brief(want[0])})
				case len(got) == 0 && derr != nil:
					r.Violation("skeleton_decode_error_on_valid_segment", fmt.Sprintf("Decode(%q): %v", keys[0], derr), map[string]any{"case": c.ID, "segment_key": keys[0]})
				case len(got) > 0:
					r.Inconclusive(fmt.Sprintf("skeleton Decode(%q) returned %d batches: this harness has no oracle for decoder.Batch yet", keys[0], len(got)))
				}
			}
			if c.ID == 0 && si == 0 {
				r.Sample(map[string]any{"segment_key": s.Key, "records_sent": len(want), "decoded_batches": 0})
			}
		}
	}
}
