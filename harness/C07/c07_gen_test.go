//go:build verif

package main

import (
	"context"
	"encoding/binary"
	"fmt"
	"io"
	"log/slog"
	"math/rand"
	"os"
	"sort"
	"strings"
	"testing"

	"github.com/KafScale/platform/internal/verifc07"
	"github.com/KafScale/platform/internal/verifkit"
	"github.com/KafScale/platform/internal/verifkit/kbatch"
	"github.com/KafScale/platform/pkg/metadata"
	"github.com/KafScale/platform/pkg/protocol"
	"github.com/KafScale/platform/pkg/storage"
	"github.com/twmb/franz-go/pkg/kmsg"
)

// timestamp deltas the quantifier names explicitly ("any timestamp deltas including negative"):
// around 0, around the int32 / zig-zag-int32 edges, far beyond them, both signs.
var c07Deltas = []int64{
	0, 1, -1, -1000, 86400000,
	1<<30 - 1, 1 << 30, 1<<30 + 1, 1<<31 - 1, 1 << 31, 1<<31 + 7, 1 << 32, 1 << 33, 1<<34 - 1, 1 << 34, 1 << 35, 1 << 40, 1 << 45,
	-(1 << 30), -(1 << 30) - 1, -(1 << 31), -(1 << 31) - 1, -(1 << 33), -(1 << 34) - 1, -(1 << 40),
}

type c07Stats struct {
	nullKey, emptyKey, nullVal, emptyVal, hdrs, hdrNullVal, hdrEmptyVal, hdrEmptyKey, maxHdrs      int
	tsNeg, tsOverInt32, tsZero, tsOver5ByteVarint, delta0NonZero, bigBatch, oneRecordBatch, bigVal int
}

// c07GenBatch builds one well-formed, uncompressed v2 batch. Every record carries a
// unique id (case/batch/index) in its value, or in its key when the value is
// null/empty, or in an "id" header when both are.
func c07GenBatch(rng *rand.Rand, caseID, batchIdx int, hostileTS bool, st *c07Stats) kbatch.Batch {
	var n int
	switch x := rng.Intn(10); {
	case x < 1:
		n = 1
	case x < 4:
		n = 1 + rng.Intn(5)
	case x < 8:
		n = 6 + rng.Intn(35)
	default:
		n = 100 + rng.Intn(101)
	}
	if n == 1 {
		st.oneRecordBatch++
	}
	if n >= 100 {
		st.bigBatch++
	}
	first := int64(1_600_000_000_000) + rng.Int63n(200_000_000_000)
	b := kbatch.Batch{Magic: 2, FirstTimestamp: first, MaxTimestamp: first, ProducerID: -1, ProducerEpoch: -1, BaseSequence: -1,
		PartitionLeaderEpoch: int32(rng.Intn(3)) - 1}
	if rng.Intn(4) == 0 { // idempotent producer fields are legal in a well-formed batch
		b.ProducerID, b.ProducerEpoch, b.BaseSequence = int64(rng.Intn(1000)), int16(rng.Intn(5)), int32(rng.Intn(100000))
	}
	delta0NonZero := rng.Intn(5) == 0
	for i := 0; i < n; i++ {
		id := fmt.Sprintf("c%d/b%d/r%d", caseID, batchIdx, i)
		rec := kbatch.Record{OffsetDelta: int32(i)}
		payload := make([]byte, rng.Intn(48))
		if rng.Intn(60) == 0 {
			payload = make([]byte, 1500+rng.Intn(6000))
			st.bigVal++
		}
		rng.Read(payload)
		idCarried := false
		switch rng.Intn(6) {
		case 0:
			rec.Value = nil
			st.nullVal++
		case 1:
			rec.Value = []byte{}
			st.emptyVal++
		default:
			rec.Value = append([]byte(id+":"), payload...)
			idCarried = true
		}
		switch rng.Intn(6) {
		case 0:
			rec.Key = nil
			st.nullKey++
		case 1:
			rec.Key = []byte{}
			st.emptyKey++
		default:
			if idCarried {
				rec.Key = []byte(fmt.Sprintf("k%d", rng.Intn(5)))
			} else {
				rec.Key = []byte("key:" + id)
				idCarried = true
			}
		}
		nh := 0
		if rng.Intn(2) == 0 {
			nh = rng.Intn(6) // 0..5
		}
		for h := 0; h < nh; h++ {
			hd := kbatch.Header{Key: fmt.Sprintf("h%d", rng.Intn(4)), Value: []byte(fmt.Sprintf("v%d", rng.Intn(1000)))}
			switch rng.Intn(7) {
			case 0:
				hd.Value = nil
				st.hdrNullVal++
			case 1:
				hd.Value = []byte{}
				st.hdrEmptyVal++
			case 2:
				hd.Key = ""
				st.hdrEmptyKey++
			case 3:
				hd.Key = "ключ-☃" // header keys are UTF-8 strings
			}
			rec.Headers = append(rec.Headers, hd)
		}
		if !idCarried {
			rec.Headers = append(rec.Headers, kbatch.Header{Key: "id", Value: []byte(id)})
		}
		st.hdrs += len(rec.Headers)
		if len(rec.Headers) > st.maxHdrs {
			st.maxHdrs = len(rec.Headers)
		}
		switch {
		case i == 0 && !delta0NonZero:
			rec.TimestampDelta = 0
		case hostileTS && rng.Intn(3) == 0:
			rec.TimestampDelta = c07Deltas[rng.Intn(len(c07Deltas))]
		case hostileTS && rng.Intn(8) == 0:
			rec.TimestampDelta = rng.Int63n(1<<46) - 1<<45
		default:
			rec.TimestampDelta = int64(i)*int64(rng.Intn(20)) - int64(rng.Intn(3)) // mostly increasing, sometimes slightly negative
		}
		if i == 0 && rec.TimestampDelta != 0 {
			st.delta0NonZero++
		}
		switch d := rec.TimestampDelta; {
		case d == 0:
			st.tsZero++
		case d < 0:
			st.tsNeg++
		}
		if d := rec.TimestampDelta; d >= 1<<31 || d < -(1<<31) {
			st.tsOverInt32++
		}
		if d := rec.TimestampDelta; d >= 1<<34 || d < -(1<<34) {
			st.tsOver5ByteVarint++
		}
		if b.FirstTimestamp+rec.TimestampDelta > b.MaxTimestamp {
			b.MaxTimestamp = b.FirstTimestamp + rec.TimestampDelta
		}
		b.Records = append(b.Records, rec)
	}
	return b
}

// c07Fixed are the minimal cases every run starts with (one batch, one record each):
// the smallest witnesses for the timestamp-delta edges and for null-vs-empty.
func c07Fixed(ci int) (kbatch.Batch, bool) {
	first := int64(1_700_000_000_000)
	mk := func(rec kbatch.Record) kbatch.Batch {
		b := kbatch.Batch{Magic: 2, FirstTimestamp: first, MaxTimestamp: first, ProducerID: -1, ProducerEpoch: -1, BaseSequence: -1, Records: []kbatch.Record{rec}}
		if rec.TimestampDelta > 0 {
			b.MaxTimestamp = first + rec.TimestampDelta
		}
		return b
	}
	id := []byte(fmt.Sprintf("c%d/b0/r0:fixed", ci))
	switch ci {
	case 0:
		return mk(kbatch.Record{Key: []byte("k"), Value: id, TimestampDelta: 1 << 30}), true
	case 1:
		return mk(kbatch.Record{Key: []byte("k"), Value: id, TimestampDelta: 1 << 34}), true
	case 2:
		return mk(kbatch.Record{Key: []byte("k"), Value: id, TimestampDelta: -(1 << 30) - 1}), true
	case 3:
		return mk(kbatch.Record{Key: nil, Value: nil, Headers: []kbatch.Header{{Key: "", Value: nil}, {Key: "id", Value: id}}}), true
	case 4:
		return mk(kbatch.Record{Key: []byte{}, Value: []byte{}, Headers: []kbatch.Header{{Key: "id", Value: id}, {Key: "e", Value: []byte{}}}}), true
	case 5:
		return mk(kbatch.Record{Key: []byte("k"), Value: id, TimestampDelta: 1<<30 - 1}), true
	}
	return kbatch.Batch{}, false
}

const c07NFixed = 6

func c07ToRecs(b kbatch.Batch, batchIdx int, base int64) []verifc07.Rec {
	var out []verifc07.Rec
	for _, r := range b.Records {
		x := verifc07.Rec{Offset: base + int64(r.OffsetDelta), Timestamp: b.FirstTimestamp + r.TimestampDelta, FirstTS: b.FirstTimestamp,
			TsDelta: r.TimestampDelta, OffDelta: r.OffsetDelta, Batch: batchIdx, Key: r.Key, KeyNull: r.Key == nil, Value: r.Value, ValueNull: r.Value == nil,
			Raw: kbatch.EncodeRecord(r)}
		for _, h := range r.Headers {
			x.Headers = append(x.Headers, verifc07.Hdr{Key: h.Key, Value: h.Value, ValueNull: h.Value == nil})
		}
		out = append(out, x)
	}
	return out
}

// TestVerifC07Gen is stage 1: generated well-formed batches go through the real
// broker produce handler (handleProduce -> NewRecordBatchFromBytes -> PartitionLog.AppendBatch
// -> Flush -> BuildSegment -> S3Client) and every segment/index object found in the
// store afterwards is judged by the structural oracle and dumped for the decoder legs.
func TestVerifC07Gen(t *testing.T) {
	r := verifkit.Start(t, "C07", "gen")
	defer r.Finish("stage 1: six fixed one-record cases (timestamp delta 2^30-1, 2^30, 2^34, -(2^30)-1; null key+value with an empty-key/null-value header; empty key+value) then PRNG-generated well-formed uncompressed v2 batches (1-200 records; null/empty/non-empty keys and values; 0-5(+1) headers incl. empty key, null and empty value; timestamp deltas 0, negative, around and far beyond 2^30/2^31/2^34) are produced through the real handler.handleProduce with acks -1/0 mixed (so segments hold 1..n batches) under three broker configurations (default, 2 KiB segment threshold, no flush on ack); every segment/index object then found in the S3 fake is checked: KAFS magic, version 1, header base offset == key base == first stored record offset, header message count == records stored, END! footer with last offset == last stored record offset, footer CRC == CRC32C(body), body == the producer's batches byte for byte except the 8-byte base offset field, index magic/version/count, entry offsets strictly increasing, each entry position is the first byte of a batch holding that offset; non-trivial = case has a segment with >=2 batches or an index with >=2 entries",
		"compressed batches are out of scope: every decoder rejects them with an explicit error and the quantifier lists record count, null/empty, headers and timestamp deltas only",
		"offsets the producer 'sent': the base offset in the produce response (acks=-1) or, for acks=0, the next sequential offset",
		"S3 fake is storage.MemoryS3Client (atomic put, read-after-write)")
	dir := verifc07.CorpusDir()
	ctx := context.Background()
	t.Setenv("KAFSCALE_FLUSH_INTERVAL_MS", "86400000") // no wall-clock-triggered flushes: segmentation is decided by acks and size only
	type cfg struct {
		name string
		env  map[string]string
	}
	cfgs := []cfg{
		{"default", nil},
		{"small-segments", map[string]string{"KAFSCALE_SEGMENT_BYTES": "2048"}},
		{"no-sync-flush", map[string]string{"KAFSCALE_PRODUCE_SYNC_FLUSH": "false", "KAFSCALE_SEGMENT_BYTES": "6000"}},
	}
	type env struct {
		h  *handler
		s3 *storage.MemoryS3Client
	}
	envs := make([]env, len(cfgs))
	for i, c := range cfgs {
		for k, v := range c.env {
			t.Setenv(k, v)
		}
		s3 := storage.NewMemoryS3Client()
		broker := protocol.MetadataBroker{NodeID: 1, Host: "localhost", Port: 19092}
		envs[i] = env{newHandler(metadata.NewInMemoryStore(metadataForBroker(broker)), s3, broker, slog.New(slog.NewTextHandler(io.Discard, nil))), s3}
		for k := range c.env {
			os.Unsetenv(k) // t.Setenv restores the original value at the end of the test
		}
	}
	n := r.N(60, 400)
	var st c07Stats
	for ci := 0; ci < n; ci++ {
		rng := r.Rand(ci)
		e := envs[ci%len(envs)] // the fixed cases and the first PRNG cases cover every configuration, the rest is PRNG
		if ci >= c07NFixed+6 {
			e = envs[rng.Intn(len(envs))]
		}
		topic := fmt.Sprintf("c07-%d", ci)
		part := int32(rng.Intn(3))
		hostile := rng.Intn(2) == 0
		nb := 1 + rng.Intn(r.N(6, 12))
		bulk := rng.Intn(3) == 0 // many unacknowledged batches in a row under the default configuration: segments with several batches and several index entries
		if bulk {
			nb = 5 + rng.Intn(6)
			e = envs[0]
		}
		if ci < c07NFixed {
			nb, hostile, bulk = 1, false, false
		}
		c := &verifc07.Case{ID: ci, Namespace: "default", Topic: topic, Partition: part, HostileTS: hostile}
		next := int64(0)
		var sigParts []any
		for bi := 0; bi < nb; bi++ {
			b := c07GenBatch(rng, ci, bi, hostile, &st)
			if fb, ok := c07Fixed(ci); ok {
				b = fb
			}
			if b.Records[0].TimestampDelta != 0 {
				c.Delta0 = true
			}
			wire := kbatch.Encode(b)
			if _, _, err := kbatch.Decode(wire); err != nil { // the reference codec must accept its own output
				t.Fatalf("harness: generated batch does not decode: %v", err)
			}
			acks := int16(-1)
			if bi < nb-1 && (bulk || rng.Intn(2) == 0) {
				acks = 0
			}
			req := &kmsg.ProduceRequest{Acks: acks, TimeoutMillis: 1000, Topics: []kmsg.ProduceRequestTopic{{Topic: topic,
				Partitions: []kmsg.ProduceRequestTopicPartition{{Partition: part, Records: append([]byte(nil), wire...)}}}}}
			payload, err := e.h.handleProduce(ctx, &protocol.RequestHeader{CorrelationID: int32(bi), APIVersion: 7}, req)
			if err != nil {
				t.Fatalf("harness: handleProduce: %v", err)
			}
			base := next
			if acks != 0 {
				resp := kmsg.NewPtrProduceResponse()
				resp.SetVersion(7)
				if len(payload) < 4 || resp.ReadFrom(payload[4:]) != nil || len(resp.Topics) != 1 || len(resp.Topics[0].Partitions) != 1 {
					t.Fatalf("harness: cannot read produce response (%d bytes)", len(payload))
				}
				pr := resp.Topics[0].Partitions[0]
				if pr.ErrorCode != 0 {
					t.Fatalf("harness: produce of a well-formed batch refused with error code %d", pr.ErrorCode)
				}
				if pr.BaseOffset != next {
					r.Inconclusive(fmt.Sprintf("case %d batch %d: produce response base offset %d, previous batches end at %d (offset assignment is property C02)", ci, bi, pr.BaseOffset, next-1))
				}
				base = pr.BaseOffset
			}
			r.Count("produce_acks_"+map[int16]string{-1: "all", 0: "none"}[acks], 1)
			c.BatchBytes = append(c.BatchBytes, wire)
			c.BatchBase = append(c.BatchBase, base)
			c.Recs = append(c.Recs, c07ToRecs(b, bi, base)...)
			next = base + int64(len(b.Records))
			sigParts = append(sigParts, len(b.Records), acks)
		}
		// whatever is still buffered (acks=0 tail, no-sync-flush configuration) is flushed the way the broker's own flush loop does
		plog, err := e.h.getPartitionLog(ctx, topic, part)
		if err != nil {
			t.Fatalf("harness: getPartitionLog: %v", err)
		}
		if err := plog.Flush(ctx); err != nil {
			t.Fatalf("harness: Flush: %v", err)
		}
		prefix := fmt.Sprintf("default/%s/%d/", topic, part)
		objs, err := e.s3.ListSegments(ctx, prefix)
		if err != nil {
			t.Fatalf("harness: ListSegments: %v", err)
		}
		sort.Slice(objs, func(i, j int) bool { return objs[i].Key < objs[j].Key })
		replay := func() map[string]any {
			return map[string]any{"case": ci, "seed": r.Seed, "tier": r.Tier, "topic": topic, "partition": part, "batches": len(c.BatchBytes), "records": len(c.Recs), "corpus_case_file": fmt.Sprintf("case-%05d.json", ci)}
		}
		for _, o := range objs {
			base, ok := verifc07.BaseFromKey(o.Key)
			if !ok || !strings.HasSuffix(o.Key, ".kfs") {
				r.Violation("unexpected_object_key", "object "+o.Key+" under the partition prefix is not segment-<offset>.kfs", replay())
				continue
			}
			c.Segs = append(c.Segs, verifc07.Seg{Key: o.Key, IndexKey: strings.TrimSuffix(o.Key, ".kfs") + ".index", Base: base})
		}
		sort.Slice(c.Segs, func(i, j int) bool { return c.Segs[i].Base < c.Segs[j].Base })
		stored := 0
		multiBatch, multiEntry := false, false
		for si := range c.Segs {
			s := &c.Segs[si]
			seg, err := e.s3.DownloadSegment(ctx, s.Key, nil)
			if err != nil {
				t.Fatalf("harness: DownloadSegment: %v", err)
			}
			idx, err := e.s3.DownloadIndex(ctx, s.IndexKey)
			if err != nil {
				r.Violation("index_object_missing", fmt.Sprintf("segment %s has no index object %s: %v", s.Key, s.IndexKey, err), replay())
			}
			if s.File, err = verifc07.PutObject(dir, ci, fmt.Sprintf("%d.kfs", si), seg); err != nil {
				t.Fatal(err)
			}
			if s.IdxFile, err = verifc07.PutObject(dir, ci, fmt.Sprintf("%d.index", si), idx); err != nil {
				t.Fatal(err)
			}
			recs := c.SegRecs(si)
			stored += len(recs)
			var wb [][]byte
			var wbase []int64
			for _, b := range c.SegBatches(si) {
				wb = append(wb, c.BatchBytes[b])
				wbase = append(wbase, c.BatchBase[b])
			}
			for _, p := range verifc07.CheckSegment(seg, idx, s.Base, wb, wbase, recs) {
				rp := replay()
				rp["segment_key"], rp["segment_file"], rp["index_file"] = s.Key, s.File, s.IdxFile
				if len(seg) <= 4096 {
					rp["segment_bytes"], rp["index_bytes"] = seg, idx
				}
				r.Violation(p.Class, fmt.Sprintf("%s: %s", s.Key, p.Detail), rp)
			}
			entries := 0
			if len(idx) >= 16 {
				entries = int(int32(binary.BigEndian.Uint32(idx[6:10])))
			}
			r.Count("segments", 1)
			r.Count("index_entries", int64(entries))
			if len(wb) >= 2 {
				multiBatch = true
				r.Count("segments_with_2plus_batches", 1)
			}
			if entries >= 2 {
				multiEntry = true
				r.Count("indexes_with_2plus_entries", 1)
			}
		}
		if stored != len(c.Recs) {
			r.Violation("sent_records_in_no_segment", fmt.Sprintf("%d of %d acknowledged/flushed records fall in no segment's offset range", len(c.Recs)-stored, len(c.Recs)), replay())
		}
		if err := verifc07.WriteCase(dir, c); err != nil {
			t.Fatal(err)
		}
		r.Count("records", int64(len(c.Recs)))
		r.Count("batches", int64(len(c.BatchBytes)))
		r.Case(verifkit.Hash(sigParts...)+verifkit.Hash(len(c.Segs), hostile), len(c.Segs) > 0 && (multiBatch || multiEntry))
		if ci < 2 {
			var segs []string
			for _, s := range c.Segs {
				segs = append(segs, s.Key)
			}
			r.Sample(map[string]any{"case": ci, "topic": topic, "partition": part, "batches": len(c.BatchBytes), "records": len(c.Recs), "segments": segs, "first_record": verifc07.Brief(c.Recs[0])})
		}
	}
	for k, v := range map[string]int{"null_keys": st.nullKey, "empty_keys": st.emptyKey, "null_values": st.nullVal, "empty_values": st.emptyVal, "headers": st.hdrs,
		"header_null_value": st.hdrNullVal, "header_empty_value": st.hdrEmptyVal, "header_empty_key": st.hdrEmptyKey, "ts_delta_negative": st.tsNeg, "ts_delta_beyond_int32": st.tsOverInt32,
		"ts_delta_zero": st.tsZero, "ts_delta_beyond_5_byte_varint": st.tsOver5ByteVarint, "batches_first_delta_nonzero": st.delta0NonZero, "batches_100plus_records": st.bigBatch,
		"batches_1_record": st.oneRecordBatch, "values_over_1500_bytes": st.bigVal} {
		r.Count(k, int64(v))
	}
	r.Note("max_headers_in_a_record", st.maxHdrs)
	for _, f := range []string{"segments_with_2plus_batches", "indexes_with_2plus_entries", "null_keys", "empty_keys", "null_values", "empty_values", "header_null_value", "header_empty_key", "ts_delta_negative", "ts_delta_beyond_int32", "batches_100plus_records"} {
		r.Floor(f, 5)
	}
}
