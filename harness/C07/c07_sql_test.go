//go:build verif

package decoder

import (
	"context"
	"fmt"
	"os"
	"strings"
	"sync"
	"testing"
	"time"

	"github.com/kafscale/platform/addons/processors/sql-processor/internal/config"
	"github.com/kafscale/platform/addons/processors/sql-processor/internal/verifc07"
	"github.com/kafscale/platform/addons/processors/sql-processor/internal/verifkit"
)

// c07SegRef is one broker-written segment of the corpus with the records the producers sent into it.
type c07SegRef struct {
	c    *verifc07.Case
	si   int
	s    verifc07.Seg
	want []verifc07.Rec
	seg  []byte
}

func (x *c07SegRef) id() string { return fmt.Sprintf("%d/%d", x.c.ID, x.si) }

// c07Finding is one deviation found by c07Judge; key identifies it inside its segment
// (class + record index) so that a later stage does not report the same deviation again.
type c07Finding struct {
	class, summary, key string
	replay              map[string]any
}

// c07Held is what a consumer such as the SQL server's JOIN path keeps: the slice Decode returned.
type c07Held struct {
	sr    *c07SegRef
	got   []Record
	err   error
	callN int // number of the Decode call that returned it (per stage)
}

func c07Replay(sr *c07SegRef, seed int64, tier, via string) map[string]any {
	rp := map[string]any{"case": sr.c.ID, "segment_key": sr.s.Key, "segment_file": sr.s.File, "records_sent": len(sr.want), "seed": seed, "tier": tier, "via": via}
	if len(sr.seg) <= 2048 {
		rp["segment_bytes"] = sr.seg // base64 in the witness: self-contained for small segments
	}
	return rp
}

func c07With(base map[string]any, kv ...any) map[string]any {
	rp := map[string]any{}
	for k, v := range base {
		rp[k] = v
	}
	for i := 0; i+1 < len(kv); i += 2 {
		rp[kv[i].(string)] = kv[i+1]
	}
	return rp
}

// c07Judge compares what a decode entry point returned for one segment with what the
// producers sent: the oracle of the statement ("recover exactly the records the producers
// sent: offsets, timestamps, keys, values and headers"). It only reads got.
func c07Judge(sr *c07SegRef, got []Record, derr error, replay map[string]any) (fs []c07Finding, compared int) {
	want := sr.want
	key := sr.s.Key
	if derr != nil {
		// narrow class for the defect DESIGN.md predicts (timestamp delta read as a 5-byte int32 varint): the segment holds a
		// delta whose zig-zag varint needs more than 5 bytes AND the decoder says so; anything else is a different class
		var over *verifc07.Rec
		for i := range want {
			if d := want[i].TsDelta; d >= 1<<34 || d < -(1<<34) {
				over = &want[i]
				break
			}
		}
		if over != nil && strings.Contains(derr.Error(), "varint too long") {
			fs = append(fs, c07Finding{"sql_ts_delta_over_5_byte_varint_segment_rejected", fmt.Sprintf("%s: decodeSegment rejects the whole segment (%d records): %v; record at offset %d has timestamp delta %d", key, len(want), derr, over.Offset, over.TsDelta),
				"rejected", c07With(replay, "sent", verifc07.Brief(*over), "error", derr.Error())})
		} else {
			fs = append(fs, c07Finding{"sql_decode_error_on_valid_segment", fmt.Sprintf("%s: decoding failed on a broker-written segment of %d well-formed records: %v", key, len(want), derr), "error", c07With(replay, "error", derr.Error())})
		}
		return fs, 0
	}
	if len(got) != len(want) {
		return append(fs, c07Finding{"sql_record_count", fmt.Sprintf("%s: decoded %d records, producers sent %d", key, len(got), len(want)), "count", replay}), 0
	}
	for i, w := range want {
		g := verifc07.Got{Offset: got[i].Offset, Timestamp: got[i].Timestamp, Key: got[i].Key, Value: got[i].Value}
		for _, h := range got[i].Headers {
			g.Headers = append(g.Headers, verifc07.GotHdr{Key: h.Key, Value: h.Value})
		}
		f, d := verifc07.Compare(w, g)
		if f == "timestamp" && (w.TsDelta >= 1<<30 || w.TsDelta < -(1<<30)) {
			// predicted defect, narrow class: only the timestamp is wrong and the delta does not fit a zig-zag int32
			fs = append(fs, c07Finding{"sql_ts_delta_beyond_int32_varint_garbled", key + ": " + d, fmt.Sprintf("ts/%d", i), c07With(replay, "sent", verifc07.Brief(w), "record_index", i, "decoded_timestamp", g.Timestamp)})
			g.Timestamp = w.Timestamp // keep judging the other fields of this and the following records
			f, d = verifc07.Compare(w, g)
		}
		if f != "" {
			return append(fs, c07Finding{"sql_" + f, key + ": " + d, fmt.Sprintf("%s/%d", f, i), c07With(replay, "sent", verifc07.Brief(w), "record_index", i)}), compared
		}
		if got[i].Topic != sr.c.Topic || got[i].Partition != sr.c.Partition {
			return append(fs, c07Finding{"sql_topic_partition", fmt.Sprintf("%s: record labelled %s/%d", key, got[i].Topic, got[i].Partition), fmt.Sprintf("label/%d", i), replay}), compared
		}
		compared++
	}
	return fs, compared
}

// TestVerifC07SQL is stage 2 for the SQL processor: the real decoder over every
// broker-written segment of the corpus, compared record by record and field by field
// with what the producers sent - right after decoding, and again after the decoder
// has been used for every later segment (sequentially and from several goroutines),
// because consumers (the SQL server's JOIN path) keep the returned records.
func TestVerifC07SQL(t *testing.T) {
	r := verifkit.Start(t, "C07", "sql")
	defer r.Finish("stage 2 (SQL): (A) decodeSegment(segment bytes written by the real broker in stage 1) must return exactly the sent records of that segment, in order: count, offset, timestamp (= batch first timestamp + delta), key, value (null distinct from empty: the decoder's []byte fields can express it), headers (key, value, order); topic/partition echo the arguments; the two predicted timestamp-delta classes are computed from the witness (delta outside zig-zag int32 / needing a >5-byte varint) and every other field keeps being compared; (B) the same segments are served by a loopback S3 and decoded through the public entry point (decoder.New(config) -> Decode with its real download path, one decoder for the whole corpus, partition history after partition history); the returned slices are HELD, as a consumer that accumulates records across segments does, and judged with the same oracle three times: when Decode returns, when the partition's last segment has been decoded, and after every segment of every later partition has been decoded; (C) four goroutines share one decoder and decode a PRNG shuffle of all segments concurrently, each re-judging the records it got two calls earlier while the others decode, and everything held is judged again after all goroutines are done; a deviation that only shows in a later judgement is reported as sql_held_<field>; non-trivial = segment holds nulls/empties, headers and a timestamp delta outside int32 (A), partition history of >=2 segments held across >=1 later Decode (B/C)",
		"corpus comes from the gen leg of the same run ($VERIF_SCRATCH/c07corpus)",
		"records returned by Decode belong to the caller: nothing the decoder does later may change them (the statement's 'recover exactly the records the producers sent' has no expiry; the SQL server's loadRecords and the sinks keep them across Decode calls)",
		"a Decode error is only blamed on the decoder when the loopback S3 wrote the object out completely and the context did not expire; otherwise the run is inconclusive")
	dir := verifc07.CorpusDir()
	cases, err := verifc07.ReadCorpus(dir)
	if err != nil {
		t.Fatalf("harness: %v", err)
	}
	var all []*c07SegRef
	byCase := map[int][]*c07SegRef{}
	for _, c := range cases {
		for si, s := range c.Segs {
			seg, err := verifc07.Load(dir, s.File)
			if err != nil {
				t.Fatalf("harness: %v", err)
			}
			sr := &c07SegRef{c: c, si: si, s: s, want: c.SegRecs(si), seg: seg}
			all = append(all, sr)
			byCase[c.ID] = append(byCase[c.ID], sr)
		}
	}
	var mu sync.Mutex
	seen := map[string]bool{} // segment id | finding key, reported at an earlier judgement
	// emit reports the findings of one judgement; held = a judgement after later Decode calls
	emit := func(sr *c07SegRef, fs []c07Finding, held bool, later int) {
		mu.Lock()
		defer mu.Unlock()
		for _, f := range fs {
			k := sr.id() + "|" + f.key
			if seen[k] {
				continue
			}
			seen[k] = true
			cls, sum, rp := f.class, f.summary, f.replay
			if held {
				cls = "sql_held_" + strings.TrimPrefix(cls, "sql_")
				sum = fmt.Sprintf("records returned by Decode no longer equal the sent records after %d later Decode call(s) on the same decoder (this deviation was absent when Decode returned): %s", later, sum)
				rp = c07With(rp, "later_decode_calls", later)
				r.Count("held_records_found_changed", 1)
			}
			r.Violation(cls, sum, rp)
			switch f.class {
			case "sql_ts_delta_over_5_byte_varint_segment_rejected":
				r.Count("segments_rejected_for_ts_delta", 1)
			case "sql_ts_delta_beyond_int32_varint_garbled":
				r.Count("records_ts_garbled", 1)
			}
		}
	}

	// ---- stage A: decodeSegment on the bytes, judged at once
	for _, sr := range all {
		replay := c07Replay(sr, r.Seed, r.Tier, "decodeSegment")
		var got []Record
		var derr error
		panicked := false
		func() {
			defer func() {
				if p := recover(); p != nil {
					panicked = true
					r.Violation("sql_decoder_panics_on_valid_segment", fmt.Sprintf("%s: decodeSegment panicked: %v", sr.s.Key, p), replay)
				}
			}()
			got, derr = decodeSegment(sr.seg, sr.c.Topic, sr.c.Partition)
		}()
		r.Count("segments_decoded", 1)
		nulls, hdrs, bigTS := false, false, false
		for _, w := range sr.want {
			nulls = nulls || w.KeyNull || w.ValueNull || len(w.Key) == 0 || len(w.Value) == 0
			hdrs = hdrs || len(w.Headers) > 0
			bigTS = bigTS || w.TsDelta >= 1<<31 || w.TsDelta < -(1<<31)
		}
		r.Case(fmt.Sprintf("%d/%d/%d", sr.c.ID, sr.si, len(sr.want)), nulls && hdrs && bigTS)
		if panicked {
			continue
		}
		fs, n := c07Judge(sr, got, derr, replay)
		emit(sr, fs, false, 0)
		r.Count("records_compared", int64(n))
		if sr.c.ID < 1 && sr.si == 0 && derr == nil && len(got) > 0 {
			r.Sample(map[string]any{"segment": sr.s.Key, "records": len(sr.want), "first_sent": verifc07.Brief(sr.want[0]), "first_decoded_offset": got[0].Offset, "first_decoded_timestamp": got[0].Timestamp})
		}
	}
	r.Floor("records_compared", 500)

	// ---- stages B and C: the public entry point with its real download path, results held
	for k, v := range verifc07.AWSEnv() {
		t.Setenv(k, v)
	}
	t.Setenv("AWS_CA_BUNDLE", "")
	os.Unsetenv("AWS_CA_BUNDLE")
	s3, err := verifc07.StartS3()
	if err != nil {
		t.Fatalf("harness: start loopback s3: %v", err)
	}
	defer s3.Close()
	const bucket = "c07"
	for _, sr := range all {
		s3.Put(bucket, sr.s.Key, sr.seg)
	}
	dec, err := New(config.Config{S3: config.S3Config{Bucket: bucket, Endpoint: s3.Endpoint(), Region: "us-east-1", PathStyle: true}})
	if err != nil {
		t.Fatalf("harness: decoder.New: %v", err)
	}
	inconclusive := false
	// decode runs one Decode; ok=false means the call decided nothing (harness/S3/timeout trouble)
	decode := func(sr *c07SegRef, pass int) (got []Record, derr error, ok bool) {
		ctx, cancel := context.WithTimeout(context.Background(), 5*time.Minute) // watchdog only
		defer cancel()
		func() {
			defer func() {
				if p := recover(); p != nil {
					derr = fmt.Errorf("panic: %v", p)
					r.Violation("sql_decoder_panics_on_valid_segment", fmt.Sprintf("%s: Decode panicked: %v", sr.s.Key, p), c07Replay(sr, r.Seed, r.Tier, "Decode"))
					ok = false
				}
			}()
			got, derr = dec.Decode(ctx, sr.s.Key, sr.s.IndexKey, sr.c.Topic, sr.c.Partition)
			ok = true
		}()
		r.Count("decode_calls_through_s3", 1)
		if ok && derr != nil && (ctx.Err() != nil || s3.Served(bucket, sr.s.Key) < pass) {
			mu.Lock()
			inconclusive = true
			mu.Unlock()
			r.Inconclusive(fmt.Sprintf("Decode(%s) failed without the loopback S3 having served the object completely (ctx err %v): %v", sr.s.Key, ctx.Err(), derr))
			return nil, derr, false
		}
		return got, derr, ok
	}
	rejudge := func(h *c07Held, now int, via string) {
		if h.err != nil {
			return
		}
		fs, n := c07Judge(h.sr, h.got, nil, c07Replay(h.sr, r.Seed, r.Tier, via))
		emit(h.sr, fs, true, now-h.callN)
		r.Count("held_records_compared_after_later_decodes", int64(n))
	}

	// B: sequential, partition history after partition history
	var heldB []*c07Held
	calls := 0
	for _, c := range cases {
		first := len(heldB)
		for _, sr := range byCase[c.ID] {
			got, derr, ok := decode(sr, 1)
			calls++
			if !ok {
				continue
			}
			fs, _ := c07Judge(sr, got, derr, c07Replay(sr, r.Seed, r.Tier, "Decode"))
			emit(sr, fs, false, 0)
			heldB = append(heldB, &c07Held{sr: sr, got: got, err: derr, callN: calls})
		}
		// the partition is complete (what a JOIN / full scan holds at this point)
		for _, h := range heldB[first:] {
			if calls > h.callN {
				rejudge(h, calls, "Decode, records held until the partition's last segment was decoded")
			}
		}
		r.Case(fmt.Sprintf("hold/%d/%d", c.ID, len(byCase[c.ID])), len(byCase[c.ID]) >= 2)
	}
	for _, h := range heldB {
		if calls > h.callN {
			rejudge(h, calls, "Decode, records held until every later partition was decoded")
			r.Count("segments_held_across_later_decodes", 1)
		}
	}

	// C: four goroutines share the decoder
	const workers = 4
	order := r.Rand(1 << 20).Perm(len(all))
	heldC := make([][]*c07Held, workers)
	var callsC int
	var wg sync.WaitGroup
	for w := 0; w < workers; w++ {
		wg.Add(1)
		go func(w int) {
			defer wg.Done()
			for j := w; j < len(order); j += workers {
				sr := all[order[j]]
				got, derr, ok := decode(sr, 2)
				mu.Lock()
				callsC++
				n := callsC
				mu.Unlock()
				if !ok {
					continue
				}
				fs, _ := c07Judge(sr, got, derr, c07Replay(sr, r.Seed, r.Tier, "Decode (4 goroutines on one decoder)"))
				emit(sr, fs, false, 0)
				heldC[w] = append(heldC[w], &c07Held{sr: sr, got: got, err: derr, callN: n})
				if k := len(heldC[w]); k >= 3 {
					rejudge(heldC[w][k-3], n, "Decode (4 goroutines on one decoder), records held while this and other goroutines kept decoding")
				}
			}
		}(w)
	}
	wg.Wait()
	for w := range heldC {
		for _, h := range heldC[w] {
			if callsC > h.callN {
				rejudge(h, callsC, "Decode (4 goroutines on one decoder), records held until all goroutines were done")
				r.Count("segments_held_across_concurrent_decodes", 1)
			}
		}
	}
	r.Case(fmt.Sprintf("hold-concurrent/%d", len(all)), len(all) >= 2*workers)
	if bad := s3.Bad(); len(bad) > 0 {
		r.Inconclusive("loopback S3 received requests it does not implement: " + strings.Join(bad, "; "))
	}
	if !inconclusive {
		r.Floor("held_records_compared_after_later_decodes", 1000)
		r.Floor("segments_held_across_later_decodes", 20)
		r.Floor("segments_held_across_concurrent_decodes", 20)
	}
}
