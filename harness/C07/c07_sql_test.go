//go:build verif

package decoder

import (
	"fmt"
	"strings"
	"testing"

	"github.com/kafscale/platform/addons/processors/sql-processor/internal/verifc07"
	"github.com/kafscale/platform/addons/processors/sql-processor/internal/verifkit"
)

// TestVerifC07SQL is stage 2 for the SQL processor: the real decodeSegment
// over every broker-written segment of the corpus, compared record by record and
// field by field with what the producers sent.
func TestVerifC07SQL(t *testing.T) {
	r := verifkit.Start(t, "C07", "sql")
	defer r.Finish("stage 2 (SQL): decodeSegment(segment bytes written by the real broker in stage 1) must return exactly the sent records of that segment, in order: count, offset, timestamp (= batch first timestamp + delta), key, value (null distinct from empty: the decoder's []byte fields can express it), headers (key, value, order); topic/partition echo the arguments; the two predicted timestamp-delta classes are computed from the witness (delta outside zig-zag int32 / needing a >5-byte varint) and every other field keeps being compared; non-trivial = segment holds nulls/empties, headers and a timestamp delta outside int32",
		"corpus comes from the gen leg of the same run ($VERIF_SCRATCH/c07corpus)")
	dir := verifc07.CorpusDir()
	cases, err := verifc07.ReadCorpus(dir)
	if err != nil {
		t.Fatalf("harness: %v", err)
	}
	for _, c := range cases {
		for si, s := range c.Segs {
			seg, err := verifc07.Load(dir, s.File)
			if err != nil {
				t.Fatalf("harness: %v", err)
			}
			want := c.SegRecs(si)
			replay := map[string]any{"case": c.ID, "segment_key": s.Key, "segment_file": s.File, "records_sent": len(want), "seed": r.Seed, "tier": r.Tier}
			if len(seg) <= 2048 {
				replay["segment_bytes"] = seg // base64 in the witness: self-contained for small segments
			}
			var got []Record
			var derr error
			panicked := false
			func() {
				defer func() {
					if p := recover(); p != nil {
						panicked = true
						r.Violation("sql_decoder_panics_on_valid_segment", fmt.Sprintf("%s: decodeSegment panicked: %v", s.Key, p), replay)
					}
				}()
				got, derr = decodeSegment(seg, c.Topic, c.Partition)
			}()
			r.Count("segments_decoded", 1)
			nulls, hdrs, bigTS := false, false, false
			for _, w := range want {
				nulls = nulls || w.KeyNull || w.ValueNull || len(w.Key) == 0 || len(w.Value) == 0
				hdrs = hdrs || len(w.Headers) > 0
				bigTS = bigTS || w.TsDelta >= 1<<31 || w.TsDelta < -(1<<31)
			}
			r.Case(fmt.Sprintf("%d/%d/%d", c.ID, si, len(want)), nulls && hdrs && bigTS)
			if panicked {
				continue
			}
			if derr != nil {
				// narrow class for the defect DESIGN.md predicts (timestamp delta read as a 5-byte int32 varint): the segment holds a
				// delta whose zig-zag varint needs more than 5 bytes AND the decoder says so; anything else is a different class
				var over *verifc07.Rec
				for i := range want {
					if d := want[i].TsDelta; d >= 1<<34 || d < -(1<<34) {
						over = &want[i]
						break
					}
				}
				if over != nil && strings.Contains(derr.Error(), "varint too long") {
					rp := map[string]any{"sent": verifc07.Brief(*over), "error": derr.Error()}
					for k, v := range replay {
						rp[k] = v
					}
					r.Violation("sql_ts_delta_over_5_byte_varint_segment_rejected", fmt.Sprintf("%s: decodeSegment rejects the whole segment (%d records): %v; record at offset %d has timestamp delta %d", s.Key, len(want), derr, over.Offset, over.TsDelta), rp)
					r.Count("segments_rejected_for_ts_delta", 1)
				} else {
					r.Violation("sql_decode_error_on_valid_segment", fmt.Sprintf("%s: decodeSegment failed on a broker-written segment of %d well-formed records: %v", s.Key, len(want), derr), replay)
				}
				continue
			}
			if len(got) != len(want) {
				r.Violation("sql_record_count", fmt.Sprintf("%s: decoded %d records, producers sent %d", s.Key, len(got), len(want)), replay)
				continue
			}
			for i, w := range want {
				g := verifc07.Got{Offset: got[i].Offset, Timestamp: got[i].Timestamp, Key: got[i].Key, Value: got[i].Value}
				for _, h := range got[i].Headers {
					g.Headers = append(g.Headers, verifc07.GotHdr{Key: h.Key, Value: h.Value})
				}
				f, d := verifc07.Compare(w, g)
				if f == "timestamp" && (w.TsDelta >= 1<<30 || w.TsDelta < -(1<<30)) {
					// predicted defect, narrow class: only the timestamp is wrong and the delta does not fit a zig-zag int32
					rp := map[string]any{"sent": verifc07.Brief(w), "record_index": i, "decoded_timestamp": g.Timestamp}
					for k, v := range replay {
						rp[k] = v
					}
					r.Violation("sql_ts_delta_beyond_int32_varint_garbled", s.Key+": "+d, rp)
					r.Count("records_ts_garbled", 1)
					g.Timestamp = w.Timestamp // keep judging the other fields of this and the following records
					f, d = verifc07.Compare(w, g)
				}
				if f != "" {
					rp := map[string]any{"sent": verifc07.Brief(w), "record_index": i}
					for k, v := range replay {
						rp[k] = v
					}
					r.Violation("sql_"+f, s.Key+": "+d, rp)
					break
				}
				if got[i].Topic != c.Topic || got[i].Partition != c.Partition {
					r.Violation("sql_topic_partition", fmt.Sprintf("%s: record labelled %s/%d", s.Key, got[i].Topic, got[i].Partition), replay)
					break
				}
				r.Count("records_compared", 1)
			}
			if c.ID < 1 && si == 0 {
				r.Sample(map[string]any{"segment": s.Key, "records": len(want), "first_sent": verifc07.Brief(want[0]), "first_decoded_offset": got[0].Offset, "first_decoded_timestamp": got[0].Timestamp})
			}
		}
	}
	r.Floor("records_compared", 500)
}
