//go:build verif

package storage

import (
	"bytes"
	"context"
	"fmt"
	"sort"
	"strings"
	"testing"
	"time"

	"github.com/KafScale/platform/internal/verifc07"
	"github.com/KafScale/platform/internal/verifkit"
	"github.com/KafScale/platform/internal/verifkit/kbatch"
)

func c07FromKbatch(b kbatch.Batch) []verifc07.Got {
	var out []verifc07.Got
	for _, r := range b.Records {
		g := verifc07.Got{Offset: b.BaseOffset + int64(r.OffsetDelta), Timestamp: b.FirstTimestamp + r.TimestampDelta, Key: r.Key, Value: r.Value}
		for _, h := range r.Headers {
			g.Headers = append(g.Headers, verifc07.GotHdr{Key: h.Key, Value: h.Value})
		}
		out = append(out, g)
	}
	return out
}

// TestVerifC07PITR is stage 2 for the point-in-time restore scanner.
func TestVerifC07PITR(t *testing.T) {
	r := verifkit.Start(t, "C07", "pitr")
	defer r.Finish("stage 2 (restore scanner) over the broker-written corpus of stage 1: (1) scanRecord on every sent record's bytes must return that record's timestamp delta and offset delta and consume exactly the record; (2) RecoverTopicToTimestamp with T = +inf into a fresh topic must succeed and the restored partition, decoded with the harness reference codec, must hold exactly the sent records (offset, timestamp, key, value, headers) and its batch bytes must equal the stored source batch bytes; (3) collectRecoverableBatches(segment, T) for T taken at / just below sent record timestamps must keep exactly the records before the first record later than T (judged only for segments whose batches all start with delta 0, where batch header first/max timestamps and record timestamps agree by construction), each kept record byte-identical and every returned batch valid (length, count, CRC) for the reference codec; non-trivial = case with timestamp deltas beyond int32 or negative",
		"T=+inf is time.UnixMilli(1<<62)", "cut rule taken from RecoverTopicToTimestamp's doc comment and the C08 statement: the first record whose timestamp exceeds T ends the restore")
	dir := verifc07.CorpusDir()
	cases, err := verifc07.ReadCorpus(dir)
	if err != nil {
		t.Fatalf("harness: %v", err)
	}
	ctx := context.Background()
	for _, c := range cases {
		rng := r.Rand(c.ID)
		replay := map[string]any{"case": c.ID, "topic": c.Topic, "partition": c.Partition, "seed": r.Seed, "tier": r.Tier, "corpus_case_file": fmt.Sprintf("case-%05d.json", c.ID)}
		with := func(kv ...any) map[string]any {
			m := map[string]any{}
			for k, v := range replay {
				m[k] = v
			}
			for i := 0; i+1 < len(kv); i += 2 {
				m[kv[i].(string)] = kv[i+1]
			}
			return m
		}
		// (1) scanRecord
		for _, w := range c.Recs {
			rd := bytes.NewReader(w.Raw)
			var td int64
			var od int32
			var serr error
			func() {
				defer func() {
					if p := recover(); p != nil {
						serr = fmt.Errorf("panic: %v", p)
					}
				}()
				td, od, serr = scanRecord(rd)
			}()
			r.Count("scan_record_calls", 1)
			if serr != nil {
				r.Violation("pitr_scan_record_error_on_valid_record", fmt.Sprintf("scanRecord fails on a well-formed record (delta %d): %v", w.TsDelta, serr), with("sent", verifc07.Brief(w), "record_bytes", w.Raw))
				break
			}
			if td != w.TsDelta || od != w.OffDelta || rd.Len() != 0 {
				r.Violation("pitr_scan_record_delta", fmt.Sprintf("scanRecord = (timestamp delta %d, offset delta %d, %d bytes left), record was sent with (%d, %d)", td, od, rd.Len(), w.TsDelta, w.OffDelta), with("sent", verifc07.Brief(w), "record_bytes", w.Raw))
				break
			}
		}
		// (2) full restore, T = +inf
		s3 := NewMemoryS3Client()
		segBytes := make([][]byte, len(c.Segs))
		for si, s := range c.Segs {
			seg, err := verifc07.Load(dir, s.File)
			if err != nil {
				t.Fatalf("harness: %v", err)
			}
			idx, err := verifc07.Load(dir, s.IdxFile)
			if err != nil {
				t.Fatalf("harness: %v", err)
			}
			segBytes[si] = seg
			_ = s3.UploadSegment(ctx, s.Key, seg)
			_ = s3.UploadIndex(ctx, s.IndexKey, idx)
		}
		target := c.Topic + "-restored"
		res, rerr := RecoverTopicToTimestamp(ctx, s3, TopicRecoveryConfig{SourceNamespace: c.Namespace, SourceTopic: c.Topic, TargetTopic: target, RestoreTo: time.UnixMilli(1 << 62)})
		r.Count("restores", 1)
		hostile := false
		for _, w := range c.Recs {
			hostile = hostile || w.TsDelta < 0 || w.TsDelta >= 1<<31
		}
		r.Case(fmt.Sprintf("%d/%d/%d", c.ID, len(c.Segs), len(c.Recs)), hostile)
		if rerr != nil {
			r.Violation("pitr_restore_fails_on_valid_source", fmt.Sprintf("RecoverTopicToTimestamp(T=+inf) of %s: %v", c.Topic, rerr), with())
		} else {
			objs, _ := s3.ListSegments(ctx, fmt.Sprintf("%s/%s/%d/", c.Namespace, target, c.Partition))
			sort.Slice(objs, func(i, j int) bool { return objs[i].Key < objs[j].Key })
			var got []verifc07.Got
			var gotBody, wantBody []byte
			bad := false
			for _, o := range objs {
				if !strings.HasSuffix(o.Key, ".kfs") {
					continue
				}
				seg, _ := s3.DownloadSegment(ctx, o.Key, nil)
				if len(seg) < 48 {
					r.Violation("pitr_restored_segment_too_short", fmt.Sprintf("%s has %d bytes", o.Key, len(seg)), with())
					bad = true
					break
				}
				body := seg[32 : len(seg)-16]
				gotBody = append(gotBody, body...)
				bs, derr := kbatch.DecodeAll(body)
				if derr != nil {
					r.Violation("pitr_restored_batch_invalid", fmt.Sprintf("%s: restored body is not a sequence of valid batches: %v", o.Key, derr), with())
					bad = true
					break
				}
				for _, b := range bs {
					got = append(got, c07FromKbatch(b)...)
				}
			}
			for _, sb := range segBytes {
				wantBody = append(wantBody, sb[32:len(sb)-16]...)
			}
			if !bad {
				if len(got) != len(c.Recs) {
					r.Violation("pitr_restore_record_count", fmt.Sprintf("restore of %s to T=+inf holds %d records, producers sent %d (result: %d segments copied)", c.Topic, len(got), len(c.Recs), res.SegmentsCopied), with())
				} else {
					ok := true
					for i, w := range c.Recs {
						if f, d := verifc07.Compare(w, got[i]); f != "" {
							r.Violation("pitr_restore_"+f, d, with("sent", verifc07.Brief(w)))
							ok = false
							break
						}
						r.Count("restored_records_compared", 1)
					}
					if ok && !bytes.Equal(gotBody, wantBody) {
						r.Violation("pitr_restore_not_byte_identical", fmt.Sprintf("restored batches of %s decode to the same records but differ from the source batch bytes", c.Topic), with())
					}
				}
			}
		}
		// (3) cut inside a segment
		for si := range c.Segs {
			want := c.SegRecs(si)
			consistent := true
			for _, bi := range c.SegBatches(si) {
				for _, w := range want {
					if w.Batch == bi && w.OffDelta == 0 && w.TsDelta != 0 {
						consistent = false
					}
				}
			}
			if !consistent || len(want) == 0 {
				r.Count("cut_segments_skipped_first_delta_nonzero", 1)
				continue
			}
			for k := 0; k < 3; k++ {
				pick := want[rng.Intn(len(want))]
				T := pick.Timestamp - int64(k%2)
				exp := 0
				for exp < len(want) && want[exp].Timestamp <= T {
					exp++
				}
				var kept []RecordBatch
				var cerr error
				func() {
					defer func() {
						if p := recover(); p != nil {
							cerr = fmt.Errorf("panic: %v", p)
						}
					}()
					kept, cerr = collectRecoverableBatches(segBytes[si], T)
				}()
				r.Count("cuts", 1)
				rp := with("segment_key", c.Segs[si].Key, "segment_file", c.Segs[si].File, "cutoff_ms", T, "expected_kept", exp, "segment_records", len(want))
				if cerr != nil {
					r.Violation("pitr_cut_fails_on_valid_segment", fmt.Sprintf("collectRecoverableBatches(%s, T=%d): %v", c.Segs[si].Key, T, cerr), rp)
					continue
				}
				var got []verifc07.Got
				var raws [][]byte
				invalid := false
				for _, kb := range kept {
					b, n, derr := kbatch.Decode(kb.Bytes)
					if derr != nil || n != len(kb.Bytes) {
						r.Violation("pitr_cut_batch_invalid", fmt.Sprintf("collectRecoverableBatches(%s, T=%d) returned a batch the reference codec rejects: %v (frame %d of %d bytes)", c.Segs[si].Key, T, derr, n, len(kb.Bytes)), rp)
						invalid = true
						break
					}
					if kb.BaseOffset != b.BaseOffset || kb.MessageCount != b.NumRecords || kb.LastOffsetDelta != b.LastOffsetDelta || int(b.NumRecords) != len(b.Records) {
						r.Violation("pitr_cut_batch_metadata", fmt.Sprintf("returned RecordBatch metadata (base %d, count %d, lastDelta %d) disagrees with its bytes (base %d, count %d, lastDelta %d)", kb.BaseOffset, kb.MessageCount, kb.LastOffsetDelta, b.BaseOffset, b.NumRecords, b.LastOffsetDelta), rp)
					}
					got = append(got, c07FromKbatch(b)...)
					for _, rec := range b.Records {
						raws = append(raws, kbatch.EncodeRecord(rec))
					}
				}
				if invalid {
					continue
				}
				if len(got) != exp {
					r.Violation("pitr_cut_wrong_prefix", fmt.Sprintf("collectRecoverableBatches(%s, T=%d) kept %d records; records before the first one later than T: %d of %d", c.Segs[si].Key, T, len(got), exp, len(want)), rp)
					continue
				}
				for i := 0; i < exp; i++ {
					if f, d := verifc07.Compare(want[i], got[i]); f != "" {
						r.Violation("pitr_cut_"+f, d, rp)
						break
					}
					if !bytes.Equal(raws[i], want[i].Raw) {
						r.Violation("pitr_cut_record_bytes", fmt.Sprintf("kept record at offset %d is not byte-identical to the sent record", want[i].Offset), rp)
						break
					}
				}
				if exp > 0 && exp < len(want) {
					r.Count("cuts_inside_segment", 1)
				}
			}
		}
		if c.ID == 0 {
			r.Sample(map[string]any{"case": c.ID, "topic": c.Topic, "records": len(c.Recs), "segments": len(c.Segs), "restore_error": fmt.Sprint(rerr)})
		}
	}
	r.Floor("restored_records_compared", 500)
	r.Floor("cuts_inside_segment", 10)
	r.Floor("scan_record_calls", 500)
}
