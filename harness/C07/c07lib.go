//go:build verif

// Package verifc07 is the module-independent part of the C07 harness: the
// on-disk corpus written by stage 1 (real broker) and read by the decoder legs
// of every module, the structural oracle for segment/index files (written from
// kafscale-spec.md "Segment File Format"/"Index File Format" and the property
// statement), and the field-by-field record comparison. Stdlib only so that it
// compiles inside all four modules (it is overlaid at <module>/internal/verifc07).
package verifc07

import (
	"bytes"
	"encoding/binary"
	"encoding/json"
	"fmt"
	"hash/crc32"
	"net"
	"net/http"
	"os"
	"path/filepath"
	"sort"
	"strconv"
	"strings"
	"sync"
)

// Hdr is one record header as sent by the producer.
type Hdr struct {
	Key       string `json:"k"`
	Value     []byte `json:"v,omitempty"`
	ValueNull bool   `json:"vn,omitempty"`
}

// Rec is one record as the producer sent it, plus the offset the broker assigned.
type Rec struct {
	Offset    int64  `json:"o"`
	Timestamp int64  `json:"ts"` // batch FirstTimestamp + TsDelta
	FirstTS   int64  `json:"fts"`
	TsDelta   int64  `json:"td"`
	OffDelta  int32  `json:"od"`
	Batch     int    `json:"b"` // index of the produce batch inside the case
	Key       []byte `json:"k,omitempty"`
	KeyNull   bool   `json:"kn,omitempty"`
	Value     []byte `json:"v,omitempty"`
	ValueNull bool   `json:"vn,omitempty"`
	Headers   []Hdr  `json:"h,omitempty"`
	Raw       []byte `json:"raw"` // the record's bytes inside the batch (length varint included)
}

// Seg is one segment/index pair found in the store after the case ran.
type Seg struct {
	Key      string `json:"key"`
	IndexKey string `json:"index_key"`
	File     string `json:"file"`
	IdxFile  string `json:"idx_file"`
	Base     int64  `json:"base"` // from the object key
}

// Case is one partition history.
type Case struct {
	ID        int    `json:"id"`
	Namespace string `json:"ns"`
	Topic     string `json:"topic"`
	Partition int32  `json:"partition"`
	HostileTS bool   `json:"hostile_ts"`
	Delta0    bool   `json:"delta0_nonzero"` // some batch has a first record whose timestamp delta is not 0
	Segs      []Seg  `json:"segs"`
	Recs      []Rec  `json:"recs"`
	// BatchBytes[i] is batch i exactly as the producer sent it (base offset field = 0).
	BatchBytes [][]byte `json:"batch_bytes"`
	BatchBase  []int64  `json:"batch_base"` // offset assigned to the first record of batch i
}

// CorpusDir is where stage 1 leaves the corpus for the later legs of the same run.
func CorpusDir() string {
	s := os.Getenv("VERIF_SCRATCH")
	if s == "" {
		s = os.TempDir()
	}
	return filepath.Join(s, "c07corpus")
}

// WriteCase stores the case JSON; segment files are written by the caller through PutObject.
func WriteCase(dir string, c *Case) error {
	if err := os.MkdirAll(dir, 0o755); err != nil {
		return err
	}
	b, err := json.Marshal(c)
	if err != nil {
		return err
	}
	return os.WriteFile(filepath.Join(dir, fmt.Sprintf("case-%05d.json", c.ID)), b, 0o644)
}

// PutObject writes object bytes under dir and returns the file name.
func PutObject(dir string, caseID int, name string, data []byte) (string, error) {
	if err := os.MkdirAll(dir, 0o755); err != nil {
		return "", err
	}
	f := fmt.Sprintf("obj-%05d-%s", caseID, name)
	return f, os.WriteFile(filepath.Join(dir, f), data, 0o644)
}

// ReadCorpus loads every case of the corpus in id order.
func ReadCorpus(dir string) ([]*Case, error) {
	names, err := filepath.Glob(filepath.Join(dir, "case-*.json"))
	if err != nil {
		return nil, err
	}
	sort.Strings(names)
	var out []*Case
	for _, n := range names {
		b, err := os.ReadFile(n)
		if err != nil {
			return nil, err
		}
		c := &Case{}
		if err := json.Unmarshal(b, c); err != nil {
			return nil, fmt.Errorf("%s: %w", n, err)
		}
		// JSON cannot keep nil vs empty for omitted byte slices: normalise from the flags
		for i := range c.Recs {
			r := &c.Recs[i]
			r.Key = norm(r.Key, r.KeyNull)
			r.Value = norm(r.Value, r.ValueNull)
			for j := range r.Headers {
				r.Headers[j].Value = norm(r.Headers[j].Value, r.Headers[j].ValueNull)
			}
		}
		out = append(out, c)
	}
	if len(out) == 0 {
		return nil, fmt.Errorf("no corpus under %s (stage 1 leg did not run?)", dir)
	}
	return out, nil
}

func norm(b []byte, null bool) []byte {
	if null {
		return nil
	}
	if b == nil {
		return []byte{}
	}
	return b
}

// Load reads an object file of the corpus.
func Load(dir, file string) ([]byte, error) { return os.ReadFile(filepath.Join(dir, file)) }

// SegRecs returns the records of the case that belong to segment i: those with
// offset in [Segs[i].Base, Segs[i+1].Base).
func (c *Case) SegRecs(i int) []Rec {
	lo := c.Segs[i].Base
	hi := int64(1<<63 - 1)
	if i+1 < len(c.Segs) {
		hi = c.Segs[i+1].Base
	}
	var out []Rec
	for _, r := range c.Recs {
		if r.Offset >= lo && r.Offset < hi {
			out = append(out, r)
		}
	}
	return out
}

// SegBatches returns the indices of the produce batches stored in segment i.
func (c *Case) SegBatches(i int) []int {
	lo := c.Segs[i].Base
	hi := int64(1<<63 - 1)
	if i+1 < len(c.Segs) {
		hi = c.Segs[i+1].Base
	}
	var out []int
	for b, base := range c.BatchBase {
		if base >= lo && base < hi {
			out = append(out, b)
		}
	}
	return out
}

// BaseFromKey parses ".../segment-<20 digits>.kfs|.index".
func BaseFromKey(key string) (int64, bool) {
	name := key[strings.LastIndex(key, "/")+1:]
	if !strings.HasPrefix(name, "segment-") {
		return 0, false
	}
	name = strings.TrimPrefix(name, "segment-")
	if i := strings.IndexByte(name, '.'); i >= 0 {
		name = name[:i]
	}
	v, err := strconv.ParseInt(name, 10, 64)
	return v, err == nil
}

// Problem is one way a file deviates from the format the statement demands.
type Problem struct {
	Class  string
	Detail string
}

var castagnoli = crc32.MakeTable(crc32.Castagnoli)

// CheckSegment is the structural oracle for one segment/index pair.
//
//	statement: "Every segment and index the broker writes has a valid header, an
//	end-offset footer and a CRC over the body. Its index entries point at batch
//	starts in increasing offset order."  Field layout: kafscale-spec.md.
//
// wantBatches are the producer's batches expected in this segment, in order, with
// the assigned base offsets (the body must be exactly their concatenation with only
// the 8-byte base offset field rewritten: "stores clients' record bytes unchanged").
func CheckSegment(seg, idx []byte, keyBase int64, wantBatches [][]byte, wantBase []int64, recs []Rec) []Problem {
	var ps []Problem
	add := func(c, f string, a ...any) { ps = append(ps, Problem{c, fmt.Sprintf(f, a...)}) }
	if len(seg) < 48 {
		add("segment_too_short", "segment has %d bytes < 32 header + 16 footer", len(seg))
		return ps
	}
	if string(seg[:4]) != "KAFS" {
		add("segment_header_magic", "header magic %q", seg[:4])
	}
	if v := binary.BigEndian.Uint16(seg[4:6]); v != 1 {
		add("segment_header_version", "header version %d, format version is 1", v)
	}
	hb := int64(binary.BigEndian.Uint64(seg[8:16]))
	if hb != keyBase {
		add("segment_header_base_offset", "header base offset %d != object key base %d", hb, keyBase)
	}
	if len(recs) > 0 && hb != recs[0].Offset {
		add("segment_header_base_offset", "header base offset %d != first record offset %d", hb, recs[0].Offset)
	}
	if mc := int32(binary.BigEndian.Uint32(seg[16:20])); int(mc) != len(recs) {
		add("segment_header_message_count", "header message count %d != %d records stored", mc, len(recs))
	}
	foot := seg[len(seg)-16:]
	if string(foot[12:]) != "END!" {
		add("segment_footer_magic", "footer magic %q", foot[12:])
	}
	if lo := int64(binary.BigEndian.Uint64(foot[4:12])); len(recs) > 0 && lo != recs[len(recs)-1].Offset {
		add("segment_footer_last_offset", "footer last offset %d != last record offset %d", lo, recs[len(recs)-1].Offset)
	}
	body := seg[32 : len(seg)-16]
	if crc := binary.BigEndian.Uint32(foot[0:4]); crc != crc32.Checksum(body, castagnoli) {
		add("segment_footer_crc", "footer CRC %08x != CRC32C(body) %08x", crc, crc32.Checksum(body, castagnoli))
	}
	// body == concatenation of the producer's batches, base offset patched
	starts := map[int][2]int64{} // file position -> first and last offset of the batch starting there
	p := 0
	bodyOK := true
	for i, wb := range wantBatches {
		if p+len(wb) > len(body) {
			add("segment_body_not_sent_bytes", "body ends inside batch %d of the segment (have %d bytes, need %d)", i, len(body), p+len(wb))
			bodyOK = false
			break
		}
		got := body[p : p+len(wb)]
		if b := int64(binary.BigEndian.Uint64(got[0:8])); b != wantBase[i] {
			add("segment_batch_base_offset", "batch %d stored with base offset %d, producer was assigned %d", i, b, wantBase[i])
		}
		if !bytes.Equal(got[8:], wb[8:]) {
			add("segment_body_not_sent_bytes", "batch %d of the segment differs from the bytes the producer sent (beyond the base offset field)", i)
			bodyOK = false
		}
		starts[32+p] = [2]int64{wantBase[i], wantBase[i] + int64(int32(binary.BigEndian.Uint32(wb[57:61]))) - 1}
		p += len(wb)
	}
	if bodyOK && p != len(body) {
		add("segment_body_not_sent_bytes", "%d extra body bytes after the last batch", len(body)-p)
	}
	// index
	if len(idx) < 16 {
		add("index_too_short", "index has %d bytes < 16 header", len(idx))
		return ps
	}
	if string(idx[:4]) != "IDX\x00" {
		add("index_header_magic", "index magic %q", idx[:4])
	}
	if v := binary.BigEndian.Uint16(idx[4:6]); v != 1 {
		add("index_header_version", "index version %d", v)
	}
	n := int(int32(binary.BigEndian.Uint32(idx[6:10])))
	if n < 0 || 16+12*n != len(idx) {
		add("index_entry_count", "index entry count %d does not match %d bytes of entries", n, len(idx)-16)
		return ps
	}
	var prevOff int64
	for i := 0; i < n; i++ {
		off := int64(binary.BigEndian.Uint64(idx[16+12*i:]))
		pos := int32(binary.BigEndian.Uint32(idx[16+12*i+8:]))
		if i > 0 && off <= prevOff {
			add("index_offsets_not_increasing", "entry %d offset %d after entry %d offset %d", i, off, i-1, prevOff)
		}
		if bodyOK {
			base, ok := starts[int(pos)]
			if !ok {
				add("index_position_not_batch_start", "entry %d position %d is not the first byte of a batch (batch starts: %v)", i, pos, keys(starts))
			} else if off < base[0] || off > base[1] {
				// weakest reading of "point at batch starts": the batch at that position holds the entry's offset
				add("index_offset_not_in_batch", "entry %d says offset %d at position %d, the batch there holds offsets %d..%d", i, off, pos, base[0], base[1])
			}
		}
		prevOff = off
	}
	return ps
}

func keys(m map[int][2]int64) []int {
	var k []int
	for p := range m {
		k = append(k, p)
	}
	sort.Ints(k)
	if len(k) > 12 {
		k = k[:12]
	}
	return k
}

// Got is a decoded record in module-neutral form.
type Got struct {
	Offset    int64
	Timestamp int64
	Key       []byte
	Value     []byte
	Headers   []GotHdr
}
type GotHdr struct {
	Key   string
	Value []byte
}

// Compare returns "" when got is exactly the record the producer sent, else the
// first differing field as (class suffix, detail).
func Compare(want Rec, got Got) (string, string) {
	if got.Offset != want.Offset {
		return "offset", fmt.Sprintf("offset %d, sent record has offset %d", got.Offset, want.Offset)
	}
	if got.Timestamp != want.Timestamp {
		return "timestamp", fmt.Sprintf("offset %d: timestamp %d, sent %d (first timestamp %d + delta %d)", want.Offset, got.Timestamp, want.Timestamp, want.FirstTS, want.TsDelta)
	}
	if f, d := cmpBytes("key", want.Key, got.Key); f != "" {
		return f, fmt.Sprintf("offset %d: %s", want.Offset, d)
	}
	if f, d := cmpBytes("value", want.Value, got.Value); f != "" {
		return f, fmt.Sprintf("offset %d: %s", want.Offset, d)
	}
	if len(got.Headers) != len(want.Headers) {
		return "header_count", fmt.Sprintf("offset %d: %d headers, sent %d", want.Offset, len(got.Headers), len(want.Headers))
	}
	for i, h := range want.Headers {
		if got.Headers[i].Key != h.Key {
			return "header_key", fmt.Sprintf("offset %d: header %d key %q, sent %q", want.Offset, i, got.Headers[i].Key, h.Key)
		}
		if f, d := cmpBytes("header_value", h.Value, got.Headers[i].Value); f != "" {
			return f, fmt.Sprintf("offset %d header %d: %s", want.Offset, i, d)
		}
	}
	return "", ""
}

func cmpBytes(name string, want, got []byte) (string, string) {
	if (want == nil) != (got == nil) {
		return name + "_null_vs_empty", fmt.Sprintf("%s null=%v, sent null=%v (len %d vs %d)", name, got == nil, want == nil, len(got), len(want))
	}
	if !bytes.Equal(want, got) {
		return name, fmt.Sprintf("%s %q, sent %q", name, trunc(got), trunc(want))
	}
	return "", ""
}

func trunc(b []byte) []byte {
	if len(b) > 48 {
		return b[:48]
	}
	return b
}

// Brief renders a record for witnesses.
func Brief(r Rec) map[string]any {
	return map[string]any{"offset": r.Offset, "first_timestamp": r.FirstTS, "timestamp_delta": r.TsDelta, "key_null": r.KeyNull, "key": string(trunc(r.Key)), "value_null": r.ValueNull, "value": string(trunc(r.Value)), "headers": len(r.Headers)}
}

// ---------------------------------------------------------------------------
// Loopback S3 (GetObject only, path style) so that the processors' real
// decoder.New / Decode run with their real download path on a concrete
// *s3.Client. Stdlib only. Every request is counted: the oracle may only blame
// the decoder for a failed Decode when the object was served completely.

type S3 struct {
	mu      sync.Mutex
	objects map[string][]byte // "bucket/key"
	served  map[string]int    // complete 200 responses per "bucket/key"
	bad     []string
	ln      net.Listener
	srv     *http.Server
}

// StartS3 starts the loopback server on 127.0.0.1.
func StartS3() (*S3, error) {
	ln, err := net.Listen("tcp", "127.0.0.1:0")
	if err != nil {
		return nil, err
	}
	s := &S3{objects: map[string][]byte{}, served: map[string]int{}, ln: ln}
	s.srv = &http.Server{Handler: s}
	go func() { _ = s.srv.Serve(ln) }()
	return s, nil
}

func (s *S3) Endpoint() string { return "http://" + s.ln.Addr().String() }
func (s *S3) Close()           { _ = s.srv.Close() }

// Put stores a private copy of data.
func (s *S3) Put(bucket, key string, data []byte) {
	s.mu.Lock()
	s.objects[bucket+"/"+key] = append([]byte(nil), data...)
	s.mu.Unlock()
}

// Served says how many times the object was written out completely with status 200.
func (s *S3) Served(bucket, key string) int {
	s.mu.Lock()
	defer s.mu.Unlock()
	return s.served[bucket+"/"+key]
}

// Bad lists requests the fake does not implement (a harness defect, never a violation).
func (s *S3) Bad() []string {
	s.mu.Lock()
	defer s.mu.Unlock()
	return append([]string(nil), s.bad...)
}

func (s *S3) ServeHTTP(w http.ResponseWriter, r *http.Request) {
	p := strings.TrimPrefix(r.URL.Path, "/")
	s.mu.Lock()
	data, ok := s.objects[p]
	s.mu.Unlock()
	if r.Method != http.MethodGet || r.Header.Get("Range") != "" || r.URL.RawQuery != "" && r.URL.RawQuery != "x-id=GetObject" {
		s.mu.Lock()
		if len(s.bad) < 20 {
			s.bad = append(s.bad, fmt.Sprintf("%s %s range=%q", r.Method, r.URL.String(), r.Header.Get("Range")))
		}
		s.mu.Unlock()
		w.Header().Set("Content-Type", "application/xml")
		w.WriteHeader(400)
		fmt.Fprint(w, `<?xml version="1.0" encoding="UTF-8"?><Error><Code>InvalidRequest</Code><Message>unsupported</Message><RequestId>c07</RequestId><HostId>c07</HostId></Error>`)
		return
	}
	if !ok {
		s.mu.Lock()
		if len(s.bad) < 20 {
			s.bad = append(s.bad, "GET of unknown object "+p)
		}
		s.mu.Unlock()
		w.Header().Set("Content-Type", "application/xml")
		w.WriteHeader(404)
		fmt.Fprint(w, `<?xml version="1.0" encoding="UTF-8"?><Error><Code>NoSuchKey</Code><Message>The specified key does not exist.</Message><RequestId>c07</RequestId><HostId>c07</HostId></Error>`)
		return
	}
	w.Header().Set("ETag", `"c07"`)
	w.Header().Set("Last-Modified", "Thu, 02 Jan 2020 03:04:05 GMT")
	w.Header().Set("Accept-Ranges", "bytes")
	w.Header().Set("Content-Type", "application/octet-stream")
	w.Header().Set("Content-Length", strconv.Itoa(len(data)))
	w.WriteHeader(200)
	n, err := w.Write(data)
	if err == nil && n == len(data) {
		s.mu.Lock()
		s.served[p]++
		s.mu.Unlock()
	}
}

// AWSEnv is the process environment under which the AWS SDK of the processors
// talks to the loopback S3 without looking for credentials/metadata elsewhere.
func AWSEnv() map[string]string {
	return map[string]string{"AWS_ACCESS_KEY_ID": "c07", "AWS_SECRET_ACCESS_KEY": "c07secret", "AWS_REGION": "us-east-1", "AWS_EC2_METADATA_DISABLED": "true",
		"AWS_CONFIG_FILE": "/nonexistent/c07", "AWS_SHARED_CREDENTIALS_FILE": "/nonexistent/c07", "AWS_REQUEST_CHECKSUM_CALCULATION": "when_required", "AWS_RESPONSE_CHECKSUM_VALIDATION": "when_required"}
}
