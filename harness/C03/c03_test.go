//go:build verif

package main

import (
	"testing"

	"github.com/KafScale/platform/internal/verifkit"
)

func TestVerifC03Fetch(t *testing.T) {
	r := verifkit.Start(t, "C03", "fetch")
	defer r.Finish("case = a log built through the real handler (3 partitions over 2 topics, 4-13 (buffered: up to 36) well-formed batches of 1-5 records with unique values; modes: flush-on-ack (one segment per produce, optional restart), buffered acks=1 with a flush threshold of 2-8 batches (multi-batch segments with several sparse-index entries + unflushed tail served from the write buffer), mid-flush (2-3 producers and a fetcher under the deterministic scheduler, reads while uploads are held, with acks waiting for the flush or - KAFSCALE_PRODUCE_SYNC_FLUSH=false - append-triggered flushes only; in 2/3 of these cases one segment/index upload may fail without effect while producers keep appending - the schedule prefers to fail a flush that an append overlapped -, the failed produce is answered with an error, the log requeues the drained batches and a later flush or a final forced flush stores them)) x index interval {1,3,100} x cache {off, 1MiB, 700B} x read-ahead {0,2}; every offset of every partition is then read with byte limits {1,60,61,62,100,150,400,5000,1MiB,0} through handler Fetch and PartitionLog.Read in ascending order, followed by 120 reads at PRNG-chosen (partition, offset, limit) in no particular order (consumers at different positions taking turns, seeks back and forth), all judged against the reference log (exact bytes oracle); distinct = configuration signature x case; non-trivial = case judged > 20 reads",
		"reference log = acknowledged batches in offset order with the acknowledged base patched in; in mid-flush cases with an upload fault it is completed from the final stored log: every batch a producer sent that is found stored (frames matched ignoring the 8-byte base offset) belongs to it at its stored offset, also when its produce was answered with an error",
		"C03 only: in those cases a stored frame that matches no sent batch, a sent batch stored twice, or an acknowledged batch that is missing from the log or stored at another offset than acknowledged is reported as a violation (bytes that no producer appended / not the acknowledged bytes in order)",
		"reads are issued one at a time except in mid-flush mode and in the stress leg")
	n := r.N(260, 20000)
	for ci := 0; ci < n; ci++ {
		rng := r.Rand(ci)
		sig, nt := runFetchCase(t, r, "C03", rng, ci)
		r.Case(verifkit.Hash(ci, sig), nt)
		r.Seen("configs", sig)
		if ci < 2 {
			r.Sample(map[string]any{"case": ci, "config": sig})
		}
	}
	r.Floor("reads_handler_fetch", 2000)
	r.Floor("reads_handler_fetch_random_order", 2000)
	r.Floor("reads_partitionlog_read_random_order", 2000)
	r.Floor("reads_partitionlog_read", 2000)
	r.Floor("cases_sparse_index", 20)
	r.Floor("reads_partitionlog_read_in_gap", 50)
	r.Floor("nonempty_fetch_replies_while_upload_pending", 20)
	r.Floor("midflush_failed_uploads_of_a_flush_overlapped_by_an_append", 8)
	r.Floor("midflush_unacknowledged_batches_found_stored", 8)
}

func TestVerifC03Stress(t *testing.T) {
	r := verifkit.Start(t, "C03", "stress")
	defer r.Finish("real goroutines, no scheduler: 8 producers x 5 batches append to ONE partition of a fresh handler at once (flush-on-ack with acks=-1, or KAFSCALE_PRODUCE_SYNC_FLUSH=false with acks=1 and a flush threshold of 2-4 batches) while two consumers follow the log from offset 0 with byte limits {1MiB,150,61,400}; then every offset is read with limits {61,150,1MiB}. All replies are judged against the reference built from all 40 acknowledgements (exact contiguous run starting at a batch boundary at or before the batch holding the offset; acknowledged offsets contiguous from 0); x cache off/on x index interval {1,3,100}. non-trivial = a consumer obtained records while the producers were running",
		"interleavings are whatever the Go scheduler produces on the machine's cores; a case in which some produce was not acknowledged has no complete reference and decides nothing")
	n := r.N(60, 6000)
	for ci := 0; ci < n; ci++ {
		sig, nt := runFetchStressCase(t, r, "C03", r.Rand(ci), ci)
		r.Case(verifkit.Hash(ci, sig), nt)
	}
	r.Floor("stress_cases_judged", 30)
	r.Floor("reads_stress_while_producing", 100)
}
